"""lxml tree / docx archive -> JSON for the Lean driver."""
import io, zipfile, binascii, hashlib
def token(raw: bytes) -> str:
    """stand-in for a binary payload: the model only has to hand it through unchanged"""
    return f"sha256:{hashlib.sha256(raw).hexdigest()}:{len(raw)}"
from lxml import etree

class NsTable:
    def __init__(self): self.tab=[]; self.idx={}
    def get(self, nsmap):
        key=tuple(sorted(((k or ''), (k is None), v) for k,v in nsmap.items()))
        if key not in self.idx:
            self.idx[key]=len(self.tab); self.tab.append([[k,v] for k,v in nsmap.items()])
        return self.idx[key]

def enc(e, ns, counter):
    if isinstance(e, etree._Comment): return {"c": e.text or "", "t": e.tail}
    if isinstance(e, etree._ProcessingInstruction): return {"pi":1, "t": e.tail}
    if not isinstance(e.tag, str): return {"pi":1, "t": e.tail}   # entity etc.
    q=etree.QName(e.tag)
    i=counter[0]; counter[0]+=1
    attrs=[]
    for k,v in e.attrib.items():
        qa=etree.QName(k); attrs.append([qa.namespace, qa.localname, v])
    d={"i":i,"p":e.prefix,"u":q.namespace,"l":q.localname,"m":ns.get(e.nsmap),"a":attrs,"x":e.text,"t":e.tail,"k":[enc(c,ns,counter) for c in e]}
    return d

def par_ordinals(root, base=0):
    """preorder id -> ordinal among w:p elements (document order); works on pre-merge trees"""
    out={}; cnt=[base]; k=[0]
    def rec(e):
        if isinstance(e.tag,str):
            i=cnt[0]; cnt[0]+=1
            if f"{e.prefix}:{etree.QName(e.tag).localname}"=="w:p": out[i]=k[0]; k[0]+=1
            for c in e: rec(c)
    rec(root); return out

def encode_archive(data: bytes):
    z=zipfile.ZipFile(io.BytesIO(data))
    ns=NsTable(); members=[]; ords={}
    for mi,info in enumerate(z.infolist()):
        name=info.filename; base=mi*1000000
        raw=z.read(name)   # NB: last member with that name
        try:
            if not name.endswith(('.xml', '.rels')): raise ValueError('binary member')     # e.g. an image whose bytes happen to be XML
            root=etree.fromstring(raw)
            members.append([name, {"xml": enc(root, ns, [base])}])
            for k_,v_ in par_ordinals(root, base).items(): ords[k_]=[name, v_]
        except Exception:
            members.append([name, {"hex": token(raw)}])
    return {"members":members, "nsmaps":ns.tab}, ords
