#!/usr/bin/env python
"""Entry point of every registered check.

  ./check Cnn [--tier quick|thorough] [--seed N] [--replay FILE]

exit 0: the property held on everything explored (KNOWN-FINDING lines are informational);
exit 1: a line `VIOLATION property=<id> replay=<path>` was printed;
exit 2: infrastructure problem, never a verdict.
"""
import argparse, importlib, json, os, sys, time, traceback, warnings

HERE = os.path.dirname(os.path.abspath(__file__))
sys.path.insert(0, HERE)
import common
from common import Ctx, Driver, build, finish


def main():
    ap = argparse.ArgumentParser()
    ap.add_argument('prop')
    ap.add_argument('--tier', default=os.environ.get('VERIF_TIER', 'quick'), choices=['quick', 'thorough'])
    ap.add_argument('--seed', type=int, default=int(os.environ.get('VERIF_SEED', '0') or 0))
    ap.add_argument('--replay')
    a = ap.parse_args()
    warnings.simplefilter('ignore')
    try:
        mod = importlib.import_module('props.' + a.prop.lower())
    except ImportError as e:
        print('no runner for', a.prop, e); return 2
    ctx = Ctx(a.prop, a.tier, a.seed)
    binfo = build(a.prop, thorough=(a.tier == 'thorough'))
    if not os.path.exists(common.DRIVER):
        print('model driver could not be built:', binfo['broken']); return 2
    ctx.drv = Driver()
    try:
        if a.replay:
            rep = json.load(open(a.replay))
            mod.replay(ctx, rep)
        else:
            mod.run(ctx)
    finally:
        ctx.drv.close()
    return finish(ctx, binfo)


if __name__ == '__main__':
    try:
        sys.exit(main())
    except SystemExit: raise
    except Exception:
        traceback.print_exc(); sys.exit(2)
