#!/usr/bin/env python
"""Scratch version of the per-property check entry point.

  check.py C08 [--tier quick|thorough] [--seed N] [--replay FILE]

exit 0: held on everything explored; exit 1 + "VIOLATION property=<id> replay=<path>" otherwise;
exit 2: infrastructure problem (never a verdict).
"""
import argparse, json, os, random, subprocess, sys, time, hashlib, fcntl, re, tempfile

HERE = os.path.dirname(os.path.abspath(__file__))
ROOT = os.environ.get('VERIF_ROOT', os.path.dirname(HERE))
LEAN = os.environ.get('VERIF_LEAN', os.path.join(ROOT, 'lean'))
REPO = os.environ.get('VERIF_REPO', '/repo')
DRIVER = os.path.join(LEAN, '.lake', 'build', 'bin', 'd2pdriver')
EVID = os.path.join(ROOT, 'evidence'); REPLAYS = os.path.join(ROOT, 'replays')
ALLOWED_AXIOMS = {'propext', 'Classical.choice', 'Quot.sound'}
sys.path.insert(0, HERE); sys.path.insert(0, REPO)
os.environ.setdefault('DOCX2PYTHON_VERIF', '1')

PROPS = {  # property -> (Lean file(s) whose failure breaks it, theorem names to audit)
    'C01': (['Props/C01.lean', 'Proofs/Shape.lean', 'Proofs/ShapeWalk.lean'], ['C01_walk_shape', 'C01_pars', 'C01_views', 'C01_check']),
    'C08': (['Props/C08.lean', 'Props/C08Count.lean', 'Proofs/Replace.lean'], ['C08_roman_correct', 'C08_roman_reject', 'C08_letters_inverse', 'C08_letters_injective', 'C08_letters_reject', 'C08_counter_invariant', 'C08_next_ordinal']),
    'C20': (['Props/C20.lean'], ['C20_branches', 'C20_enum_iff', 'C20_sorted', 'C20_iter_is_projection', 'C20_bad_depth']),
}

def sh(cmd, **kw): return subprocess.run(cmd, capture_output=True, text=True, **kw)

def build(prop):
    """regenerate tables from the live source, rebuild, audit. Returns (obligations, discharged, notes, broken)"""
    notes = []; broken = []
    lock = open(os.path.join(LEAN, '.build.lock'), 'w'); fcntl.flock(lock, fcntl.LOCK_EX)
    try:
        g = sh([sys.executable, os.path.join(HERE, 'gen_tables.py')], env={**os.environ, 'PYTHONPATH': REPO})
        gen_path = os.path.join(LEAN, 'D2P', 'Model', 'Generated.lean')
        if g.returncode not in (0, 3) or not g.stdout.strip():
            broken.append('gen_tables.py failed: ' + g.stderr[-400:])
        else:
            if g.returncode == 3: broken += [l for l in g.stderr.splitlines() if l.startswith('BROKEN-TIE')]
            if not os.path.exists(gen_path) or open(gen_path).read() != g.stdout:
                open(gen_path, 'w').write(g.stdout); notes.append('Generated.lean changed')
        b = sh(['lake', 'build', 'D2P', 'd2pdriver'], cwd=LEAN)
        if b.returncode != 0:
            errs = re.findall(r'error: (D2P/\S+?\.lean):(\d+):\d+: (.*)', b.stdout + b.stderr)
            mine = [e for e in errs if any(e[0].endswith(f) for f in PROPS[prop][0]) or e[0].endswith(('Model/Tie.lean',)) or '/Model/' in e[0]]
            for f, ln, msg in (mine or errs)[:5]: broken.append(f'lean: {f}:{ln}: {msg[:160]}')
            if not errs: broken.append('lake build failed: ' + (b.stdout + b.stderr)[-300:])
    finally:
        fcntl.flock(lock, fcntl.LOCK_UN)
    # audit
    thms = PROPS[prop][1]; discharged = 0
    if not any(x.startswith('lean:') or x.startswith('lake') for x in broken):
        src = 'import D2P\nopen D2P\n' + ''.join(f'#print axioms {t}\n' for t in thms)
        with tempfile.NamedTemporaryFile('w', suffix='.lean', dir=LEAN, delete=False) as f: f.write(src); tmp = f.name
        a = sh(['lake', 'env', 'lean', tmp], cwd=LEAN); os.unlink(tmp)
        for t in thms:
            m = re.search(r"'D2P\." + re.escape(t) + r"' (depends on axioms: \[([^\]]*)\]|does not depend on any axioms)", a.stdout)
            if not m: broken.append(f'audit: theorem {t} not found'); continue
            ax = set(x.strip() for x in (m.group(2) or '').split(',') if x.strip())
            if ax <= ALLOWED_AXIOMS: discharged += 1
            else: broken.append(f'audit: {t} uses axioms {sorted(ax - ALLOWED_AXIOMS)}')
        bad = sh(['grep', '-rnE', r'sorry|admit|native_decide|bv_decide|implemented_by|^axiom |unsafe |maxHeartbeats 0', os.path.join(LEAN, 'D2P')])
        hits = [l for l in bad.stdout.splitlines() if not re.search(r':\s*(--|/-)', l) and 'Do not edit' not in l]
        if hits: broken.append('audit: forbidden token: ' + hits[0][:160])
    return len(thms), discharged, notes, broken

class Driver:
    def __init__(self):
        self.p = subprocess.Popen([DRIVER], stdin=subprocess.PIPE, stdout=subprocess.PIPE, text=True, bufsize=1)
    def ask(self, obj):
        self.p.stdin.write(json.dumps(obj) + '\n'); self.p.stdin.flush()
        return json.loads(self.p.stdout.readline())
    def close(self): self.p.stdin.close(); self.p.wait()

def guard(f):
    try: return {'ok': f()}
    except Exception as e: return {'err': type(e).__name__}

# ----------------------------------------------------------------------------- C08 (renderers)
def run_C08(rng, tier, drv, st):
    from docx2python import numbering_formats as nums
    top = 20000 if tier == 'quick' else 200000
    ns = list(range(-3, top)) + [rng.randrange(top, 10**7) for _ in range(50)]
    romans = {}
    for n in ns:
        impl = {'lower_letter': guard(lambda: nums.lower_letter(n)), 'upper_letter': guard(lambda: nums.upper_letter(n)), 'decimal': nums.decimal(n)}
        want_roman = n < 4100 or n % 997 == 0
        if want_roman and n < 60000: impl.update({'lower_roman': guard(lambda: nums.lower_roman(n)), 'upper_roman': guard(lambda: nums.upper_roman(n))})
        m = drv.ask({'op': 'render', 'n': n, 'roman': 'lower_roman' in impl})
        st['evaluations'] += 1
        for k, v in impl.items():
            if m[k] != v: st['diffs'].append({'kind': 'correspondence', 'input': {'renderer': k, 'n': n}, 'impl': v, 'model': m[k]})
        # the property on the implementation's own output: distinct, order, rejection
        if n < 1:
            for k in ('lower_letter', 'upper_letter', 'lower_roman', 'upper_roman'):
                if k in impl and impl[k] != {'err': 'ValueError'}: st['fails'].append({'what': f'{k}({n}) does not raise ValueError', 'input': {'renderer': k, 'n': n}, 'observed': impl[k]})
        elif 'lower_roman' in impl and 'ok' in impl['lower_roman']:
            r = impl['lower_roman']['ok']
            if r in romans: st['fails'].append({'what': 'two ordinals share a Roman rendering', 'input': {'n': [romans[r], n]}, 'observed': r})
            romans[r] = n
        if n >= 1 and len(st['samples']) < 5 and n % 377 == 0: st['samples'].append({'n': n, 'impl': impl})
    st['nontrivial'] = sum(1 for n in ns if n >= 27)
    st['rule'] = 'every ordinal -3..%d plus 50 random larger ones through the four renderers; non-trivial = more than one letter (n >= 27)' % top

# ----------------------------------------------------------------------------- C20
def gen_nested(rng, depth, wide_level=None):
    """ragged nested list; at most ONE level is wide (threshold-guarded mutants), the others stay narrow"""
    if depth == 0: return rng.choice(['a', 'bc', '', 'é'])
    if wide_level == depth: w = rng.choice([50, 300, 1000])
    elif wide_level is not None: w = rng.choice([1, 1, 2])
    else: w = rng.choice([0, 1, 2, 3, 4])
    return [gen_nested(rng, depth - 1, wide_level) for _ in range(w)]
def run_C20(rng, tier, drv, st):
    from docx2python import iterators as it
    n = 400 if tier == 'quick' else 20000
    for i in range(n):
        d = rng.choice([1, 2, 3, 4, 5]); dd = d + rng.choice([0, 0, 0, 1]) if d < 5 else 5
        v = gen_nested(rng, dd, (dd if rng.random() < 0.5 else rng.randint(1, dd)) if rng.random() < 0.25 else None)
        ask = rng.choice([d, d, d, d, 0, 6, -1, 7]) if rng.random() < 0.2 else d
        impl = {'enum': guard(lambda: [[list(a), x] for a, x in it.enum_at_depth(v, ask)]), 'iter': guard(lambda: list(it.iter_at_depth(v, ask)))}
        m = drv.ask({'op': 'enum', 'v': v, 'depth': ask}); st['evaluations'] += 1
        if m != impl: st['diffs'].append({'kind': 'correspondence', 'input': {'v': v, 'depth': ask}, 'impl': impl, 'model': m})
        if 'ok' in impl['enum']:
            pairs = impl['enum']['ok']; addrs = [tuple(a) for a, _ in pairs]
            ok = addrs == sorted(set(addrs)) and all(len(a) == ask for a in addrs)
            for a, x in pairs:
                y = v
                for k in a: y = y[k]
                ok = ok and y == x
            ok = ok and impl['iter'].get('ok') == [x for _, x in pairs]
            def all_addrs(x, k):   # every valid address of length k, independently of the code under test
                if k == 0: return [()]
                return [(i,) + r for i, y in enumerate(x) for r in all_addrs(y, k - 1)]
            ok = ok and addrs == all_addrs(v, ask)
            if not ok: st['fails'].append({'what': 'enum_at_depth: wrong / unordered / repeated addresses', 'input': {'v': v, 'depth': ask}, 'observed': impl})
            if len(pairs) > 3: st['nontrivial'] += 1
        elif not (1 <= ask <= 5):
            if impl['enum'] != {'err': 'ValueError'}: st['fails'].append({'what': 'bad depth does not raise ValueError', 'input': {'v': v, 'depth': ask}, 'observed': impl})
        if len(st['samples']) < 4 and i % 97 == 0: st['samples'].append({'v': v, 'depth': ask, 'impl': impl})
    st['rule'] = 'random ragged nested lists (widths 0-4, sometimes one level up to 300 wide), depths 1-5 and out-of-range; non-trivial = more than 3 items yielded'

RUNNERS = {'C08': run_C08, 'C20': run_C20}

def main():
    ap = argparse.ArgumentParser(); ap.add_argument('prop'); ap.add_argument('--tier', default=os.environ.get('VERIF_TIER', 'quick'))
    ap.add_argument('--seed', type=int, default=int(os.environ.get('VERIF_SEED', '0'))); ap.add_argument('--replay')
    a = ap.parse_args(); t0 = time.time()
    if a.prop not in RUNNERS: print('no runner for', a.prop); return 2
    os.makedirs(EVID, exist_ok=True); os.makedirs(REPLAYS, exist_ok=True)
    obligations, discharged, notes, broken = build(a.prop)
    st = {'evaluations': 0, 'nontrivial': 0, 'diffs': [], 'fails': [], 'samples': [], 'rule': ''}
    if os.path.exists(DRIVER):
        drv = Driver(); RUNNERS[a.prop](random.Random(a.seed), a.tier, drv, st); drv.close()
    else: broken.append('driver missing')
    violations = []
    def replay(kind, payload):
        h = hashlib.sha256(json.dumps(payload, sort_keys=True, default=str).encode()).hexdigest()[:12]
        p = os.path.join(REPLAYS, f'{a.prop}-{a.seed}-{h}.json')
        json.dump({'property': a.prop, 'kind': kind, 'seed': a.seed, 'tier': a.tier, **payload, 'replay_cmd': f'./check {a.prop} --replay {p}'}, open(p, 'w'), indent=1, default=str)
        return p
    if st['fails']:
        violations.append(f"VIOLATION property={a.prop} replay={replay('failing-input', st['fails'][0])}")
    elif st['diffs'] or broken:
        payload = {'broken': broken, 'first_difference': st['diffs'][0] if st['diffs'] else None,
                   'searched': f"{st['evaluations']} inputs with the property's checker on the implementation output: none failed"}
        violations.append(f"VIOLATION property={a.prop} replay={replay('tie-broken', payload)} no-failing-input-found")
    ev = {'property_id': a.prop, 'tier': a.tier, 'seed': a.seed, 'level': 'proof', 'wall_s': round(time.time() - t0, 2), 'violations': len(violations),
          'coverage': {'obligations': obligations, 'discharged': discharged, 'checker_cmd': 'cd lean && lake build D2P d2pdriver && lake env lean <#print axioms file>',
                       'trusted_base': ['Lean 4.33.0 kernel', 'axioms: propext, Classical.choice, Quot.sound', 'gen_tables.py', 'correspondence harness + JSON driver', 'lxml/zipfile behaviour as modelled'],
                       'evaluations': st['evaluations'], 'distinct_nontrivial': st['nontrivial'], 'rule': st['rule'], 'samples': st['samples'][:5],
                       'traces_validated_against_impl': st['evaluations'] - len(st['diffs']), 'notes': notes, 'broken': broken},
          'assumptions': ['model <-> code agreement is established on the explored inputs only']}
    json.dump(ev, open(os.path.join(EVID, a.prop + '.json'), 'w'), indent=1, default=str)
    for v in violations: print(v)
    print(f"{a.prop}: {discharged}/{obligations} theorems, {st['evaluations']} evaluations, {len(st['diffs'])} differences, {len(st['fails'])} property failures, {round(time.time()-t0,1)} s")
    return 1 if violations else 0

if __name__ == '__main__':
    sys.exit(main())
