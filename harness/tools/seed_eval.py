#!/usr/bin/env python3
"""Confirm a seeded change and run checks against it.

  seed_eval.py <id> <worktree-with-deliverables> <property> [more properties to run ...]

1. copies patch.diff / demo.py / notes.txt to /verif/seeded/<id>/
2. in the scratch worktree: demo passes without the patch, fails with it, suite passes with it
3. applies the patch to /repo, runs `./check P --tier quick` for each property, undoes the patch
4. writes meta.json
"""
import json, os, shutil, subprocess, sys, time
ROOT = os.path.dirname(os.path.dirname(os.path.dirname(os.path.abspath(__file__))))

def sh(cmd, **kw): return subprocess.run(cmd, shell=True, capture_output=True, text=True, **kw)

def main():
    sid, wt, prop, *more = sys.argv[1:]
    dst = os.path.join(ROOT, 'seeded', sid); os.makedirs(dst, exist_ok=True)
    for f in ('patch.diff', 'demo.py', 'notes.txt'):
        if os.path.exists(os.path.join(wt, f)): shutil.copy(os.path.join(wt, f), dst)
    patch = os.path.join(dst, 'patch.diff')
    meta = {'id': sid, 'breaks_property': prop, 'needs_to_manifest': open(os.path.join(dst, 'notes.txt')).read().strip() if os.path.exists(os.path.join(dst, 'notes.txt')) else ''}
    # 2. confirm in the scratch worktree
    sh('git checkout -- docx2python', cwd=wt)
    r0 = sh('/venv/bin/python demo.py', cwd=wt)
    a = sh(f'git apply {patch}', cwd=wt)
    r1 = sh('/venv/bin/python demo.py', cwd=wt)
    t = sh('/venv/bin/python -m pytest -q -p no:cacheprovider 2>&1 | tail -1', cwd=wt)
    meta['confirmed'] = {'demo_without_patch_exit': r0.returncode, 'demo_with_patch_exit': r1.returncode, 'patch_applies': a.returncode == 0,
                         'suite_with_patch': t.stdout.strip(), 'demo_output_with_patch': (r1.stdout + r1.stderr)[-600:]}
    ok = r0.returncode == 0 and r1.returncode != 0 and a.returncode == 0 and '140 passed' in t.stdout
    meta['kept'] = ok
    # 3. run the checks against /repo with the patch applied
    results = {}
    if ok:
        assert sh('git -C /repo status --porcelain -- docx2python').stdout.strip() == '', '/repo is dirty'
        ap = sh(f'git -C /repo apply {patch}')
        try:
            for p in [prop] + more:
                for seed in (0,):
                    t0 = time.time()
                    r = sh(f'./check {p} --tier quick --seed {seed}', cwd=ROOT)
                    lines = [l for l in r.stdout.splitlines() if l.startswith(('VIOLATION', 'KNOWN-FINDING', p + ' ['))]
                    viol = [l for l in lines if l.startswith('VIOLATION')]
                    rep = None
                    if viol:
                        path = viol[0].split('replay=')[1].split()[0]
                        try:
                            j = json.load(open(path)); rep = {'kind': j.get('kind'), 'what': j.get('what') or (j.get('no_longer_checks') or [''])[0][:200]}
                            shutil.copy(path, os.path.join(dst, f'replay-{p}.json'))
                        except Exception as e: rep = {'error': str(e)}
                    results[f'{p} seed={seed}'] = {'exit': r.returncode, 'caught': r.returncode == 1, 'with_failing_input': bool(viol) and 'no-failing-input-found' not in viol[0],
                                                  'replay': rep, 'summary': lines[-1] if lines else r.stdout[-300:] + r.stderr[-300:], 'wall_s': round(time.time() - t0, 1)}
        finally:
            sh('git -C /repo checkout -- docx2python')
    meta['checks_run_with_patch_applied_to_repo'] = results
    meta['what_was_run'] = 'demo.py with / without patch in a scratch worktree; unedited suite with patch; ./check <P> --tier quick --seed 0 with the patch applied to /repo (git apply), then git checkout -- docx2python'
    json.dump(meta, open(os.path.join(dst, 'meta.json'), 'w'), indent=1)
    print(json.dumps({'id': sid, 'kept': ok, 'confirmed': {k: v for k, v in meta['confirmed'].items() if k != 'demo_output_with_patch'},
                      'results': {k: (v['caught'], v['with_failing_input'], (v['replay'] or {}).get('what', '')[:90]) for k, v in results.items()}}, indent=1))

main()
