#!/bin/sh
# every thorough check once, five at a time: harness/tools/run_thorough_par.sh [seed]
# a check that ends without a summary line (crash, exit 2) is reported as BROKEN
cd "$(dirname "$0")/../.." || exit 2
seed=${1:-0}
./check C08 --seed $seed >/dev/null 2>&1
printf '%s\n' C01 C05 C10 C02 C04 C03 C07 C09 C06 C12 C13 C08 C11 C14 C15 C16 C17 C18 C19 C20 | \
  xargs -P 5 -I{} sh -c "out=\$(./check {} --tier thorough --seed $seed 2>&1); rc=\$?; echo \"\$out\" | grep -E '^(VIOLATION|C[0-9][0-9] \[)' | cut -c1-220; echo \"\$out\" | grep -qE '^{} \[' || echo \"{} BROKEN: no summary line, exit \$rc: \$(echo \"\$out\" | tail -1 | cut -c1-160)\"; true"
