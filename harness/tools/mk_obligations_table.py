#!/usr/bin/env python3
"""Regenerates the table of DESIGN.md section 13.16 from harness/obligations.json."""
import json, os, re
ROOT = os.path.dirname(os.path.dirname(os.path.dirname(os.path.abspath(__file__))))
o = json.load(open(os.path.join(ROOT, 'harness', 'obligations.json')))
rows = ["| property | Lean modules | theorems |", "|---|---|---|"]; n = 0
for k in sorted(o):
    rows.append(f"| {k} | {', '.join(o[k]['modules'])} | {', '.join('`%s`' % t for t in o[k]['theorems'])} |"); n += len(o[k]['theorems'])
p = os.path.join(ROOT, 'DESIGN.md'); s = open(p).read()
a = s.index("| property | Lean modules | theorems |"); b = s.index("\n\n", a)
s = s[:a] + "\n".join(rows) + s[b:]
s = re.sub(r'Total: \d+ audited theorems', f'Total: {n} audited theorems', s)
open(p, 'w').write(s); print(n, 'theorems')
