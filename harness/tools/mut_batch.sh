#!/bin/sh
# harness/tools/mut_batch.sh <dir with group worktrees> <list file: group K props...> <id prefix>
# runs mut_eval.py for every line whose deliverables exist
dir=$1; list=$2; pre=$3
cd "$(dirname "$0")/../.." || exit 2
while read g k props; do
  [ -f "$dir/$g/mut$k.diff" ] || { echo "$pre-$g-$k missing"; continue; }
  /venv/bin/python harness/tools/mut_eval.py $pre-$g-$k $dir/$g $k $props 2>&1 | tail -1 | /venv/bin/python -c "
import sys,json
try:
    d=json.loads(sys.stdin.read()); print(d['id'], d['kept'], {k:(v[0],v[1]) for k,v in d['results'].items()}, '' if d['kept'] else d['confirmed'])
except Exception as e: print('?', e)"
done < "$list"
