#!/bin/sh
# run every quick (or thorough) check once: harness/tools/run_all.sh [tier] [seed]
cd "$(dirname "$0")/../.." || exit 2
tier=${1:-quick}; seed=${2:-0}; rc=0
for p in C01 C02 C03 C04 C05 C06 C07 C08 C09 C10 C11 C12 C13 C14 C15 C16 C17 C18 C19 C20; do
  ./check $p --tier $tier --seed $seed | grep -E "^(VIOLATION|KNOWN-FINDING|C[0-9][0-9] \[)" | cut -c1-260
  [ $? -ne 0 ] && rc=1
done
exit $rc
