#!/bin/sh
# harness/tools/mut_one.sh <worktree> <K> <property> [seed]: apply mutK.diff in the scratch worktree, run one check against it, restore
wt=$1; k=$2; p=$3; seed=${4:-0}
cd "$(dirname "$0")/../.." || exit 2
git -C "$wt" checkout -q -- docx2python && git -C "$wt" apply "$wt/mut$k.diff" || exit 2
VERIF_REPO=$wt ./check "$p" --seed "$seed" 2>&1 | grep -v "^KNOWN-FINDING" | tail -3
git -C "$wt" checkout -q -- docx2python
