#!/bin/sh
# every quick check once, ten at a time: harness/tools/run_all_par.sh [seed]
# prints the VIOLATION lines and the summary line of each check; a check that ends without a summary line (crash, exit 2) is reported as BROKEN
cd "$(dirname "$0")/../.." || exit 2
seed=${1:-0}
./check C08 --seed $seed >/dev/null 2>&1     # one build first
printf '%s\n' C01 C02 C03 C04 C05 C06 C07 C08 C09 C10 C11 C12 C13 C14 C15 C16 C17 C18 C19 C20 | \
  xargs -P 10 -I{} sh -c "out=\$(./check {} --seed $seed 2>&1); rc=\$?; echo \"\$out\" | grep -E '^(VIOLATION|C[0-9][0-9] \[)' | cut -c1-200; echo \"\$out\" | grep -qE '^{} \[' || echo \"{} BROKEN: no summary line, exit \$rc: \$(echo \"\$out\" | tail -1 | cut -c1-160)\"; true" | sort
