#!/bin/sh
# every quick check once, ten at a time: harness/tools/run_all_par.sh [seed]
cd "$(dirname "$0")/../.." || exit 2
seed=${1:-0}
./check C08 --seed $seed >/dev/null 2>&1     # one build first
printf '%s\n' C01 C02 C03 C04 C05 C06 C07 C08 C09 C10 C11 C12 C13 C14 C15 C16 C17 C18 C19 C20 | \
  xargs -P 10 -I{} sh -c "./check {} --seed $seed 2>&1 | grep -E '^(VIOLATION|C[0-9][0-9] \[)' | cut -c1-200; true" | sort
