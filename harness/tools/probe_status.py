#!/usr/bin/env python
"""For every hand-made probe (harness/gen/probes.py) run the runner of each property it is tagged
for against the repository the harness points at and report whether the property's checker fails
on it.  Used to record, before each `fix:` commit, that the built check reproduces the finding."""
import importlib, json, os, sys, warnings, tempfile, random
sys.path.insert(0, os.path.dirname(os.path.dirname(os.path.abspath(__file__))))
warnings.simplefilter('ignore')
import common
from common import Ctx, Driver
from gen.probes import ALL

def main():
    common.build('C01')
    drv = Driver(); rows = []
    for name, props, build in ALL:
        data = build()
        for prop in props:
            mod = importlib.import_module('props.' + prop.lower())
            ctx = Ctx(prop, 'quick', 0); ctx.drv = drv
            try:
                rep = {'case': {'archive_b64': __import__('base64').b64encode(data).decode()}}
                if prop in ('C04', 'C08', 'C09', 'C18', 'C14', 'C06'):
                    # these runners have their own probe handling inside run(); call the relevant piece
                    if prop == 'C08': mod.one(ctx, data, {'absn': {0: [(0, 'decimal'), (0, 'lowerLetter')]}, 'nums': {'1': 0}, 'n': 3})
                    elif prop == 'C06': mod.one(ctx, data, None, seed=1)
                    elif prop == 'C14':
                        t = tempfile.mkdtemp(prefix='d2pv-'); mod.one(ctx, data, [[2, 21, 21, 2]], t, False, True)
                    elif prop == 'C04':
                        from gen.tables import render
                        mod.case(ctx, random.Random(1), 2, 2, [(0, 0, 2, 1), (0, 1, 1, 1), (1, 1, 1, 1)], 'body-mid')
                    else: mod.replay(ctx, rep) if prop != 'C09' else None
                    if prop in ('C09', 'C18'):
                        import pk
                        i, m = pk.both(drv, data, False, True)
                        bad = {k: v for k, v in i.items() if isinstance(v, dict) and 'err' in v}
                        if bad: ctx.fail('extraction raises', {}, bad)
                        if name.startswith('P27') and len(i.get('core', {}).get('ok', [])) != 1: ctx.fail('an XML comment in the core-properties part is reported as a property', {}, i['core'])
                        if name.startswith('P16') and 'head-in-word-word' not in str(i.get('header')): ctx.fail('header part not found', {}, i.get('header'))
                else:
                    mod.replay(ctx, rep)
            except Exception as e:
                ctx.fail('runner raised ' + type(e).__name__, {}, str(e)[:100])
            what = sorted({f['what'] for f in ctx.fails})
            rows.append((name, prop, 'FAILS' if ctx.fails else ('differs-from-model' if ctx.diffs else 'holds'), '; '.join(what)[:150]))
    drv.close()
    for r in rows: print('%-32s %-4s %-18s %s' % r)

main()
