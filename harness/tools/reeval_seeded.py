#!/usr/bin/env python3
"""Re-run the target property's quick check against every kept seeded change, on the CURRENT /repo HEAD and the
CURRENT machinery (after model / generator changes a once-detected change may have become invisible).

  reeval_seeded.py [workers=4] [only-prefix]

Works from copies of /verif under /tmp (one per worker, so lake builds do not collide) and scratch worktrees of
/repo (removed at the end); /repo and /verif themselves are only read. Writes seeded/REEVAL.json."""
import json, os, shutil, subprocess, sys, glob, time
from concurrent.futures import ThreadPoolExecutor
ROOT = os.path.dirname(os.path.dirname(os.path.dirname(os.path.abspath(__file__))))
N = int(sys.argv[1]) if len(sys.argv) > 1 else 4
ONLY = sys.argv[2] if len(sys.argv) > 2 else ''
BASE = '/tmp/reeval'


def sh(cmd, **kw): return subprocess.run(cmd, shell=True, capture_output=True, text=True, **kw)


def setup(w):
    v, wt = f'{BASE}/verif{w}', f'{BASE}/wt{w}'
    sh(f'rm -rf {v}; git -C /repo worktree remove --force {wt}; rm -rf {wt}')
    os.makedirs(BASE, exist_ok=True)
    sh(f'cp -a {ROOT} {v}')
    r = sh(f'git -C /repo worktree add --detach {wt} HEAD')
    assert os.path.isdir(wt), r.stderr
    return v, wt


def one(job):
    w, items = job
    v, wt = setup(w)
    out = []
    for sid, patch, prop in items:
        sh('git reset -q --hard HEAD && git clean -fdq', cwd=wt)
        a = sh(f'git apply {patch}', cwd=wt)
        if a.returncode != 0:
            a = sh(f'git apply -3 {patch}', cwd=wt)
            if a.returncode != 0 or '<<<<<<<' in sh('git diff', cwd=wt).stdout:
                sh('git reset -q --hard HEAD && git clean -fdq', cwd=wt)
                out.append({'id': sid, 'property': prop, 'applies': False}); print(json.dumps(out[-1]), flush=True); continue
        t0 = time.time()
        r = sh(f'VERIF_REPO={wt} ./check {prop} --tier quick --seed 0', cwd=v)
        viol = [l for l in r.stdout.splitlines() if l.startswith('VIOLATION')]
        summ = [l for l in r.stdout.splitlines() if l.startswith(prop + ' [')]
        out.append({'id': sid, 'property': prop, 'applies': True, 'exit': r.returncode, 'caught': r.returncode == 1 and bool(viol),
                    'with_failing_input': bool(viol) and 'no-failing-input-found' not in viol[0], 'summary': (summ or [r.stdout[-200:] + r.stderr[-200:]])[-1][:220],
                    'wall_s': round(time.time() - t0, 1)})
        print(json.dumps(out[-1]), flush=True)
    sh(f'git -C /repo worktree remove --force {wt}; rm -rf {wt} {v}')
    return out


def main():
    items = []
    for d in sorted(glob.glob(os.path.join(ROOT, 'seeded', '*'))):
        sid = os.path.basename(d)
        if ONLY and not sid.startswith(ONLY): continue
        m, p = os.path.join(d, 'meta.json'), os.path.join(d, 'patch.diff')
        if not (os.path.exists(m) and os.path.exists(p)): continue
        meta = json.load(open(m))
        if not meta.get('kept', True): continue
        prop = meta.get('breaks_property') or meta.get('property')
        if not prop: continue
        items.append((sid, p, prop.split()[0].strip(',')))
    jobs = [(w, items[w::N]) for w in range(N)]
    with ThreadPoolExecutor(N) as ex: res = [x for part in ex.map(one, jobs) for x in part]
    res.sort(key=lambda x: x['id'])
    json.dump({'head': sh('git -C /repo rev-parse --short HEAD').stdout.strip(), 'verif': sh(f'git -C {ROOT} rev-parse --short HEAD').stdout.strip(),
               'evaluated': len(res), 'caught': sum(1 for x in res if x.get('caught')), 'not_applying': [x['id'] for x in res if not x['applies']],
               'missed': [x['id'] for x in res if x['applies'] and not x.get('caught')], 'broken_runs': [x['id'] for x in res if x.get('exit') == 2], 'results': res}, open(os.path.join(ROOT, 'seeded', 'REEVAL.json'), 'w'), indent=1)
    print('evaluated', len(res), 'caught', sum(1 for x in res if x.get('caught')), 'missed', [x['id'] for x in res if x['applies'] and not x.get('caught')], 'stale', [x['id'] for x in res if not x['applies']])
    sh(f'rm -rf {BASE}')


main()
