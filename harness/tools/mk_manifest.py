#!/usr/bin/env python3
"""Writes /verif/MANIFEST.json from the table below (kept in one place so the manifest stays valid)."""
import json, os
ROOT = os.path.dirname(os.path.dirname(os.path.dirname(os.path.abspath(__file__))))
OB = json.load(open(os.path.join(ROOT, 'harness', 'obligations.json')))

LEVEL = {
 'C01': ("Unbounded theorem over the Lean model: for EVERY content tree and option setting a collector that is returned is four list levels above paragraph records (C01_walk_shape, by the caret/spine invariant and mutual induction), lifted to all six attributes incl. document (C01_pars) and to the run and string views with equal skeletons (C01_views, C01_check). Tie: skeletons of all 18 views x 4 settings, model vs /repo, plus the Lean checker checkC01 evaluated on /repo's output.", None),
 'C02': ("Theorems over the model: inline content without nested paragraph only appends its spec text to the open paragraph (C02_flat_inline), a paragraph enclosing no other adds exactly one record with label ++ marker ++ inlineText and changes nothing else (C02_paragraph), sequences of such paragraphs (C02_paragraph_sequence_partial: nested paragraphs and hyperlink grouping not yet covered by the refinement), html off attaches no tag (C02_plain_is_run_texts). Tie: plain views + text model vs /repo; token oracle (exactly once / no migration / order / tabs / breaks) on /repo's output.", 'partial: nested paragraphs and links are covered by the correspondence and the token oracle, not yet by the theorem'),
 'C03': ("The five equalities of the statement are theorems about the model's view functions for every package (C03_*). Tie: the same relations evaluated on live objects of /repo and on the model's views.", None),
 'C04': ("Theorem C04_span_cells: a cell with gridSpan g receives exactly g-1 further cells, copies (dup) or single-empty-paragraph cells, for any collector state; the full row/column induction (C04_grid) is not proved yet. Tie: extracted tables model vs /repo; reference grid gridOf(dup) checked on /repo for random tilings (thorough: ALL tilings with n*m <= 12).", 'partial: vertical-merge placement is validated by exhaustive small-scope enumeration and correspondence, not yet by a theorem'),
 'C05': ("Theorems: a paragraph opened inside a cell records the table lineage (C05_cell_lineage), record element and style are the source paragraph's (C05_elem_style), predicates follow from the first paragraph's lineage (C05_predicates), copies keep lineage (markCopy_lineage). C05_free_lineage (no tbl outside tables) not yet proved. Tie: lineage/style/element/copy per record model vs /repo; predicates and get_headings checked on live objects against the source.", 'partial'),
 'C06': ("Theorem C06_split_pair: two adjacent mergeable siblings with equal key separated by a content-free node are merged into one (the base case of splitting invisibility); n-ary invariance / idempotence not yet proved. Tie: *_runs and the merged element tree model vs /repo for a document and random split variants; metamorphic equality and characters-with-formatting faithfulness checked on /repo.", 'partial'),
 'C07': ("Theorems for all strings: escaping = per-character spec (escape_spec), no raw < or > survives (C07_no_raw_markup), unescape o escape = id (C07_escape_roundtrip). Balance / vocabulary / projection are checked on /repo's html strings by a tokenizer-based checker and tied by correspondence of html strings and style lists.", 'partial: balance and projection are not yet theorems'),
 'C08': ("Unbounded theorems: lower/upper Roman = standard numeral for EVERY n >= 1 over the ROMAN_SUBS table regenerated from /repo (C08_roman_correct/_upper), rejection below 1, letters are bijective base 26 (inverse, injective, reject), counter invariant and next ordinal = 1 + items since the latest shallower level (C08_counter_invariant, C08_next_ordinal, level_order for digits 0-8). Tie: renderers on every ordinal in range each run; markers and list_position of random list histories model vs /repo and vs an independent reference.", None),
 'C09': ("Theorem C09_path: under Scope09 (no '..', relative target not beginning with the referring directory) File.path = OPC resolution. Tie: files/paths and all attributes model vs /repo on relocated packages; metamorphic equality original vs relocated on /repo. One open known finding (target beginning with the referring directory).", 'partial: zip lookup trusted; selection-by-type is tied by correspondence'),
 'C10': ("Theorems: link rendering (C10_link_render/_href/_dangling), note reference marker is its own run (C10_note_ref, C10_ref_is_own_run), note label queued and prefixed to the next paragraph (C10_note_label, C10_label_prefixes_paragraph). Tie: marker runs / first note runs model vs /repo; source-derived expectations and get_links checked on /repo.", None),
 'C11': ("Theorems: placeholder / alt-text rendering and never-raise on unresolvable ids (C11_placeholder, C11_alt_text), images map = member content of every resolvable image relationship (C11_images_map), folder irrelevant to returned values. File-system effects are observed, not proved.", 'partial: filesystem'),
 'C12': ("Theorems: no comments part => [] (C12_no_comments_part), count mismatch => [] (C12_mismatch), a start marker records the current run count (C12_marker_records_count). The index theorem C12_ranges is not proved yet. Tie: comments and body_runs model vs /repo; token oracle for the anchored text on /repo.", 'partial'),
 'C13': ("Theorems: link, image and check-box handlers never raise (C13_*_never_raises), set_caret(d) returns for every d in 1..4 under the spine invariant (C13_setCaret_total). The assembled totality theorem is not proved yet. Tie: ok / exception kind of every attribute x 4 settings model vs /repo on a grammar of schema-valid oddities.", 'partial'),
 'C14': ("Theorems: paragraph numbering is memoised per element and re-reading leaves counters unchanged (C14_par_number_memo, C14_counters_stable). Freshness of returned lists, input kinds and input bytes are CPython/OS facts observed on /repo over random read sequences with caller mutations.", 'partial: aliasing, input bytes'),
 'C15': ("Theorems over the cache/handle state machine for every operation history, no length bound: never reopened after close, reads before close return the value, after close value-or-ValueError, failed read is a no-op, close idempotent, __exit__ closes and lets exceptions propagate, no leak (C15_*). Tie: per-step outcomes of random histories on DocxContent and DocxReader, Lean machine (units measured per operation) vs /repo; descriptors observed.", 'partial: descriptor accounting observed'),
 'C16': ("Theorems: names written by save are the input names without repetition (C16_names) and members that are not overwritten are copied unchanged (C16_untouched). Same-extraction / resave / edits are checked on /repo (zip + XML serialisation are outside the model).", 'partial: zip container, XML bytes'),
 'C17': ("Theorems: the nodes replacing a hit text node spell the replaced text with breaks for line ends (C17_node_text), nodes without the needle are untouched (C17_untouched_node). Tie: replace_root_text on merged parts, Lean model vs /repo; commutation with extraction checked on /repo over random splittings.", 'partial'),
 'C18': ("Theorems at infoset level: attribute order is irrelevant to every lookup (C18_attr_order), an injective renaming of namespace URIs leaves lookups unchanged (C18_uri_family). Byte-level rewrites are erased by lxml/zipfile before the model: checked metamorphically on /repo.", 'partial: parser, container'),
 'C19': ("Theorems: a cell without merge markers is closed identically under both settings (C19_cell_unmerged) and the WHOLE walk is identical under both settings of duplicate_merged_cells when no cell is merged (C19_dup_irrelevant, mutual induction). html-invariance of structure is tied by correspondence and checked relationally on /repo.", 'partial: html structure invariance not yet a theorem'),
 'C20': ("Unbounded theorems for any nested value: each of the five unrolled branches = the generic recursion (C20_branches), enumeration is sound and complete w.r.t. valid index paths (C20_enum_iff), lexicographically sorted (C20_sorted), iter = map snd (C20_iter_is_projection), other depths raise ValueError (C20_bad_depth). Tie: all helpers model vs /repo on ragged lists incl. one very wide level; thorough: all nested lists with <= 8 nodes.", None),
}

checks = []
for pid in sorted(OB):
    text, partial = LEVEL[pid]
    checks.append({
        'property_id': pid,
        'quick_cmd': f'./check {pid} --tier quick',
        'thorough_cmd': f'./check {pid} --tier thorough',
        'evidence_file': f'evidence/{pid}.json',
        'replay_cmd_template': f'./check {pid} --replay {{path}}',
        'engine': 'lean-model+correspondence',
        'level_claimed': {'category': 'proof', 'text': text + (f' [{partial}]' if partial else ''), 'design_ref': f'DESIGN.md section 9/{pid}'},
        'level_note': 'Trusted: Lean 4.33 kernel; axioms propext, Classical.choice, Quot.sound only (audited each run); gen_tables.py; the hand-written model, tied to /repo by the correspondence on the explored cases only; lxml/zipfile/pathlib/CPython as modelled. Theorems audited: ' + ', '.join(OB[pid]['theorems']),
        'technique': 'Lean 4 theorems over an executable model + differential correspondence against /repo + property checker on /repo output',
    })
man = {
    'version': 1,
    'setup_cmd': 'cd lean && lake build D2P d2pdriver',
    'hooks': {'guard': 'DOCX2PYTHON_VERIF', 'enable': 'no source hook is needed; checks import docx2python from /repo in-process with DOCX2PYTHON_VERIF=1 exported',
              'baseline_off_cmd': 'cd /repo && /venv/bin/python -m pytest -ra -q -p no:cacheprovider --timeout=900', 'source_commits': [], 'add_only': True},
    'engines': [
        {'name': 'lean-model+correspondence', 'path': 'lean/ (lake project D2P: Model, Spec, Check, Proofs, Props, Driver) + harness/', 'serves_properties': sorted(OB),
         'kind_free_text': 'machine-checked proof in Lean 4 over a hand-written executable model of docx2python; tables regenerated from /repo each run; model tied to /repo by differential correspondence through a compiled JSON-line driver'}],
    'checks': checks,
    'notes': 'VERIF_SEED seeds every generator; VERIF_TIER is accepted as alternative to --tier. Exit 2 = infrastructure error (never a verdict). known_findings.json lists open findings (printed as KNOWN-FINDING) and fixed ones.',
    'not_applicable': [],
}
json.dump(man, open(os.path.join(ROOT, 'MANIFEST.json'), 'w'), indent=1)
print('wrote MANIFEST.json with', len(checks), 'checks')
