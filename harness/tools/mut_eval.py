#!/usr/bin/env python3
"""Round 3: confirm a seeded defect and run checks against it WITHOUT touching /repo (VERIF_REPO = the scratch worktree).

  mut_eval.py <id> <worktree> <K> <property> [more properties ...]

deliverables in the worktree: mutK.diff, demoK.py (prints BROKEN / OK), noteK.txt.
1. clean worktree: demo prints OK; with the patch: demo prints BROKEN and the unedited suite passes
2. with the patch applied in the worktree: ./check P --tier quick --seed 0 with VERIF_REPO=<worktree>
3. worktree restored; /verif/seeded/<id>/{patch.diff,demo.py,notes.txt,meta.json,replay-P.json}
"""
import json, os, shutil, subprocess, sys, time
ROOT = os.path.dirname(os.path.dirname(os.path.dirname(os.path.abspath(__file__))))

def sh(cmd, **kw): return subprocess.run(cmd, shell=True, capture_output=True, text=True, **kw)

def main():
    sid, wt, k, prop, *more = sys.argv[1:]
    dst = os.path.join(ROOT, 'seeded', sid); os.makedirs(dst, exist_ok=True)
    for src, d in ((f'mut{k}.diff', 'patch.diff'), (f'demo{k}.py', 'demo.py'), (f'note{k}.txt', 'notes.txt')):
        if os.path.exists(os.path.join(wt, src)): shutil.copy(os.path.join(wt, src), os.path.join(dst, d))
    patch = os.path.join(dst, 'patch.diff')
    meta = {'id': sid, 'breaks_property': prop, 'needs_to_manifest': open(os.path.join(dst, 'notes.txt')).read().strip() if os.path.exists(os.path.join(dst, 'notes.txt')) else ''}
    env = dict(os.environ, PYTHONPATH=wt)
    sh('git checkout -- docx2python', cwd=wt)
    r0 = sh(f'/venv/bin/python {dst}/demo.py', cwd=wt, env=env)
    a = sh(f'git apply {patch}', cwd=wt)
    r1 = sh(f'/venv/bin/python {dst}/demo.py', cwd=wt, env=env)
    t = sh('/venv/bin/python -m pytest -q -p no:cacheprovider tests 2>&1 | tail -1', cwd=wt, env=env)
    meta['confirmed'] = {'demo_without_patch': r0.stdout.strip()[-80:], 'demo_with_patch': (r1.stdout + r1.stderr).strip()[-300:], 'patch_applies': a.returncode == 0, 'suite_with_patch': t.stdout.strip()}
    ok = 'OK' in r0.stdout and 'BROKEN' not in r0.stdout and 'BROKEN' in r1.stdout and a.returncode == 0 and '140 passed' in t.stdout
    meta['kept'] = ok
    results = {}
    if ok:
        try:
            for p in [prop] + more:
                t0 = time.time()
                r = sh(f'./check {p} --tier quick --seed 0', cwd=ROOT, env=dict(os.environ, VERIF_REPO=wt))
                lines = [l for l in r.stdout.splitlines() if l.startswith(('VIOLATION', 'KNOWN-FINDING', p + ' ['))]
                viol = [l for l in lines if l.startswith('VIOLATION')]
                rep = None
                if viol:
                    path = viol[0].split('replay=')[1].split()[0]
                    try:
                        j = json.load(open(path)); rep = {'kind': j.get('kind'), 'what': j.get('what') or (j.get('no_longer_checks') or [''])[0][:200]}
                        shutil.copy(path, os.path.join(dst, f'replay-{p}.json'))
                    except Exception as e: rep = {'error': str(e)}
                results[f'{p} seed=0'] = {'exit': r.returncode, 'caught': r.returncode == 1, 'with_failing_input': bool(viol) and 'no-failing-input-found' not in viol[0],
                                          'replay': rep, 'summary': lines[-1] if lines else r.stdout[-300:] + r.stderr[-300:], 'wall_s': round(time.time() - t0, 1)}
        finally:
            pass
    sh('git checkout -- docx2python', cwd=wt)
    meta['checks_run_against_patched_worktree'] = results
    meta['what_was_run'] = 'demo with / without patch in a scratch worktree (prints OK / BROKEN); unedited suite with patch; ./check <P> --tier quick --seed 0 with VERIF_REPO=<patched worktree> (the checks rebuild their tables and run the real code from that tree); /repo untouched'
    json.dump(meta, open(os.path.join(dst, 'meta.json'), 'w'), indent=1)
    print(json.dumps({'id': sid, 'kept': ok, 'confirmed': meta['confirmed'] if not ok else 'yes',
                      'results': {k: (v['caught'], v['with_failing_input'], (v['replay'] or {}).get('what', '')[:100]) for k, v in results.items()}}))

main()
