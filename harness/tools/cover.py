"""Line coverage of /repo/docx2python under the correspondence harness (stdlib only: sys.monitoring).

    /venv/bin/python -B harness/tools/cover.py [C01 C02 ...]   (default: all properties, quick tier, seed 0)

Prints, per module, the executable lines the harness never reached, so the generators can be extended towards them; writes
/verif/findings/coverage.json. A line that no generated case reaches is a line on which model and code are not compared."""
import sys, os, json, types, importlib, warnings
warnings.simplefilter('ignore')
HERE = os.path.dirname(os.path.abspath(__file__))
sys.path.insert(0, os.path.dirname(HERE))
import common

PKG = os.path.join(common.REPO, 'docx2python') + os.sep
hit = {}
TOOL = sys.monitoring.COVERAGE_ID


def on_line(code, line):
    f = code.co_filename
    if f.startswith(PKG): hit.setdefault(f, set()).add(line)
    return sys.monitoring.DISABLE


def executable_lines(path):
    src = open(path).read()
    top = compile(src, path, 'exec')
    out = set(); todo = [top]
    while todo:
        c = todo.pop()
        for _, _, ln in c.co_lines():
            if ln is not None and ln > 0: out.add(ln)
        todo += [k for k in c.co_consts if isinstance(k, types.CodeType)]
    # drop docstring-only and `def`/`class` header lines executed at import
    return out


def main():
    props = [a for a in sys.argv[1:] if a.startswith('C')] or ['C%02d' % i for i in range(1, 21)]
    common.build(props[0])
    sys.monitoring.use_tool_id(TOOL, 'verif-cover')
    sys.monitoring.register_callback(TOOL, sys.monitoring.events.LINE, on_line)
    sys.monitoring.set_events(TOOL, sys.monitoring.events.LINE)
    per = {}
    for p in props:
        before = {f: set(v) for f, v in hit.items()}
        mod = importlib.import_module('props.' + p.lower())
        ctx = common.Ctx(p, 'quick', 0); ctx.drv = common.Driver()
        try:
            mod.run(ctx)
        except Exception as e:
            print(p, 'runner raised', type(e).__name__, e)
        ctx.drv.close()
        sys.monitoring.restart_events()
        per[p] = sum(len(hit.get(f, set()) - before.get(f, set())) for f in hit)
        print(p, 'new lines', per[p], 'cases', ctx.evaluations, flush=True)
    sys.monitoring.set_events(TOOL, 0)
    report = {}
    for f in sorted(os.listdir(PKG)):
        if not f.endswith('.py'): continue
        path = PKG + f
        ex = executable_lines(path); got = hit.get(path, set())
        miss = sorted(ex - got)
        report[f] = {'executable': len(ex), 'hit': len(ex & got), 'missed': miss}
        print(f'{f}: {len(ex & got)}/{len(ex)}  missed: {miss}')
    json.dump({'props': props, 'per_property_new_lines': per, 'modules': report}, open(os.path.join(common.ROOT, 'findings', 'coverage.json'), 'w'), indent=1)


if __name__ == '__main__':
    main()
