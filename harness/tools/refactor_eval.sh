#!/bin/sh
# harness/tools/refactor_eval.sh <worktree> <patch> : apply a behaviour-preserving patch in a scratch worktree and run every
# quick check against that worktree (VERIF_REPO); prints one line per check; the worktree is restored afterwards
wt=$1; patch=$2
cd "$(dirname "$0")/../.." || exit 2
git -C "$wt" checkout -q -- . && git -C "$wt" apply "$patch" || { echo "patch does not apply"; exit 2; }
export VERIF_REPO="$wt"
./check C01 --seed 0 >/dev/null 2>&1   # one build first (tables regenerated from the worktree), then the rest in parallel
printf '%s\n' C01 C02 C03 C04 C05 C06 C07 C08 C09 C10 C11 C12 C13 C14 C15 C16 C17 C18 C19 C20 | \
  xargs -P 10 -I{} sh -c './check {} --seed 0 2>&1 | grep -E "^(VIOLATION|C[0-9][0-9] \[)" | cut -c1-220; true'
git -C "$wt" checkout -q -- .
