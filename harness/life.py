"""Operation histories on DocxContent / DocxReader objects (C14, C15): the operations, canonical
values, measurement of which archive units an operation touches."""
import io, os, sys, hashlib, json, warnings, tempfile, shutil

VIEWS = ['header', 'footer', 'body', 'footnotes', 'endnotes', 'document']


def canon(x):
    """canonical JSON-able form of any returned value"""
    from docx2python.depth_collector import Par
    if isinstance(x, Par): return {'runs': list(x.run_strings), 'lin': list(x.lineage), 'style': x.style, 'lp': [x.list_position[0], list(x.list_position[1])]}
    if isinstance(x, (list, tuple)): return [canon(y) for y in x]
    if isinstance(x, dict): return {str(k): canon(v) for k, v in x.items()}
    if isinstance(x, bytes): return 'sha256:' + hashlib.sha256(x).hexdigest()
    if isinstance(x, (str, int, float, bool)) or x is None: return x
    if hasattr(x, 'tag'):
        from lxml import etree
        return 'xml:' + hashlib.sha256(etree.tostring(x)).hexdigest()
    if hasattr(x, 'path') and hasattr(x, 'Type'): return ['File', x.path, x.Type]
    return repr(type(x))


def vhash(x):
    return hashlib.sha256(json.dumps(canon(x), sort_keys=True, default=str).encode()).hexdigest()[:20]


# operations on a DocxContent object `d` ; each returns a value
def content_ops(tmpdir):
    ops = {}
    for v in VIEWS:
        for s in ('', '_runs', '_pars'):
            ops[v + s] = (lambda d, a=v + s: getattr(d, a))
    for a in ('text', 'html_map', 'images', 'core_properties', 'comments'):
        ops[a] = (lambda d, a=a: getattr(d, a))
    def save_images(d):
        t = tempfile.mkdtemp(dir=tmpdir)
        return d.save_images(os.path.join(t, 'img'))
    ops['save_images'] = save_images
    def save(d):
        t = tempfile.mkdtemp(dir=tmpdir); p = os.path.join(t, 'out.docx')
        try: d.docx_reader.save(p)
        finally: note_stray(t, {'out.docx'})
        import zipfile
        with zipfile.ZipFile(p) as z: return sorted(z.namelist())
    ops['save'] = save
    return ops


STRAY = []


def note_stray(folder, allowed):
    """files left beside the target of a save (temporary files of a failed or finished save)"""
    for f in os.listdir(folder):
        if f not in allowed: STRAY.append(os.path.join(os.path.basename(folder), f))


def open_fds():
    """descriptor -> target, for every descriptor of this process (the one used for listing aside)"""
    out = {}
    for f in os.listdir('/proc/self/fd'):
        try: out[f] = os.readlink('/proc/self/fd/' + f)
        except OSError: pass
    return out


def reader_ops(tmpdir):
    ops = {
        'files': lambda r: [(f.path, f.Type) for f in r.files],
        'numId2Attrs': lambda r: {k: [[a.fmt, a.start] if hasattr(a, 'fmt') else list(a) for a in v] for k, v in r.numId2Attrs.items()},
        'comments_elems': lambda r: list(r.comments),
        'main_root': lambda r: r.file_of_type('officeDocument').root_element,
        'main_rels': lambda r: r.file_of_type('officeDocument').rels,
        'main_content': lambda r: r.file_of_type('officeDocument').content,
        'all_text': lambda r: [f.text for f in r.content_files()],
        'images': lambda r: r.pull_image_files(None),
    }
    def save(r):
        t = tempfile.mkdtemp(dir=tmpdir); p = os.path.join(t, 'out.docx')
        try: r.save(p)
        finally: note_stray(t, {'out.docx'})
        import zipfile
        with zipfile.ZipFile(p) as z: return sorted(z.namelist())
    ops['save'] = save
    def write_images(r):
        t = tempfile.mkdtemp(dir=tmpdir)
        return r.pull_image_files(os.path.join(t, 'x', 'y'))
    ops['write_images'] = write_images
    return ops


class Spy:
    """logs every access to DocxReader.zipf together with the unit it serves"""
    def __enter__(self):
        from docx2python.docx_reader import DocxReader
        self.cls = DocxReader; self.orig = DocxReader.__dict__['zipf']; self.log = []
        spy = self
        def getter(rd):
            f = sys._getframe(1); name = f.f_code.co_name
            if name == 'root_element':
                # the cache is per File OBJECT: a part that is the target of two relationships has two of them
                fo = f.f_locals['self']; unit = ['root', '%s#%s@%s' % (fo.path, getattr(fo, 'Id', ''), getattr(fo, 'dir', ''))]
            elif name == 'files': unit = ['files']
            elif name == 'numId2Attrs': unit = ['num']
            else: unit = ['raw', name]
            spy.log.append(unit)
            return spy.orig.fget(rd)
        DocxReader.zipf = property(getter)
        return self
    def __exit__(self, *a):
        self.cls.zipf = self.orig


def make(kind, source, html=False, dup=True):
    from docx2python import docx2python
    from docx2python.docx_reader import DocxReader
    if kind == 'content': return docx2python(source, html=html, duplicate_merged_cells=dup)
    return DocxReader(source, html=html, duplicate_merged_cells=dup)


def reader_of(kind, obj): return obj.docx_reader if kind == 'content' else obj


def handle_open(rd):
    z = rd.__dict__.get('_DocxReader__zipf')
    return z is not None and z.fp is not None


def fresh_values(kind, data, ops, html=False, dup=True):
    """name -> (hash of the value a fresh object returns | 'err:Type', units touched)"""
    out = {}
    with warnings.catch_warnings():
        warnings.simplefilter('ignore')
        for name, f in ops.items():
            obj = make(kind, io.BytesIO(data), html, dup)
            with Spy() as spy:
                try: v = 'v:' + vhash(f(obj))
                except Exception as e: v = 'err:' + type(e).__name__
            units = []
            for u in spy.log:
                if u not in units: units.append(u)
            out[name] = (v, units)
            try: obj.close()
            except Exception: pass
    return out
