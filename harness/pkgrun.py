"""Shared driver for the package-based runners: stream of generated archives (+ real-file corpus),
implementation and model observations, replay payloads."""
import base64, glob, io, json, os, random, zipfile
import pk
from common import first_diff, jhash, REPO
from gen.docgen import make_package, profile

VIEWS = ['header', 'footer', 'body', 'footnotes', 'endnotes', 'document']


def case_payload(data, **kw):
    return {'archive_b64': base64.b64encode(data).decode(), **kw}


def case_data(case):
    return base64.b64decode(case['archive_b64'])


def corpus_files():
    out = []
    for f in sorted(glob.glob(os.path.join(REPO, 'tests', 'resources', '*.docx'))):
        try: zipfile.ZipFile(f).close()
        except Exception: continue
        out.append(f)
    return out


def stored_corpus(prop):
    """minimised past failures / disagreements kept under harness/corpus/<prop>/ (run first)"""
    d = os.path.join(os.path.dirname(os.path.abspath(__file__)), 'corpus', prop)
    return sorted(glob.glob(os.path.join(d, '*.json')))


def stream(ctx, prof, n, prefix='g'):
    for i in range(n):
        rng = random.Random(f'{ctx.prop}-{ctx.seed}-{prefix}-{i}')
        pkg, meta = make_package(rng, prof)
        for k, v in meta['stats'].items(): ctx.count('gen:' + k, v)
        for f in meta['features']: ctx.count('feature:' + f)
        yield pkg, meta, rng


def observe(ctx, data, opts=pk.OPTS, want=None):
    out = []
    for html, dup in opts:
        i, m = pk.both(ctx.drv, data, html, dup, want)
        out.append((html, dup, i, m))
    return out


def compare_keys(ctx, what, data, html, dup, i, m, keys, extra=None):
    """correspondence on a projection; an implementation exception where the model returns is charged to C13 only"""
    bad = False
    if i.get('<reread>'):
        bad = True
        ctx.fail('an attribute read a second time on the same object returns a different value', case_payload(data, html=html, dup=dup, **(extra or {})), i['<reread>'])
    for k in keys:
        a, b = i.get(k), m.get(k)
        if a is None or b is None: continue
        if 'err' in a and 'ok' in b and ctx.prop != 'C13':
            # whether the raise violates THIS property is the property's checker's business; the tie is broken in any case:
            # the model raises wherever the code at the pinned commit raises
            ctx.skipped_raises += 1; bad = True
            ctx.diff(f'{what}: {k}: the implementation raises where the model returns', case_payload(data, html=html, dup=dup, **(extra or {})), a, 'returns', path=k)
            break
        d = first_diff(a, b)
        if d:
            bad = True
            ctx.diff(f'{what}: {k}', case_payload(data, html=html, dup=dup, **(extra or {})), d[1], d[2], path=k + d[0])
            break
    return not bad


def nest_map(x, f):
    return [nest_map(y, f) for y in x] if isinstance(x, list) else f(x)


def flat(x, depth):
    if depth == 0: return [x]
    return [z for y in x for z in flat(y, depth - 1)]
