import json, subprocess, sys
DRIVER='/root/scratch/d2p/.lake/build/bin/d2pdriver'
def run_model(cases):
    inp='\n'.join(json.dumps(c) for c in cases)+'\n'
    r=subprocess.run([DRIVER],input=inp.encode(),capture_output=True)
    return [json.loads(l) for l in r.stdout.decode().splitlines()]
def norm_model(m, ords_by_member, files):
    """model elem ids are preorder ids within the member; map to [path, ordinal]"""
    return m
def first_diff(a,b,path=''):
    if type(a)!=type(b): return path, a, b
    if isinstance(a,dict):
        for k in sorted(set(a)|set(b)):
            if k not in a or k not in b: return path+'/'+k, a.get(k,'<missing>'), b.get(k,'<missing>')
            d=first_diff(a[k],b[k],path+'/'+k)
            if d: return d
        return None
    if isinstance(a,list):
        if len(a)!=len(b): return path+'/len', len(a), len(b)
        for i,(x,y) in enumerate(zip(a,b)):
            d=first_diff(x,y,f'{path}[{i}]')
            if d: return d
        return None
    return None if a==b else (path,a,b)
