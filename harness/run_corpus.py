import sys, glob, os, json, zipfile, time
sys.path.insert(0,'/root/scratch/harness')
from encode import encode_archive
from impl import observe
from hcorr import run_model, first_diff
def fix_elems(x, ords):
    if isinstance(x, dict):
        if 'copy' in x and 'elem' in x:
            x['elem']=None if x['copy'] or x['elem'] is None else ords.get(x['elem'])
        for v in x.values(): fix_elems(v, ords)
    elif isinstance(x, list):
        for v in x: fix_elems(v, ords)
def compare(data, html, dup, label, want=None):
    case,ords=encode_archive(data)
    case.update({"op":"package","html":html,"dup":dup})
    impl=observe(data, html, dup)
    return case, ords, impl
if __name__=='__main__':
    cases=[]; meta=[]
    for f in sorted(glob.glob('/repo/tests/resources/*.docx')):
        try: zipfile.ZipFile(f)
        except Exception: continue
        data=open(f,'rb').read()
        for html in (False,True):
            for dup in (True,False):
                c,o,i=compare(data,html,dup,os.path.basename(f)); cases.append(c); meta.append((os.path.basename(f),html,dup,o,i))
    t=time.time(); outs=run_model(cases); print('driver',round(time.time()-t,1),'s for',len(cases))
    bad=0
    for (name,html,dup,ords,impl),m in zip(meta,outs):
        fix_elems(m, ords)
        d=first_diff(impl,m)
        if d:
            bad+=1; print('DIFF',name,html,dup,d[0],'\n  impl',json.dumps(d[1])[:300],'\n  model',json.dumps(d[2])[:300])
    print('cases',len(cases),'bad',bad)
