"""Run the real docx2python (from the repository the harness points at) and return canonical,
JSON-able observations of every public attribute."""
import io, warnings
from encode import token
from lxml import etree


def _ord_map(root):
    return {e: i for i, e in enumerate(x for x in root.iter() if isinstance(x.tag, str) and f"{x.prefix}:{etree.QName(x.tag).localname}" == "w:p")}


def guard(f):
    try: return {"ok": f()}
    except Exception as e: return {"err": type(e).__name__}


_shimmed = False


def _shim_deepcopy():
    """Observation aid (this process only, nothing in the repository changes): `_close_table_cell` duplicates merged
    cells with `copy.deepcopy`; the copy of a paragraph that has no element (an implicit paragraph for inline content
    outside every w:p) cannot be told from the original by its content, so every Par that leaves a deepcopy made by
    docx_text is marked. Copies of ordinary paragraphs are recognised without the mark too (their element is a copy)."""
    global _shimmed
    if _shimmed: return
    _shimmed = True
    try:
        import copy as _copy
        from docx2python import docx_text
        from docx2python.depth_collector import Par

        def mark(x):
            if isinstance(x, list):
                for y in x: mark(y)
            elif isinstance(x, Par):
                try: x._verif_copy = True
                except Exception: pass

        class Shim:
            def __getattr__(self, n): return getattr(_copy, n)
            def deepcopy(self, x, memo=None):
                y = _copy.deepcopy(x, memo); mark(y); return y
        if getattr(docx_text, 'copy', None) is _copy: docx_text.copy = Shim()
    except Exception:
        pass


def par_json_factory(rd):
    from docx2python.depth_collector import Par
    _shim_deepcopy()
    ords = {}
    try:
        for f in rd.files_of_type():
            try: ords.update({e: (f.path, i) for e, i in _ord_map(f.root_element).items()})
            except Exception: pass
    except Exception: pass

    def pj(p):
        if not isinstance(p, Par): return {"?": type(p).__name__}
        cp = (p.elem is not None and p.elem not in ords) or (p.elem is None and p.lineage[1] == "") or getattr(p, '_verif_copy', False) is True
        return {"runs": p.run_strings, "lin": list(p.lineage), "style": p.style, "lp": [p.list_position[0], list(p.list_position[1])],
                "elem": None if (cp or p.elem is None) else list(ords[p.elem]),
                # whether a paragraph WITHOUT element is a copy cannot be told from its content (None = not observable); a Par that left
                # copy.deepcopy in docx_text carries the mark of _shim_deepcopy, an implementation that copies cells by other means does not
                "copy": True if cp else (None if p.elem is None else False), "anon": p.elem is None,
                "hs": list(p.html_style), "rs": [[list(r.html_style), r.text] for r in p.runs]}
    return pj


def nest(x, f):
    if isinstance(x, list): return [nest(y, f) for y in x]
    return f(x)


def strleaf(s): return s if isinstance(s, str) else {"?": type(s).__name__}


def observe(data: bytes, html: bool, dup: bool, want=None):
    from docx2python import docx2python
    _shim_deepcopy()
    out = {}
    W = set(want or ["pars", "runs", "plain", "text", "comments", "images", "core", "files"])
    with warnings.catch_warnings():
        warnings.simplefilter('ignore')
        try:
            d = docx2python(io.BytesIO(data), html=html, duplicate_merged_cells=dup)
        except Exception as e:
            return {"ctor": {"err": type(e).__name__}}
        rd = d.docx_reader
        pj = None
        for part in ["header", "footer", "body", "footnotes", "endnotes", "document"]:
            if "pars" in W:
                def pars():
                    nonlocal pj
                    v = getattr(d, part + "_pars")
                    if pj is None: pj = par_json_factory(rd)
                    return nest(v, pj)
                out[part + "_pars"] = guard(pars)
            if "runs" in W: out[part + "_runs"] = guard(lambda: nest(getattr(d, part + "_runs"), strleaf))
            if "plain" in W: out[part] = guard(lambda: nest(getattr(d, part), strleaf))
        if "text" in W: out["text"] = guard(lambda: d.text)
        if "comments" in W: out["comments"] = guard(lambda: [list(c) for c in d.comments])
        if "images" in W: out["images"] = guard(lambda: [[k, token(v)] for k, v in d.images.items()])
        if "core" in W: out["core"] = guard(lambda: [[k, v] for k, v in d.core_properties.items()])
        if "files" in W: out["files"] = guard(lambda: [[f.path, f.Type, f.Id, f.Target] for f in rd.files])
        # the same reads once more on the same object (C14: a read is not changed by earlier reads)
        again = {}
        if "comments" in W: again["comments"] = guard(lambda: [list(c) for c in d.comments])
        if "text" in W: again["text"] = guard(lambda: d.text)
        if "core" in W: again["core"] = guard(lambda: [[k, v] for k, v in d.core_properties.items()])
        if "images" in W: again["images"] = guard(lambda: [[k, token(v)] for k, v in d.images.items()])
        for part in ["header", "body", "document"]:
            if "plain" in W: again[part] = guard(lambda: nest(getattr(d, part), strleaf))
            if "runs" in W: again[part + "_runs"] = guard(lambda: nest(getattr(d, part + "_runs"), strleaf))
        changed = sorted(k for k, v in again.items() if v != out.get(k))
        if changed: out["<reread>"] = {"attributes": changed, "first": str(out.get(changed[0]))[:300], "second": str(again[changed[0]])[:300]}
        try: d.close()
        except Exception: pass
    return out


# C02_post_part, on the implementation: with duplicate_merged_cells=False the records of a part are the w:p elements the walk
# descends to (nothing below hyperlinks, equations and comment markers), each once, in the order of their closing tags
NO_DESCENT = {'w:hyperlink', 'm:oMath', 'w:commentRangeStart', 'w:commentRangeEnd'}


def _ptag(e): return f"{e.prefix}:{etree.QName(e.tag).localname}"


def _post(e, out):
    if not isinstance(e.tag, str): return
    t = _ptag(e)
    if t not in NO_DESCENT:
        for k in e: _post(k, out)
    if t == 'w:p': out.append(e)


def _pre(e, out):
    if not isinstance(e.tag, str): return
    t = _ptag(e)
    if t == 'w:p': out.append(e)
    if t not in NO_DESCENT:
        for k in e: _pre(k, out)


def closing_order(data: bytes, dup: bool = False):
    """with dup=True the copies that fill merged cells (records whose element is not an element of the part) are skipped;
    {'types': {type: {'expected': [[path, k]...], 'got': [...]}}, 'paths': {path: {'post': [[path, k]...], 'flat': bool}}} or {'err': ...}"""
    from docx2python import docx2python
    from docx2python.depth_collector import Par
    out = {'types': {}, 'paths': {}}
    with warnings.catch_warnings():
        warnings.simplefilter('ignore')
        try:
            d = docx2python(io.BytesIO(data), html=False, duplicate_merged_cells=dup)
        except Exception as e:
            return {'err': type(e).__name__}
        try:
            rd = d.docx_reader
            for ty, attr in (('header', 'header_pars'), ('officeDocument', 'body_pars'), ('footer', 'footer_pars'),
                             ('footnotes', 'footnotes_pars'), ('endnotes', 'endnotes_pars')):
                exp, ords = [], {}
                for f in rd.files_of_type(ty):
                    om = _ord_map(f.root_element)
                    ords.update({e: [f.path, k] for e, k in om.items()})
                    po, pr = [], []
                    _post(f.root_element, po); _pre(f.root_element, pr)
                    leaves = []
                    for e in pr:
                        sub = []
                        for k in e: _post(k, sub)
                        if not sub: leaves.append(e)
                    out['paths'][f.path] = {'post': [[f.path, om[e]] for e in po], 'flat': leaves == pr}
                    exp += [[f.path, om[e]] for e in po]
                got = []

                def flat(x):
                    if isinstance(x, list):
                        for y in x: flat(y)
                    elif isinstance(x, Par):
                        if x.elem is not None and (x.elem in ords or not dup): got.append(ords.get(x.elem, ['?', -1]))
                    else: got.append(['?' + type(x).__name__, -1])
                flat(getattr(d, attr))
                out['types'][ty] = {'expected': exp, 'got': got}
        except Exception as e:
            out = {'err': type(e).__name__ + ': ' + str(e)[:120]}
        try: d.close()
        except Exception: pass
    return out

