import sys, json, time, random
sys.path.insert(0,'/root/scratch/harness'); sys.path.insert(0,'/root/scratch')
from encode import encode_archive
from impl import observe
from hcorr import run_model, first_diff
from run_corpus import fix_elems
seed=int(sys.argv[1]); N=int(sys.argv[2])
# reuse the crash-fuzz grammar
src=open('/root/scratch/fz5.py').read().split("ATTRS=[")[0]
sys.argv=['fz5.py',str(seed),'0']
g={}; exec(src, g)
package=g['package']
cases=[]; meta=[]
for i in range(N):
    b,body=package(); data=b.getvalue()
    for html,dup in ((False,True),(True,True),(False,False),(True,False)):
        c,ords=encode_archive(data); c.update({"op":"package","html":html,"dup":dup})
        cases.append(c); meta.append((body,html,dup,ords,observe(data,html,dup)))
t=time.time(); outs=run_model(cases); dt=time.time()-t
bad=0; errs={}
for (body,html,dup,ords,impl),m in zip(meta,outs):
    fix_elems(m, ords)
    for k,v in impl.items():
        if 'err' in v: errs[v['err']]=errs.get(v['err'],0)+1
    d=first_diff(impl,m)
    if d:
        bad+=1
        if bad<=3: print('DIFF html',html,'dup',dup,d[0],'\n  impl',json.dumps(d[1])[:400],'\n  model',json.dumps(d[2])[:400],'\n',body[:1500])
print('cases',len(cases),'bad',bad,'driver',round(dt,1),'s','impl errors',errs)
