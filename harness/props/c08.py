"""C08 — list markers follow Word's counting rules and render numbers correctly."""
import random, re
import pk, src
from common import jhash, first_diff, guard
from pkgrun import *
from gen.probes import docx, p, r, tbl, tr, tc, NS

RULE = ('(a) the four renderers on EVERY ordinal -3..4100 (Roman) and -3..18400 (letters: all up-to-three-letter ordinals) plus random larger '
        'ones, against an independent reference and against the model; (b) list histories: 5-60 paragraphs over list ids 1-3 and an undefined '
        'id, levels 0-8, interleaved with plain paragraphs and tables, in body and header, numbering definitions over the six formats plus '
        'unknown ones, with / without start values (0, 1, 5, 27), missing numbering part / definitions; checker: marker = tabs + rendering of '
        '(start + items of that list and level since the latest shallower item) + ")" + tab, list_position = open counters; '
        'non-trivial = history with at least 2 levels and 6 list items; distinct by hash')
FMTS = ['decimal', 'lowerLetter', 'upperLetter', 'lowerRoman', 'upperRoman', 'bullet', 'ordinal', 'none', None]


def ref_letter(n):
    s = ''
    while n > 0:
        n, rem = divmod(n - 1, 26); s = chr(97 + rem) + s
    return s


def ref_roman(n):
    out = ''
    for v, s in [(1000, 'm'), (900, 'cm'), (500, 'd'), (400, 'cd'), (100, 'c'), (90, 'xc'), (50, 'l'), (40, 'xl'), (10, 'x'), (9, 'ix'), (5, 'v'), (4, 'iv'), (1, 'i')]:
        while n >= v: out += s; n -= v
    return out


def renderers(ctx):
    from docx2python import numbering_formats as nums
    top_l, top_r = (18400, 4100) if ctx.quick else (60000, 12000)
    ns = list(range(-3, top_l)) + [ctx.rng.randrange(top_l, 10 ** 7) for _ in range(60)]
    asks = []; impls = []
    for n in ns:
        impl = {'lower_letter': guard(lambda: nums.lower_letter(n)), 'upper_letter': guard(lambda: nums.upper_letter(n)), 'decimal': nums.decimal(n)}
        roman = n < top_r or (n % 4999 == 0 and n < 10 ** 5)
        if roman: impl.update({'lower_roman': guard(lambda: nums.lower_roman(n)), 'upper_roman': guard(lambda: nums.upper_roman(n))})
        asks.append({'op': 'render', 'n': n, 'roman': roman}); impls.append(impl)
        # the property on the implementation
        if n < 1:
            for k, v in impl.items():
                if k != 'decimal' and v != {'err': 'ValueError'}: ctx.fail(f'{k} does not reject an ordinal below one', {'renderer': k, 'n': n}, v)
        else:
            want = {'lower_letter': ref_letter(n), 'upper_letter': ref_letter(n).upper(), 'decimal': str(n)}
            if roman: want.update({'lower_roman': ref_roman(n), 'upper_roman': ref_roman(n).upper()})
            for k, w in want.items():
                got = impl[k] if k == 'decimal' else impl[k].get('ok')
                if got != w: ctx.fail(f'{k} renders an ordinal incorrectly', {'renderer': k, 'n': n}, impl[k], w)
    ms = ctx.drv.ask_many(asks)
    for n, impl, m in zip(ns, impls, ms):
        ctx.evaluations += 1
        if m != impl: ctx.diff('number renderers', {'n': n}, impl, m)
        else: ctx.validated += 1
    ctx.count('renderer ordinals', len(ns))
    ctx.sample({'n': 3888, 'impl': impls[ns.index(3888)]})


def gen_history(rng):
    """returns (archive bytes, meta)"""
    nlev = rng.choice([1, 3, 9])
    def lvl(i):
        st = rng.choice([None, None, 1, 0, 5, 27, 3999]); fm = rng.choice(FMTS)
        return (st, fm)
    absn = {a: [lvl(i) for i in range(rng.choice([0, 1, 3, 9, 9]))] for a in (0, 1)}
    nums = {'1': 0, '2': 1}
    has_num = rng.random() < 0.88
    xml = ''
    for a, ls in absn.items():
        xml += f'<w:abstractNum w:abstractNumId="{a}">' + ''.join(
            f'<w:lvl w:ilvl="{i}">' + (f'<w:start w:val="{st}"/>' if st is not None else '') + (f'<w:numFmt w:val="{fm}"/>' if fm else '') + '<w:lvlText w:val="%1."/></w:lvl>'
            for i, (st, fm) in enumerate(ls)) + '</w:abstractNum>'
    malformed = rng.random() < 0.04
    if malformed: xml += '<w:abstractNum w:abstractNumId="5"><w:lvl w:ilvl="0">' + rng.choice(['<w:start/>', '<w:numFmt/>']) + '</w:lvl></w:abstractNum>'
    xml += '<w:num w:numId="1"><w:abstractNumId w:val="0"/></w:num><w:num w:numId="2"><w:abstractNumId w:val="1"/></w:num>'
    # a second list on definition 0 that overrides its start: the override is not "the level's configured start value" of list 1
    share = has_num and rng.random() < 0.4
    if share:
        xml += '<w:num w:numId="4"><w:abstractNumId w:val="0"/><w:lvlOverride w:ilvl="0"><w:startOverride w:val="7"/></w:lvlOverride></w:num>'; nums['4'] = 0
    k3 = rng.random()
    if k3 < 0.3: xml += '<w:num w:numId="3"/>'
    elif k3 < 0.55: xml += '<w:num w:numId="3"><w:abstractNumId w:val="7"/></w:num>'      # refers to a definition that does not exist: list 3 alone is undefined
    tok = [0]
    def item():
        tok[0] += 1
        k = rng.random()
        if k < 0.7:
            nid = rng.choice(['1', '1', '2', '2', '3', '77'] + (['4', '4'] if share else []))
            lv = rng.choice([0, 0, 0, 1, 1, 2, 3, 8]) if rng.random() < 0.7 else rng.randint(0, 8)
            return p(r(f'«{tok[0]}»item'), ppr=f'<w:numPr><w:ilvl w:val="{lv}"/><w:numId w:val="{nid}"/></w:numPr>')
        if k < 0.9:
            # a paragraph that WAS a list item (tracked change: the old numbering sits below w:pPrChange) is not one
            was = '<w:pPrChange w:id="1" w:author="a"><w:pPr><w:numPr><w:ilvl w:val="0"/><w:numId w:val="1"/></w:numPr></w:pPr></w:pPrChange>' if rng.random() < 0.3 else None
            return p(r(f'«{tok[0]}»plain'), ppr=was) if was else p(r(f'«{tok[0]}»plain'))
        tok[0] += 1
        return tbl(tr(tc(p(r(f'«{tok[0] - 1}»cell'), ppr='<w:numPr><w:ilvl w:val="0"/><w:numId w:val="1"/></w:numPr>')), tc(p(r(f'«{tok[0]}»c2')))))
    n = rng.choice([5, 10, 20, 60]) if rng.random() < 0.9 else 300
    body = ''.join(item() for _ in range(n))
    hdr = ''.join(item() for _ in range(rng.randint(0, 6)))
    parts = {'header1.xml': ('header', '<w:hdr NS>' + hdr + '</w:hdr>')} if hdr else {}
    data = docx(body, numbering=xml if has_num else None, parts=parts)
    return data, {'absn': absn, 'nums': nums if has_num else {}, 'n': n, 'malformed_definition': malformed and has_num}


def expected_markers(pars, meta):
    """pars: ParInfo list of one part in document order -> list of (marker or None, list_position)"""
    hist = []; out = []
    for q in pars:
        if not q.is_list: out.append((None, [None, []])); continue
        L, l = q.numId, q.ilvl
        try: li = int(l)
        except ValueError: out.append(('?', None)); continue
        # the ordinal, straight from the statement
        last_shallower = max([k for k, (L2, l2) in enumerate(hist) if L2 == L and int(l2) < li], default=-1)
        count = sum(1 for k, (L2, l2) in enumerate(hist) if k > last_shallower and L2 == L and l2 == l)
        hist.append((L, l))
        levels = meta['absn'].get(meta['nums'].get(L)) if L in meta['nums'] else None
        attr = levels[li] if levels is not None and li < len(levels) else None
        start = attr[0] if attr and attr[0] is not None else 1
        fmt = attr[1] if attr else None
        ordinal = start + count
        fn = {'decimal': str, 'lowerLetter': ref_letter, 'upperLetter': lambda n: ref_letter(n).upper(), 'lowerRoman': ref_roman, 'upperRoman': lambda n: ref_roman(n).upper()}.get(fmt)
        if fn is None: mk = '--'
        elif ordinal < 1 and fmt != 'decimal': mk = None       # rendering of an ordinal below one is not specified
        else: mk = fn(ordinal) + ')'
        # open counters: levels of this list that have an item since the latest shallower one, up to this level
        counters = {}
        for (L2, l2) in hist:
            if L2 != L: continue
            counters[l2] = counters.get(l2, 0) + 1
            for k in [k for k in counters if k > l2]: del counters[k]      # single digits: string order = numeric order
        out.append((None if mk is None else '\t' * li + mk + '\t', [L, [counters[k] for k in sorted(counters)]]))
    return out


def one(ctx, data, meta):
    ctx.evaluations += 1; good = True
    parts = src.parts_of(data)
    i, m = pk.both(ctx.drv, data, False, True, want=['pars'])
    case = case_payload(data, html=False, dup=True, meta={'n': meta['n']})
    for attr, path in (('body', 'word/document.xml'), ('header', 'word/header1.xml')):
        if path not in parts: continue
        a, b = i.get(attr + '_pars'), m.get(attr + '_pars')
        if 'ok' not in a:
            ctx.skipped_raises += 1
            if 'ok' in (b or {}): ctx.diff(f'{attr}_pars: the implementation raises where the model returns', case, a, 'returns'); good = False
            continue
        recs = flat(a['ok'], 4)
        obs = lambda rs: [{'first': (x['runs'] or [''])[0] if x['runs'] else '', 'lp': x['lp']} for x in rs]
        if 'ok' in b:
            d = first_diff(obs(recs), obs(flat(b['ok'], 4)))
            if d: ctx.diff(f'list markers / list_position of {attr}_pars', case, d[1], d[2], path=d[0]); good = False
        else: ctx.diff(f'{attr}_pars: model raises', case, 'returns', b); good = False
        sp = src.paragraphs(parts[path], path)
        if meta.get('malformed_definition'): continue       # a level without w:val is not schema-valid: the statement does not say what the markers are (tie only)
        want = expected_markers(sp, meta)
        byelem = {tuple(x['elem']): x for x in recs if x.get('elem')}
        for q, (mk, lp) in zip(sp, want):
            x = byelem.get((path, q.k))
            if x is None: continue
            text = ''.join(x['runs'])
            c = {**case, 'attribute': attr, 'paragraph': q.k}
            if mk == '?': continue
            if mk is None and not q.is_list:
                if not text.startswith('«'): ctx.fail('a paragraph that is not a list item starts with something other than its text', c, text[:60]); good = False
            elif mk is not None:
                if not text.startswith(mk + '«'):
                    ctx.fail('list marker differs from tabs + rendering(start + items since the latest shallower item) + ")" + tab', c, {'text': text[:60], 'expected_marker': mk}); good = False
            if lp is not None and q.is_list and x['lp'] != lp:
                ctx.fail('list_position is not (list id, counters of the open levels)', c, {'got': x['lp'], 'expected': lp}); good = False
    # counted separately per part and not advanced by re-reading
    import io, warnings
    from docx2python import docx2python
    with warnings.catch_warnings():
        warnings.simplefilter('ignore')
        try:
            with docx2python(io.BytesIO(data)) as d:
                a1 = d.body; _ = d.body_runs; _ = d.text; a2 = d.body
                if a1 != a2: ctx.fail('list numbering advanced on re-reading', case, {'first': str(a1)[:200], 'second': str(a2)[:200]}); good = False
        except Exception: ctx.skipped_raises += 1
    if good: ctx.validated += 1
    return good


def run(ctx):
    from gen.probes import probes
    renderers(ctx)
    for name, data in probes('C08'):
        ctx.count('probe'); one(ctx, data, {'absn': {0: [(0, 'decimal'), (0, 'lowerLetter')]}, 'nums': {'1': 0}, 'n': 3})
    n = 80 if ctx.quick else 6000
    for k in range(n):
        rng = random.Random(f'C08-{ctx.seed}-{k}')
        data, meta = gen_history(rng)
        one(ctx, data, meta); ctx.count('history-length:%d' % meta['n'])
        parts = src.parts_of(data)
        sp = src.paragraphs(parts['word/document.xml'], '')
        if len({q.ilvl for q in sp if q.is_list}) >= 2 and sum(q.is_list for q in sp) >= 6: ctx.nontrivial(jhash(data.hex()))
        if k % 30 == 0: ctx.sample({'levels': [(q.numId, q.ilvl) for q in sp if q.is_list][:40], 'definitions': str(meta['absn'])[:300]})
    ctx.rule = RULE


def replay(ctx, rep):
    c = rep.get('case') or (rep.get('first_difference') or {}).get('case')
    if 'archive_b64' not in c:
        from docx2python import numbering_formats as nums
        n = c['n']; impl = {'lower_letter': guard(lambda: nums.lower_letter(n)), 'upper_letter': guard(lambda: nums.upper_letter(n)), 'decimal': nums.decimal(n),
                            'lower_roman': guard(lambda: nums.lower_roman(n)), 'upper_roman': guard(lambda: nums.upper_roman(n))}
        m = ctx.drv.ask({'op': 'render', 'n': n, 'roman': True}); ctx.evaluations += 1
        if m != impl: ctx.diff('number renderers', {'n': n}, impl, m)
        if n >= 1:
            for k, w in {'lower_letter': ref_letter(n), 'lower_roman': ref_roman(n)}.items():
                if impl[k].get('ok') != w: ctx.fail(f'{k} renders an ordinal incorrectly', {'renderer': k, 'n': n}, impl[k], w)
    else:
        data = case_data(c); parts = src.parts_of(data)
        # numbering definitions are re-read from the archive
        meta = {'absn': {}, 'nums': {}, 'n': 0}
        nr = parts.get('word/numbering.xml')
        if nr is not None:
            for a in nr:
                if src.ptag(a) == 'w:abstractNum':
                    ls = []
                    for l in a:
                        if src.ptag(l) != 'w:lvl': continue
                        st = src.child(l, 'w:start'); fm = src.child(l, 'w:numFmt')
                        if (st is not None and src.wval(st) is None) or (fm is not None and src.wval(fm) is None): meta['malformed_definition'] = True; continue
                        ls.append((int(src.wval(st)) if st is not None else None, src.wval(fm) if fm is not None else None))
                    meta['absn'][int(src.wval(a, 'abstractNumId'))] = ls
                elif src.ptag(a) == 'w:num':
                    ab = src.child(a, 'w:abstractNumId')
                    if ab is not None: meta['nums'][src.wval(a, 'numId')] = int(src.wval(ab))
        one(ctx, data, meta)
    ctx.rule = 'replay of one stored case'
