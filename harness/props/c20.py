"""C20 — iterator helpers enumerate every item once, in order, with valid addresses."""
import copy, itertools
from common import guard, jhash

RULE = ('random ragged nested lists (widths 0-4; with probability 1/4 ONE level is 50-1000 wide), requested depths 1-5 and '
        'out-of-range ones, leaves that are strings / non-list objects above the requested depth; all ten public helpers and '
        'get_html_map; non-trivial = more than 3 items yielded; distinct by structural hash of (value, depth)')


def gen_nested(rng, depth, wide_level=None, odd=0.0):
    if depth == 0: return rng.choice(['a', 'bc', '', 'é', 'x<y'])
    if odd and rng.random() < odd: return rng.choice(['str', 7, None, 'q'])
    if wide_level == depth: w = rng.choice([50, 300, 1000])
    elif wide_level is not None: w = rng.choice([1, 1, 2])
    else: w = rng.choice([0, 1, 2, 3, 4])
    return [gen_nested(rng, depth - 1, wide_level, odd) for _ in range(w)]


def all_addrs(x, k):
    """every valid index path of length k — the specification, independent of the code under test"""
    if k == 0: return [()]
    return [(i,) + r for i, y in enumerate(x) for r in all_addrs(y, k - 1)]


def all_small(maxnodes):
    """all nested lists (string leaves 'a') with at most maxnodes nodes — exhaustive small scope"""
    from functools import lru_cache
    @lru_cache(None)
    def trees(n):     # forests with exactly n nodes
        if n == 0: return [()]
        out = []
        for k in range(1, n + 1):      # first tree has k nodes
            for first in tree(k):
                for rest in trees(n - k): out.append((first,) + rest)
        return out
    @lru_cache(None)
    def tree(k):
        if k == 1: return ['a', ()]
        return [f for f in trees(k - 1) if f != ()]   # list node + k-1 nodes below
    def tolist(t): return t if isinstance(t, str) else [tolist(x) for x in t]
    for n in range(maxnodes + 1):
        for f in trees(n): yield [tolist(t) for t in f]


def one(ctx, it, v, ask, label):
    drv = ctx.drv
    impl = {'enum': guard(lambda: [[list(a), x] for a, x in it.enum_at_depth(v, ask)]), 'iter': guard(lambda: list(it.iter_at_depth(v, ask)))}
    m = drv.ask({'op': 'enum', 'v': v, 'depth': ask}); ctx.evaluations += 1
    ctx.count(f'depth={ask}'); ctx.count(label)
    case = {'v': v, 'depth': ask}
    if m != impl: ctx.diff('enum_at_depth / iter_at_depth', case, impl, m)
    else: ctx.validated += 1
    if 'err' in impl['enum']: ctx.count('err:' + impl['enum']['err'])
    if 1 <= ask <= 5 and 'ok' in impl['enum']:
        pairs = impl['enum']['ok']; addrs = [tuple(a) for a, _ in pairs]
        ok = True
        try: want = all_addrs(v, ask)
        except TypeError: want = None
        if want is not None:
            ok = addrs == want and addrs == sorted(set(addrs))
            for a, x in pairs:
                y = v
                try:
                    for k in a: y = y[k]
                except (IndexError, TypeError): ok = False; break
                ok = ok and (y is x or y == x)
            if not ok: ctx.fail('enum_at_depth: missing / repeated / unordered / invalid addresses', case, impl['enum'])
        if impl['iter'].get('ok') != [x for _, x in pairs]:
            ctx.fail('iter_at_depth is not the projection of enum_at_depth', case, impl)
        # the eight wrappers
        names = {1: 'tables', 2: 'rows', 3: 'cells', 4: 'paragraphs'}
        if ask in names:
            w = {'enum': guard(lambda: [[list(a), x] for a, x in getattr(it, 'enum_' + names[ask])(v)]), 'iter': guard(lambda: list(getattr(it, 'iter_' + names[ask])(v)))}
            if w != impl: ctx.fail(f'enum_{names[ask]} / iter_{names[ask]} differ from the depth-{ask} instance', case, w, impl)
        if len(pairs) > 3: ctx.nontrivial(jhash(case))
    elif not (1 <= ask <= 5):
        if impl['enum'] != {'err': 'ValueError'} or impl['iter'] != {'err': 'ValueError'}:
            ctx.fail('out-of-range depth does not raise ValueError', case, impl)
    if ctx.evaluations % 97 == 1: ctx.sample({'v': v if len(str(v)) < 300 else str(v)[:300] + '...', 'depth': ask, 'impl': str(impl)[:300]})


def html_map(ctx, it, v):
    """get_html_map: argument unchanged, every paragraph address mentioned exactly once"""
    import re
    before = copy.deepcopy(v)
    r = guard(lambda: it.get_html_map(v)); ctx.evaluations += 1; ctx.count('html_map')
    case = {'v': v, 'fn': 'get_html_map'}
    if v != before: ctx.fail('get_html_map modified its argument', {'v': before, 'fn': 'get_html_map'}, v)
    if 'ok' in r:
        found = re.findall(r'<pre>\((\d+), (\d+), (\d+), (\d+)\)', r['ok'])
        want = [tuple(str(i) for i in a) for a in all_addrs(before, 4)]
        if [tuple(f) for f in found] != want: ctx.fail('html map does not mention every paragraph address exactly once, in order', case, r['ok'][:500], want[:20])
        else: ctx.validated += 1
        if len(want) > 3: ctx.nontrivial(jhash(case))
    else: ctx.fail('get_html_map raised on a 4-deep list', case, r)


def run(ctx):
    from docx2python import iterators as it
    rng = ctx.rng
    n = 500 if ctx.quick else 20000
    for i in range(n):
        d = rng.choice([1, 2, 3, 4, 5]); dd = min(5, d + rng.choice([0, 0, 0, 1]))
        wide = (dd if rng.random() < 0.5 else rng.randint(1, dd)) if rng.random() < 0.25 else None
        v = gen_nested(rng, dd, wide, odd=0.0 if rng.random() < 0.85 else 0.15)
        ask = rng.choice([d, d, d, d, 0, 6, -1, 7, 100]) if rng.random() < 0.2 else d
        one(ctx, it, v, ask, 'wide' if wide else 'narrow')
    for i in range(60 if ctx.quick else 1500):
        html_map(ctx, it, gen_nested(rng, 4, rng.choice([None, None, None, 1, 2, 3, 4])))
    if not ctx.quick:
        k = 0
        for v in all_small(8):
            for d in (1, 2, 3, 4, 5): one(ctx, it, v, d, 'exhaustive<=8'); k += 1
        ctx.notes.append(f'exhaustive: all nested lists with at most 8 nodes x depths 1..5 = {k} cases')
        ctx.exhaustive = True
    ctx.rule = RULE


def replay(ctx, rep):
    from docx2python import iterators as it
    c = rep.get('case') or (rep.get('first_difference') or {}).get('case')
    if c.get('fn') == 'get_html_map': html_map(ctx, it, c['v'])
    else: one(ctx, it, c['v'], c['depth'], 'replay')
    ctx.rule = 'replay of one stored case'
