"""C09 — parts are found through package relationships, not file names."""
import random
import pk, src
from common import jhash, first_diff
from pkgrun import *
from gen.relocate import relocate

PROF = profile(tokens=True, p_numbering=0.0, p_header=0.7, p_footer=0.6, p_footnotes=0.8, p_endnotes=0.6, p_comments=0.7, p_core=0.7,
               p_link=0.15, p_drawing=0.1, blocks=(1, 4))
RULE = ('a generated package and 2 relocated versions of it: every part renamed and moved to a directory at or below that of the part referring '
        'to it (never the archive root), targets rewritten as relative or package-absolute, relationship ids re-numbered independently per part '
        '(the same id means different things in different parts), member order shuffled; checker: every attribute (six views, comments, core '
        'properties, images) of the relocated package equals that of the original, files resolve to existing members; correspondence: '
        'DocxReader.files (path, type) and the views, model vs implementation; non-trivial = at least 3 related content parts; distinct by hash')
KEYS = VIEWS + [v + '_runs' for v in VIEWS] + ['comments', 'core', 'images', 'text']


def one(ctx, data, meta=None, seed=0, nvar=2):
    ctx.evaluations += 1; good = True
    i0, m0 = pk.both(ctx.drv, data, False, True, want=['plain', 'runs', 'comments', 'core', 'images', 'text', 'files'])
    if not compare_keys(ctx, 'attributes / files', data, False, True, i0, m0, KEYS + ['files']): good = False
    def core_by_relationship(i, d, label):
        # core properties come from the part RELATED as core-properties; without that relationship: an empty dict
        if 'ok' in i.get('files', {}) and 'ok' in i.get('core', {}) and not any(ty == 'core-properties' for _p, ty, _i, _t in i['files']['ok']) and i['core']['ok']:
            ctx.fail('core properties are returned although no part is related as core-properties (a member found by its file name?)', case_payload(d, html=False, dup=True, variant=label),
                     {'core_properties': i['core']['ok']}); return False
        return True
    if not core_by_relationship(i0, data, 'original'): good = False
    rng = random.Random(seed)
    for k in range(nvar):
        try: vd, moved = relocate(rng, data)
        except Exception as e:
            ctx.notes.append('relocation failed: ' + repr(e)[:100]); continue
        iv, mv = pk.both(ctx.drv, vd, False, True, want=['plain', 'runs', 'comments', 'core', 'images', 'text', 'files'])
        case = case_payload(vd, html=False, dup=True, original_b64=case_payload(data)['archive_b64'], moved=moved)
        if not compare_keys(ctx, 'attributes / files (relocated)', vd, False, True, iv, mv, KEYS + ['files'], {'moved': moved}): good = False
        ctx.count('relocated parts', len(moved))
        if not core_by_relationship(iv, vd, 'relocated'): good = False
        for key in KEYS:
            a, b = i0.get(key), iv.get(key)
            if a is None or b is None or 'ok' not in a: continue
            if key == 'images' and 'ok' in b: a, b = {'ok': sorted(a['ok'])}, {'ok': sorted(b['ok'])}      # a dict: order is not part of the value
            if a != b:
                d = first_diff(a, b)
                ctx.fail('renaming / relocating parts (relationships updated) changes an extracted value', {**case, 'attribute': key},
                         {'where': d[0], 'original': d[1], 'relocated': d[2]}); good = False; break
        if 'ok' in iv.get('files', {}):
            import io, zipfile
            names = set(zipfile.ZipFile(io.BytesIO(vd)).namelist())
            for path, ty, _id, tg in iv['files']['ok']:
                if ty in ('officeDocument', 'header', 'footer', 'footnotes', 'endnotes', 'comments', 'core-properties') and path not in names:
                    ctx.fail('a related part is resolved to a path that is not a member of the archive', {**case, 'type': ty}, {'resolved': path, 'target': tg}); good = False
        if len(moved) >= 3: ctx.nontrivial(jhash([jhash(data.hex()), sorted(moved.items())]))
    if good: ctx.validated += 1
    return good


def run(ctx):
    from gen.probes import probes
    for name, data in probes('C09'):
        ctx.count('probe')
        i, m = pk.both(ctx.drv, data, False, True, want=['plain', 'files']); ctx.evaluations += 1
        compare_keys(ctx, 'attributes / files (probe)', data, False, True, i, m, VIEWS + ['files'])
        if name == 'P46-footers-whose-numbers-differ-in-length':
            # several parts of one kind feed the attribute in PATH order: "word/footer10.xml" < "word/footer2.xml"
            ft = str(i.get('footer', {}).get('ok'))
            if not ('«3»' in ft and '«2»' in ft and ft.index('«3»') < ft.index('«2»')):
                ctx.fail('parts of one kind do not feed the attribute in path order', case_payload(data), i.get('footer'), {'expected order': ['word/footer10.xml', 'word/footer2.xml']}, features=['path-order'])
        if name == 'P16-word-word':
            if 'head-in-word-word' not in str(i.get('header', {}).get('ok')):
                ctx.fail('a related part is resolved to a path that is not a member of the archive', case_payload(data), i['header'], features=['target-begins-with-referring-directory'])
    n = 50 if ctx.quick else 4000
    for pkg, meta, rng in stream(ctx, PROF, n):
        one(ctx, pkg.to_bytes(), meta, seed=rng.getrandbits(32))
        if ctx.evaluations % 20 == 1: ctx.sample({'members': [n for n, _ in pkg.members]})
    ctx.rule = RULE


def replay(ctx, rep):
    c = rep.get('case') or (rep.get('first_difference') or {}).get('case')
    import base64
    vd = case_data(c)
    if 'original_b64' in c:
        data = base64.b64decode(c['original_b64']); ctx.evaluations += 1
        i0, _ = pk.both(ctx.drv, data, False, True, want=['plain', 'runs', 'comments', 'core', 'images', 'text'])
        iv, mv = pk.both(ctx.drv, vd, False, True, want=['plain', 'runs', 'comments', 'core', 'images', 'text', 'files'])
        compare_keys(ctx, 'attributes / files (relocated)', vd, False, True, iv, mv, KEYS + ['files'])
        for key in KEYS:
            a, b = i0.get(key), iv.get(key)
            if a is not None and b is not None and 'ok' in a and a != b:
                d = first_diff(a, b)
                ctx.fail('renaming / relocating parts (relationships updated) changes an extracted value', {**c, 'attribute': key}, {'where': d[0], 'original': d[1], 'relocated': d[2]}); break
    else:
        one(ctx, vd, None)
    ctx.rule = 'replay of one stored case'
