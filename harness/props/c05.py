"""C05 — table paragraphs are identifiable: lineage, predicates, element and style."""
import io, warnings
import pk, src
from common import jhash, first_diff
from pkgrun import *

PROF = profile(tokens=True, p_table=0.35, p_cell_block=0.5, p_sdt_block=0.12, p_textbox=0.08, p_style=0.5,
               p_grid_gap=0.0, p_sdt_cell=0.0, p_cell_nopar=0.0, max_depth=3, blocks=(1, 5))
RULE = ('documents mixing free paragraphs and tables (tables nested in cells, text boxes and block content controls inside cells, tables '
        'in headers / footers / notes, tables first or last in the body, empty cells), both html settings; per paragraph record: lineage, '
        'style, source element (k-th w:p of its part), copy flag; is_tbl / is_tr / is_tc on every extracted table / row / cell; '
        'get_headings; non-trivial = a table nested in a cell or a wrapper inside a cell; distinct by hash of the archive')
TABLE = ['document', 'tbl', 'tr', 'tc', 'p']


def live(data, html):
    """lineage / style / element / predicates from live objects of the implementation"""
    from docx2python import docx2python
    from docx2python import iterators as it
    from impl import par_json_factory, nest, _shim_deepcopy
    _shim_deepcopy()
    out = {}
    with warnings.catch_warnings():
        warnings.simplefilter('ignore')
        with docx2python(io.BytesIO(data), html=html) as d:
            pj = None
            for v in VIEWS[:5]:
                pars = getattr(d, v + '_pars')
                if pj is None: pj = par_json_factory(d.docx_reader)
                out[v] = {'pars': nest(pars, pj),
                          'is_tbl': [it.is_tbl(t) for t in pars],
                          'is_tr': [[it.is_tr(r) for r in t] for t in pars],
                          'is_tc': [[[it.is_tc(c) for c in r] for r in t] for t in pars]}
    return out


def headings(data):
    import os, tempfile
    from docx2python.utilities import get_headings
    td = tempfile.mkdtemp(prefix='d2pv-')
    try:
        f = os.path.join(td, 'a.docx'); open(f, 'wb').write(data)
        with warnings.catch_warnings():
            warnings.simplefilter('ignore')
            return list(get_headings(f))
    finally:
        import shutil; shutil.rmtree(td, ignore_errors=True)


def one(ctx, data, meta=None, htmls=(False, True)):
    ctx.evaluations += 1; good = True
    parts = src.parts_of(data)
    info = {(path, p.k): p for path, root in parts.items() for p in src.paragraphs(root, path)}
    # hypothesis of C05_post_part for duplicate_merged_cells=True (this check's setting): no cell continues a vertical merge
    try:
        v = ctx.drv.ask({**pk.model_case(data, False, True)[0], 'op': 'valid'})
        for path, ok in ((v.get('<vfree>') or {}) if isinstance(v, dict) else {}).items():
            ctx.count('vfree holds for the part (hypothesis of C05_post_part with duplication on: element, style and table lineage of EVERY record)' if ok is True
                      else 'a cell of the part continues a vertical merge (C05_post_part applies with duplication off only)')
    except Exception:
        pass
    for html in htmls:
        case = case_payload(data, html=html, dup=True)
        try: lv = live(data, html)
        except Exception: ctx.skipped_raises += 1; continue
        m = ctx.drv.ask(pk.model_case(data, html, True, ['pars'])[0]); pk.fix_elems(m, pk.encoded(data)[1])
        for v in VIEWS[:5]:
            recs = flat(lv[v]['pars'], 4)
            # correspondence on obs_05
            if 'ok' in m.get(v + '_pars', {}):
                proj = lambda r: {k: r.get(k) for k in ('lin', 'style', 'elem', 'copy')}
                a = [proj(r) for r in recs]; b = [proj(r) for r in flat(m[v + '_pars']['ok'], 4)]
                pk.wild_copy(a, b)
                d = first_diff(a, b)
                if d: ctx.diff(f'lineage/style/element of {v}_pars', case, d[1], d[2], path=d[0]); good = False
            # the property on the implementation's records
            for r in recs:
                if r.get('copy') or r.get('elem') is None: continue
                p = info.get(tuple(r['elem']))
                if p is None: ctx.fail('record points at an element that is not a paragraph of its part', {**case, 'attribute': v}, r); good = False; continue
                if p.in_tc and r['lin'] != TABLE:
                    ctx.fail('a paragraph inside a table cell does not report the table lineage', {**case, 'attribute': v}, {'record': r, 'paragraph': p.k}); good = False
                if not p.in_tbl and len(r['lin']) > 1 and r['lin'][1] == 'tbl':
                    ctx.fail('a paragraph outside every table reports "tbl"', {**case, 'attribute': v}, {'record': r, 'paragraph': p.k}); good = False
                if r['style'] != p.style:
                    ctx.fail('record style differs from the pStyle of its element', {**case, 'attribute': v}, {'record': r, 'expected': p.style}); good = False
                toks = src.TOKEN.findall(''.join(x[1] for x in r['rs']))
                if p.tokens and not p.in_link and not p.same_text([t for t in toks if t in set(p.tokens)]):
                    ctx.fail("record text is not the text of the element it points at", {**case, 'attribute': v}, {'record': r, 'expected_tokens': p.tokens}); good = False
            # predicates: true exactly when the first paragraph comes from a source table
            pars = lv[v]['pars']
            def first(x):
                f = flat(x, 0) if not isinstance(x, list) else None
                while isinstance(x, list):
                    if not x: return None
                    x = x[0]
                return x
            def from_table(rec):
                if rec is None: return False
                if rec.get('elem') is not None and tuple(rec['elem']) in info: return info[tuple(rec['elem'])].in_tbl
                if rec.get('copy', False):
                    if rec['lin'][1:2] == ['']: return None        # synthetic padding paragraph of a merged cell: no source paragraph to ask
                    if rec.get('anon'): return None                 # copy of an anonymous paragraph (inline content outside every w:p): no source paragraph either
                    return True     # copies exist only inside tables
                return None                         # anonymous paragraph (e.g. a block-level equation): no source paragraph to ask
            for ti, t in enumerate(pars):
                def firstpar(x):
                    for y in x:
                        if isinstance(y, dict): return y
                        z = firstpar(y)
                        if z is not None: return z
                    return None
                if from_table(firstpar(t)) not in (None, lv[v]['is_tbl'][ti]):
                    ctx.fail('is_tbl disagrees with the origin of the first paragraph', {**case, 'attribute': v, 'table': ti}, lv[v]['is_tbl'][ti]); good = False
                for ri, rw in enumerate(t):
                    if from_table(firstpar(rw)) not in (None, lv[v]['is_tr'][ti][ri]):
                        ctx.fail('is_tr disagrees with the origin of the first paragraph', {**case, 'attribute': v, 'table': ti, 'row': ri}, lv[v]['is_tr'][ti][ri]); good = False
                    for ci, c in enumerate(rw):
                        if from_table(firstpar(c)) not in (None, lv[v]['is_tc'][ti][ri][ci]):
                            ctx.fail('is_tc disagrees with the origin of the first paragraph', {**case, 'attribute': v, 'table': ti, 'row': ri, 'cell': ci}, lv[v]['is_tc'][ti][ri][ci]); good = False
    # the heading helper selects on the style
    try:
        hs = headings(data)
        import re
        lvh = live(data, True)
        want = [r['runs'] for v in ['header', 'body', 'footer', 'footnotes', 'endnotes'] for r in flat(lvh[v]['pars'], 4) if re.match(r'Heading\d', r['style'] or '')]
        if sorted(map(str, hs)) != sorted(map(str, want)):
            ctx.fail('get_headings does not select exactly the paragraphs with a Heading style', case_payload(data), {'got': hs[:5], 'want': want[:5]}); good = False
    except Exception as e:
        ctx.skipped_raises += 1
    if good: ctx.validated += 1
    if meta and ({'nested_table', 'textbox', 'block_sdt'} & set(meta['features'])) and 'table' in meta['features']: ctx.nontrivial(jhash(data.hex()))
    return good


def run(ctx):
    from gen.probes import probes
    for name, data in probes('C05'):
        ctx.count('probe'); one(ctx, data, {'features': ['probe:' + name, 'table', 'nested_table'], 'stats': {}})
    n = 70 if ctx.quick else 2500
    for pkg, meta, rng in stream(ctx, PROF, n):
        one(ctx, pkg.to_bytes(), meta)
        if ctx.evaluations % 25 == 1: ctx.sample({'body': meta['body'][:700], 'features': meta['features']})
    ctx.rule = RULE


def replay(ctx, rep):
    c = rep.get('case') or (rep.get('first_difference') or {}).get('case')
    one(ctx, case_data(c), None, [c.get('html', False)])
    ctx.rule = ctx.rule or 'replay of one stored case'
