"""C14 — extraction is a pure function of archive bytes and options."""
import copy, hashlib, io, os, pathlib, random, shutil, tempfile, warnings
import pk, life
from common import jhash, first_diff
from pkgrun import *

PROF = profile(blocks=(1, 4), p_comment_marker=0.12, p_list=0.5, p_numbering=0.9, p_comments=0.6, p_core=0.7, p_header=0.5, p_footnotes=0.5, p_drawing=0.15, p_table=0.2, inlines=(0, 4))
RULE = ('generated packages x random sequences (length 4-16) of attribute reads on ONE object (23 attributes; reads sharing cached state: '
        'comments / text / runs / records / images / core properties), with in-place mutation of every string-level value returned before the '
        'next read; the same sequence through str path, PathLike and BytesIO inputs (the buffer also left at an arbitrary position, or read by another instance before) and on separate instances; per read: equal to the value of a '
        'fresh object and to the value of the Lean model; list numbering stable under re-reading; input file and buffer bytes unchanged; '
        'histories over SEVERAL documents: other documents (also with renamed namespace prefixes) read by separate instances in between, and a new '
        'process that reads a renamed-prefix document first: a fresh object over the sentinel document returns what it returned first; '
        'non-trivial = sequence re-reads some attribute after a mutation; distinct by hash of (archive, sequence)')
STRING_LEVEL = [v + s for v in life.VIEWS for s in ('', '_runs')] + ['text', 'html_map', 'images', 'core_properties', 'comments']


def mutate(rng, x):
    """destroy a returned value in place"""
    if isinstance(x, list):
        for y in x[:3]: mutate(rng, y)
        if x and rng.random() < 0.5: x.pop()
        x.append('MUTATED')
    elif isinstance(x, dict):
        for k in list(x)[:1]: x.pop(k)
        x['MUTATED'] = b'!' if any(isinstance(v, bytes) for v in x.values()) else 'x'


def one(ctx, data, seqs, tmpdir, html, dup):
    ops = life.content_ops(tmpdir)
    for k in ('save', 'save_images'): ops.pop(k)
    names = list(ops)
    fresh = {n: v for n, (v, _u) in life.fresh_values('content', data, ops, html, dup).items()}
    # model values for the string views (canonical form differs for records: compared through pk in the other checks)
    fd, path = tempfile.mkstemp(suffix='.docx', dir=tmpdir); os.write(fd, data); os.close(fd)
    digest = hashlib.sha256(data).hexdigest()
    for seq in seqs:
        for kind in ('str', 'pathlike', 'bytesio', 'bytesio-not-rewound', 'bytesio-used-before'):
            ctx.evaluations += 1; good = True
            buf = io.BytesIO(data)
            if kind == 'bytesio-not-rewound': buf.seek(random.Random(jhash([seq, 'pos'])).choice([len(data), len(data) // 2, 1]))   # wherever the caller left it
            if kind == 'bytesio-used-before':                                       # a separate instance read the same buffer first
                with warnings.catch_warnings():
                    warnings.simplefilter('ignore')
                    try:
                        d0 = life.make('content', buf, html, dup); ops[names[seq[0]]](d0); d0.close()
                    except Exception: pass
            source = {'str': path, 'pathlike': pathlib.Path(path)}.get(kind, buf)
            case = {'archive_b64': case_payload(data)['archive_b64'], 'html': html, 'dup': dup, 'input': kind, 'reads': [names[i] for i in seq]}
            rng = random.Random(jhash([seq, kind]))
            with warnings.catch_warnings():
                warnings.simplefilter('ignore')
                try:
                    d = life.make('content', source, html, dup)
                    for n, i in enumerate(seq):
                        name = names[i]
                        try: v = ops[name](d); got = 'v:' + life.vhash(v)
                        except Exception as e: v = None; got = 'err:' + type(e).__name__
                        if got != fresh[name]:
                            ctx.fail('a read differs from the value a fresh object returns (after other reads / caller mutations)', {**case, 'step': n, 'attribute': name}, {'got': got, 'fresh': fresh[name]}); good = False
                        if v is not None and name in STRING_LEVEL: mutate(rng, v)
                    d.close()
                except Exception as e:
                    if any(not f.startswith('err:') for f in fresh.values()):
                        ctx.fail('opening the same archive through another input kind / a second instance raises where a fresh object reads it', case, {'raised': type(e).__name__ + ': ' + str(e)[:120]}); good = False
                    else: ctx.skipped_raises += 1
            if hashlib.sha256(open(path, 'rb').read()).hexdigest() != digest:
                ctx.fail('the input file was modified', case, None); good = False
            if buf.getvalue() != data:
                ctx.fail('the contents of the caller-supplied buffer were modified', case, None); good = False
            if good: ctx.validated += 1
            ctx.count('input:' + kind)
        if len(set(seq)) < len(seq): ctx.nontrivial(jhash([digest, seq]))
    os.unlink(path)
    # tie to the model: the fresh values of the string views are the model's values
    i, m = pk.both(ctx.drv, data, html, dup, want=['plain', 'runs', 'text', 'comments', 'core', 'images'])
    compare_keys(ctx, 'value of a read (fresh object)', data, html, dup, i, m, VIEWS + [v + '_runs' for v in VIEWS] + ['text', 'comments', 'core', 'images'])


def odd_prefixes(data):
    """the same package with the customary prefixes renamed (w -> ns0, r -> ns1, m -> ns2, wp -> ns3, a -> ns4): what generic XML tools write"""
    import re, zipfile
    z = zipfile.ZipFile(io.BytesIO(data)); b = io.BytesIO()
    with zipfile.ZipFile(b, 'w') as o:
        for n in z.namelist():
            raw = z.read(n)
            if n.endswith('.xml') and n.startswith('word/'):
                for k, (old, new) in enumerate([(b'w', b'ns0'), (b'r', b'ns1'), (b'm', b'ns2'), (b'wp', b'ns3'), (b'a', b'ns4')]):
                    raw = re.sub(b'(<|</| |xmlns:)' + old + b'(:|=)', lambda mm: mm.group(1) + new + mm.group(2), raw)
            o.writestr(n, raw)
    return b.getvalue()


def other_documents(ctx, sentinel, tmpdir, others):
    """separate instances over OTHER documents in between: a fresh object over the sentinel document still returns what it returned first"""
    data, html, dup, first = sentinel
    ops = life.content_ops(tmpdir)
    for k in ('save', 'save_images'): ops.pop(k)
    for od in others:
        with warnings.catch_warnings():
            warnings.simplefilter('ignore')
            try:
                d = life.make('content', io.BytesIO(od), html, dup)
                for name in ('document', 'document_runs', 'comments', 'images', 'core_properties'):
                    try: ops[name](d)
                    except Exception: pass
                d.close()
            except Exception: pass
    now = {n: v for n, (v, _u) in life.fresh_values('content', data, ops, html, dup).items()}
    ctx.evaluations += 1
    bad = sorted(n for n in first if now.get(n) != first[n])
    if bad:
        ctx.fail('reading other documents in the same process changes what a fresh object returns for this one (state shared between documents)',
                 {'archive_b64': case_payload(data)['archive_b64'], 'html': html, 'dup': dup, 'read_in_between_b64': [case_payload(o)['archive_b64'] for o in others][:2]},
                 {'attributes': bad[:6], 'first': first[bad[0]], 'now': now[bad[0]]})
    else: ctx.validated += 1
    ctx.count('histories with other documents read in between')


def new_process_history(ctx, sentinel, tmpdir):
    """a NEW process whose first documents are the odd-prefix ones, then the sentinel: process-wide state filled by the first document read"""
    import subprocess, sys, json as _json
    data, html, dup, first = sentinel
    f1 = os.path.join(tmpdir, 'odd.docx'); f2 = os.path.join(tmpdir, 'sentinel.docx')
    open(f1, 'wb').write(odd_prefixes(data)); open(f2, 'wb').write(data)
    code = ('import sys, json, io, warnings; sys.path[:0] = json.loads(sys.argv[1]); import life\n'
            'warnings.simplefilter("ignore")\n'
            'ops = life.content_ops(sys.argv[4]); [ops.pop(k) for k in ("save", "save_images")]\n'
            'try:\n d = life.make("content", io.BytesIO(open(sys.argv[2], "rb").read()), True, True); [getattr(d, a) for a in ("document", "comments", "images")]; d.close()\n'
            'except Exception: pass\n'
            'print(json.dumps({n: v for n, (v, _u) in life.fresh_values("content", open(sys.argv[3], "rb").read(), ops, True, True).items()}))\n')
    r = subprocess.run([sys.executable, '-c', code, _json.dumps(sys.path), f1, f2, tmpdir], capture_output=True, text=True, timeout=120)
    ctx.evaluations += 1
    try: now = _json.loads(r.stdout.strip().splitlines()[-1])
    except Exception:
        ctx.notes.append('new-process history could not run: ' + (r.stderr or r.stdout)[-200:]); return
    bad = sorted(n for n in first if now.get(n) != first[n])
    if bad:
        ctx.fail('reading other documents in the same process changes what a fresh object returns for this one (state shared between documents)',
                 {'archive_b64': case_payload(data)['archive_b64'], 'html': html, 'dup': dup, 'read_first_in_a_new_process_b64': case_payload(odd_prefixes(data))['archive_b64']},
                 {'attributes': bad[:6], 'first': first[bad[0]], 'now': now[bad[0]]})
    else: ctx.validated += 1
    ctx.count('histories in a new process that reads an odd-prefix document first')


def run(ctx):
    tmpdir = tempfile.mkdtemp(prefix='d2pv-c14-')
    try:
        from gen.probes import probes
        n = 14 if ctx.quick else 600
        nops = len(life.content_ops(tmpdir)) - 2
        _names = [k for k in life.content_ops(tmpdir) if k not in ('save', 'save_images')]
        names_of = _names.index
        srcs = [(d, random.Random(1)) for _, d in probes('C14')] + [(pkg.to_bytes(), rng) for pkg, meta, rng in stream(ctx, PROF, n)]
        sentinel = None
        for data, rng in srcs:
            seqs = [[rng.randrange(nops) for _ in range(rng.randint(4, 16))] for _ in range(3 if ctx.quick else 8)]
            # every attribute that shares cached state is read at least twice: body, body, body_pars, body, text, comments, body, text, comments, core x2, images x2, comments, body_runs, document_runs
            seqs.append([names_of('body'), names_of('body'), names_of('body_pars'), names_of('body'), names_of('text'), names_of('comments'), names_of('body'), names_of('text'),
                         names_of('comments'), names_of('core_properties'), names_of('core_properties'), names_of('images'), names_of('images'), names_of('comments'),
                         names_of('body_runs'), names_of('document_runs'), names_of('header'), names_of('document'), names_of('header')])
            one(ctx, data, seqs, tmpdir, rng.random() < 0.4, rng.random() < 0.7)
            if sentinel is None:
                ops0 = life.content_ops(tmpdir)
                for k in ('save', 'save_images'): ops0.pop(k)
                fv = {n: v for n, (v, _u) in life.fresh_values('content', data, ops0, True, True).items()}
                # the sentinel must be a document that reads normally and has text (a probe that raises everywhere shows nothing)
                if all(v.startswith('v:') for v in fv.values()) and fv['text'] != 'v:' + life.vhash(''):
                    sentinel = (data, True, True, fv)
                    new_process_history(ctx, sentinel, tmpdir)
            elif ctx.evaluations % 3 == 0 or not ctx.quick:
                other_documents(ctx, sentinel, tmpdir, [data, odd_prefixes(data), odd_prefixes(sentinel[0])])
            if ctx.evaluations % 50 < 14: ctx.sample({'reads': seqs[0]})
    finally:
        shutil.rmtree(tmpdir, ignore_errors=True)
    ctx.rule = RULE


def replay(ctx, rep):
    c = rep.get('case') or (rep.get('first_difference') or {}).get('case')
    tmpdir = tempfile.mkdtemp(prefix='d2pv-c14-')
    try:
        ops = life.content_ops(tmpdir); names = [n for n in ops if n not in ('save', 'save_images')]
        if 'read_first_in_a_new_process_b64' in c or 'read_in_between_b64' in c:
            import base64
            ops0 = {k: v for k, v in ops.items() if k not in ('save', 'save_images')}
            data = case_data(c)
            sentinel = (data, True, True, {n: v for n, (v, _u) in life.fresh_values('content', data, ops0, True, True).items()})
            if 'read_first_in_a_new_process_b64' in c: new_process_history(ctx, sentinel, tmpdir)
            else: other_documents(ctx, sentinel, tmpdir, [base64.b64decode(x) for x in c['read_in_between_b64']])
            ctx.rule = 'replay of one stored history over several documents'; return
        seq = [names.index(r) for r in c.get('reads', ['body', 'body'])]
        one(ctx, case_data(c), [seq], tmpdir, c.get('html', False), c.get('dup', True))
    finally:
        shutil.rmtree(tmpdir, ignore_errors=True)
    ctx.rule = 'replay of one stored read sequence'
