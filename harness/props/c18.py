"""C18 — equivalent serialisations of the same package extract identically."""
import random
import pk, src
from common import jhash, first_diff
from pkgrun import *
from gen.reserialize import rewrite

PROF = profile(p_comments=0.5, p_core=0.7, p_header=0.6, p_footnotes=0.5, p_link=0.1, p_drawing=0.08, p_table=0.2, p_no_r_ns=0.0, p_form=0.08, p_same_image_name=0.4)
RULE = ('generated packages (and real files of tests/resources in the thorough tier) x 2 random compositions of serialisation rewrites: transitional -> '
        'strict namespace URIs (prefixes kept), shuffled attribute order, whitespace / XML comments / processing instructions between elements '
        '(outside text and equation content; also inside property elements, relationships parts and the core-properties part), re-encoding '
        '(UTF-16, ISO-8859-1, with / without XML declaration), member order, compression method, timestamps, unrelated extra members; x 2 option '
        'settings; checker: every attribute of the rewritten package equals that of the original; correspondence: all views of the rewritten '
        'package, model vs implementation; non-trivial = at least 3 rewrites composed; distinct by hash of (archive, rewrites)')
KEYS = VIEWS + [v + '_runs' for v in VIEWS] + ['text', 'comments', 'core', 'images']


def canon(k, v):
    if k == 'images' and 'ok' in v: return {'ok': sorted(v['ok'])}
    return v


def one(ctx, data, meta, rng, nvar=2, opts=((False, True), (True, False))):
    ctx.evaluations += 1; good = True
    for html, dup in opts:
        i0, m0 = pk.both(ctx.drv, data, html, dup, want=['plain', 'runs', 'text', 'comments', 'core', 'images'])
        if not compare_keys(ctx, 'views of the original', data, html, dup, i0, m0, KEYS): good = False
        for v in range(nvar):
            vr = random.Random(jhash([jhash(data.hex()), html, v, rng.random()]))
            vd, applied = rewrite(vr, data)
            for a in applied: ctx.count('rewrite:' + a.split(':')[0])
            iv, mv = pk.both(ctx.drv, vd, html, dup, want=['plain', 'runs', 'text', 'comments', 'core', 'images'])
            case = case_payload(vd, html=html, dup=dup, original_b64=case_payload(data)['archive_b64'], rewrites=applied)
            if not compare_keys(ctx, 'views of the rewritten package', vd, html, dup, iv, mv, KEYS, {'rewrites': applied}): good = False
            for k in KEYS:
                a, b = canon(k, i0.get(k)), canon(k, iv.get(k))
                if a != b:
                    d = first_diff(a, b)
                    ctx.fail('an equivalent serialisation of the package extracts differently', {**case, 'attribute': k}, {'where': d[0], 'original': d[1], 'rewritten': d[2]},
                             features=['rewrite:' + x.split(':')[0] for x in applied]); good = False; break
            if len(applied) >= 3: ctx.nontrivial(jhash([jhash(data.hex()), applied, html]))
    if good: ctx.validated += 1
    return good


def run(ctx):
    from gen.probes import probes
    for name, data in probes('C18'):
        ctx.count('probe'); i, m = pk.both(ctx.drv, data, False, True); ctx.evaluations += 1
        if 'err' in str(i.get('body')) or 'err' in str(i.get('core')): ctx.fail('an XML comment between elements makes extraction raise', case_payload(data), {k: v for k, v in i.items() if 'err' in v})
        elif name == 'P27-comment-in-core' and len(i['core']['ok']) != 1: ctx.fail('an equivalent serialisation of the package extracts differently', case_payload(data, attribute='core'), i['core'])
        compare_keys(ctx, 'views of a probe', data, False, True, i, m, KEYS)
    n = 40 if ctx.quick else 3000
    for pkg, meta, rng in stream(ctx, PROF, n):
        one(ctx, pkg.to_bytes(), meta, rng)
        if ctx.evaluations % 15 == 1: ctx.sample({'body': meta['body'][:400]})
    if not ctx.quick:
        for f in corpus_files():
            one(ctx, open(f, 'rb').read(), None, random.Random(1), nvar=1, opts=((False, True),)); ctx.count('real-file')
    ctx.rule = RULE


def replay(ctx, rep):
    import base64
    c = rep.get('case') or (rep.get('first_difference') or {}).get('case')
    vd = case_data(c); html, dup = c.get('html', False), c.get('dup', True); ctx.evaluations += 1
    iv, mv = pk.both(ctx.drv, vd, html, dup, want=['plain', 'runs', 'text', 'comments', 'core', 'images'])
    compare_keys(ctx, 'views of the rewritten package', vd, html, dup, iv, mv, KEYS)
    if 'original_b64' in c:
        i0, _ = pk.both(ctx.drv, base64.b64decode(c['original_b64']), html, dup, want=['plain', 'runs', 'text', 'comments', 'core', 'images'])
        for k in KEYS:
            a, b = canon(k, i0.get(k)), canon(k, iv.get(k))
            if a != b:
                d = first_diff(a, b)
                ctx.fail('an equivalent serialisation of the package extracts differently', {**c, 'attribute': k}, {'where': d[0], 'original': d[1], 'rewritten': d[2]}); break
    ctx.rule = 'replay of one stored case'
