"""C10 — hyperlinks and note references are rendered as matchable, exact markers."""
import io, os, re, shutil, tempfile, warnings
import pk, src
from common import jhash, first_diff
from pkgrun import *

PROF = profile(p_strict=0.12, tokens=True, math_markup=True, p_math=0.12, p_link=0.3, p_noteref=0.15, p_rpr=0.6, p_textbox=0.03,
               p_footnotes=0.9, p_endnotes=0.8, p_comments=0.6, p_table=0.12, inlines=(1, 5), p_text=0.6)
RULE = ('packages with many hyperlinks (resolvable, anchor-only, both, empty id, dangling id; one or many runs of equal or different '
        'formatting; in body, headers, notes, comments) and note references; notes with separators, several paragraphs, empty notes; '
        'both html settings; checker: each resolvable link is one run <a href="TARGET[#anchor]">TEXT</a> holding all its text tokens in '
        'order, other links contribute text only, get_links = pairs of rendered links without "<" in the text, each reference is its own '
        'run ----footnoteN----, each non-separator note starts footnoteN)\\t; non-trivial = at least 2 links; distinct by archive hash')
LINKRUN = re.compile(r'^<a href="([^"]*)">(.*)</a>$', re.S)


def inside_anchor(run, tok):
    """is the token «tok» inside an <a href=…>…</a> span of this run string?"""
    depth = 0; pos = run.find(f'«{tok}»')
    for m in re.finditer(r'<a href="[^"]*">|</a>', run):
        if m.start() > pos: break
        depth += 1 if m.group(0).startswith('<a') else -1
    return depth > 0


def link_runs(runs_view):
    return [r for r in flat(runs_view, 5) if r.startswith('<a href=') or r.startswith('----footnote') or r.startswith('----endnote')]


def one(ctx, data, meta=None, htmls=(False, True)):
    ctx.evaluations += 1; good = True
    parts = src.parts_of(data); cps = src.content_parts(data)
    nlinks = 0
    for html in htmls:
        i, m = pk.both(ctx.drv, data, html, True, want=['runs', 'comments'])
        case = case_payload(data, html=html, dup=True)
        # correspondence obs_10: marker runs, first run of every note paragraph
        for v in VIEWS[:5]:
            a, b = i.get(v + '_runs'), m.get(v + '_runs')
            if a and b and 'ok' not in a and 'ok' in b:
                # a hyperlink "contributes just its text" when it has only an anchor or an unresolvable id: it never makes the read fail
                ctx.fail('reading a part raised although its links and notes are well formed (the model returns)', {**case, 'attribute': v + '_runs'}, a); good = False; continue
            if not a or not b or 'ok' not in a: ctx.skipped_raises += 1; continue
            if 'ok' not in b: ctx.diff(f'{v}_runs: model raises', case, 'returns', b); good = False; continue
            oa, ob = link_runs(a['ok']), link_runs(b['ok'])
            if v in ('footnotes', 'endnotes'):
                oa += [p[0] if p else None for p in flat(a['ok'], 4)]; ob += [p[0] if p else None for p in flat(b['ok'], 4)]
            d = first_diff(oa, ob)
            if d: ctx.diff(f'link / note marker runs of {v}_runs', case, d[1], d[2], path=d[0]); good = False
        # the property on the implementation
        for ty, path in cps:
            attr = {'officeDocument': 'body'}.get(ty, ty)
            if ty == 'comments' or path not in parts or 'ok' not in i.get(attr + '_runs', {}): continue
            rels = src.own_rels(data, path)
            out_pars = flat(i[attr + '_runs']['ok'], 4)           # list of run-string lists
            tokpar = {}
            for pi, rs in enumerate(out_pars):
                for ri, r in enumerate(rs):
                    for t in src.TOKEN.findall(r): tokpar.setdefault(t, (pi, ri))
            root = parts[path]
            for h in root.iter():
                if src.ptag(h) != 'w:hyperlink' or any(src.ptag(a) == 'w:hyperlink' for a in h.iterancestors()): continue
                toks = [t for x in h.iter() if src.ptag(x) in ('w:t', 'm:t') for t in src.TOKEN.findall(x.text or '')]
                if not toks or any(t not in tokpar for t in toks): continue
                if any(src.ptag(a) == 'w:tc' and src.ParInfo(path, 0, next(x for x in a.iter() if src.ptag(x) == 'w:p')).in_continuation for a in h.iterancestors() if src.ptag(a) == 'w:tc' and any(src.ptag(x) == 'w:p' for x in a.iter())): continue
                nlinks += 1
                rid = src.rattr(h, 'id'); anchor = src.wval(h, 'anchor')
                c = {**case, 'attribute': attr, 'link_tokens': toks}
                where = {tokpar[t] for t in toks}
                run = out_pars[tokpar[toks[0]][0]][tokpar[toks[0]][1]]
                if rid and rid in rels:
                    href = rels[rid] + ('#' + anchor if anchor and rels[rid] else '')
                    mm = LINKRUN.match(run)
                    if len(where) != 1:
                        ctx.fail('the text of a resolvable hyperlink is not in one piece', c, [out_pars[p][r] for p, r in sorted(where)]); good = False
                    elif not mm or mm.group(1) != href:
                        ctx.fail('a resolvable hyperlink is not rendered as <a href="TARGET[#anchor]">TEXT</a>', c, {'run': run, 'expected_href': href}); good = False
                    else:
                        got = src.TOKEN.findall(mm.group(2))
                        pos = [got.index(t) for t in toks if t in got]
                        # text of a paragraph nested below the link (a text box anchored in it) is part of the link's one run, but where in it no
                        # property says (a nested paragraph is concluded before the text around it): membership and contiguity, not position
                        loose = {t for q in h.iter() if src.ptag(q) == 'w:p' for x in q.iter() if src.ptag(x) in ('w:t', 'm:t') for t in src.TOKEN.findall(x.text or '')}
                        if loose:
                            firm = [got.index(t) for t in toks if t in got and t not in loose]
                            ok_ = len(pos) == len(toks) and sorted(pos) == list(range(min(pos), min(pos) + len(toks))) and firm == sorted(firm)
                        else:
                            ok_ = len(pos) == len(toks) and pos == list(range(pos[0], pos[0] + len(toks)))
                        if not ok_:
                            ctx.fail('link text is not the visible text of the link in order', c, {'run': run}); good = False
                elif not any(src.ptag(x) == 'w:hyperlink' for x in h.iterdescendants()):
                    # (adjacent links without a relationship id are merged, so the run may also hold a neighbour's text and links)
                    if any(inside_anchor(out_pars[p][r], t) for t in toks for p, r in [tokpar[t]]):
                        # tokens inside an <a href> run: only legitimate when an enclosing/adjacent resolvable link rendered them
                        ctx.fail('a hyperlink without a resolvable target is rendered with an href', c, {'run': run}); good = False
            # note references and labels
            for x in root.iter():
                if src.ptag(x) in ('w:footnoteReference', 'w:endnoteReference') and not any(src.ptag(a) == 'w:hyperlink' for a in x.iterancestors()):
                    n = src.wval(x, 'id'); kind = 'footnote' if 'foot' in src.ptag(x) else 'endnote'
                    if n is None: continue
                    if not any(r == f'----{kind}{n}----' for rs in out_pars for r in rs):
                        # a reference inside a vertically continued cell may be replaced by the copy of the cell above
                        if not any(src.ptag(a) == 'w:tc' for a in x.iterancestors()):
                            ctx.fail('a note reference does not appear as its own run ----<kind>N----', {**case, 'attribute': attr}, {'id': n, 'kind': kind}); good = False
            if ty in ('footnotes', 'endnotes'):
                kind = ty[:-1]
                firsts = [''.join(rs) for rs in out_pars]
                for note in root:
                    if src.ptag(note) != 'w:' + kind: continue
                    if 'separator' in (src.wval(note, 'type') or '').lower(): continue
                    n = src.wval(note, 'id')
                    if n is None or not any(src.ptag(x) == 'w:p' for x in note.iter()): continue
                    if not any(re.sub(r'^<h\d>', '', s).startswith(f'{kind}{n})\t') for s in firsts):
                        ctx.fail('a note is not extracted with its first paragraph prefixed <kind>N)<tab>', {**case, 'attribute': attr}, {'id': n, 'paragraphs': firsts[:6]}); good = False
    # get_links
    td = tempfile.mkdtemp(prefix='d2pv-')
    try:
        from docx2python.utilities import get_links
        f = os.path.join(td, 'a.docx'); open(f, 'wb').write(data)
        with warnings.catch_warnings():
            warnings.simplefilter('ignore')
            got = [list(x) for x in get_links(f)]
        i, _m = pk.both(ctx.drv, data, False, True, want=['runs'])
        if 'ok' in i.get('document_runs', {}):
            want = []
            for r in flat(i['document_runs']['ok'], 5):
                mm = re.match(r'<a href="([^"]+)">([^<]+)</a>', r)
                if mm: want.append([mm.group(1), mm.group(2)])
            if got != want:
                ctx.fail('get_links does not yield the (href, text) pair of every rendered link whose text is free of angle brackets', case_payload(data), {'got': got[:6], 'want': want[:6]}); good = False
    except Exception as e:
        ctx.skipped_raises += 1
    finally:
        shutil.rmtree(td, ignore_errors=True)
    if good: ctx.validated += 1
    if nlinks >= 2: ctx.nontrivial(jhash(data.hex()))
    return good


def run(ctx):
    from gen.probes import probes
    for name, data in probes('C10'):
        ctx.count('probe'); one(ctx, data, {'features': ['probe:' + name], 'stats': {}})
    n = 70 if ctx.quick else 6000
    for pkg, meta, rng in stream(ctx, PROF, n):
        one(ctx, pkg.to_bytes(), meta)
        if ctx.evaluations % 25 == 1: ctx.sample({'body': meta['body'][:700], 'features': meta['features']})
    ctx.rule = RULE


def replay(ctx, rep):
    c = rep.get('case') or (rep.get('first_difference') or {}).get('case')
    one(ctx, case_data(c), None, [c['html']] if 'html' in c else (False, True))
    ctx.rule = ctx.rule or 'replay of one stored case'
