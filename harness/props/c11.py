"""C11 — images are returned and written byte-identical, and referenced in place."""
import hashlib, io, os, random, shutil, tempfile, warnings, zipfile
import pk, src
from common import jhash, first_diff
from pkgrun import *
from gen.probes import docx, p, r, NS
from gen.docgen import rels_xml, ns_decl

RULE = ('archives with 0-6 image parts of arbitrary binary content (empty, 1 MiB, bytes that look like XML or like zip local headers), related '
        'from the main part, a header and the footnotes through DrawingML (a:blip r:embed, with / without wp:docPr descr) and VML (v:imagedata '
        'r:id), unreferenced, missing from the archive or external; image_folder absent / existing / a not-yet-existing nested path, at '
        'construction and through save_images; checker: images = {file name: member bytes} for every related image part present, the folder holds '
        'exactly those files with identical bytes and nothing else is written, every picture yields ----TARGET---- in place (preceded by the '
        'alt-text marker when described), unresolvable pictures are skipped without error; correspondence: images map and placeholder runs, '
        'model vs implementation; non-trivial = at least 2 image parts and 2 pictures; distinct by archive hash')


def payload(rng):
    k = rng.random()
    if k < 0.15: return b''
    if k < 0.25: return bytes(rng.randrange(256) for _ in range(64)) * 16384          # 1 MiB
    if k < 0.4: return b'<?xml version="1.0"?><w:document xmlns:w="x"><w:body/></w:document>'
    if k < 0.55: return b'PK\x03\x04\x14\x00\x00\x00\x08\x00' + bytes(rng.randrange(256) for _ in range(30))
    return b'\x89PNG\r\n\x1a\n' + bytes(rng.randrange(256) for _ in range(rng.choice([1, 50, 700])))


def build(rng):
    nimg = rng.randint(0, 6)
    # file names are taken literally: a percent sequence, a space or a plus sign in a member name is part of the name
    stem = lambda k: rng.choice(['image%d' % k] * 5 + ['chart%%20%d' % k, 'my image %d' % k, 'a+b%d' % k, '100%%25-%d' % k])
    imgs = {f'{stem(k)}.{rng.choice(["png", "jpeg", "emf", "bin"])}': payload(rng) for k in range(nimg)}
    names = list(imgs)
    def pic(part_rels):
        kind = rng.random()
        if names and kind < 0.7:
            n = rng.choice(names); rid = f'rIdI{len(part_rels)}'; part_rels.append((rid, 'image', 'media/' + n)); tgt = 'media/' + n
        elif kind < 0.8: rid = f'rIdX{len(part_rels)}'; part_rels.append((rid, 'image', 'http://ext/e.png', True)); tgt = 'http://ext/e.png'
        elif kind < 0.9: rid = f'rIdM{len(part_rels)}'; part_rels.append((rid, 'image', 'media/missing.png')); tgt = 'media/missing.png'
        else: rid = 'rId404'; tgt = None
        descr = rng.choice([None, None, 'a picture', 'alt text 2'])
        if rng.random() < 0.65:
            xml = (f'<w:r><w:drawing><wp:inline><wp:extent cx="1" cy="1"/><wp:docPr id="1" name="n"' + (f' descr="{descr}"' if descr else '') +
                   f'/><a:graphic><a:graphicData uri="u"><a:blip r:embed="{rid}"/></a:graphicData></a:graphic></wp:inline></w:drawing></w:r>')
        else:
            descr = None
            xml = f'<w:r><w:pict><v:shape><v:imagedata r:id="{rid}"/></v:shape></w:pict></w:r>'
        return xml, tgt, descr
    pics = []; tok = [0]
    def part_body(rels):
        out = ''
        for _ in range(rng.randint(1, 3)):
            tok[0] += 1; t = tok[0]
            x, tgt, descr = pic(rels) if rng.random() < 0.8 else ('', None, None)
            if x: pics.append((t, tgt, descr))
            # the same picture again, and other pictures, back to back in the same paragraph (a rating made of stars, an icon row)
            while x and rng.random() < 0.35:
                x2, tgt2, descr2 = (x[:x.index('</w:r>') + 6], tgt, descr) if rng.random() < 0.6 else pic(rels)
                x += x2; pics.append((t, tgt2, descr2))
            out += p(r(f'«{t}»before '), x, r(' after'))
        return out
    drels = []; body = part_body(drels)
    if rng.random() < 0.3 and names: drels.append(('rIdU', 'image', 'media/' + names[-1]))     # related but unreferenced
    hrels = []; hdr = part_body(hrels) if rng.random() < 0.6 else None
    frels = []; fn = part_body(frels) if rng.random() < 0.5 else None
    parts = {}; extra = {'word/media/' + n: b for n, b in imgs.items()}
    if hdr is not None:
        parts['header1.xml'] = ('header', '<w:hdr NS>' + hdr + '</w:hdr>')
        if hrels: extra['word/_rels/header1.xml.rels'] = rels_xml(hrels)
    if fn is not None:
        parts['footnotes.xml'] = ('footnotes', '<w:footnotes NS><w:footnote w:id="2">' + fn + '</w:footnote></w:footnotes>')
        if frels: extra['word/_rels/footnotes.xml.rels'] = rels_xml(frels)
    if rng.random() < 0.3: extra['word/media/unrelated.png'] = b'not related at all'
    if rng.random() < 0.3:
        # a part that uses no relationships and does not declare the r prefix, holding placeholder pictures without a relationship attribute
        tok[0] += 1
        parts['footer1.xml'] = ('footer', f'<w:ftr {ns_decl(omit=("r",))}>' + p(r(f'«{tok[0]}»logo '), '<w:r><w:drawing><wp:inline><wp:docPr id="1" name="n"/><a:graphic><a:graphicData uri="u"><a:blip/></a:graphicData></a:graphic></wp:inline></w:drawing></w:r>'
                                '<w:r><w:pict><v:shape><v:imagedata croptop="1f"/></v:shape></w:pict></w:r>', r(' here')) + '</w:ftr>')
        pics.append((tok[0], None, None)); pics.append((tok[0], None, None))
        if names and rng.random() < 0.6:
            # ... and a picture that declares the r prefix on itself: resolved like any other
            from gen.docgen import NSMAP
            tok[0] += 1; n = rng.choice(names)
            extra['word/_rels/footer1.xml.rels'] = rels_xml([('rIdL', 'image', 'media/' + n)])
            parts['footer1.xml'] = ('footer', parts['footer1.xml'][1].replace('</w:ftr>', p(r(f'«{tok[0]}»local '), f'<w:r><w:drawing><wp:inline><wp:docPr id="3" name="n"/><a:graphic><a:graphicData uri="u"><a:blip xmlns:r="{NSMAP["r"]}" r:embed="rIdL"/></a:graphicData></a:graphic></wp:inline></w:drawing></w:r>') + '</w:ftr>'))
            pics.append((tok[0], 'media/' + n, None)); footer_related = n
    data = docx(body, docrels=drels, parts=parts, extra=extra)
    related = {}
    if 'word/_rels/footer1.xml.rels' in extra:
        for n in names:
            if ('media/' + n) in (extra['word/_rels/footer1.xml.rels'] if isinstance(extra['word/_rels/footer1.xml.rels'], str) else extra['word/_rels/footer1.xml.rels'].decode()): related[n] = imgs[n]
    for rels in (drels, hrels if hdr is not None else [], frels if fn is not None else []):
        for rel in rels:
            if rel[1] == 'image' and not (len(rel) > 3 and rel[3]) and rel[2].startswith('media/') and rel[2][6:] in imgs:
                related[rel[2][6:]] = imgs[rel[2][6:]]
    return data, related, pics


def listing(d):
    out = {}
    for root, _dirs, files in os.walk(d):
        for f in files:
            pth = os.path.join(root, f); out[os.path.relpath(pth, d)] = hashlib.sha256(open(pth, 'rb').read()).hexdigest()
    return out


def one(ctx, data, related, pics, tmpdir, rng):
    from docx2python import docx2python
    ctx.evaluations += 1; good = True
    case = case_payload(data)
    want = {n: hashlib.sha256(b).hexdigest() for n, b in related.items()}
    i, m = pk.both(ctx.drv, data, False, True, want=['runs', 'images'])
    if not compare_keys(ctx, 'images map', data, False, True, {'images': {'ok': sorted(i['images']['ok'])} if 'ok' in i.get('images', {}) else i.get('images')},
                        {'images': {'ok': sorted(m['images']['ok'])} if 'ok' in m.get('images', {}) else m.get('images')}, ['images']): good = False
    ph = lambda o: [x for x in flat(o['ok'], 5) if x.startswith('----')] if 'ok' in o else o
    for v in ('body_runs', 'header_runs', 'footnotes_runs'):
        if ph(i[v]) != ph(m[v]): ctx.diff('placeholder runs of ' + v, case, ph(i[v]), ph(m[v])); good = False
    for mode in ('none', 'existing', 'existing-stale', 'nested', 'save_images', 'images_then_save'):
        work = tempfile.mkdtemp(dir=tmpdir)
        folder = None if mode == 'none' else os.path.join(work, 'imgs') if mode in ('existing', 'save_images') else os.path.join(work, 'a', 'b', 'c')
        if mode == 'images_then_save': folder = os.path.join(work, 'late', 'x')
        if mode == 'existing-stale':
            # an existing folder that already holds files named like the images, of the same size but with other bytes (an earlier extraction)
            folder = os.path.join(work, 'imgs'); os.mkdir(folder)
            for n, b in related.items(): open(os.path.join(folder, n), 'wb').write(bytes((x ^ 0x55) for x in b[:4096]) + b[4096:])
        if mode == 'existing': os.mkdir(folder)
        before = listing(work)
        with warnings.catch_warnings():
            warnings.simplefilter('ignore')
            try:
                if mode == 'save_images':
                    with docx2python(io.BytesIO(data)) as d:
                        got = d.save_images(folder); got2 = d.images
                elif mode == 'images_then_save':
                    # the map is read first (and may be cached): saving afterwards must still write the files
                    with docx2python(io.BytesIO(data)) as d:
                        got2 = d.images; got = d.save_images(folder)
                else:
                    with docx2python(io.BytesIO(data), folder) as d:
                        got = d.images; got2 = got
                        runs = {v: flat(getattr(d, v + '_runs'), 4) for v in ('body', 'header', 'footnotes', 'footer')}
            except Exception as e:
                ctx.fail('extracting / saving images raised', {**case, 'image_folder': mode}, type(e).__name__ + ': ' + str(e)[:80]); good = False; continue
        gh = {n: hashlib.sha256(b).hexdigest() for n, b in got.items()}
        if gh != want or {n: hashlib.sha256(b).hexdigest() for n, b in got2.items()} != want:
            ctx.fail('images does not map every related image file name to exactly the bytes stored in the archive', {**case, 'image_folder': mode}, {'got': gh, 'want': want}); good = False
        after = listing(work)
        if folder is None:
            if after != before: ctx.fail('files were written although no image folder was given', case, after); good = False
        else:
            if not os.path.isdir(folder): ctx.fail('the image folder was not created', {**case, 'image_folder': mode}, None); good = False
            wantfiles = {os.path.relpath(os.path.join(folder, n), work): h for n, h in want.items()}
            if after != wantfiles:
                ctx.fail('the image folder does not hold exactly the image files with identical bytes', {**case, 'image_folder': mode}, {'written': after, 'expected': wantfiles}); good = False
        if mode not in ('save_images', 'images_then_save'):
            allruns = [rs for v in runs.values() for rs in v]
            for t in sorted({t for t, _, _ in pics}):
                par = next((rs for rs in allruns if any(f'«{t}»' in x for x in rs)), None)
                if par is None: continue
                expect = []
                for tt, tgt, descr in pics:
                    if tt != t: continue
                    if descr: expect.append(f'----Image alt text---->{descr}<')
                    if tgt is not None: expect.append(f'----{tgt}----')
                seen = [x for x in par if x.startswith('----')]
                if seen != expect:
                    ctx.fail('the pictures of a paragraph are not represented in place, in order, by (alt-text marker,) ----TARGET---- each; unresolvable ones skipped',
                             {**case, 'token': t}, {'placeholders': seen, 'expected': expect, 'paragraph': par}); good = False
        shutil.rmtree(work, ignore_errors=True)
    if good: ctx.validated += 1
    if len(related) >= 2 and len(pics) >= 2: ctx.nontrivial(jhash(jhash(data.hex())))
    ctx.count('image parts=%d' % len(related)); ctx.count('pictures', len(pics))
    return good


def run(ctx):
    tmpdir = tempfile.mkdtemp(prefix='d2pv-c11-')
    try:
        n = 40 if ctx.quick else 2500
        for k in range(n):
            rng = random.Random(f'C11-{ctx.seed}-{k}')
            data, related, pics = build(rng)
            one(ctx, data, related, pics, tmpdir, rng)
            if k % 15 == 0: ctx.sample({'images': {n: len(b) for n, b in related.items()}, 'pictures (token, target, alt)': pics})
    finally:
        shutil.rmtree(tmpdir, ignore_errors=True)
    ctx.rule = RULE


def replay(ctx, rep):
    c = rep.get('case') or (rep.get('first_difference') or {}).get('case')
    data = case_data(c); tmpdir = tempfile.mkdtemp(prefix='d2pv-c11-')
    try:
        # recompute the expectation from the archive itself (OPC resolution of the image relationships)
        z = zipfile.ZipFile(io.BytesIO(data)); related = {}
        for ty, path in src.content_parts(data):
            d_ = os.path.dirname(path)
            from lxml import etree
            rp = os.path.join(d_, '_rels', os.path.basename(path) + '.rels')
            if rp in z.namelist():
                for r_ in etree.fromstring(z.read(rp)):
                    if isinstance(r_.tag, str) and r_.get('Type', '').endswith('/image') and r_.get('TargetMode') != 'External':
                        mem = os.path.normpath(os.path.join(d_, r_.get('Target')))
                        if mem in z.namelist(): related[os.path.basename(mem)] = z.read(mem)
        one(ctx, data, related, [], tmpdir, random.Random(0))
    finally:
        shutil.rmtree(tmpdir, ignore_errors=True)
    ctx.rule = 'replay of one stored case'
