"""C06 — arbitrary run and link splitting by the authoring tool is invisible."""
import io, random, warnings
import pk, src
from common import jhash, first_diff
from pkgrun import *
from gen.split import variant
from encode import enc, NsTable
from props.c07 import expected_formats

PROF = profile(p_strict=0.12, tokens=True, math_markup=True, p_math=0.12, p_rpr=0.6, p_link=0.2, p_text=0.6, run_items=(1, 4), inlines=(1, 5), p_table=0.12,
               p_textbox=0.04, p_comments=0.3)
RULE = ('a generated document and 3 random variants of it obtained by 2-12 rewrites each (cut a run in two keeping its properties, cut a text '
        'node, cut a hyperlink into two with the same attributes, insert proofing / bookmark / permission marks between or inside runs and '
        'links, add revision-id attributes and unrecognised run / paragraph properties); both html settings; checker: every *_runs view, text '
        'and comments of a variant equal those of the original, and the characters-with-recognised-formatting sequence of the exposed '
        '(merged) element tree equals that of the original part; correspondence: *_runs and the merged tree (model vs implementation); '
        'non-trivial = at least 3 rewrites applied; distinct by hash of (archive, variant)')


def strip(j):
    """merged tree without identities, namespace maps and non-content siblings' positions kept"""
    if 'c' in j or 'pi' in j: return {'c': 1, 't': j.get('t')}
    return {'p': j.get('p'), 'l': j['l'], 'u': j.get('u'), 'a': sorted(map(tuple, j.get('a', []))), 'x': j.get('x'), 't': j.get('t'), 'k': [strip(k) for k in j.get('k', [])]}


def chars_with_format(root, html):
    out = []
    parts = src.paragraphs(root, '')
    for pinfo in parts:
        fm = expected_formats(pinfo) if html else {}
        for x in pinfo.own:
            if src.ptag(x) in ('w:t', 'm:t') and x.text:
                toks = src.TOKEN.findall(x.text)
                # formatting of this text node = formatting computed for (any of) its tokens; nodes without token: by run
                f = None
                if html:
                    run = x.getparent()
                    fake = src.ParInfo.__new__(src.ParInfo); fake.style = pinfo.style; fake.own = [x]
                    # reuse expected_formats on a one-node view: needs a token; emulate
                    f = frozenset(expected_one(x, pinfo.style))
                out += [(ch, f) for ch in x.text]
    return out


def expected_one(x, style):
    import re
    from props.c07 import OFF
    head = set(); m = re.fullmatch(r'Heading([1-6])', style or '')
    if m: head = {'h' + m.group(1)}
    run = x.getparent(); props = {}
    if src.ptag(run) == 'w:r':
        rpr = src.child(run, 'w:rPr')
        if rpr is not None:
            for c in rpr:
                if isinstance(c.tag, str): props[src.etree.QName(c.tag).localname] = src.wval(c)
    f = set(head)
    for k, v in props.items():
        v = v or None
        if k in ('b', 'i') and (v is None or v not in OFF): f.add(k)
        elif k == 'strike' and (v is None or v not in OFF): f.add('s')
        elif k == 'u' and v != 'none': f.add('u')
        elif k == 'vertAlign' and v in ('superscript', 'subscript'): f.add(v[:3])
        elif k == 'caps' and (v is None or v not in OFF): f.add('css:text-transform:uppercase')
        elif k == 'smallCaps' and (v is None or v not in OFF): f.add('css:font-variant:small-caps')
        elif k == 'highlight': f.add('css:background-color:' + (v or ''))
        elif k == 'sz': f.add('css:font-size:' + (v or '') + 'pt')
        elif k == 'color': f.add('css:color:' + (v or ''))
    return f


def exposed_trees(data, html):
    """root_element of every content part as the reader exposes it (merged), encoded"""
    from docx2python import docx2python
    out = {}; roots = {}
    with warnings.catch_warnings():
        warnings.simplefilter('ignore')
        with docx2python(io.BytesIO(data), html=html) as d:
            for f in d.docx_reader.content_files():
                roots[f.path] = f.root_element
                out[f.path] = strip(enc(f.root_element, NsTable(), [0]))
    return out, roots


def one(ctx, data, meta=None, nvar=3, seed=None):
    ctx.evaluations += 1; good = True
    rng = random.Random(seed if seed is not None else jhash(data.hex()))
    cps = [p for t, p in src.content_parts(data) if t != 'comments']
    variants = [variant(rng, data, cps, rng.randint(2, 12)) for _ in range(nvar)]
    raw = src.parts_of(data)
    for html in (False, True):
        i0, m0 = pk.both(ctx.drv, data, html, True, want=['runs', 'text', 'comments'])
        keys = [v + '_runs' for v in VIEWS[:5]] + ['text', 'comments']
        case = case_payload(data, html=html, dup=True)
        if not compare_keys(ctx, 'runs view', data, html, True, i0, m0, keys): good = False
        if any('ok' not in i0.get(k, {}) for k in keys): ctx.skipped_raises += 1; continue
        # the exposed tree is faithful to the original part
        try:
            trees, roots = exposed_trees(data, html)
            mt = ctx.drv.ask({**pk.model_case(data, html, True)[0], 'op': 'merged'})
            ctx.count('model: merged tree is a fixed point of merge_elems' if not mt.get('<again>') else 'model: merging again changes ' + ','.join(mt['<again>']))
            ctx.count('model: every part satisfies goodTree (hypothesis of mergeElems_idem)' if not mt.get('<notgood>') else 'model: goodTree fails for ' + ','.join(mt['<notgood>']))
            if mt.get('<again>'): ctx.note_once('model-merge-not-idempotent', {**case, 'parts': mt['<again>']}) if hasattr(ctx, 'note_once') else None
            for path, t in trees.items():
                if path in mt and 'ok' in mt[path]:
                    d = first_diff(t, strip(mt[path]['ok']))
                    if d: ctx.diff('merged element tree of ' + path, case, d[1], d[2], path=d[0]); good = False
                a = chars_with_format(raw[path], html); b = chars_with_format(roots[path], html)
                if a != b:
                    k = next((n for n, (x, y) in enumerate(zip(a, b)) if x != y), min(len(a), len(b)))
                    ctx.fail('the exposed element tree does not carry the same characters with the same recognised formatting as the original part', {**case, 'part': path},
                             {'at': k, 'original': str(a[k:k + 5]), 'exposed': str(b[k:k + 5])}); good = False
        except Exception as e:
            ctx.skipped_raises += 1
        for vi, (vd, applied) in enumerate(variants):
            for a in applied: ctx.count('rewrite:' + a)
            iv, mv = pk.both(ctx.drv, vd, html, True, want=['runs', 'text', 'comments'])
            vcase = case_payload(vd, html=html, dup=True, original_b64=case['archive_b64'], rewrites=applied)
            if not compare_keys(ctx, 'runs view (variant)', vd, html, True, iv, mv, keys): good = False
            for k in keys:
                if 'ok' not in iv.get(k, {}): continue
                if iv[k]['ok'] != i0[k]['ok']:
                    d = first_diff(i0[k]['ok'], iv[k]['ok'])
                    ctx.fail('splitting runs / links or inserting non-content markup changed an extracted value', {**vcase, 'attribute': k},
                             {'where': d[0], 'original': d[1], 'variant': d[2]}); good = False; break
            if len(applied) >= 3: ctx.nontrivial(jhash([jhash(data.hex()), applied, vi]))
    if good: ctx.validated += 1
    return good


def run(ctx):
    from gen.probes import probes
    for name, data in probes('C06'):
        ctx.count('probe'); one(ctx, data, None, seed=1)
    n = 40 if ctx.quick else 2000
    for pkg, meta, rng in stream(ctx, PROF, n):
        one(ctx, pkg.to_bytes(), meta, seed=rng.getrandbits(32))
        if ctx.evaluations % 15 == 1: ctx.sample({'body': meta['body'][:600]})
    ctx.rule = RULE


def replay(ctx, rep):
    c = rep.get('case') or (rep.get('first_difference') or {}).get('case')
    if 'original_b64' in c:
        import base64
        data = base64.b64decode(c['original_b64']); vd = case_data(c); html = c.get('html', False)
        i0, _ = pk.both(ctx.drv, data, html, True, want=['runs', 'text', 'comments']); iv, mv = pk.both(ctx.drv, vd, html, True, want=['runs', 'text', 'comments'])
        ctx.evaluations += 1
        keys = [v + '_runs' for v in VIEWS[:5]] + ['text', 'comments']
        compare_keys(ctx, 'runs view (variant)', vd, html, True, iv, mv, keys)
        for k in keys:
            if 'ok' in iv.get(k, {}) and 'ok' in i0.get(k, {}) and iv[k]['ok'] != i0[k]['ok']:
                d = first_diff(i0[k]['ok'], iv[k]['ok'])
                ctx.fail('splitting runs / links or inserting non-content markup changed an extracted value', {**c, 'attribute': k}, {'where': d[0], 'original': d[1], 'variant': d[2]}); break
    else:
        one(ctx, case_data(c), None, seed=1)
    ctx.rule = 'replay of one stored case'
