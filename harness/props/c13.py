"""C13 — every valid docx can be read: optional parts and odd values never raise."""
import pk
from common import jhash, first_diff
from pkgrun import *

PROF = profile(p_strict=0.12, p_cell_nopar=0.1, p_sdt_cell=0.15, p_grid_gap=0.25, p_no_r_ns=0.15, p_numbering=0.7, p_comments=0.6, p_form=0.12,
               p_table=0.25, p_vmerge=0.4, p_span=0.35)
RULE = ('packages from a grammar of schema-valid constructs with every optional part / attribute independently present or absent and '
        'enumerated values over their value space (on/off spellings, empty drop-downs, grid gaps, dangling ids, missing r namespace, '
        'cells without paragraphs, comment id mismatches) x 4 option settings x all public attributes; non-trivial = at least three '
        'optional ingredients present; distinct by hash of the archive')
ATTRS = [v + s for v in VIEWS for s in ('', '_runs', '_pars')] + ['text', 'comments', 'images', 'core', 'files']


def one(ctx, data, meta=None, opts=pk.OPTS):
    ctx.evaluations += 1
    good = True
    # the hypothesis of C13_part_total, evaluated by the Lean model on the parts as they are walked
    v = ctx.drv.ask({**pk.model_case(data, False, True)[0], 'op': 'valid'})
    pkgvalid = v.pop('<package>', None) is True if isinstance(v, dict) else False
    comvalid = v.pop('<comments>', None) is True if isinstance(v, dict) else False
    srcvalid = v.pop('<sources>', None) is True if isinstance(v, dict) else False
    srcpkg = v.pop('<srcpackage>', None) is True if isinstance(v, dict) else False
    if isinstance(v, dict): v.pop('<items>', None); v.pop('<groups>', None); v.pop('<partok>', None); v.pop('<notesok>', None); v.pop('<deepok>', None); v.pop('<deepcok>', None); v.pop('<post>', None); v.pop('<flat>', None); v.pop('<vfree>', None); v.pop('<uniq>', None)
    ctx.count('validSrcPkg holds (hypothesis of C13_source_package_total: the package AS STORED)' if srcpkg else 'validSrcPkg false')
    ctx.count('source trees validT, goodTree, sameWb (hypotheses of C13_source_part_total)' if srcvalid else 'a source tree is not validT / goodTree / sameWb')
    ctx.count('commentsOK holds (hypothesis of C13_comments_total)' if comvalid else 'commentsOK false')
    allvalid = all(isinstance(x, dict) and x.get('ok') is True for x in v.values()) if isinstance(v, dict) and 'err' not in v else False
    ctx.count('validPkg holds (hypothesis of C13_package_total)' if pkgvalid else 'validPkg false')
    ctx.count('validT holds for every content part' if allvalid else 'validT false for some part')
    for html, dup, i, m in observe(ctx, data, opts):
        case = case_payload(data, html=html, dup=dup)
        if 'ctor' in i:
            ctx.fail('docx2python(...) raised', case, i['ctor'], features=['raises:' + i['ctor']['err']]); good = False; continue
        for a in ATTRS:
            iv, mv = i.get(a), m.get(a)
            ikind = 'ok' if 'ok' in iv else iv['err']
            mkind = 'ok' if 'ok' in mv else mv['err']
            ctx.count('outcome:' + ikind)
            if ikind != 'ok' and allvalid and a.endswith('_pars'):
                ctx.notes.append('a part satisfying validT raised in the implementation: the theorem C13_part_total does not transfer (model and code differ)')
            if ikind != 'ok':
                ctx.fail(f'reading an attribute of a schema-valid package raised', {**case, 'attribute': a}, iv, features=['raises:' + ikind]); good = False
            if ikind != mkind:
                ctx.diff(f'ok / exception kind of {a}', {**case, 'attribute': a}, ikind, mkind); good = False
            if ikind != 'ok' or mkind != 'ok': break
        try:
            import io, warnings
            from docx2python import docx2python
            with docx2python(io.BytesIO(data), html=html, duplicate_merged_cells=dup) as d:
                _ = d.html_map; _ = d.docx_reader.comments
        except Exception as e:
            ctx.fail('html_map raised', case, type(e).__name__, features=['raises:' + type(e).__name__]); good = False
        if html and dup:
            # every public read terminates also when the archive was saved, or the images written, before the first read
            import os, tempfile, shutil
            td = tempfile.mkdtemp(prefix='d2pv-c13-')
            try:
                with warnings.catch_warnings():
                    warnings.simplefilter('ignore')
                    with docx2python(io.BytesIO(data), html=html, duplicate_merged_cells=dup) as d:
                        d.docx_reader.save(os.path.join(td, 'o.docx')); d.save_images(os.path.join(td, 'img'))
                        for a in ('body', 'text', 'comments', 'core_properties', 'images', 'document_pars', 'footnotes_runs'):
                            try: getattr(d, a)
                            except Exception as e:
                                ctx.fail('reading an attribute of a schema-valid package raised', {**case, 'attribute': a, 'after': 'save, save_images'}, type(e).__name__ + ': ' + str(e)[:80],
                                         features=['raises:' + type(e).__name__]); good = False; break
            except Exception as e:
                ctx.fail('saving a schema-valid package raised', case, type(e).__name__ + ': ' + str(e)[:80], features=['raises:' + type(e).__name__]); good = False
            finally:
                shutil.rmtree(td, ignore_errors=True)
    if good: ctx.validated += 1
    if meta and len(meta['features']) >= 3: ctx.nontrivial(jhash(data.hex()))
    return good


def run(ctx):
    for f in stored_corpus('C13'): replay(ctx, json.load(open(f)))
    from gen.probes import probes
    for name, data in probes('C13'):
        ctx.count('probe'); one(ctx, data, None)
    n = 120 if ctx.quick else 3500
    for pkg, meta, rng in stream(ctx, PROF, n):
        data = pkg.to_bytes()
        one(ctx, data, meta)
        if ctx.evaluations % 40 == 1: ctx.sample({'body': meta['body'][:600], 'features': meta['features']})
    ctx.rule = RULE


def replay(ctx, rep):
    c = rep.get('case') or (rep.get('first_difference') or {}).get('case')
    one(ctx, case_data(c), None, [(c.get('html', False), c.get('dup', True))] if 'html' in c else pk.OPTS)
    ctx.rule = ctx.rule or 'replay of one stored case'
