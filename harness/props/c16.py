"""C16 — saving round-trips: same members, same extraction, edits carried over."""
import io, json, os, random, shutil, tempfile, warnings, zipfile
from lxml import etree
import pk, src
from common import jhash, first_diff
from pkgrun import *

PROF = profile(blocks=(1, 4), p_header=0.6, p_footer=0.5, p_footnotes=0.6, p_endnotes=0.4, p_comments=0.5, p_core=0.6, p_link=0.12, p_drawing=0.1, p_table=0.2)
RULE = ('generated packages with binary media, custom XML, unrelated members, per-member stored / deflated compression (plus real files of '
        'tests/resources in the thorough tier) x html; save without edits and after random edits of text nodes and relationship targets; checker: '
        'archive valid, member names = input names each once, members that are neither content nor relationships parts byte-identical, extraction '
        'of the saved file = extraction of the original (all attributes), saving the saved file reproduces its content parts, edited trees are what '
        'the file contains, input bytes untouched; correspondence: member list written by the Lean model of save; non-trivial = at least 2 content '
        'parts and 3 other members; distinct by archive hash')
KEYS = VIEWS + [v + '_runs' for v in VIEWS] + ['text', 'comments', 'core', 'images']


def c14n(b):
    return etree.tostring(etree.fromstring(b), method='c14n')


def one(ctx, data, meta, html, tmpdir, rng, edits=True, reads=None):
    from docx2python import docx2python
    ctx.evaluations += 1; good = True
    # what was read on the object before saving must not matter: nothing was edited
    READS = ['core_properties', 'comments', 'text', 'images', 'header', 'document_pars', 'footnotes_runs']
    if reads is None: reads = [a for a in READS if rng.random() < 0.5] if rng.random() < 0.75 else []
    case = case_payload(data, html=html, dup=True, reads_before_save=reads)
    zin = zipfile.ZipFile(io.BytesIO(data)); innames = zin.namelist()
    cps = {p for t, p in src.content_parts(data) if t != 'comments'}
    overw = cps | {n for n in innames if n.endswith('.rels')}
    out1 = os.path.join(tmpdir, 'o1.docx'); out2 = os.path.join(tmpdir, 'o2.docx'); out3 = os.path.join(tmpdir, 'o3.docx')
    buf = io.BytesIO(data)
    with warnings.catch_warnings():
        warnings.simplefilter('ignore')
        try:
            with docx2python(buf, html=html) as d:
                for a in reads:
                    try: getattr(d, a)
                    except Exception: pass
                d.docx_reader.save(out1)
            ctx.count('reads before save: %d' % len(reads))
        except Exception as e:
            ctx.fail('save raised', case, type(e).__name__, features=['raises:' + type(e).__name__]); return False
    if buf.getvalue() != data: ctx.fail('saving modified the input buffer', case, None); good = False
    b1 = open(out1, 'rb').read(); z1 = zipfile.ZipFile(io.BytesIO(b1))
    if z1.testzip() is not None: ctx.fail('the saved archive is not valid', case, z1.testzip()); good = False
    n1 = z1.namelist()
    if sorted(n1) != sorted(innames) or len(set(n1)) != len(n1):
        ctx.fail("the saved archive does not have exactly the input's member names, each once", case, {'input': innames, 'saved': n1}); good = False
    for n in innames:
        if n not in overw and n in n1 and z1.read(n) != zin.read(n):
            ctx.fail('a member that is neither a content part nor a relationships part is not byte-identical', {**case, 'member': n}, None); good = False
    # model: member list written
    m = ctx.drv.ask({**pk.model_case(data, html, True)[0], 'op': 'save'})
    if m.get('ok') != n1:
        ctx.diff('member names written by save', case, n1, m); good = False
    # the hypotheses of C16_reextract (same relationships listed by the saved archive, no content part under a numbering / relationships name,
    # goodTree of every content source tree), evaluated by the model on this package
    hy = ctx.drv.ask({**pk.model_case(data, html, True)[0], 'op': 'savehyp'})
    ctx.count('hypotheses of C16_reextract / C16_images_core_same hold' if all(hy.get(k) is True for k in ('files_same', 'saveSane', 'goodTree', 'imagesSane')) else 'hypotheses of C16_reextract: ' + json.dumps(hy, sort_keys=True))
    # same extraction
    i0, m0 = pk.both(ctx.drv, data, html, True, want=['plain', 'runs', 'text', 'comments', 'core', 'images'])
    i1, m1 = pk.both(ctx.drv, b1, html, True, want=['plain', 'runs', 'text', 'comments', 'core', 'images'])
    for k in KEYS:
        if i0.get(k) != i1.get(k):
            dd = first_diff(i0.get(k), i1.get(k))
            ctx.fail('extracting the saved file differs from extracting the original', {**case, 'attribute': k}, {'where': dd[0], 'original': dd[1], 'saved': dd[2]}); good = False; break
    if not compare_keys(ctx, 'extraction of the saved file', b1, html, True, i1, m1, KEYS): good = False
    # saving the saved file reproduces its content parts
    with warnings.catch_warnings():
        warnings.simplefilter('ignore')
        try:
            with docx2python(out1, html=html) as d: d.docx_reader.save(out2)
            z2 = zipfile.ZipFile(out2)
            for n in overw:
                if n in n1 and z2.read(n) != z1.read(n) and c14n(z2.read(n)) != c14n(z1.read(n)):
                    ctx.fail('saving the saved file again changes a content part', {**case, 'member': n}, None); good = False
            z2.close()
        except Exception as e:
            ctx.fail('saving the saved file raised', case, type(e).__name__); good = False
    # edits are exactly what the saved file contains
    if edits:
        with warnings.catch_warnings():
            warnings.simplefilter('ignore')
            try:
                with docx2python(io.BytesIO(data), html=html) as d:
                    rd = d.docx_reader; expect = {}; marks = []; held = []
                    rd.save(os.path.join(tmpdir, 'o0.docx'))          # an earlier save of the same reader must not freeze what later saves write
                    seen = set()
                    for f in rd.content_files():
                        if f.path in seen: continue        # a part related twice: the first File is the one handed out for editing
                        seen.add(f.path)
                        root = f.root_element
                        def hidden(t):
                            for a in t.iterancestors():
                                if src.ptag(a) == 'w:tc':
                                    pr = src.child(a, 'w:tcPr'); vm = src.child(pr, 'w:vMerge') if pr is not None else None
                                    if vm is not None and src.wval(vm) in (None, 'continue'): return True
                            return False
                        ts = [t for t in root.iter() if src.ptag(t) == 'w:t' and not hidden(t)]
                        for t in rng.sample(ts, min(len(ts), 2)):
                            mk = 'EDIT%d' % rng.randrange(10 ** 6); t.text = mk; marks.append((f.Type, mk)); held.append((f, root, t))
                        re_ = f.rels_element
                        if re_ is not None:
                            for r_ in re_:
                                if isinstance(r_.tag, str) and r_.get('TargetMode') == 'External' and rng.random() < 0.5: r_.set('Target', 'http://edited/%d' % rng.randrange(1000))
                            expect[f._rels_path] = etree.tostring(re_)
                        expect[f.path] = etree.tostring(root)
                    # the relationships of parts that are not content parts (comments, the package root, custom XML) can be edited too
                    for f in rd.files:
                        if f.path in seen or f.Type == 'relationships': continue
                        seen.add(f.path)
                        try: re_ = f.rels_element
                        except Exception: re_ = None
                        if re_ is not None and len(re_):
                            for r_ in re_:
                                if isinstance(r_.tag, str) and r_.get('TargetMode') == 'External': r_.set('Target', 'http://edited-nc/%d' % rng.randrange(1000)); ctx.count('edited relationship of a non-content part')
                            expect[f._rels_path] = etree.tostring(re_)
                    rd.save(out3)
                    # a second round of edits through the SAME element objects, saved to another path: the second file holds the second edits
                    out4 = os.path.join(tmpdir, 'o4.docx'); expect2 = {}; marks2 = []
                    for f, root, t in held:
                        mk = 'AGAIN%d' % rng.randrange(10 ** 6); t.text = mk; marks2.append(mk); expect2[f.path] = root
                    if held:
                        rd.save(out4)
                        z4 = zipfile.ZipFile(out4)
                        for n, root in expect2.items():
                            if n in z4.namelist() and c14n(z4.read(n)) != c14n(etree.tostring(root)):
                                ctx.fail('an edited element tree is not what the saved file contains', {**case, 'member': n, 'save': 'second, after editing again through the same elements'}, None); good = False
                        z4.close(); ctx.count('second edit + second save')
                z3 = zipfile.ZipFile(out3)
                for n, want in expect.items():
                    if n in z3.namelist() and c14n(z3.read(n)) != c14n(want):
                        ctx.fail('an edited element tree is not what the saved file contains', {**case, 'member': n}, None); good = False
                z3.close()
                with docx2python(out3, html=html) as d3:
                    text = d3.text
                    for ty, mk in marks:
                        if mk not in text: ctx.fail('an edit of a text node is missing from the extraction of the saved file', {**case, 'edit': mk}, None); good = False
            except Exception as e:
                ctx.fail('save after edits raised', case, type(e).__name__ + ': ' + str(e)[:100]); good = False
    if good: ctx.validated += 1
    if len(cps) >= 2 and len(innames) - len(overw) >= 3: ctx.nontrivial(jhash(jhash(data.hex()) + str(html)))
    return good


def run(ctx):
    tmpdir = tempfile.mkdtemp(prefix='d2pv-c16-')
    try:
        from gen.probes import probes
        for name, data in probes('C16'):
            ctx.count('probe'); one(ctx, data, None, False, tmpdir, random.Random(1))
        n = 45 if ctx.quick else 3000
        for pkg, meta, rng in stream(ctx, PROF, n):
            if rng.random() < 0.6: pkg.add('customXml/item%d.xml' % rng.randint(2, 9), '<?xml version="1.0"?><a:root xmlns:a="urn:x"><a:v>1</a:v></a:root>')
            if rng.random() < 0.5: pkg.add('word/media/blob%d.bin' % rng.randint(0, 9), bytes(rng.randrange(256) for _ in range(rng.choice([0, 10, 3000]))))
            if rng.random() < 0.4: pkg.add('docProps/app.xml', '<Properties xmlns="http://schemas.openxmlformats.org/officeDocument/2006/extended-properties"><Pages>1</Pages></Properties>')
            if rng.random() < 0.3: pkg.add('word/theme/theme1.xml', '<a:theme xmlns:a="http://schemas.openxmlformats.org/drawingml/2006/main" name="x"/>')
            if rng.random() < 0.25:
                # a content part that is ALSO the target of a relationship of some other type, declared first
                rel = pkg.get('word/_rels/document.xml.rels').decode()
                import re as _re
                m = _re.search(r'Target="(header1\.xml|footnotes\.xml|footer1\.xml)"', rel)
                if m:
                    rel = rel.replace('<Relationship ', f'<Relationship Id="rIdT" Type="http://example.com/relationships/pageTemplate" Target="{m.group(1)}"/><Relationship ', 1)
                    pkg.set('word/_rels/document.xml.rels', rel); ctx.count('part related under two types')
            names_ = [m for m, _ in pkg.members]
            if 'word/comments.xml' in names_ and 'word/_rels/comments.xml.rels' not in names_ and rng.random() < 0.7:
                from gen.docgen import rels_xml
                pkg.add('word/_rels/comments.xml.rels', rels_xml([('rId9', 'hyperlink', 'http://in-a-comment/', True)]))
            if rng.random() < 0.25:
                # archivers other than Word store explicit directory entries
                dirs = sorted({n[:i + 1] for n, _ in pkg.members for i, ch in enumerate(n) if ch == '/'})
                pkg.members = [(d, b'') for d in dirs if rng.random() < 0.8] + pkg.members; ctx.count('archive with directory entries')
            data = pkg.to_bytes(rng=rng)
            one(ctx, data, meta, rng.random() < 0.5, tmpdir, rng)
            if ctx.evaluations % 15 == 1: ctx.sample({'members': [m for m, _ in pkg.members]})
        if not ctx.quick:
            for f in corpus_files():
                one(ctx, open(f, 'rb').read(), None, False, tmpdir, random.Random(1), edits=False); ctx.count('real-file')
    finally:
        shutil.rmtree(tmpdir, ignore_errors=True)
    ctx.rule = RULE


def replay(ctx, rep):
    c = rep.get('case') or (rep.get('first_difference') or {}).get('case')
    tmpdir = tempfile.mkdtemp(prefix='d2pv-c16-')
    try: one(ctx, case_data(c), None, c.get('html', False), tmpdir, random.Random(1), reads=c.get('reads_before_save'))
    finally: shutil.rmtree(tmpdir, ignore_errors=True)
    ctx.rule = 'replay of one stored case'
