"""C07 — html=True output is balanced, escaped, faithful, and projects onto plain output."""
import re
import pk, src
from common import jhash, first_diff
from pkgrun import *

PROF = profile(p_strict=0.12, tokens=True, math_markup=True, bare_vals=True, p_math=0.12, p_rpr=0.8, p_style=0.5, p_link=0.12, p_textbox=0.06,
               p_table=0.15, p_text=0.55, run_items=(0, 3), inlines=(1, 5))
RULE = ('packages from the "formatting" profile: every recognised run property with every on/off spelling (and unrecognised ones), heading '
        'and non-heading styles, token text followed by markup characters (& < >), hyperlinks whose runs differ in formatting, text boxes '
        '(nested paragraphs); html on; checker on the implementation: tag balance per paragraph, tag vocabulary, no raw markup from text, '
        'formatting stack at every token = recognised properties switched on in its run + heading level, strip-tags-and-unescape = the '
        'html=False string; correspondence: html strings and style lists, model vs implementation; non-trivial = at least 3 formatted '
        'runs; distinct by hash of the archive')
TAG = re.compile(r'<(/?)([A-Za-z0-9]+)([^<>]*)>')
VOCAB = {'b', 'i', 'u', 's', 'sup', 'sub', 'span', 'h1', 'h2', 'h3', 'h4', 'h5', 'h6', 'a', 'latex'}
FMT = {'b', 'i', 'u', 's', 'sup', 'sub', 'h1', 'h2', 'h3', 'h4', 'h5', 'h6'}
ALT = re.compile(r'----Image alt text---->[^<]*<')
OFF = {'0', 'false', 'off'}


def unescape(t):
    return t.replace('&lt;', '<').replace('&gt;', '>').replace('&amp;', '&')


def analyse(s, chars=None):
    """returns (error or None, projected plain string, {token: frozenset(formatting)}); with a list `chars`: appends (character, formatting)
    for every character of text outside the stand-ins"""
    alts = []
    def keep(m): alts.append(m.group(0)); return '\x00%d\x00' % (len(alts) - 1)
    s2 = ALT.sub(keep, s)
    for a_ in alts:
        d_ = a_[len('----Image alt text---->'):-1]
        if '>' in d_ or re.search(r'&(?!amp;|lt;|gt;)', d_): return 'unescaped markup character in an image description: ' + d_[:40], None, None
    out = []; stack = []; fmt_at = {}; pos = 0
    def text(t):
        if '<' in t or '>' in t: return 'raw angle bracket in text: ' + t[:40]
        if re.search(r'&(?!amp;|lt;|gt;|#x0[^;<>&]*;)', t): return 'unescaped ampersand in text: ' + t[:40]
        cur = set()
        for kind, name, css in stack:
            if kind == 'fmt': cur |= ({name} if name != 'span' else {'css:' + c for c in css})
        for tok in src.TOKEN.findall(t): fmt_at[tok] = frozenset(cur)
        if chars is not None and not any(k != 'fmt' for k, _, _ in stack): chars.extend((ch, frozenset(cur)) for ch in unescape(t))
        out.append(unescape(t) if not any(k == 'raw' for k, _, _ in stack) else t)
        return None
    for m in TAG.finditer(s2):
        e = text(s2[pos:m.start()]); pos = m.end()
        if e: return e, None, None
        close, name, rest = m.group(1), m.group(2), m.group(3)
        if name not in VOCAB: return f'tag outside the documented vocabulary: <{close}{name}>', None, None
        if not close:
            if name == 'span' and rest.startswith(' style="'):
                stack.append(('fmt', 'span', rest[len(' style="'):-1].split(';')))
            elif name == 'span': stack.append(('keep', 'span', None)); out.append(m.group(0))     # symbol stand-in
            elif name in FMT: stack.append(('fmt', name, None))
            elif name == 'latex': stack.append(('keep', name, None)); out.append(m.group(0))
            else: stack.append(('keep', name, None)); out.append(m.group(0))
        else:
            if not stack or stack[-1][1] != name: return f'closing tag </{name}> does not match the open tag {stack[-1][1] if stack else None}', None, None
            k = stack.pop()
            if k[0] != 'fmt': out.append(m.group(0))
    e = text(s2[pos:])
    if e: return e, None, None
    if stack: return 'tags left open at the end of the paragraph: ' + ','.join(x[1] for x in stack), None, None
    plain = ''.join(out)
    # the description inside an alt-text stand-in is document text too: escaped under html, so unescaped here
    plain = re.sub('\x00(\\d+)\x00', lambda m: '----Image alt text---->' + unescape(alts[int(m.group(1))][len('----Image alt text---->'):-1]) + '<', plain)
    return None, plain, fmt_at


def expected_formats(parinfo):
    """token -> set of formatting switched on, from the source run properties and the paragraph style"""
    res = {}
    head = set()
    m = re.fullmatch(r'Heading([1-6])', parinfo.style or '')
    if m: head = {'h' + m.group(1)}
    for x in parinfo.own:
        if src.ptag(x) != 'w:t' or not src.TOKEN.search(x.text or ''): continue
        run = x.getparent()
        props = {}
        if src.ptag(run) == 'w:r':
            rpr = src.child(run, 'w:rPr')
            if rpr is not None:
                for c in rpr:
                    if isinstance(c.tag, str): props[src.etree.QName(c.tag).localname] = src.wval(c)
        f = set(head)
        for k, v in props.items():
            v = v or None
            if k in ('b', 'i') and (v is None or v not in OFF): f.add(k)
            elif k == 'strike' and (v is None or v not in OFF): f.add('s')
            elif k == 'u' and v != 'none': f.add('u')
            elif k == 'vertAlign' and v in ('superscript', 'subscript'): f.add(v[:3])
            elif k == 'caps' and (v is None or v not in OFF): f.add('css:text-transform:uppercase')
            elif k == 'smallCaps' and (v is None or v not in OFF): f.add('css:font-variant:small-caps')
            elif k == 'highlight': f.add('css:background-color:' + (v or ''))
            elif k == 'sz': f.add('css:font-size:' + (v or '') + 'pt')
            elif k == 'color': f.add('css:color:' + (v or ''))
        # (text that follows a NESTED run — the runs of a phonetic guide, w:ruby — inside its run: known finding)
        nested_before = src.ptag(run) == 'w:r' and any(src.ptag(d) == 'w:r' for sib in x.itersiblings(preceding=True) for d in sib.iter())
        if src.ptag(run) == 'w:r' and not nested_before:
            # ... also when the nested run sits in a PRECEDING run of the same paragraph that merge_elems may join with this one
            # (adjacent runs with equal recognised formatting become one run: C06); only runs and markup may lie in between
            for sib in run.itersiblings(preceding=True):
                if src.ptag(sib) == 'w:r':
                    if any(src.ptag(d) == 'w:r' for k in sib for d in k.iter()): nested_before = True; break
                elif src.ptag(sib) in ('w:hyperlink', 'w:sdt', 'w:ins', 'w:moveTo', 'w:moveFrom', 'w:smartTag', 'w:fldSimple', 'w:dir', 'w:bdo', 'w:customXml', 'm:oMath', 'm:oMathPara'): break
        # (text that follows a TEXT BOX inside its run, when that run is collected into an implicit paragraph - it stands in a hyperlink,
        # whose children are extracted one by one, or outside every paragraph: the text-box paragraph concludes the implicit paragraph
        # and the text after it starts an unformatted run: known finding)
        def outside_par(run_):
            for a in run_.iterancestors():
                if src.ptag(a) == 'w:hyperlink': return True
                if src.ptag(a) == 'w:p': return False
            return True
        box_before = False
        if src.ptag(run) == 'w:r' and outside_par(run):
            box_before = any(src.ptag(d) == 'w:p' for sib in x.itersiblings(preceding=True) for d in sib.iter())
            if not box_before:
                for sib in run.itersiblings(preceding=True):
                    if src.ptag(sib) == 'w:r':
                        if any(src.ptag(d) == 'w:p' for d in sib.iter()): box_before = True; break
                    elif src.ptag(sib) in ('w:hyperlink', 'w:sdt', 'w:ins', 'w:moveTo', 'w:moveFrom', 'w:smartTag', 'w:fldSimple', 'w:dir', 'w:bdo', 'w:customXml', 'm:oMath', 'm:oMathPara'): break
        for tok in src.TOKEN.findall(x.text):
            res[tok] = frozenset(f)
            if nested_before: AFTER_NESTED_RUN.add(tok)
            if box_before: AFTER_BOX.add(tok)
    return res


AFTER_NESTED_RUN = set()
AFTER_BOX = set()


def run_format(run, head):
    """recognised formatting switched on for a w:r (same table as expected_formats)"""
    props = {}
    rpr = src.child(run, 'w:rPr')
    if rpr is not None:
        for c in rpr:
            if isinstance(c.tag, str): props[src.etree.QName(c.tag).localname] = src.wval(c)
    f = set(head)
    for k, v in props.items():
        v = v or None
        if k in ('b', 'i') and (v is None or v not in OFF): f.add(k)
        elif k == 'strike' and (v is None or v not in OFF): f.add('s')
        elif k == 'u' and v != 'none': f.add('u')
        elif k == 'vertAlign' and v in ('superscript', 'subscript'): f.add(v[:3])
        elif k == 'caps' and (v is None or v not in OFF): f.add('css:text-transform:uppercase')
        elif k == 'smallCaps' and (v is None or v not in OFF): f.add('css:font-variant:small-caps')
        elif k == 'highlight': f.add('css:background-color:' + (v or ''))
        elif k == 'sz': f.add('css:font-size:' + (v or '') + 'pt')
        elif k == 'color': f.add('css:color:' + (v or ''))
    return frozenset(f)


def simple_chars(parinfo):
    """for a SIMPLE paragraph (runs holding only properties and w:t, no list, not nested, not in a link or a note): the expected
    (character, formatting) sequence of its text - also for text without token, e.g. formatted blanks; None for other paragraphs"""
    e = parinfo.e
    if parinfo.in_link or parinfo.nested_in_par or parinfo.encloses_par or parinfo.is_list or parinfo.numId is not None: return None
    if any(src.ptag(a) in ('w:footnote', 'w:endnote', 'w:comment') for a in e.iterancestors()): return None
    head = set()
    m = re.fullmatch(r'Heading([1-6])', parinfo.style or '')
    if m: head = {'h' + m.group(1)}
    out = []
    for c in e:
        if not isinstance(c.tag, str): continue
        t = src.ptag(c)
        if t in ('w:pPr', 'w:proofErr', 'w:bookmarkStart', 'w:bookmarkEnd'):
            if t == 'w:pPr' and any(src.ptag(x) == 'w:tabs' for x in c.iter()): return None        # (tab-stop definitions: known finding of C02)
            continue
        if t != 'w:r': return None
        f = run_format(c, head)
        for k in c:
            if not isinstance(k.tag, str): continue
            if src.ptag(k) == 'w:rPr': continue
            if src.ptag(k) != 'w:t': return None
            out.extend((ch, f) for ch in (k.text or ''))
    return out


def one(ctx, data, meta=None):
    ctx.evaluations += 1; good = True
    parts = src.parts_of(data)
    obs = observe(ctx, data, ((True, True), (False, True)), want=['plain', 'pars'])
    (_, _, ih, mh), (_, _, ip, mp) = obs
    case = case_payload(data, html=True, dup=True)
    # correspondence on obs_07: html strings, plain strings, style lists
    if not compare_keys(ctx, 'html string', data, True, True, ih, mh, VIEWS[:5]): good = False
    for v in VIEWS[:5]:
        a, b = ih.get(v + '_pars'), mh.get(v + '_pars')
        if a and b and 'ok' in a and 'ok' in b:
            proj = lambda r: {'hs': r.get('hs'), 'rs': r.get('rs')}
            d = first_diff([proj(r) for r in flat(a['ok'], 4)], [proj(r) for r in flat(b['ok'], 4)])
            if d: ctx.diff(f'style lists of {v}_pars', case, d[1], d[2], path=d[0]); good = False
    # the hypothesis of C07_run_string / C07_paragraph_string (GoodStyle: a style string has no angle bracket and begins with its
    # tag name) evaluated on every style string the implementation produced: the theorems apply to what the grammar generates
    for v in VIEWS[:5]:
        a = ih.get(v + '_pars')
        if a and 'ok' in a:
            for r in flat(a['ok'], 4):
                for st in list(r.get('hs') or []) + [x for run in (r.get('rs') or []) for x in run[0]]:
                    okst = ('<' not in st) and ('>' not in st) and st[:1] not in ('', '/', ' ', '\t', '\n', '\r', '\x0b', '\x0c')
                    ctx.count('style string satisfies GoodStyle' if okst else 'style string outside GoodStyle (theorem hypothesis not met)')
    exp = {}; AFTER_NESTED_RUN.clear(); AFTER_BOX.clear(); exp_chars = {}
    for path, root in parts.items():
        for p in src.paragraphs(root, path):
            if not p.in_link: exp.update(expected_formats(p))
            sc = simple_chars(p)
            if sc and p.tokens: exp_chars[p.tokens[0]] = sc
    for v in VIEWS[:5]:
        if 'ok' not in ih.get(v, {}) or 'ok' not in ip.get(v, {}): ctx.skipped_raises += 1; continue
        hs, ps = flat(ih[v]['ok'], 4), flat(ip[v]['ok'], 4)
        if len(hs) != len(ps):
            ctx.fail('paragraph count differs between html on and off', {**case, 'attribute': v}, [len(hs), len(ps)]); good = False; continue
        for k, (h, pl) in enumerate(zip(hs, ps)):
            chars = []
            err, proj, fmt_at = analyse(h, chars)
            c = {**case, 'attribute': v, 'paragraph_index': k}
            if err:
                ctx.fail('html paragraph is not balanced / escaped / within the vocabulary', c, {'html': h, 'problem': err}); good = False; continue
            if proj != pl:
                ctx.fail('deleting the formatting tags and unescaping does not give the html=False string', c, {'html': h, 'projected': proj, 'plain': pl}); good = False
            # a simple paragraph, character by character: also text without token (formatted blanks) carries exactly its formatting
            key = next((t for t in fmt_at if t in exp_chars), None)
            if key is not None: ctx.count('simple paragraph compared character by character (formatted blanks included)')
            if key is not None and chars != exp_chars[key] and all(exp.get(t) == f for t, f in fmt_at.items() if t in exp):
                i_ = next((n for n, (a_, b_) in enumerate(zip(chars, exp_chars[key])) if a_ != b_), min(len(chars), len(exp_chars[key])))
                ctx.fail('tags around a stretch of text are not exactly its recognised formatting switched on', c,
                         {'at_character': i_, 'expected': [exp_chars[key][i_][0], sorted(exp_chars[key][i_][1])] if i_ < len(exp_chars[key]) else None,
                          'observed': [chars[i_][0], sorted(chars[i_][1])] if i_ < len(chars) else None, 'html': h}); good = False
            for tok, f in fmt_at.items():
                if tok in exp and exp[tok] != f:
                    ctx.fail('tags around a stretch of text are not exactly its recognised formatting switched on', c,
                             {'token': tok, 'expected': sorted(exp[tok]), 'observed': sorted(f), 'html': h},
                             features=['text-after-text-box-in-implicit-run'] if tok in AFTER_BOX else ['text-after-nested-run'] if tok in AFTER_NESTED_RUN else []); good = False
    if good: ctx.validated += 1
    if meta and meta['stats'].get('rPr', 0) >= 3: ctx.nontrivial(jhash(data.hex()))
    return good


def run(ctx):
    from gen.probes import probes
    for name, data in probes('C07'):
        ctx.count('probe'); one(ctx, data, {'features': ['probe:' + name], 'stats': {'rPr': 3}})
    n = 90 if ctx.quick else 8000
    for pkg, meta, rng in stream(ctx, PROF, n):
        one(ctx, pkg.to_bytes(), meta)
        if ctx.evaluations % 30 == 1: ctx.sample({'body': meta['body'][:700], 'features': meta['features']})
    ctx.rule = RULE


def replay(ctx, rep):
    c = rep.get('case') or (rep.get('first_difference') or {}).get('case')
    one(ctx, case_data(c), None)
    ctx.rule = ctx.rule or 'replay of one stored case'
