"""C12 — each comment is returned with its exact anchored text, author, date and body."""
import pk, src
from common import jhash, first_diff
from pkgrun import *

PROF = profile(tokens=True, straddle_ranges=0.15, math_markup=True, p_math=0.12, p_comment_marker=0.2, p_comments=0.92,
               p_textbox=0.0, p_vmerge=0.3, p_table=0.3, p_style=0.45, p_list=0.35, p_text=0.55, inlines=(1, 5), p_sdt_cell=0.0, p_block_misc=0.1)
RULE = ('documents with 0-8 comment ranges starting and ending at arbitrary run boundaries, spanning paragraphs / cells / tables, nested '
        'and overlapping, in heading and list paragraphs, inside hyperlinks (rounded outwards to the link, which is one run), with count mismatches and missing comments part; both html settings; checker: '
        'reference text holds exactly the text tokens between the two markers, is a contiguous slice of the flattened body_runs, author / '
        'date / body as in the comments part, comments-part order, [] on mismatch or missing part; correspondence: comments and body_runs, '
        'model vs implementation; non-trivial = at least 2 well-formed ranges; distinct by archive hash')


def expected(root, croot):
    """well-formed ranges of the main part: id -> tokens between the markers; the ids of ranges that touch a vertically continued cell
    (its own content is replaced by the copy of the cell above when duplicate_merged_cells is on); and the comment entries"""
    order = []          # ('s'|'e', id, hidden) | ('t', token, hidden)
    def continued(tc):
        pr = src.child(tc, 'w:tcPr'); vm = src.child(pr, 'w:vMerge') if pr is not None else None
        return vm is not None and src.wval(vm) in (None, 'continue')
    def visit(x, in_link, hid):
        t = src.ptag(x)
        if t == 'w:tc' and continued(x): hid = True
        if t == 'w:hyperlink' and not in_link:
            # a hyperlink is one run string: a range that starts / ends inside it starts before / ends after that run
            inner = [y for y in x.iter() if y is not x]
            for y in inner:
                if src.ptag(y) == 'w:commentRangeStart': order.append(('s', src.wval(y, 'id'), hid))
            for y in inner:
                if src.ptag(y) in ('w:t', 'm:t'):
                    for tok in src.TOKEN.findall(y.text or ''): order.append(('t', tok, hid))
            for y in inner:
                if src.ptag(y) == 'w:commentRangeEnd': order.append(('e', src.wval(y, 'id'), hid))
            return
        if t == 'w:commentRangeStart': order.append(('s', src.wval(x, 'id'), hid))
        elif t == 'w:commentRangeEnd': order.append(('e', src.wval(x, 'id'), hid))
        elif t in ('w:t', 'm:t'):
            for tok in src.TOKEN.findall(x.text or ''): order.append(('t', tok, hid))
        elif t == 'w:tc' and hid: order.append(('c', None, True))       # the cell itself is replaced, even when it holds no text
        for c in x:
            if isinstance(c.tag, str): visit(c, in_link, hid)
    visit(root, False, False)
    ids = {}
    for k, (kind, v, _h) in enumerate(order):
        if kind in 'se': ids.setdefault(v, []).append((kind, k))
    ranges = {}; wellformed = True; touched = set()
    for i, ev in ids.items():
        if [k for k, _ in ev] == ['s', 'e']:
            ranges[i] = [v for kind, v, _h in order[ev[0][1]:ev[1][1]] if kind == 't']
            if any(h for _k, _v, h in order[ev[0][1]:ev[1][1] + 1]): touched.add(i)
        else: wellformed = False
    entries = []
    if croot is not None:
        for c in croot:
            if not isinstance(c.tag, str): continue
            entries.append({'id': src.wval(c, 'id'), 'author': src.wval(c, 'author'), 'date': src.wval(c, 'date') or ''})
    return ranges, wellformed, len(ids), entries, touched


def one(ctx, data, meta=None, opts=((False, False), (True, False), (True, True))):
    ctx.evaluations += 1; good = True
    parts = src.parts_of(data); cps = dict((t, p) for t, p in src.content_parts(data))
    root = parts.get(cps.get('officeDocument')); croot = parts.get(cps.get('comments')) if 'comments' in cps else None
    ranges0 = expected(root, croot)
    def merged_expected(html):
        """consecutive hyperlinks with the same target and anchor are ONE link (C06), hence one run: the rounding of markers inside
        links is done on the tree the walk sees, File.root_element"""
        import copy, io as _io, warnings as _w
        from docx2python import docx2python
        try:
            with _w.catch_warnings():
                _w.simplefilter('ignore')
                with docx2python(_io.BytesIO(data), html=html) as d:
                    return expected(copy.deepcopy(d.docx_reader.file_of_type('officeDocument').root_element), croot)
        except Exception:
            return ranges0
    # known finding: inline content that stands OUTSIDE every paragraph (a display equation, a run directly in the body or in a cell)
    # is collected into an implicit paragraph that stays open; every range that ends after such an element is miscounted
    stray_before = set()
    if root is not None:
        seen_stray = False
        for x in root.iter():
            if not isinstance(x.tag, str): continue
            t = src.ptag(x)
            if t in ('w:r', 'm:oMath', 'm:oMathPara', 'w:hyperlink', 'w:fldSimple') and not any(src.ptag(a_) in ('w:p', 'w:r', 'm:oMath', 'm:oMathPara', 'w:hyperlink', 'w:fldSimple') for a_ in x.iterancestors()):
                seen_stray = True
            if t == 'w:commentRangeEnd' and seen_stray: stray_before.add(src.wval(x, 'id'))
    for html, dup in opts:
        ranges, wellformed, nids, entries, touched = merged_expected(html)
        i, m = pk.both(ctx.drv, data, html, dup, want=['runs', 'comments'])
        case = case_payload(data, html=html, dup=dup)
        if not compare_keys(ctx, 'comments / body_runs', data, html, dup, i, m, ['comments', 'body_runs']): good = False
        if 'ok' not in i.get('comments', {}) or 'ok' not in i.get('body_runs', {}): ctx.skipped_raises += 1; continue
        got = i['comments']['ok']; allruns = flat(i['body_runs']['ok'], 5)
        if croot is None:
            if got != []: ctx.fail('a document without a comments part does not yield an empty list', case, got); good = False
            continue
        if nids != len(entries):
            if got != []: ctx.fail('a mismatch between ranges and comment entries does not yield an empty list', case, got); good = False
            continue
        if not wellformed or set(ranges) != {e['id'] for e in entries} or len(entries) == 0: continue
        if len(got) != len(entries):
            ctx.fail('comments does not return one tuple per entry of the comments part', case, {'got': got, 'entries': entries}); good = False; continue
        for k, (tup, e) in enumerate(zip(got, entries)):
            c = {**case, 'comment_index': k, 'comment_id': e['id']}
            if tup[1] != e['author'] or tup[2] != e['date']:
                ctx.fail('author / date of a comment differ from the comments part (or the order is not that of the part)', c, tup); good = False; continue
            if dup and e['id'] in touched: ctx.count('range touching a vertically continued cell (copy replaces its content): text not compared'); continue
            toks = src.TOKEN.findall(tup[0])
            if dup: toks = list(dict.fromkeys(toks))       # merged-cell copies repeat text inside a range
            def subseq(a, b):
                it = iter(b); return all(x in it for x in a)
            if (toks != ranges[e['id']]) if not dup else (not subseq(ranges[e['id']], toks)):
                ctx.fail("the anchored text is not the text between the comment's range markers", c, {'reference': tup[0], 'expected_tokens': ranges[e['id']]},
                         features=['inline-content-outside-paragraph-before-range-end'] if e['id'] in stray_before else []); good = False; continue
            ok = any(''.join(allruns[b:b + n]) == tup[0] for b in range(len(allruns) + 1) for n in range(0, len(allruns) - b + 1)) if len(allruns) < 120 else True
            if not ok: ctx.fail('the anchored text is not a concatenation of consecutive run strings of body_runs', c, tup[0]); good = False
    # the run machine (Spec/Runs.lean, the spec of walk_runs / C12_between) against the implementation, in BOTH html modes: for every
    # paragraph of the main part without nested paragraphs that is not a list item, the machine's runs (tags and rendered strings)
    # are the record's runs
    for hm in (False, True):
        case0, ords = pk.model_case(data, hm, False)
        mr = ctx.drv.ask({**case0, 'op': 'runs'})
        i0 = pk.observe(data, hm, False, ['pars'])
        if not (isinstance(mr, dict) and 'ok' in mr and 'ok' in i0.get('body_pars', {})): continue
        recs = {tuple(r['elem']): r for r in flat(i0['body_pars']['ok'], 4) if r.get('elem')}
        for ent in mr['ok']:
            key = ords.get(ent['elem']); rec = recs.get(tuple(key)) if key else None
            if rec is None or 'ok' not in ent['machine']: continue
            ctx.count('paragraphs compared with the run machine (html=%s)' % hm)
            own = rec['runs'][1:-1] if rec.get('hs') else rec['runs']
            tags = [r_[0] for r_ in rec['rs'] if r_[1] != '']
            if own != ent['machine']['ok']['strings'] or tags != ent['machine']['ok']['styles']:
                ctx.diff('runs of a paragraph vs the run machine', case_payload(data, html=hm, dup=False, paragraph=list(key)),
                         [own, tags], [ent['machine']['ok']['strings'], ent['machine']['ok']['styles']]); good = False
    if good: ctx.validated += 1
    if len(ranges) >= 2 and croot is not None: ctx.nontrivial(jhash(data.hex()))
    return good


def run(ctx):
    from gen.probes import probes
    for name, data in probes('C12'):
        ctx.count('probe'); one(ctx, data, {'features': ['probe:' + name], 'stats': {}})
    n = 80 if ctx.quick else 8000
    for pkg, meta, rng in stream(ctx, PROF, n):
        one(ctx, pkg.to_bytes(), meta); ctx.count('ranges=%d' % min(meta['ranges'], 6))
        if ctx.evaluations % 25 == 1: ctx.sample({'body': meta['body'][:700], 'ranges': meta['ranges'], 'comments': meta['comments']})
    ctx.rule = RULE


def replay(ctx, rep):
    c = rep.get('case') or (rep.get('first_difference') or {}).get('case')
    one(ctx, case_data(c), None, [(c['html'], c.get('dup', True))] if 'html' in c else ((False, False), (True, False), (True, True)))
    ctx.rule = ctx.rule or 'replay of one stored case'
