"""C19 — options change only what they document."""
import io, os, shutil, tempfile, warnings
import pk, src
from common import jhash, first_diff
from pkgrun import *

PROF = profile(p_table=0.3, p_span=0.3, p_vmerge=0.3, p_rpr=0.6, p_style=0.4, p_list=0.35, p_comments=0.9, p_comment_marker=0.12, straddle_ranges=0.4, p_core=0.7, p_textbox=0.06, p_same_image_name=0.5, p_header=0.7, p_cell_nopar=0.08)
RULE = ('packages from the union of the nesting / table / formatting profiles; all pairs of option settings: html on vs off (same nesting '
        'skeleton, paragraph count, lineage, styles, list positions, images, core properties, number of comments), duplicate_merged_cells on '
        'vs off (records that are not copies carry the same runs in the same order; no merged cell at all => identical output; ragged tables with gridSpan and vMerge in any combination, cells holding paragraphs only: same cells per row and every non-copy record at the same address), image folder '
        'given vs not (identical returned values); relations evaluated on the implementation and on the model; non-trivial = has a table '
        'and formatted runs; distinct by archive hash')


def shape(x):
    return [shape(y) for y in x] if isinstance(x, list) else 0


def struct(obs):
    out = {}
    for v in VIEWS[:5]:
        a = obs.get(v + '_pars')
        if not a or 'ok' not in a: return None
        recs = flat(a['ok'], 4)
        out[v] = {'shape': shape(a['ok']), 'n': len(recs), 'lineage': [x['lin'] for x in recs], 'style': [x['style'] for x in recs], 'lp': [x['lp'] for x in recs]}
    for k in ('images', 'core'):
        if k in obs and 'ok' in obs[k]: out[k] = obs[k]['ok']
    if 'comments' in obs and 'ok' in obs['comments']: out['ncomments'] = len(obs['comments']['ok'])
    return out


def noncopy_runs(obs):
    out = {}
    for v in VIEWS[:5]:
        a = obs.get(v + '_pars')
        if not a or 'ok' not in a: return None
        out[v] = [(tuple(x['elem']), x['runs']) for x in flat(a['ok'], 4) if x.get('elem')]
    return out


def one(ctx, data, meta=None):
    ctx.evaluations += 1; good = True
    obs = {(h, d): (i, m) for h, d, i, m in observe(ctx, data, pk.OPTS, want=['pars', 'comments', 'images', 'core', 'skel'])}
    # the implementation refines the structural machine `skeletonOf` (no text, no html parameter): the machine run on the tree merged
    # under EITHER html setting gives the records (nesting, lineage, style, list position, source element, copy mark) of BOTH extractions
    facts = lambda x: {k: x.get(k) for k in ('lin', 'style', 'lp', 'elem', 'copy')} if isinstance(x, dict) else x
    for dup in (True, False):
        for hm in (False, True):                      # html setting under which the model merged the tree
            m = obs[(hm, dup)][1]
            for hi in (False, True):                  # html setting of the implementation's extraction
                i = obs[(hi, dup)][0]
                for v in VIEWS[:5]:
                    sk, pr = m.get(v + '_skel'), i.get(v + '_pars')
                    if not sk or not pr or 'ok' not in pr: continue
                    if 'ok' not in sk:
                        ctx.diff(f'structural machine raises on {v}', case_payload(data, html=hi, dup=dup, merged_under_html=hm), 'returns', sk); good = False; continue
                    fa, fb = nest_map(pr['ok'], facts), nest_map(sk['ok'], facts)
                    pk.wild_copy(fa, fb)
                    d = first_diff(fa, fb)
                    if d:
                        ctx.diff(f'structure of {v}_pars vs the structural machine', case_payload(data, html=hi, dup=dup, merged_under_html=hm), d[1], d[2], path=d[0]); good = False
    parts = src.parts_of(data)
    has_merge = any(src.ptag(x) in ('w:gridSpan', 'w:vMerge') for root in parts.values() for x in root.iter())
    for who in (0, 1):          # 0 = implementation, 1 = model
        label = 'implementation' if who == 0 else 'model'
        for dup in (True, False):
            a, b = struct(obs[(False, dup)][who]), struct(obs[(True, dup)][who])
            if a is None or b is None:
                if who == 0: ctx.skipped_raises += 1
                continue
            d = first_diff(a, b)
            if d:
                case = case_payload(data, dup=dup, pair='html off vs on')
                if who == 0: ctx.fail('switching html changes structure (shape / paragraph count / lineage / style / list position / images / properties / number of comments)', case, {'where': d[0], 'html_off': d[1], 'html_on': d[2]})
                else: ctx.diff('relation html-invariance holds on the model', case, 'holds?', {'where': d[0]})
                good = False
        if who == 0:
            # ... and the strings differ only by tags and escapes: deleting the formatting tags and unescaping gives the html-off string
            from props.c07 import analyse
            for dup in (True, False):
                for v in VIEWS[:5]:
                    po, ph_ = obs[(False, dup)][0].get(v + '_pars'), obs[(True, dup)][0].get(v + '_pars')
                    if not po or not ph_ or 'ok' not in po or 'ok' not in ph_: continue
                    ro, rh = flat(po['ok'], 4), flat(ph_['ok'], 4)
                    if len(ro) != len(rh): continue
                    for k, (x, y) in enumerate(zip(ro, rh)):
                        err, proj, _f = analyse(''.join(y['runs']))
                        if err is None and proj != ''.join(x['runs']):
                            tb = any(src.ptag(h) == 'w:hyperlink' and any(src.ptag(z) == 'w:txbxContent' for z in h.iter()) for root in parts.values() for h in root.iter())
                            ctx.fail('switching html changes a string other than by adding tags and escapes', case_payload(data, dup=dup, attribute=v, paragraph_index=k),
                                     {'html_on': ''.join(y['runs']), 'projected': proj, 'html_off': ''.join(x['runs'])},
                                     features=['text-box-inside-hyperlink'] if tb else []); good = False; break
        continued = {(path, q.k) for path, root in parts.items() for q in src.paragraphs(root, path) if q.in_continuation}
        for html in (False, True):
            a, b = noncopy_runs(obs[(html, True)][who]), noncopy_runs(obs[(html, False)][who])
            if a is None or b is None: continue
            case = case_payload(data, html=html, pair='duplicate_merged_cells on vs off')
            d = first_diff(a, b)
            if d and not has_merge or (d and any(True for _ in ())):
                pass
            if d:
                # records that are not copies must carry the same runs, except records inside a vertically continued cell (replaced by the copy)
                ka = {v: [x for x in a[v]] for v in a}; kb = {v: {e for e, _ in b[v]} for v in b}
                bad = None
                for v in a:
                    bm = dict(b[v])
                    for e, runs in a[v]:
                        if e in bm and bm[e] != runs: bad = (v, e, runs, bm[e])
                    if not has_merge and [e for e, _ in a[v]] != [e for e, _ in b[v]]: bad = (v, 'order/elements', None, None)
                    # a paragraph that is not inside a vertically continued cell is not replaced by a copy: it is there under both settings
                    am = {e for e, _ in a[v]}
                    for e, runs in b[v]:
                        if e not in am and e not in continued and who == 0: bad = (v, e, None, runs)
                if bad:
                    if who == 0: ctx.fail('switching duplicate_merged_cells changes a paragraph that is not a merged-cell copy', case, {'attribute': bad[0], 'element': bad[1], 'dup_true': bad[2], 'dup_false': bad[3]})
                    else: ctx.diff('relation duplicate-invariance holds on the model', case, 'holds?', str(bad)[:300])
                    good = False
            if not has_merge:
                fa = {v: obs[(html, True)][who].get(v + '_pars') for v in VIEWS[:5]}; fb = {v: obs[(html, False)][who].get(v + '_pars') for v in VIEWS[:5]}
                dd = first_diff(fa, fb)
                if dd and who == 0:
                    ctx.fail('no merged cell in the document, yet duplicate_merged_cells changes the output', case, {'where': dd[0]}); good = False
    # image folder changes nothing in the returned values
    from docx2python import docx2python
    td = tempfile.mkdtemp(prefix='d2pv-')
    try:
        ATTRS = ('document', 'document_runs', 'images', 'core_properties', 'comments', 'text')
        def values(folder):
            out = {}
            with warnings.catch_warnings():
                warnings.simplefilter('ignore')
                try:
                    with (docx2python(io.BytesIO(data), folder) if folder else docx2python(io.BytesIO(data))) as d:
                        for attr in ATTRS:
                            try: out[attr] = ('v', getattr(d, attr))
                            except Exception as e: out[attr] = ('err', type(e).__name__)
                except Exception as e:
                    out = {attr: ('err', 'constructor: ' + type(e).__name__) for attr in ATTRS}
            return out
        v0 = values(None)
        # the folder may already hold files named like the images, of the same size, from another document
        folder = os.path.join(td, 'img', 'x')
        if v0['images'][0] == 'v' and v0['images'][1] and len(data) % 2 == 0:
            os.makedirs(folder)
            for n_, b_ in v0['images'][1].items(): open(os.path.join(folder, n_), 'wb').write(bytes((x ^ 0x33) for x in b_))
            ctx.count('image folder already holds same-name same-size files')
        v1 = values(folder)
        for attr in ATTRS:
            if v0[attr] != v1[attr]:
                ctx.fail('passing an image folder changes a returned value', case_payload(data, attribute=attr),
                         {'without_folder': str(v0[attr])[:200], 'with_folder': str(v1[attr])[:200]}); good = False
    except Exception:
        ctx.skipped_raises += 1
    finally:
        shutil.rmtree(td, ignore_errors=True)
    if good: ctx.validated += 1
    if meta and 'table' in meta['features'] and meta['stats'].get('rPr', 0) >= 2: ctx.nontrivial(jhash(data.hex()))
    return good


def ragged_table(rng):
    """a table whose rows need not span the same number of columns (grid gaps), cells holding paragraphs only,
    with gridSpan and vMerge in any combination (also both on one cell)"""
    from gen.probes import docx, p, r
    tok = [0]; out = '<w:tbl><w:tblPr/><w:tblGrid><w:gridCol w:w="1"/></w:tblGrid>'
    for _ in range(rng.randint(2, 4)):
        out += '<w:tr>' + rng.choice(['', '', '<w:trPr><w:gridBefore w:val="1"/></w:trPr>', '<w:trPr><w:gridAfter w:val="1"/></w:trPr>'])
        for _ in range(rng.randint(1, 4)):
            pr = ''
            if rng.random() < 0.35: pr += f'<w:gridSpan w:val="{rng.randint(2, 3)}"/>'
            vm = rng.choice(['', '', '<w:vMerge w:val="restart"/>', '<w:vMerge/>', '<w:vMerge w:val="continue"/>'])
            pr += vm
            if vm and 'restart' not in vm: body = '<w:p/>'
            else:
                body = ''
                for _ in range(rng.randint(1, 2)):
                    tok[0] += 1; body += p(r(f'«{tok[0]}»c'))
            out += f'<w:tc><w:tcPr>{pr}</w:tcPr>{body}</w:tc>'
        out += '</w:tr>'
    out += '</w:tbl>'
    return docx(p(r('«9001»before')) + out + p(r('«9002»after')))


def one_ragged(ctx, data):
    """cells hold paragraphs only: switching duplicate_merged_cells must not move any cell that is not a copy"""
    ctx.evaluations += 1; good = True
    for html in (False, True):
        obs = {d: pk.both(ctx.drv, data, html, d, want=['pars']) for d in (True, False)}
        for who, label in ((0, 'implementation'), (1, 'model')):
            a, b = obs[True][who].get('body_pars'), obs[False][who].get('body_pars')
            if not a or not b or 'ok' not in a or 'ok' not in b:
                if who == 0: ctx.skipped_raises += 1
                continue
            def where(v):
                out = {}
                for ti, t in enumerate(v):
                    for ri, rw in enumerate(t):
                        for ci, c in enumerate(rw):
                            for x in c:
                                if x.get('elem'): out[tuple(x['elem'])] = ((ti, ri, ci), x['runs'])
                return out
            sa, sb = [[len(rw) for rw in t] for t in a['ok']], [[len(rw) for rw in t] for t in b['ok']]
            wa, wb = where(a['ok']), where(b['ok'])
            bad = None
            if sa != sb: bad = {'cells_per_row_dup_true': sa, 'cells_per_row_dup_false': sb}
            else:
                for e, v in wa.items():
                    if e in wb and wb[e] != v: bad = {'element': e, 'dup_true': v, 'dup_false': wb[e]}
            if bad:
                case = case_payload(data, html=html, pair='duplicate_merged_cells on vs off', kind='ragged-table')
                if who == 0: ctx.fail('switching duplicate_merged_cells moves or changes a cell that is not covered by a merge', case, bad)
                else: ctx.diff('relation duplicate-invariance (ragged table) holds on the model', case, 'holds?', str(bad)[:300])
                good = False
    if good: ctx.validated += 1
    ctx.count('ragged-table')
    return good


def run(ctx):
    from gen.probes import probes
    for name, data in probes('C19'):
        ctx.count('probe'); one(ctx, data, {'features': ['probe:' + name, 'table'], 'stats': {'rPr': 2}})
    import random as _random
    for k in range(60 if ctx.quick else 2500):
        one_ragged(ctx, ragged_table(_random.Random(f'C19-ragged-{ctx.seed}-{k}')))
    n = 60 if ctx.quick else 2500
    for pkg, meta, rng in stream(ctx, PROF, n):
        one(ctx, pkg.to_bytes(), meta)
        if ctx.evaluations % 20 == 1: ctx.sample({'body': meta['body'][:700], 'features': meta['features']})
    ctx.rule = RULE


def replay(ctx, rep):
    c = rep.get('case') or (rep.get('first_difference') or {}).get('case')
    if c.get('kind') == 'ragged-table': one_ragged(ctx, case_data(c))
    else: one(ctx, case_data(c), None)
    ctx.rule = ctx.rule or 'replay of one stored case'
