"""C04 — tables come out n x m; merged cells are duplicated or blanked as configured."""
import random
import pk, src
from common import jhash, first_diff
from pkgrun import *
from gen.tables import random_tiling, all_tilings, render
from gen.probes import docx, p, r, tbl, tr, tc, NS

RULE = ('regular tables: uniformly random rectangular tilings of n x m grids (n, m <= 5) rendered with gridSpan and vMerge restart / continue '
        '(continuation written bare or as w:val="continue", chosen per cell), 1-2 paragraphs per cell, placed in the body (first, last, between '
        'paragraphs), in a header, in a footnote, inside a cell of an enclosing table, or in a text box anchored in a paragraph; all four option settings; checker: the extracted '
        'table equals the reference grid gridOf(dup) position by position; positions not covered by a merge equal under both settings; '
        'non-trivial = tiling with at least one merged rectangle and two rows; distinct by (n, m, tiling, spelling, placement); thorough: '
        'ALL tilings of all grids with n*m <= 12')


def build(rng, n, m, rects, place):
    tok = [0]
    def texts():
        out = []
        # (a cell other than the first may also hold one paragraph of white space only, or an empty one)
        if tok[0] > 0 and rng.random() < 0.12: return [rng.choice([' ', '  ', '', '\u00a0'])]
        for _ in range(rng.choice([1, 1, 2])):
            tok[0] += 1; out.append(f'«{tok[0]}»' + rng.choice(['', 'x', ' y']))
        return out
    tx = [texts() for _ in rects]
    sp = {}
    def spell(k, a):
        return sp.setdefault((k, a), rng.choice(['bare', 'explicit']))
    HID = [('<w:p/>', ''), ('<w:p/>', ''), ('<w:p><w:pPr><w:pStyle w:val="Heading1"/></w:pPr></w:p>', '<h1></h1>'),
           ('<w:p><w:pPr><w:jc w:val="center"/></w:pPr><w:r><w:rPr><w:b/></w:rPr></w:r></w:p>', ''),
           ('<w:p><w:pPr><w:pStyle w:val="Heading3"/><w:rPr><w:i/></w:rPr></w:pPr></w:p>', '<h3></h3>')]
    hid = {}
    style = {}          # paragraph text -> heading level (the first paragraph of some cells is a heading)
    for k, ts in enumerate(tx):
        if rng.random() < 0.3 and '«' in ts[0]: style[ts[0]] = rng.choice([1, 2, 3])      # (keyed by text: only texts with a token are unique)
    fmt = {}            # paragraph text -> run formatting (copies must carry the formatting of the cell they repeat)
    for ts in tx:
        for t in ts:
            if rng.random() < 0.3 and '«' in t: fmt[t] = rng.choice([('<w:b/>', 'b'), ('<w:i/>', 'i'), ('<w:strike/>', 's')])
    def para(t):
        ppr = f'<w:pPr><w:pStyle w:val="Heading{style[t]}"/></w:pPr>' if t in style else ''
        rpr = f'<w:rPr>{fmt[t][0]}</w:rPr>' if t in fmt else ''
        return f'<w:p>{ppr}<w:r>{rpr}<w:t xml:space="preserve">{t}</w:t></w:r></w:p>'
    def hstr(x):
        y = f'<{fmt[x][1]}>{x}</{fmt[x][1]}>' if x in fmt and x != '' else x       # a run without text emits no string, hence no tags
        return f'<h{style[x]}>{y}</h{style[x]}>' if x in style else y
    xml, expected0 = render(rects, n, m, tx, spell, para=para, hidden=lambda k, a: hid.setdefault((k, a), rng.choice(HID))[0], tracked=rng if rng.random() < 0.4 else None)
    def expected(dup, html=False):
        def cell(c):
            out = []
            for x in c:
                if isinstance(x, tuple): out.append(hid[(x[1], x[2])][1] if html else '')
                elif html: out.append(hstr(x))
                else: out.append(x)
            return out
        return [[cell(c) for c in rw] for rw in expected0(dup)]
    before = p(r('«9001»before')); after = p(r('«9002»after'))
    parts = {}
    if place == 'body-first': body = xml + after
    elif place == 'body-last': body = before + xml
    elif place == 'body-mid': body = before + xml + after
    elif place == 'nested': body = before + tbl(tr(tc(p(r('«9003»outer')), xml, p(r('«9004»outer-after'))), tc(p(r('«9005»o2'))))) + after
    elif place == 'textbox':
        # in a text box anchored in a run of a paragraph: the enclosing paragraph stays open while the table is collected
        body = before + p(r('«9008»anchor '), '<w:r><w:pict><v:shape><v:textbox><w:txbxContent>' + xml + p(r('«9009»in the box')) + '</w:txbxContent></v:textbox></v:shape></w:pict></w:r>', r('«9010» tail')) + after
    elif place == 'header': body = before; parts['header1.xml'] = ('header', '<w:hdr NS>' + xml + '</w:hdr>')
    elif place == 'footnote':
        body = before
        parts['footnotes.xml'] = ('footnotes', '<w:footnotes NS><w:footnote w:id="2">' + p(r('«9006»note')) + xml + p(r('«9007»end')) + '</w:footnote></w:footnotes>')
    data = docx(body, parts=parts)
    if rng.random() < 0.2:
        # the same package in the strict (ISO) namespaces, bound to the customary prefixes
        import io as _io, zipfile as _zf
        from gen.reserialize import strict, is_xml
        z = _zf.ZipFile(_io.BytesIO(data)); b = _io.BytesIO()
        with _zf.ZipFile(b, 'w') as o:
            for n in z.namelist(): o.writestr(n, strict(rng, n, z.read(n)) if is_xml(n) else z.read(n))
        data = b.getvalue()
    attr = {'header': 'header', 'footnote': 'footnotes'}.get(place, 'body')
    return data, expected, attr, tx


def one(ctx, data, expected, attr, meta):
    ctx.evaluations += 1; good = True
    res = {}
    for html, dup, i, m in observe(ctx, data, pk.OPTS, want=['plain', 'runs', 'pars']):
        case = case_payload(data, html=html, dup=dup, meta=meta)
        if not compare_keys(ctx, 'extracted table', data, html, dup, i, m, [attr, attr + '_runs'], {'meta': meta}): good = False
        if 'ok' not in i.get(attr, {}): ctx.skipped_raises += 1; continue
        want = expected(dup, html)
        tables = i[attr]['ok']
        first = expected(dup, False)[0][0][0]
        hit = [t for t in tables if t and t[0] and t[0][0] and first in ''.join(t[0][0])]
        # inside a note the label is prefixed to the first paragraph; strip known prefixes for comparison
        import re as _re
        def norm(t): return [[[(_re.sub(r'</?(h\d|b|i|s)>', '', s) if STRIP_H else s) for s in c] for c in rw] for rw in t]
        if len(hit) != 1 or norm(hit[0]) != want:
            ctx.fail('a regular source table is not extracted as the n x m grid of its covering cells', case, {'extracted': hit[:2] or tables[:3], 'expected': want}); good = False
        res[(html, dup)] = hit[0] if hit else None
        if meta.get('place') == 'nested':
            # the enclosing table is cut in two by the nested one; what follows it is the rest of the enclosing row: the remainder of the
            # first cell and the second cell, two unmerged cells (they have no cell properties of their own)
            rest = [t for t in tables if t and t[0] and t[0][0] and any('«9004»' in s_ for s_ in t[0][0])]
            if len(rest) != 1 or len(rest[0]) != 1 or len(rest[0][0]) != 2 or not any('«9005»' in s_ for s_ in rest[0][0][1]):
                ctx.fail('the row enclosing a nested table does not continue as its own two cells', case, {'extracted': rest[:1] or tables[:3]}); good = False
    for html in (False, True):
        a, b = res.get((html, True)), res.get((html, False))
        if a is None or b is None: continue
        rects = meta['rects']; n, mm = meta['n'], meta['m']
        merged = {(x, y) for (i0, j0, h, w) in rects if h * w > 1 for x in range(i0, i0 + h) for y in range(j0, j0 + w)}
        for x in range(min(n, len(a), len(b))):
            for y in range(min(mm, len(a[x]), len(b[x]))):
                if (x, y) not in merged and a[x][y] != b[x][y]:
                    ctx.fail('a position not covered by any merge differs between duplicate_merged_cells True and False', case_payload(data, html=html, meta=meta), {'position': [x, y], 'true': a[x][y], 'false': b[x][y]}); good = False
    if good: ctx.validated += 1
    if any(h * w > 1 for (_, _, h, w) in meta['rects']) and meta['n'] >= 2: ctx.nontrivial(jhash(meta))
    return good


STRIP_H = False      # replay: the expectation is rebuilt from the archive without paragraph styles


PLACES = ['body-first', 'body-last', 'body-mid', 'nested', 'header', 'footnote', 'textbox']


def case(ctx, rng, n, m, rects, place):
    data, expected, attr, tx = build(rng, n, m, rects, place)
    meta = {'n': n, 'm': m, 'rects': [list(x) for x in rects], 'place': place, 'seed': rng.getrandbits(30)}
    ctx.count('place:' + place); ctx.count(f'grid:{n}x{m}'); ctx.count('merged-rects:%d' % sum(1 for x in rects if x[2] * x[3] > 1))
    ok = one(ctx, data, expected, attr, meta)
    if ctx.evaluations % 20 == 1: ctx.sample({'grid': [n, m], 'rectangles (row, col, height, width)': meta['rects'], 'place': place})
    return ok


def run(ctx):
    from gen.probes import probes
    rng = ctx.rng
    # the explicit spelling of a continuation (was not recognised before the repair)
    case(ctx, random.Random(1), 2, 2, [(0, 0, 2, 1), (0, 1, 1, 1), (1, 1, 1, 1)], 'body-mid')
    n_cases = 70 if ctx.quick else 3000
    for k in range(n_cases):
        n, m = rng.randint(1, 5), rng.randint(1, 5)
        if k % 12 == 5:
            # a wide grid whose first row starts with a cell spanning ten or more columns
            n, m = rng.randint(1, 3), rng.randint(10, 13); w = rng.randint(10, m)
            rects = [(0, 0, 1, w)] + [(0, j, 1, 1) for j in range(w, m)] + [(i0 + 1, j0, h, ww) for (i0, j0, h, ww) in (random_tiling(rng, n - 1, m, 0.6) if n > 1 else [])]
            case(ctx, rng, n, m, rects, rng.choice(PLACES)); continue
        case(ctx, rng, n, m, random_tiling(rng, n, m), rng.choice(PLACES))
    if not ctx.quick:
        cnt = 0
        for n in range(1, 7):
            for m in range(1, 13):
                if n * m > 12: continue
                for rects in all_tilings(n, m):
                    cnt += 1; case(ctx, rng, n, m, rects, PLACES[cnt % len(PLACES)])
        ctx.notes.append(f'exhaustive: all {cnt} rectangular tilings of all grids with n*m <= 12 (placement and continuation spelling rotated / random)')
        ctx.exhaustive = True
    ctx.rule = RULE


def replay(ctx, rep):
    c = rep.get('case') or (rep.get('first_difference') or {}).get('case')
    meta = c['meta']; rng = random.Random(0)
    data = case_data(c)
    rects = [tuple(x) for x in meta['rects']]
    # rebuild the expectation from the archive's own table text (texts are in the archive)
    import re
    parts = src.parts_of(data)
    # the reference grid is recomputed from the stored tiling and the cell texts found in the source
    texts = []
    for path, root in parts.items():
        for t in root.iter():
            if src.ptag(t) == 'w:tbl' and sum(1 for _ in t.iter('{%s}gridCol' % src.W)) == meta['m'] and 'tcW' in src.etree.tostring(t).decode():
                for cell in t.iter('{%s}tc' % src.W):
                    pr = src.child(cell, 'w:tcPr'); vm = src.child(pr, 'w:vMerge') if pr is not None else None
                    if vm is not None and src.wval(vm) in (None, 'continue'): continue
                    texts.append([''.join(x.text or '' for x in pp.iter('{%s}t' % src.W)) for pp in cell if src.ptag(pp) == 'w:p'])
                break
    order = sorted(range(len(rects)), key=lambda k: (rects[k][0], rects[k][1]))
    tx = [None] * len(rects)
    for k, t in zip(order, texts): tx[k] = t
    import re as _re
    _, expected1 = render(rects, meta['n'], meta['m'], tx, lambda k, a: 'bare')
    def expected(dup, html=False):
        return [[[('' if isinstance(x, tuple) else x) for x in c] for c in rw] for rw in expected1(dup)]
    attr = {'header': 'header', 'footnote': 'footnotes'}.get(meta['place'], 'body')
    global STRIP_H
    STRIP_H = True
    one(ctx, data, expected, attr, meta)
    ctx.rule = 'replay of one stored case'
