"""C02 — text is extracted completely, exactly once, and in document order (html off)."""
import re
import pk, src
from common import jhash, first_diff
from pkgrun import *

PROF = profile(p_strict=0.12, tokens=True, stray_inline=True, p_block_misc=0.12, p_no_r_ns=0.12, p_drawing=0.1, p_text=0.5, run_items=(0, 4), inlines=(0, 5), p_link=0.1, p_bookmark=0.1, p_textbox=0.06,
               p_table=0.22, dangling=True)
RULE = ('packages from the "inline-rich" profile: every w:t / m:t carries a unique token, runs are split arbitrarily and interleaved '
        'with non-content markup, links, notes, forms, pictures, text boxes, tables with merged cells; html off, both settings of '
        'duplicate_merged_cells; checker: every token exactly once (at least once with duplication), all tokens of a source paragraph '
        'in one output paragraph in source order with nothing foreign, leaf paragraphs in document order, one tab per run-level tab, '
        'one newline per w:br; correspondence: plain views and text, model vs implementation; non-trivial = at least 5 tokens and 3 '
        'paragraphs; distinct by hash of the archive')
MARKER = re.compile(r'^(\t*)(--|[0-9A-Za-z-]+\))\t')
LABEL = re.compile(r'^(footnote|endnote)[^)\t]*\)\t')
ATTR = {'officeDocument': 'body', 'header': 'header', 'footer': 'footer', 'footnotes': 'footnotes', 'endnotes': 'endnotes'}


def check_part(ctx, case, outpars, srcpars, dup, features, mult=None, roots=None):
    """outpars: flat list of output paragraph strings of one attribute; srcpars: ParInfo of the parts feeding it"""
    toks_out = [src.TOKEN.findall(s) for s in outpars]
    where = {}
    for i, ts in enumerate(toks_out):
        for t in ts: where.setdefault(t, []).append(i)
    last_leaf = -1; bad = False      # a failure ends the checks of ITS paragraph only: the others are still examined
    for p in srcpars:
        if p.in_continuation: continue          # hidden content of a vertically merged cell (C04)
        if p.in_link: continue                  # text below a hyperlink is rendered by the link (C10)
        if not p.tokens: continue
        occ = where.get(p.tokens[0], [])
        if not occ:
            ctx.fail('text of a source paragraph is missing from the output', case, {'paragraph': p.k, 'part': p.part, 'tokens': p.tokens}, features=features); bad = True; continue
        # (a part that is the target of k relationships of its kind is extracted k times: once per relationship)
        k = (mult or {}).get(p.part, 1)
        if not dup and any(len(where.get(t, [])) != k or any(toks_out[w].count(t) != 1 for w in where[t]) for t in p.tokens):
            ctx.fail('a text node occurs more than once (or not at all) in the output', case, {'paragraph': p.k, 'part': p.part, 'tokens': p.tokens, 'where': {t: where.get(t) for t in p.tokens}}, features=features); bad = True; continue
        i = occ[0]
        if not p.same_text(toks_out[i]):
            ctx.fail('text migrated between paragraphs or changed order inside one', case, {'paragraph': p.k, 'part': p.part, 'source_tokens': p.tokens, 'output_paragraph': outpars[i]}, features=features); bad = True; continue
        # tokens and alt-text markers in document order
        ATOM = re.compile(r'«(\d+)»|----Image alt text---->([^<]*)<')
        want_atoms = []
        for x in p.own:
            if src.ptag(x) in ('w:t', 'm:t'): want_atoms += [('t', t) for t in src.TOKEN.findall(x.text or '')]
            elif src.ptag(x) == 'wp:docPr' and x.get('descr') is not None and '<' not in x.get('descr'): want_atoms.append(('alt', x.get('descr')))
        got_atoms = [('t', m.group(1)) if m.group(1) else ('alt', m.group(2)) for m in ATOM.finditer(outpars[i])]
        clean = not any(src.ptag(x) == 'wp:docPr' and '<' in (x.get('descr') or '') for x in p.own)      # a description with '<' cannot be delimited
        if clean and not p.link_nested and got_atoms != want_atoms and any(k == 'alt' for k, _ in want_atoms):
            ctx.fail('text and picture stand-ins of a paragraph are not in document order', case, {'paragraph': p.k, 'part': p.part, 'expected_order': want_atoms, 'output_paragraph': outpars[i]}, features=features); bad = True; continue
        # equations: the stand-in holds every character of the equation's text nodes, blanks included
        if not any(src.ptag(x) == 'w:hyperlink' for x in p.own) and not p.link_nested:
            maths = [x for x in p.own if src.ptag(x) == 'm:oMath' and not any(src.ptag(a) == 'm:oMath' for a in x.iterancestors())]
            got_m = re.findall(r'<latex>(.*?)</latex>', outpars[i], flags=re.S)
            if maths and len(got_m) == len(maths):
                for x, g in zip(maths, got_m):
                    want_m = ''.join(x.itertext())
                    if g != want_m:
                        ctx.fail('characters of an equation are missing from (or foreign to) its stand-in', case, {'paragraph': p.k, 'part': p.part, 'equation_text': want_m, 'stand_in': g}, features=features); bad = True; break
        # every text node in full (also whitespace-only ones), in order
        pos = 0
        for x in p.own:
            if src.ptag(x) in ('w:t', 'm:t') and x.text:
                k = outpars[i].find(x.text, pos)
                if k < 0:
                    ctx.fail('characters of a text node are missing from its paragraph (or out of order)', case, {'paragraph': p.k, 'part': p.part, 'text_node': x.text, 'output_paragraph': outpars[i]}, features=features); bad = True; continue
                pos = k + len(x.text)
        if not p.encloses_par and not p.nested_in_par:
            if i <= last_leaf and not dup:
                ctx.fail('paragraphs are not in document order', case, {'paragraph': p.k, 'part': p.part, 'output_index': i, 'previous': last_leaf}, features=features); bad = True; continue
            last_leaf = max(last_leaf, i)
        # tabs and breaks of a paragraph without nested paragraphs / links / math
        s = outpars[i]
        if not p.encloses_par and not any(src.ptag(x) in ('w:hyperlink', 'm:oMath') for x in p.own):
            s = LABEL.sub('', s, count=1)
            if p.is_list:
                m = MARKER.match(s)
                if m: s = s[m.end():]
            if s.count('\t') != p.run_tabs:
                ctx.fail('number of tab characters differs from the number of tabs in the paragraph', case,
                         {'paragraph': p.k, 'part': p.part, 'expected_tabs': p.run_tabs, 'output_paragraph': outpars[i]}, features=features + (['tabstops'] if any(src.ptag(x) == 'w:tabs' for x in p.own) else [])); bad = True; continue
            if s.count('\n') != p.breaks:
                ctx.fail('number of newlines differs from the number of breaks in the paragraph', case,
                         {'paragraph': p.k, 'part': p.part, 'expected_breaks': p.breaks, 'output_paragraph': outpars[i]}, features=features); bad = True; continue
    known = {t for p in srcpars for t in p.tokens}
    # inline content OUTSIDE every paragraph (a display equation directly in the body, a run directly in a cell): it is collected into
    # a paragraph of its own, which holds nothing else and stands where the content stands - after every paragraph that ends before
    # it and before every paragraph that begins after it
    for root in (roots or []):
        pos = {x: n for n, x in enumerate(root.iter())}
        spans = []
        for q in srcpars:
            if q.e not in pos or q.in_continuation or q.in_link or not q.tokens or q.nested_in_par: continue
            last = q.e
            for last in q.e.iterdescendants(): pass
            spans.append((pos[q.e], pos[last], q))
        for x in root.iter():
            if not isinstance(x.tag, str) or src.ptag(x) not in ('w:t', 'm:t'): continue
            anc = [src.ptag(a) for a in x.iterancestors()]
            if 'w:p' in anc or 'w:hyperlink' in anc: continue
            hidden = False
            for a in x.iterancestors():
                if src.ptag(a) == 'w:tc':
                    pr = src.child(a, 'w:tcPr'); vm = src.child(pr, 'w:vMerge') if pr is not None else None
                    if vm is not None and src.wval(vm) in (None, 'continue'): hidden = True
            for t in src.TOKEN.findall(x.text or ''):
                known.add(t)
                if hidden: continue
                occ = where.get(t, [])
                if not occ:
                    ctx.fail('text outside every paragraph is missing from the output', case, {'token': t}, features=features + ['stray_inline']); bad = True; continue
                if not dup and any(toks_out[w].count(t) != 1 for w in occ):
                    ctx.fail('a text node occurs more than once (or not at all) in the output', case, {'token': t, 'where': occ}, features=features + ['stray_inline']); bad = True; continue
                i = occ[0]
                before = [q for a, b, q in spans if b < pos[x]]; after = [q for a, b, q in spans if a > pos[x]]
                own_par = {u for q in srcpars for u in q.tokens}
                if any(u in own_par for u in toks_out[i]):
                    ctx.fail('text outside every paragraph is mixed into the record of a paragraph', case, {'token': t, 'output_paragraph': outpars[i]}, features=features + ['stray_inline']); bad = True; continue
                if not dup and len(occ) == 1:
                    ib = [where[q.tokens[0]][0] for q in before[-1:] if where.get(q.tokens[0])]
                    ia = [where[q.tokens[0]][0] for q in after[:1] if where.get(q.tokens[0])]
                    if (ib and not ib[0] < i) or (ia and not i < ia[0]):
                        ctx.fail('text outside every paragraph is not in document order', case,
                                 {'token': t, 'output_index': i, 'previous_paragraph_at': ib, 'next_paragraph_at': ia}, features=features + ['stray_inline']); bad = True; continue
    for t in where:
        if t not in known:
            ctx.fail('output contains text that does not derive from the part', case, {'token': t}, features=features); return False
    return not bad


def census(ctx, case, nested, roots, features):
    """duplicate_merged_cells=False, whole attribute: (1) one newline per w:br (and per literal newline of a text node), wherever the
    break stands - in a paragraph, outside every paragraph, below a hyperlink, in a text box; (2) inline content outside every
    paragraph that stands in a table cell stays in that cell: it is emitted in the cell that holds the cell's own paragraphs"""
    good = True
    try:
        strings = flat(nested, 4)
        want = 0
        for root in roots:
            for x in root.iter():
                if not isinstance(x.tag, str): continue
                t = src.ptag(x)
                in_math = any(src.ptag(a) == 'm:oMath' for a in x.iterancestors())
                if t == 'm:oMath' and not in_math: want += ''.join(x.itertext()).count('\n')
                elif in_math: continue
                elif t == 'w:br': want += 1
                elif t == 'w:t': want += (x.text or '').count('\n')
        got = sum(s.count('\n') for s in strings if isinstance(s, str))
        ctx.count('newline census (one newline per break over the whole attribute, duplication off)')
        if got != want:
            good = False
            ctx.fail('the number of newline characters of a part differs from the number of its breaks (duplicate_merged_cells=False)', case,
                     {'newlines': got}, {'breaks': want}, features=features + ['newline-census', 'fewer' if got < want else 'more'])
        # (2) cell membership of inline content outside paragraphs
        where = {}
        for a, tb in enumerate(nested):
            for b, tr in enumerate(tb):
                for c, tc in enumerate(tr):
                    for s in tc:
                        if isinstance(s, str):
                            for t in src.TOKEN.findall(s): where.setdefault(t, []).append((a, b, c))
        for root in roots:
            for cell in root.iter():
                if not isinstance(cell.tag, str) or src.ptag(cell) != 'w:tc': continue
                pr = src.child(cell, 'w:tcPr'); vm = src.child(pr, 'w:vMerge') if pr is not None else None
                if vm is not None and src.wval(vm) in (None, 'continue'): continue
                if any(src.ptag(a) in ('w:hyperlink', 'w:p') for a in cell.iterancestors()): continue
                # only cells whose children are paragraphs and runs WITHOUT paragraphs below them (a text box restarts the nesting)
                if any(isinstance(k.tag, str) and (src.ptag(k) not in ('w:tcPr', 'w:p', 'w:r') or any(isinstance(d.tag, str) and src.ptag(d) in ('w:p', 'w:tbl') for d in k.iterdescendants()))
                       for k in cell): continue
                own = [t for k in cell if isinstance(k.tag, str) and src.ptag(k) == 'w:p' and not any(src.ptag(d) == 'w:p' for d in k.iterdescendants())
                       for x in k.iter() if isinstance(x.tag, str) and src.ptag(x) == 'w:t' and not any(src.ptag(a) == 'w:hyperlink' for a in x.iterancestors())
                       for t in src.TOKEN.findall(x.text or '')]
                stray = [t for k in cell if isinstance(k.tag, str) and src.ptag(k) == 'w:r'
                         for x in k.iter() if isinstance(x.tag, str) and src.ptag(x) == 'w:t' and not any(src.ptag(a) in ('w:p', 'w:hyperlink') for a in x.iterancestors())
                         for t in src.TOKEN.findall(x.text or '')]
                if not own or not stray: continue
                home = where.get(own[0])
                if not home or len(home) != 1: continue
                ctx.count('cells with paragraphs AND inline content outside paragraphs: the content stays in the cell')
                for t in stray:
                    if where.get(t) and where[t] != home:
                        good = False
                        ctx.fail('inline content outside every paragraph left the table cell it stands in', case, {'token': t, 'emitted_in': where[t], 'cell': home[0]},
                                 features=features + ['stray_inline', 'cell-membership']); break
    except Exception as e:
        ctx.notes.append('census not evaluated: ' + type(e).__name__ + ': ' + str(e)[:100])
    return good


def closing_oracle(ctx, data, v, real=False):
    good = True
    # C02_post_part (any tree, duplicate_merged_cells=False): the records are the paragraphs the walk descends to, each once, in
    # the order of their closing tags.  Three computations of that list are compared: the implementation's records, the harness's
    # own reading of the source, and the Lean function `post` the theorem speaks about.
    try:
        import impl
        co = impl.closing_order(data)
        ords = pk.model_case(data, False, False)[1]
        if 'err' in co:
            ctx.count('closing-order oracle: docx2python raised (charged to C13)')
        else:
            for ty, eg in co['types'].items():
                if not eg['expected'] and not eg['got']: continue
                ctx.count('closing-order oracle (C02_post_part): part types compared' + (' (real documents)' if real else ''))
                if eg['expected'] != eg['got']:
                    good = False
                    k = next((j for j, (a, b) in enumerate(zip(eg['expected'], eg['got'])) if a != b), min(len(eg['expected']), len(eg['got'])))
                    ctx.fail('with duplicate_merged_cells=False the paragraph records of a part are not its source paragraphs, each once, in the order of their closing tags',
                             case_payload(data, html=False, dup=False), {'type': ty, 'first difference at': k, 'got': eg['got'][max(0, k - 2):k + 3]},
                             {'expected': eg['expected'][max(0, k - 2):k + 3]},
                             features=['closing-order', 'lost' if len(eg['got']) < len(eg['expected']) else ('doubled' if len(eg['got']) > len(eg['expected']) else 'moved')])
            # C02_post_part_dup: the same with duplicate_merged_cells=True for parts in which no cell continues a vertical merge
            # (`vfree`, evaluated by the Lean model); the copies in merged cells are deep copies and carry no element of the part
            vf = (v or {}).get('<vfree>') if isinstance(v, dict) else None
            if isinstance(vf, dict) and vf and all(x is True for x in vf.values()):
                cd = impl.closing_order(data, dup=True)
                if 'err' not in cd:
                    for ty, eg in cd['types'].items():
                        if not eg['expected'] and not eg['got']: continue
                        ctx.count('closing-order oracle, duplicate_merged_cells=True (C02_post_part_dup: vfree holds for every part)' + (' (real documents)' if real else ''))
                        if eg['expected'] != eg['got']:
                            good = False
                            k = next((j for j, (a, b) in enumerate(zip(eg['expected'], eg['got'])) if a != b), min(len(eg['expected']), len(eg['got'])))
                            ctx.fail('with duplicate_merged_cells=True and no vertical merge the paragraph records (copies aside) are not the source paragraphs, each once, in the order of their closing tags',
                                     case_payload(data, html=False, dup=True), {'type': ty, 'first difference at': k, 'got': eg['got'][max(0, k - 2):k + 3]},
                                     {'expected': eg['expected'][max(0, k - 2):k + 3]},
                                     features=['closing-order', 'lost' if len(eg['got']) < len(eg['expected']) else ('doubled' if len(eg['got']) > len(eg['expected']) else 'moved')])
            elif isinstance(vf, dict) and vf:
                ctx.count('a cell continues a vertical merge: C02_post_part_dup does not apply (C02_post_part, duplication off, does)')
                # C02_post_part_any: with duplication on the records (copies aside) are a SUBLIST of the closing order: nothing
                # invented, nothing doubled, nothing moved
                cd = impl.closing_order(data, dup=True)
                if 'err' not in cd:
                    for ty, eg in cd['types'].items():
                        if not eg['expected'] and not eg['got']: continue
                        ctx.count('closing-order oracle, duplicate_merged_cells=True, sublist (C02_post_part_any)' + (' (real documents)' if real else ''))
                        it = iter(eg['expected'])
                        if not all(any(g == e for e in it) for g in eg['got']):
                            good = False
                            ctx.fail('with duplicate_merged_cells=True the paragraph records (copies aside) are not a sublist of the source paragraphs in the order of their closing tags',
                                     case_payload(data, html=False, dup=True), {'type': ty, 'got': eg['got'][:12]}, {'expected': eg['expected'][:12]},
                                     features=['closing-order', 'sublist'])
            for path, ok in (((v or {}).get('<uniq>') or {}) if isinstance(v, dict) else {}).items():
                if ok is True: ctx.count('uniqueIds holds for the part (hypothesis of C02_post_nodup: no source paragraph is recorded twice)' + (' (real documents)' if real else ''))
                elif ok is False:
                    good = False
                    ctx.diff('element identities of a part are not pairwise distinct (hypothesis of C02_post_nodup; the encoder numbers elements in document order)',
                             case_payload(data, html=False, dup=False), 'distinct', 'not distinct', path=path)
            mp = (v or {}).get('<post>') if isinstance(v, dict) else None
            if isinstance(mp, dict):
                for path, pe in co['paths'].items():
                    if not isinstance(mp.get(path), list): continue
                    mine = [ords.get(i) for i in mp[path]]
                    ctx.count('closing-order oracle: Lean `post` = the harness\'s reading of the source')
                    if mine != pe['post']:
                        good = False
                        ctx.diff('`post` of the Lean model differs from the closing order of the source paragraphs', case_payload(data, html=False, dup=False), pe['post'][:12], mine[:12], path=path)
                    fl = (v.get('<flat>') or {}).get(path)
                    if fl is not None and fl != pe['flat']:
                        good = False
                        ctx.diff('`leafIds = pre` of the Lean model differs from the harness (no paragraph encloses another one)', case_payload(data, html=False, dup=False), pe['flat'], fl, path=path)
                    ctx.count(('part in which no paragraph encloses another one (C02_post_document_order applies)' if pe['flat']
                               else 'part with paragraphs nested in paragraphs (text boxes): C02_post_part / C02_post_leaves_in_order') + (' (real documents)' if real else ''))
    except Exception as e:
        ctx.notes.append('closing-order oracle not evaluated: ' + type(e).__name__ + ': ' + str(e)[:100])
    return good


def one(ctx, data, meta=None, opts=((False, True), (False, False))):
    ctx.evaluations += 1; good = True
    parts = src.parts_of(data); cps = src.content_parts(data)
    feats = list(meta['features']) if meta else []
    # the hypothesis of C02_siblings / C02_items (Props/C02BodyStray), evaluated by the Lean model on the children of every part's body
    try:
        v = ctx.drv.ask({**pk.model_case(data, False, True)[0], 'op': 'valid'})
        its = v.get('<items>') if isinstance(v, dict) else None
        if isinstance(its, dict):
            for path, ok in its.items():
                ctx.count('itemsOK holds for the part (hypothesis of C02_siblings: paragraphs, regular tables, ignored markup, groups of stray inline content)' if ok is True
                          else 'itemsOK false for the part (C02_siblings does not apply: nested tables, text boxes, content controls, ...)')
            for path, ok in (v.get('<partok>') or {}).items():
                ctx.count('partItemsOK holds (all hypotheses of C02_part_decidable: wrapper root, admissible children, no notes)' if ok is True
                          else 'partItemsOK false for the part')
            for path, ok in (v.get('<deepok>') or {}).items():
                if ok is True: ctx.count('deepPartOK holds (hypotheses of C02_deep_once_in_order: blocks, content-free markup, stray groups, block wrappers nested up to 6 deep)')
            for path, ok in (v.get('<deepcok>') or {}).items():
                if ok is True: ctx.count('deepCPartOK holds (hypotheses of C02_deepC_once_in_order: also tables of any shape, cells as wrappers)')
            for path, ok in (v.get('<notesok>') or {}).items():
                if ok is True: ctx.count('notesPartOK holds (hypotheses of C02_notes_part: a notes part of admissible notes)')
            if v.get('<groups>'): ctx.count('groups of inline content outside paragraphs (C02_stray_group)', v['<groups>'])
    except Exception:
        v = None
    if not closing_oracle(ctx, data, v): good = False
    for html, dup, i, m in observe(ctx, data, opts, want=['plain', 'text']):
        case = case_payload(data, html=html, dup=dup)
        if not compare_keys(ctx, 'plain view', data, html, dup, i, m, VIEWS + ['text']): good = False
        for ty, attr in ATTR.items():
            if 'ok' not in i.get(attr, {}): ctx.skipped_raises += 1; continue
            paths = [path for t, path in sorted(cps, key=lambda x: x[1]) if t == ty and path in parts]
            mult = {path: paths.count(path) for path in paths}
            sp = [p for path in dict.fromkeys(paths) for p in src.paragraphs(parts[path], path)]
            if not check_part(ctx, {**case, 'attribute': attr}, flat(i[attr]['ok'], 4), sp, dup, feats, mult, roots=[parts[path] for path in dict.fromkeys(paths)]): good = False
            if not dup and not census(ctx, {**case, 'attribute': attr}, i[attr]['ok'], [parts[path] for path in paths], feats): good = False
    if good: ctx.validated += 1
    if meta and meta['stats'].get('ri:text', 0) >= 5 and meta['stats'].get('par', 0) >= 3: ctx.nontrivial(jhash(data.hex()))
    return good


def run(ctx):
    from gen.probes import probes
    for name, data in probes('C02'):
        ctx.count('probe'); one(ctx, data, {'features': ['probe:' + name], 'stats': {}})
    n = 90 if ctx.quick else 8000
    for pkg, meta, rng in stream(ctx, PROF, n):
        one(ctx, pkg.to_bytes(), meta)
        if ctx.evaluations % 30 == 1: ctx.sample({'body': meta['body'][:700], 'features': meta['features']})
    # the part-level theorems on the repository's own documents: for how many of their content parts do the (decidable) hypotheses hold?
    for f in (corpus_files()[:15] if ctx.quick else corpus_files()):
        try:
            v = ctx.drv.ask({**pk.model_case(open(f, 'rb').read(), False, True)[0], 'op': 'valid'})
            po, no = (v.get('<partok>') or {}), (v.get('<notesok>') or {})
            closing_oracle(ctx, open(f, 'rb').read(), v, real=True)
            for path in po:
                if (v.get('<deepok>') or {}).get(path) is True: ctx.count('real documents: content part under C02_deep_once_in_order')
                if (v.get('<deepcok>') or {}).get(path) is True: ctx.count('real documents: content part under C02_deepC_once_in_order')
                ctx.count('real documents: content part under C02_part_decidable / C02_document / C02_notes_part' if (po[path] is True or no.get(path) is True)
                          else 'real documents: content part outside the part-level theorems (links, nested tables, text boxes, content controls)')
        except Exception:
            ctx.count('real documents: not readable by the encoder')
    if not ctx.quick:
        for f in corpus_files():      # real files: correspondence on every plain view (no tokens to check)
            data = open(f, 'rb').read(); ctx.evaluations += 1; ctx.count('real-file')
            ok = all(compare_keys(ctx, 'plain view (real file)', data, h, d, i, m, VIEWS + ['text']) for h, d, i, m in observe(ctx, data, ((False, True), (False, False)), want=['plain', 'text']))
            ctx.validated += ok
    ctx.rule = RULE


def replay(ctx, rep):
    c = rep.get('case') or (rep.get('first_difference') or {}).get('case')
    one(ctx, case_data(c), None, [(False, c.get('dup', True))])
    ctx.rule = ctx.rule or 'replay of one stored case'
