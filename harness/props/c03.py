"""C03 — string, run and record views agree; document and text are concatenations."""
import io, warnings
import pk
from common import jhash, first_diff
from pkgrun import *

PROF = profile(p_header=0.7, p_footer=0.6, p_footnotes=0.7, p_endnotes=0.6)
RULE = ('generated packages (several headers / footers, notes, empty parts) plus real files of tests/resources, x 4 option settings; '
        'the five relations of the statement are evaluated on the live objects of the implementation and the same relations on the '
        "model's views; non-trivial = at least two non-empty parts; distinct by hash of the archive")


def relations(d):
    """the statement, on live objects"""
    from docx2python.depth_collector import Par
    out = {}
    def join(runs): return [[[["".join(p) for p in c] for c in r] for r in t] for t in runs]
    def strs(pars): return [[[[p.run_strings for p in c] for c in r] for r in t] for t in pars]
    for v in VIEWS:
        plain, runs, pars = getattr(d, v), getattr(d, v + '_runs'), getattr(d, v + '_pars')
        out[f'{v} == join({v}_runs)'] = plain == join(runs)
        out[f'{v}_runs == run_strings({v}_pars)'] = runs == strs(pars)
    for s in ('', '_runs', '_pars'):
        cat = []
        for v in ['header', 'body', 'footer', 'footnotes', 'endnotes']: cat = cat + getattr(d, v + s)
        got = getattr(d, 'document' + s)
        out[f'document{s} == header+body+footer+footnotes+endnotes'] = (got == cat) if s != '_pars' else (
            len(got) == len(cat) and all(a is b for a, b in zip(flat(got, 4), flat(cat, 4))))
    main = d.docx_reader.file_of_type('officeDocument')
    out['body is the main document part alone'] = d.body_pars == main.depth_collector.tree
    out['text == paragraphs of document joined by a blank line'] = d.text == "\n\n".join(flat(d.document, 4))
    return out


def one(ctx, data, meta=None, opts=pk.OPTS):
    from docx2python import docx2python
    ctx.evaluations += 1; good = True
    for html, dup in opts:
        case = case_payload(data, html=html, dup=dup)
        try:
            with warnings.catch_warnings():
                warnings.simplefilter('ignore')
                with docx2python(io.BytesIO(data), html=html, duplicate_merged_cells=dup) as d:
                    rel = relations(d)
                    parts = sum(1 for v in VIEWS[:5] if getattr(d, v))
        except Exception as e:
            ctx.skipped_raises += 1; continue
        for k, v in rel.items():
            if v is not True:
                ctx.fail('a view relation of the statement is false', {**case, 'relation': k}, v); good = False
        # the same relations on the model's views (C03_* theorems say they hold; this is the tie)
        m = ctx.drv.ask(pk.model_case(data, html, dup, ['runs', 'plain', 'text'])[0])
        mrel = {}
        try:
            def join(runs): return [[[["".join(p) for p in c] for c in r] for r in t] for t in runs]
            for v in VIEWS: mrel[f'{v} == join({v}_runs)'] = m[v]['ok'] == join(m[v + '_runs']['ok'])
            mrel['document == header+body+footer+footnotes+endnotes'] = m['document']['ok'] == sum((m[v]['ok'] for v in ['header', 'body', 'footer', 'footnotes', 'endnotes']), [])
            mrel['text == paragraphs of document joined by a blank line'] = m['text']['ok'] == "\n\n".join(flat(m['document']['ok'], 4))
        except KeyError:
            mrel = {}
        for k, v in mrel.items():
            if v != rel.get(k, v):
                ctx.diff('relation ' + k, case, rel.get(k), v); good = False
        if parts >= 2: ctx.nontrivial(jhash(data.hex()))
    if good: ctx.validated += 1


def run(ctx):
    for f in stored_corpus('C03'): replay(ctx, json.load(open(f)))
    from gen.probes import probes
    for name, data in probes('C03'):
        ctx.count('probe'); one(ctx, data, None)
    n = 100 if ctx.quick else 5000
    for pkg, meta, rng in stream(ctx, PROF, n):
        one(ctx, pkg.to_bytes(), meta)
        if ctx.evaluations % 40 == 1: ctx.sample({'body': meta['body'][:500], 'features': meta['features']})
    files = corpus_files()
    for f in (files[:8] if ctx.quick else files):
        one(ctx, open(f, 'rb').read(), None, pk.OPTS[:2] if ctx.quick else pk.OPTS); ctx.count('real-file')
    ctx.rule = RULE


def replay(ctx, rep):
    c = rep.get('case') or (rep.get('first_difference') or {}).get('case')
    one(ctx, case_data(c), None, [(c.get('html', False), c.get('dup', True))] if 'html' in c else pk.OPTS)
    ctx.rule = ctx.rule or 'replay of one stored case'
