"""C01 — paragraphs sit at depth 4 in every view, for every document."""
import pk
from common import jhash, first_diff
from pkgrun import *

PROF = profile(blocks=(0, 5), p_table=0.3, p_sdt_block=0.15, p_customxml=0.12, p_block_misc=0.15, max_depth=4, p_cell_block=0.5,
               p_cell_nopar=0.12, p_sdt_cell=0.15, p_textbox=0.12, p_grid_gap=0.2, p_span=0.35, p_vmerge=0.35, bare_vals=True, stray_inline=True)
RULE = ('packages from the "wild nesting" profile (tables in cells up to depth 4, text boxes in runs in cells, block content controls, '
        'customXml wrappers, cells without paragraphs, grid gaps, merged cells) x 4 option settings x 6 attributes x 3 views; '
        'non-trivial = body has a table or wrapper nested below another; distinct by hash of the archive')


def skel(x, depth):
    """nesting skeleton down to paragraph level; below it only the kind of leaf"""
    if depth == 0:
        if isinstance(x, str): return 'str'
        if isinstance(x, list): return ['run:' + ('str' if isinstance(r, str) else '?') for r in x] and 'runs' if all(isinstance(r, str) for r in x) else 'bad-runs'
        if isinstance(x, dict): return 'par' if 'lin' in x else 'bad:' + str(x.get('?'))
        return 'bad'
    if not isinstance(x, list): return 'bad-level'
    return [skel(y, depth - 1) for y in x]


def shape_only(x, depth):
    if depth == 0: return 0
    if not isinstance(x, list): return 'bad-level'
    return [shape_only(y, depth - 1) for y in x]


def one(ctx, data, meta=None, opts=pk.OPTS):
    ctx.evaluations += 1
    good = True
    for html, dup, i, m in observe(ctx, data, opts, want=['pars', 'runs', 'plain']):
        for part in VIEWS:
            trip = [i.get(part + '_pars'), i.get(part + '_runs'), i.get(part)]
            mtrip = [m.get(part + '_pars'), m.get(part + '_runs'), m.get(part)]
            if any(t is None or 'err' in t for t in trip):
                ctx.skipped_raises += 1          # an exception is C13's business ...
                for name, t, mt in zip(['_pars', '_runs', ''], trip, mtrip):
                    # ... unless the model (which raises wherever the code at the pinned commit raises) returns a view here
                    if t is not None and 'err' in t and mt is not None and 'ok' in mt:
                        ctx.fail('a view raises where the model returns a nested list: the attribute is not a 4-deep list for this well-formed part',
                                 case_payload(data, html=html, dup=dup, part=part), {'view': part + name, 'raised': t['err']}); good = False; break
                if trip[0] is not None and 'ok' in trip[0]:
                    # ... but a record view that IS returned must still be four levels deep with paragraph records
                    def bad(x, d):
                        if d == 0: return not (isinstance(x, dict) and 'lin' in x)
                        return (not isinstance(x, list)) or any(bad(y, d - 1) for y in x)
                    if bad(trip[0]['ok'], 4):
                        ctx.fail('nesting shape: not 4-deep with paragraph leaves / 5-deep runs / equal skeletons', case_payload(data, html=html, dup=dup, part=part),
                                 {'pars_skeleton': skel(trip[0]['ok'], 4), 'runs': trip[1], 'plain': trip[2]}); good = False
                continue
            case = case_payload(data, html=html, dup=dup, part=part)
            # correspondence on obs_01: the skeletons
            for name, t, mt, dpt in zip(['_pars', '_runs', ''], trip, mtrip, [4, 4, 4]):
                if 'ok' in mt:
                    a, b = shape_only(t['ok'], 4), shape_only(mt['ok'], 4)
                    if a != b:
                        d = first_diff(a, b); good = False
                        ctx.diff(f'skeleton of {part}{name}', case, d[1], d[2], path=d[0]); break
                else:
                    good = False; ctx.diff(f'{part}{name}: model raises {mt}', case, 'returns', mt); break
            # the Lean checker on the implementation's three views
            r = ctx.drv.ask({'op': 'c01', 'pars': trip[0]['ok'], 'runs': trip[1]['ok'], 'plain': trip[2]['ok']})
            if r.get('check') is not True:
                ctx.fail('nesting shape: not 4-deep with paragraph leaves / 5-deep runs / equal skeletons', case,
                         {'skeletons': [skel(trip[0]['ok'], 4), skel(trip[1]['ok'], 4), skel(trip[2]['ok'], 4)], 'checker': r})
                good = False
    if good: ctx.validated += 1
    if meta and ({'nested_table', 'textbox', 'block_sdt'} & set(meta['features'])): ctx.nontrivial(jhash(data.hex()))
    return good


def run(ctx):
    for f in stored_corpus('C01'): replay(ctx, json.load(open(f)))
    from gen.probes import probes
    for name, data in probes('C01'):
        ctx.count('probe'); one(ctx, data, None)
    n = 60 if ctx.quick else 2000
    for pkg, meta, rng in stream(ctx, PROF, n):
        data = pkg.to_bytes()
        one(ctx, data, meta)
        if ctx.evaluations % 25 == 1: ctx.sample({'body': meta['body'][:600], 'features': meta['features']})
    files = corpus_files()
    for f in (files[:6] if ctx.quick else files):
        one(ctx, open(f, 'rb').read(), None); ctx.count('real-file')
    ctx.rule = RULE


def replay(ctx, rep):
    c = rep.get('case') or (rep.get('first_difference') or {}).get('case')
    one(ctx, case_data(c), None, [(c.get('html', False), c.get('dup', True))] if 'html' in c else pk.OPTS)
    ctx.rule = ctx.rule or 'replay of one stored case'
