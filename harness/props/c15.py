"""C15 — close() and with-blocks release the archive for every usage history."""
import io, os, random, shutil, tempfile, warnings
import pk, life
from common import jhash, first_diff
from pkgrun import *

PROF = profile(blocks=(1, 3), p_header=0.5, p_footer=0.4, p_footnotes=0.5, p_endnotes=0.3, p_comments=0.6, p_core=0.6, p_numbering=0.7, p_drawing=0.15, p_table=0.15,
               inlines=(0, 3), p_no_r_ns=0.0)
RULE = ('random operation histories (length 1-14) over {read each of the 23 attributes, save_images, save, close, leave a with block normally or '
        'by an exception} on DocxContent and over {files, numId2Attrs, comments, root / rels / content of the main part, text of all parts, '
        'pull_image_files with and without folder, save, close, with-exit} on DocxReader, for path and in-memory inputs, on generated packages; '
        'per step: value-hash or exception type, state of the zip handle, open descriptors on the input path; correspondence: the same history '
        'through the Lean state machine (units measured per operation on fresh objects); non-trivial = history with a close / exit followed by '
        'at least two reads; distinct by hash of (archive, history)')


class Boom(Exception): pass


def run_history(kind, data, ops, hist, use_path, tmpdir):
    """returns (per-step outcomes, notes about handles, exception propagated?)"""
    names = list(ops)
    path = None
    if use_path:
        fd, path = tempfile.mkstemp(suffix='.docx', dir=tmpdir); os.write(fd, data); os.close(fd)
    src_ = path if use_path else io.BytesIO(data)
    import gc
    gc.collect(); fds_before = life.open_fds(); del life.STRAY[:]
    obj = life.make(kind, src_)
    rd = life.reader_of(kind, obj)
    out = []; problems = []
    closed = [False]
    # every ZipFile the library opens on the input is seen here: none may be opened once the object is closed
    import zipfile
    orig_init = zipfile.ZipFile.__init__
    def spy_init(self, file, *a, **k):
        if closed[0] and (file is src_ or (isinstance(file, (str, os.PathLike)) and path and os.fspath(file) == path)):
            problems.append(f'archive reopened after close (after step {len(out)})')
        return orig_init(self, file, *a, **k)
    zipfile.ZipFile.__init__ = spy_init
    try:
        res = _run_history(kind, ops, names, hist, obj, rd, out, problems, closed, path)
        # no handle opened by the library is left open (whatever it points to), nothing is left beside the target of a save
        del obj, rd; gc.collect()
        # (files only: pipes, sockets and devices that the interpreter or the harness may open lazily are not the library's)
        leaked = {k: v for k, v in life.open_fds().items() if k not in fds_before and v.startswith('/') and not v.startswith(('/proc/', '/dev/', '/sys/'))}
        if leaked: problems.append('descriptor(s) left open after the object was closed: ' + ', '.join(sorted(os.path.basename(v) if '.tmp' not in v else '*.tmp' for v in leaked.values()))[:120])
        if life.STRAY: problems.append('file(s) left beside the target of save: ' + ', '.join('*' + os.path.splitext(x)[1] for x in life.STRAY)[:80])
        return res
    finally:
        zipfile.ZipFile.__init__ = orig_init


def _run_history(kind, ops, names, hist, obj, rd, out, problems, closed, path):

    def fds():
        if not path: return 0
        n = 0
        for f in os.listdir('/proc/self/fd'):
            try:
                if os.readlink('/proc/self/fd/' + f) == path: n += 1
            except OSError: pass
        return n

    def do(op):
        if op[0] == 'read':
            try: out.append('v:' + life.vhash(ops[names[op[1]]](obj)))
            except Exception as e: out.append('err:' + type(e).__name__)
        elif op[0] == 'close':
            try: obj.close(); out.append('done'); closed[0] = True
            except Exception as e: out.append('err:' + type(e).__name__)
        if closed[0]:
            if life.handle_open(rd): problems.append(f'zip handle open after close (after step {len(out)})')
            if fds(): problems.append(f'{fds()} descriptor(s) on the input file open after close (after step {len(out)})')

    k = next((n for n, op in enumerate(hist) if op[0] == 'exit'), None)
    with warnings.catch_warnings():
        warnings.simplefilter('ignore')
        if k is None:
            for op in hist: do(op)
        else:
            propagated = None
            try:
                with obj:
                    for op in hist[:k]: do(op)
                    if hist[k][1]: raise Boom()
                propagated = False
            except Boom:
                propagated = True
            closed[0] = True
            if hist[k][1] and not propagated: problems.append('exception raised inside the with block did not propagate')
            if life.handle_open(rd): problems.append('zip handle open after leaving the with block')
            if fds(): problems.append('descriptor on the input file open after leaving the with block')
            out.append('done')
            for op in hist[k + 1:]: do(op)
        if not closed[0]:
            try: obj.close()
            except Exception: pass
    return out, problems


def gen_history(rng, nops):
    n = rng.randint(1, 14); hist = []; exited = False
    for _ in range(n):
        x = rng.random()
        if x < 0.72: hist.append(['read', rng.randrange(nops)])
        elif x < 0.88: hist.append(['close'])
        elif not exited: hist.append(['exit', rng.random() < 0.5]); exited = True
        else: hist.append(['read', rng.randrange(nops)])
    return hist


def one(ctx, data, hists, kind, use_path, tmpdir):
    ops = life.content_ops(tmpdir) if kind == 'content' else life.reader_ops(tmpdir)
    names = list(ops)
    fresh = life.fresh_values(kind, data, ops)
    needs = [fresh[n][1] for n in names]
    good_all = True
    for hist in hists:
        ctx.evaluations += 1; good = True
        got, problems = run_history(kind, data, ops, hist, use_path, tmpdir)
        case = {'archive_b64': case_payload(data)['archive_b64'], 'object': kind, 'input': 'path' if use_path else 'BytesIO',
                'history': [[op[0], names[op[1]]] if op[0] == 'read' else op for op in hist]}
        # the model's prediction
        m = ctx.drv.ask({'op': 'lifecycle', 'needs': needs, 'ops': hist})
        closed = False; pred = []
        for op, r in zip(hist, m['results']):
            if op[0] == 'read': pred.append(fresh[names[op[1]]][0] if r == 'value' else 'err:ValueError')
            else: pred.append('done')
        if pred != got:
            d = first_diff(got, pred)
            ctx.diff('per-step outcome of a history', case, {'step': d[0], 'impl': d[1]}, {'model': d[2]}, path=d[0]); good = False
        # the property itself
        for n, (op, g) in enumerate(zip(hist, got)):
            if op[0] == 'read':
                want = fresh[names[op[1]]][0]
                if not closed and g != want:
                    ctx.fail('before closing, a read does not return the value a fresh object returns', {**case, 'step': n}, {'got': g, 'fresh': want}); good = False
                if closed and g not in (want, 'err:ValueError'):
                    ctx.fail('after closing, a read neither returns the fresh value nor raises ValueError', {**case, 'step': n}, {'got': g, 'fresh': want}); good = False
            elif g != 'done':
                ctx.fail('close() / leaving the with block raised', {**case, 'step': n}, g); good = False
            if op[0] in ('close', 'exit'): closed = True
        for pr in problems:
            ctx.fail('archive not released: ' + pr.split(' (')[0], case, pr); good = False
        if good: ctx.validated += 1
        good_all &= good
        ci = next((n for n, op in enumerate(hist) if op[0] in ('close', 'exit')), None)
        if ci is not None and sum(1 for op in hist[ci:] if op[0] == 'read') >= 2: ctx.nontrivial(jhash([case['archive_b64'][:80], hist, kind]))
        for op in hist: ctx.count('op:' + op[0])
        ctx.count('object:' + kind); ctx.count('input:' + ('path' if use_path else 'BytesIO'))
        for g in got: ctx.count('outcome:' + (g if g.startswith('err') or g == 'done' else 'value'))
        if ctx.evaluations % 60 == 1: ctx.sample({'object': kind, 'history': case['history'], 'outcomes': [g if not g.startswith('v:') else 'value' for g in got]})
    return good_all


FIXED = [[['exit', True]], [['read', 2], ['exit', True], ['read', 2], ['read', 5]], [['read', 2], ['close'], ['close'], ['read', 2], ['read', 0], ['read', 20]],
         [['read', 24], ['read', 2], ['read', 21], ['read', 24], ['close'], ['read', 2]]]


def run(ctx):
    tmpdir = tempfile.mkdtemp(prefix='d2pv-c15-')
    try:
        n = 14 if ctx.quick else 400
        per = 10 if ctx.quick else 30
        for pkg, meta, rng in stream(ctx, PROF, n):
            data = pkg.to_bytes()
            for kind in ('content', 'reader'):
                nops = len(life.content_ops(tmpdir) if kind == 'content' else life.reader_ops(tmpdir))
                hists = [gen_history(rng, nops) for _ in range(per)] + [[op if op[0] != 'read' else ['read', op[1] % nops] for op in h] for h in FIXED]
                one(ctx, data, hists, kind, rng.random() < 0.5, tmpdir)
        if not ctx.quick:
            # exhaustive: all histories of length <= 3 over a reduced alphabet, on one package
            import itertools
            pkg, meta, rng = next(stream(ctx, PROF, 1, 'exh'))
            alpha = [['read', 2], ['read', 0], ['read', 20], ['read', 22], ['close'], ['exit', False], ['exit', True]]
            hs = [list(h) for k in range(1, 5) for h in itertools.product(alpha, repeat=k) if sum(1 for o in h if o[0] == 'exit') <= 1]
            one(ctx, pkg.to_bytes(), hs, 'content', True, tmpdir)
            ctx.notes.append(f'exhaustive: all {len(hs)} histories of length <= 4 over 7 operations on one package (DocxContent, path input)')
    finally:
        shutil.rmtree(tmpdir, ignore_errors=True)
    ctx.rule = RULE


def replay(ctx, rep):
    c = rep.get('case') or (rep.get('first_difference') or {}).get('case')
    tmpdir = tempfile.mkdtemp(prefix='d2pv-c15-')
    try:
        kind = c['object']; ops = life.content_ops(tmpdir) if kind == 'content' else life.reader_ops(tmpdir); names = list(ops)
        hist = [['read', names.index(op[1])] if op[0] == 'read' else op for op in c['history']]
        one(ctx, case_data(c), [hist], kind, c['input'] == 'path', tmpdir)
    finally:
        shutil.rmtree(tmpdir, ignore_errors=True)
    ctx.rule = 'replay of one stored history'
