"""C17 — search-and-replace commutes with extraction, even across split runs."""
import copy, io, os, random, shutil, tempfile, warnings, zipfile
from lxml import etree
import pk, src
from common import jhash, first_diff
from pkgrun import *
from gen.split import variant
from encode import enc, NsTable
from props.c06 import strip

PROF = profile(tokens=True, math_markup=True, p_math=0.12, p_text=0.65, run_items=(1, 3), inlines=(1, 4), p_rpr=0.5, p_table=0.12,
               p_textbox=0.08, p_header=0.6, p_double_rel=0.4, p_footnotes=0.5, p_link=0.08, blocks=(1, 4))
RULE = ('token documents (text free of line separators); 1-3 replacement pairs whose needles are substrings of one literal text node of the '
        'original (or absent), replacements empty / multi-line (\\n, \\r\\n, trailing newline) / with markup characters / containing the next needle; '
        'the stretch is then cut arbitrarily into runs and text nodes and sprinkled with non-content markup (2-10 rewrites) before '
        'replace_docx_text runs on it; html off and on; checker: every view of the output = the views of the ORIGINAL with str.replace applied '
        'per paragraph (line ends as breaks), other parts / images / non-content members unchanged, run formatting preserved (html on); '
        'correspondence: replace_root_text on the merged part, Lean model vs implementation; non-trivial = needle present and >= 3 rewrites; '
        'distinct by hash of (archive, pairs)')
REPL = ['', 'X', 'new text', 'l1\nl2', 'a\n', '\nb', 'l1\r\nl2', 'x\n\ny', '<&>', 'a & b', '&amp;', 'q"q', 'é', 'l1\rl2',
        'C:\\temp\\new', 'DOMAIN\\user', 'a\\1b', '\\g<0>', '\\\\', 'tab\\tnot', '\\d+', '$1 {0} %s']        # a replacement is a literal string, not a template
ESC = lambda t: t.replace('&', '&amp;').replace('<', '&lt;').replace('>', '&gt;')


def norm_lines(new):
    ls = new.splitlines()
    out = '\n'.join(ls)
    if ls and new.splitlines(keepends=True)[-1] != ls[-1]: out += '\n'
    return out


def pick_pairs(rng, data):
    parts = src.parts_of(data); cps = [p for t, p in src.content_parts(data) if t != 'comments']
    ts = [t.text for p in cps if p in parts for t in parts[p].iter() if src.ptag(t) == 'w:t' and t.text and src.TOKEN.search(t.text)
          and not any(src.ptag(a) == 'w:hyperlink' for a in t.iterancestors())]
    pairs = []
    paths = [p for t, p in src.content_parts(data) if t != 'comments']
    twice = [p for p in set(paths) if paths.count(p) > 1 and p in parts]
    if twice and rng.random() < 0.6:
        # a part that is the target of two relationships must still be rewritten once: a replacement containing its own needle shows a second pass
        tt = [t.text for t in parts[twice[0]].iter() if src.ptag(t) == 'w:t' and t.text and src.TOKEN.search(t.text) and not any(src.ptag(a) == 'w:hyperlink' for a in t.iterancestors())]
        if tt:
            s_ = rng.choice(tt); m = src.TOKEN.search(s_)
            old = s_[rng.randint(0, m.start()):rng.randint(m.end(), len(s_))]
            return [(old, 'tom' + old)]
    if ts and rng.random() < 0.3:
        # a needle that occurs in every text node (several hits in one run, separated by tabs / breaks)
        old = rng.choice(['»', '«', '»x'])
        return [(old, rng.choice(['l1\nl2\nl3', '', 'A\n\nB', 'Z', '\n', 'q\nr']))]
    for _ in range(rng.randint(1, 3)):
        if ts and rng.random() < 0.85:
            s = rng.choice(ts); m = src.TOKEN.search(s)
            a = rng.randint(0, m.start()); b = rng.randint(m.end(), len(s))       # contains the whole token: unique in the document
            old = s[a:b]
        else: old = '«absent%d»' % rng.randrange(100)
        new = rng.choice(REPL)
        if rng.random() < 0.15: new = 'tom' + old + rng.choice(['', ' again'])      # a replacement that contains its own needle: applied once, not until a fixed point
        if any(o in new for o, _ in pairs): new = 'Y'
        pairs.append((old, new))
    # needles must not be found inside an earlier replacement or overlap each other's tokens
    toks = [src.TOKEN.findall(o) for o, _ in pairs]
    if len({t for ts_ in toks for t in ts_}) != sum(len(t) for t in toks): pairs = pairs[:1]
    return pairs


def expected_views(views, pairs, html):
    def rep(s):
        # equation text (m:t, rendered between <latex> tags) is not literal text of the paragraph: replace_docx_text rewrites w:t only
        import re as _re0
        pieces = _re0.split(r'(<latex>.*?</latex>)', s, flags=_re0.S)
        for old, new in pairs:
            o, n = (ESC(old), ESC(norm_lines(new))) if html else (old, norm_lines(new))
            pieces = [x if x.startswith('<latex>') and x.endswith('</latex>') else x.replace(o, n) for x in pieces]
        s = ''.join(pieces)
        if html:
            # a run whose whole text is replaced away emits no string at all: its (now empty) formatting tags vanish
            import re as _re
            while True:
                s2 = _re.sub(r'<(b|i|u|s|sup|sub)></\1>|<span style="[^"]*"></span>', '', s)
                if s2 == s: break
                s = s2
        return s
    out = {}
    for k, v in views.items():
        out[k] = {'ok': nest_map(v['ok'], rep)} if 'ok' in v and k != 'images' else v
    return out


def one(ctx, data, meta, rng, tmpdir, html, pairs=None, nrewrites=None):
    from docx2python.utilities import replace_docx_text, replace_root_text
    from docx2python import docx2python
    ctx.evaluations += 1; good = True
    pairs = pairs or pick_pairs(rng, data)
    cps = [p for t, p in src.content_parts(data) if t != 'comments']
    from gen.split import split_text_inside
    first = [('cut-inside-needle', split_text_inside(o)) for o, _ in pairs if len(o) >= 2 and rng.random() < 0.6] if nrewrites is None else []
    vd, applied = variant(rng, data, cps, rng.randint(2, 10) if nrewrites is None else nrewrites, first=first)
    case = case_payload(vd, html=html, pairs=pairs, original_b64=case_payload(data)['archive_b64'], rewrites=applied)
    fin = os.path.join(tmpdir, 'in.docx'); fout = os.path.join(tmpdir, 'out.docx')
    open(fin, 'wb').write(vd)
    with warnings.catch_warnings():
        warnings.simplefilter('ignore')
        try: replace_docx_text(fin, fout, *pairs, html=html)
        except Exception as e:
            ctx.fail('replace_docx_text raised', case, type(e).__name__ + ': ' + str(e)[:100]); return False
    out = open(fout, 'rb').read()
    if open(fin, 'rb').read() != vd: ctx.fail('replace_docx_text modified its input file', case, None); good = False
    want_keys = VIEWS[:5] + ['text', 'images']
    i0, _m = pk.both(ctx.drv, data, html, True, want=['plain', 'text', 'images'])
    i1, m1 = pk.both(ctx.drv, out, html, True, want=['plain', 'text', 'images'])
    exp = expected_views({k: i0[k] for k in want_keys}, pairs, html)
    for k in want_keys:
        if i1.get(k) != exp[k]:
            d = first_diff(exp[k], i1.get(k))
            ctx.fail("the output's extraction is not the input's extraction with every occurrence replaced", {**case, 'attribute': k}, {'where': d[0], 'expected': d[1], 'got': d[2]}); good = False; break
    if not compare_keys(ctx, 'extraction of the output', out, html, True, i1, m1, want_keys): good = False
    # non-content members unchanged
    zi, zo = zipfile.ZipFile(io.BytesIO(vd)), zipfile.ZipFile(io.BytesIO(out))
    for n in zi.namelist():
        if n not in cps and not n.endswith('.rels') and (n not in zo.namelist() or zo.read(n) != zi.read(n)):
            ctx.fail('a non-content member changed', {**case, 'member': n}, None); good = False
    # correspondence: replace_root_text on the merged tree of each content part
    with warnings.catch_warnings():
        warnings.simplefilter('ignore')
        with docx2python(io.BytesIO(vd), html=html) as d:
            for f in d.docx_reader.content_files():
                root = copy.deepcopy(f.root_element)
                ns = NsTable(); tree = enc(root, ns, [0])
                for old, new in pairs[:1]:
                    m = ctx.drv.ask({'op': 'replace', 'tree': tree, 'nsmaps': ns.tab, 'old': old, 'new': new})
                    replace_root_text(root, old, new)
                    got = strip(enc(root, NsTable(), [0]))
                    if 'ok' not in m: ctx.diff('replace_root_text: model raises', case, 'returns', m); good = False
                    else:
                        dd = first_diff(got, strip(m['ok']))
                        if dd: ctx.diff('tree after replace_root_text on ' + f.path, case, dd[1], dd[2], path=dd[0]); good = False
    if good: ctx.validated += 1
    present = any(src.TOKEN.search(o) and 'absent' not in o for o, _ in pairs)
    ctx.count('needle present' if present else 'needle absent'); ctx.count('pairs=%d' % len(pairs)); ctx.count('html=%s' % html)
    for _, n in pairs: ctx.count('replacement:' + ('multi-line' if any(c in n for c in '\r\n') else 'empty' if n == '' else 'markup' if any(c in n for c in '<>&') else 'plain'))
    if present and len(applied) >= 3: ctx.nontrivial(jhash([jhash(data.hex()), pairs]))
    if ctx.evaluations % 20 == 1: ctx.sample({'pairs': pairs, 'rewrites': applied, 'html': html})
    return good


def one_simple(ctx, data, pairs, tmpdir, label):
    """needles that also occur outside visible text (inter-element whitespace, field codes): only visible text may change"""
    from docx2python.utilities import replace_docx_text
    ctx.evaluations += 1
    fin = os.path.join(tmpdir, 'in.docx'); fout = os.path.join(tmpdir, 'out.docx'); open(fin, 'wb').write(data)
    case = case_payload(data, html=False, pairs=pairs, original_b64=case_payload(data)['archive_b64'], rewrites=[], label=label)
    with warnings.catch_warnings():
        warnings.simplefilter('ignore')
        try: replace_docx_text(fin, fout, *pairs)
        except Exception as e: ctx.fail('replace_docx_text raised', case, type(e).__name__); return
    i0, _ = pk.both(ctx.drv, data, False, True, want=['plain', 'text']); i1, m1 = pk.both(ctx.drv, open(fout, 'rb').read(), False, True, want=['plain', 'text'])
    exp = expected_views({k: i0[k] for k in VIEWS[:5] + ['text']}, pairs, False)
    for k in VIEWS[:5] + ['text']:
        if i1.get(k) != exp[k]:
            d = first_diff(exp[k], i1.get(k))
            ctx.fail("the output's extraction is not the input's extraction with every occurrence replaced", {**case, 'attribute': k}, {'where': d[0], 'expected': d[1], 'got': d[2]}); return
    ctx.validated += 1


def run(ctx):
    tmpdir = tempfile.mkdtemp(prefix='d2pv-c17-')
    try:
        from gen.probes import docx, p, r
        fixed = [
            (docx(p(r('«1»foo'), r('X«2»'))), [('X«2»', 'a\n')], 'replacement ending in a line break'),
            (docx(p(r('«1»foo'), r('X«2»'))), [('«1»', '\nq')], 'replacement starting with a line break'),
            ('<pretty>', [('«1»a b', '«1»a_b')], 'pretty-printed part'),
            (docx(p(r('«1»page '), '<w:r><w:fldChar w:fldCharType="begin"/></w:r><w:r><w:instrText xml:space="preserve"> PAGE </w:instrText></w:r><w:r><w:fldChar w:fldCharType="end"/></w:r>', r('«2» PAGE of'))), [(' PAGE ', ' P\nG ')], 'needle also in a field code'),
        ]
        # two valid spellings of the same toggle in adjacent runs: one uniformly formatted stretch, the needle spans the split (html on)
        for spell_a, spell_b in (('<w:b/>', '<w:b w:val="true"/>'), ('<w:i w:val="1"/>', '<w:i w:val="on"/>'), ('', '<w:u w:val="none"/>')):
            ctx.count('fixed:needle across runs that spell the same formatting differently (html on)')
            one(ctx, docx(p(r('«1»start fo', spell_a), r('o end«2»', spell_b))), None, random.Random(1), tmpdir, True, pairs=[('foo', 'BAR')], nrewrites=0)
        for data, pairs, label in fixed:
            if data == '<pretty>':
                data = docx('\n  ' + p('\n    ' + r('«1»a b') + '\n  ') + '\n  ' + p(r('«2»c d')) + '\n')
                pairs = [(' ', '_')]
            ctx.count('fixed:' + label)
            if label == 'needle also in a field code' or label == 'pretty-printed part':
                one_simple(ctx, data, pairs, tmpdir, label)
            else: one(ctx, data, None, random.Random(1), tmpdir, False, pairs=pairs, nrewrites=0)
        n = 60 if ctx.quick else 5000
        for pkg, meta, rng in stream(ctx, PROF, n):
            one(ctx, pkg.to_bytes(), meta, rng, tmpdir, rng.random() < 0.4)
    finally:
        shutil.rmtree(tmpdir, ignore_errors=True)
    ctx.rule = RULE


def replay(ctx, rep):
    import base64
    c = rep.get('case') or (rep.get('first_difference') or {}).get('case')
    tmpdir = tempfile.mkdtemp(prefix='d2pv-c17-')
    try:
        from docx2python.utilities import replace_docx_text
        vd = case_data(c); data = base64.b64decode(c['original_b64']); html = c['html']; pairs = [tuple(p) for p in c['pairs']]
        fin = os.path.join(tmpdir, 'in.docx'); fout = os.path.join(tmpdir, 'out.docx'); open(fin, 'wb').write(vd)
        replace_docx_text(fin, fout, *pairs, html=html); out = open(fout, 'rb').read(); ctx.evaluations += 1
        want_keys = VIEWS[:5] + ['text', 'images']
        i0, _ = pk.both(ctx.drv, data, html, True, want=['plain', 'text', 'images']); i1, m1 = pk.both(ctx.drv, out, html, True, want=['plain', 'text', 'images'])
        exp = expected_views({k: i0[k] for k in want_keys}, pairs, html)
        for k in want_keys:
            if i1.get(k) != exp[k]:
                d = first_diff(exp[k], i1.get(k))
                ctx.fail("the output's extraction is not the input's extraction with every occurrence replaced", {**c, 'attribute': k}, {'where': d[0], 'expected': d[1], 'got': d[2]}); break
        compare_keys(ctx, 'extraction of the output', out, html, True, i1, m1, want_keys)
    finally:
        shutil.rmtree(tmpdir, ignore_errors=True)
    ctx.rule = 'replay of one stored case'
