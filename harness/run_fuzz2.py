import sys, json, time, random
sys.path.insert(0,'/root/scratch/harness'); sys.path.insert(0,'/root/scratch')
from encode import encode_archive
from impl import observe
from hcorr import run_model, first_diff
from run_corpus import fix_elems
import fz, corr2, fz2
seed=int(sys.argv[1]); N=int(sys.argv[2])
fz.R_=random.Random(seed); rnd=random.Random(seed+7)
cases=[]; meta=[]
for i in range(N):
    body=corr2.gdoc(rnd) if rnd.random()<0.6 else fz.gen()
    if rnd.random()<0.4: body=fz2.split_variant(body, rnd)
    com=''.join(f'<w:comment w:id="{k}" w:author="A{k}"><w:p><w:r><w:t>n{k}</w:t></w:r></w:p></w:comment>' for k in range(rnd.randint(0,4)))
    data=fz.docx(body, docrels=fz.RELS, numbering=fz.NUM, comments=com or None, parts={'footnotes.xml':('footnotes',fz.FN)}).getvalue()
    for html,dup in ((False,True),(True,True),(False,False),(True,False)):
        c,ords=encode_archive(data); c.update({"op":"package","html":html,"dup":dup})
        cases.append(c); meta.append((body,html,dup,ords,observe(data,html,dup)))
t=time.time(); outs=run_model(cases); dt=time.time()-t
bad=0; errs={}
for (body,html,dup,ords,impl),m in zip(meta,outs):
    fix_elems(m, ords)
    for k,v in impl.items():
        if 'err' in v: errs[v['err']]=errs.get(v['err'],0)+1
    d=first_diff(impl,m)
    if d:
        bad+=1
        if bad<=3: print('DIFF html',html,'dup',dup,d[0],'\n  impl',json.dumps(d[1])[:400],'\n  model',json.dumps(d[2])[:400],'\n',body[:1200])
print('cases',len(cases),'bad',bad,'driver',round(dt,1),'s','impl errors',errs)
