"""Hand-made packages: one per construct that was found to break a property on the tree as it was
before the `fix:` commits (known_findings.json lists them), plus the inputs of the open known
findings.  They run first in every check they are tagged for — a regression of any of the repairs
is reported with the probe as the replay."""
import io, zipfile
from gen.docgen import ns_decl, rels_xml, Package, CORE_RT

NS = ns_decl()


def p(*runs, ppr=''): return f'<w:p>{("<w:pPr>" + ppr + "</w:pPr>") if ppr else ""}{"".join(runs)}</w:p>'
def r(t, rpr=''): return f'<w:r>{("<w:rPr>" + rpr + "</w:rPr>") if rpr else ""}<w:t xml:space="preserve">{t}</w:t></w:r>'
def tc(*c, pr=''): return f'<w:tc>{("<w:tcPr>" + pr + "</w:tcPr>") if pr else ""}{"".join(c)}</w:tc>'
def tr(*c): return f'<w:tr>{"".join(c)}</w:tr>'
def tbl(*c): return f'<w:tbl><w:tblPr/><w:tblGrid/>{"".join(c)}</w:tbl>'
def link(attrs, *runs): return f'<w:hyperlink {attrs}>{"".join(runs)}</w:hyperlink>'


def docx(body, docrels=(), numbering=None, comments=None, parts=None, extra=None, ns=NS, root_rels=None):
    pk = Package()
    pk.add('[Content_Types].xml', '<Types xmlns="http://schemas.openxmlformats.org/package/2006/content-types"/>')
    pk.add('_rels/.rels', rels_xml(root_rels or [('rId1', 'officeDocument', 'word/document.xml')]))
    pk.add('word/document.xml', f'<w:document {ns}><w:body>{body}</w:body></w:document>')
    dr = list(docrels)
    if numbering: pk.add('word/numbering.xml', f'<w:numbering {NS}>{numbering}</w:numbering>'); dr.append(('rIdN', 'numbering', 'numbering.xml'))
    if comments is not None: pk.add('word/comments.xml', f'<w:comments {NS}>{comments}</w:comments>'); dr.append(('rIdC', 'comments', 'comments.xml'))
    for name, (typ, content) in (parts or {}).items():
        pk.add('word/' + name, content.replace('NS', NS)); dr.append(('rIdP' + name, typ, name))
    if dr: pk.add('word/_rels/document.xml.rels', rels_xml(dr))
    for k, v in (extra or {}).items(): pk.add(k, v)
    return pk.to_bytes()


LINK = [('rId9', 'hyperlink', 'http://x.y/', True)]


def strict(data):
    """the same package in the Strict namespaces (purl.oclc.org)"""
    import io, zipfile
    from gen.docgen import STRICT
    zi = zipfile.ZipFile(io.BytesIO(data)); b = io.BytesIO()
    with zipfile.ZipFile(b, 'w', zipfile.ZIP_DEFLATED) as zo:
        for n in zi.namelist():
            d = zi.read(n)
            if n.endswith(('.xml', '.rels')):
                for x, y in STRICT: d = d.replace(x.encode(), y.encode())
            zo.writestr(n, d)
    return b.getvalue()
NUM0 = '<w:abstractNum w:abstractNumId="0"><w:lvl w:ilvl="0"><w:start w:val="0"/><w:numFmt w:val="decimal"/></w:lvl><w:lvl w:ilvl="1"><w:start w:val="0"/><w:numFmt w:val="lowerLetter"/></w:lvl></w:abstractNum><w:num w:numId="1"><w:abstractNumId w:val="0"/></w:num>'
LISTP = lambda t, lvl=0: p(r(t), ppr=f'<w:numPr><w:ilvl w:val="{lvl}"/><w:numId w:val="1"/></w:numPr>')
COM = lambda i, t='note': f'<w:comment w:id="{i}" w:author="A" w:date="2020-01-01T00:00:00Z"><w:p><w:r><w:t>{t}</w:t></w:r></w:p></w:comment>'

ALL = [
    # name, properties, bytes-builder
    ('P2-dangling-link', ['C13', 'C10', 'C02'], lambda: docx(p(r('«1»before '), link('r:id="rId77"', r('«2»dangling')), r('«3» after')))),
    ('P3-no-r-namespace', ['C13', 'C02'], lambda: docx(p(r('«1»text')), ns=ns_decl(omit=('r',)))),
    ('P3b-anchor-link-no-r-namespace', ['C13', 'C10'], lambda: docx(p('<w:bookmarkStart w:id="1" w:name="bm"/>', r('«1»Heading'), '<w:bookmarkEnd w:id="1"/>') + p(r('«2»see '), link('w:anchor="bm"', r('«3»the heading'))), ns=ns_decl(omit=('r',)))),
    ('P4-empty-ddList', ['C13'], lambda: docx(p(r('«1»a'), '<w:r><w:fldChar w:fldCharType="begin"><w:ffData><w:ddList/></w:ffData></w:fldChar></w:r>'))),
    ('P5-checkbox-on', ['C13'], lambda: docx(p('<w:r><w:fldChar w:fldCharType="begin"><w:ffData><w:checkBox><w:default w:val="on"/></w:checkBox></w:ffData></w:fldChar></w:r>', r('«1»a')))),
    ('P6-vmerge-under-grid-gap', ['C13'], lambda: docx(tbl(tr('<w:trPr><w:gridBefore w:val="1"/></w:trPr>', tc(p(r('«1»a')))), tr(tc(p(r('«2»b'))), tc(p(), pr='<w:vMerge/>'))))),
    ('P7-vmerge-continue', ['C04', 'C19'], lambda: docx(tbl(tr(tc(p(r('«1»top')), pr='<w:vMerge w:val="restart"/>'), tc(p(r('«2»x')))), tr(tc(p(), pr='<w:vMerge w:val="continue"/>'), tc(p(r('«3»y'))))))),
    ('P8-tab-stops', ['C02'], lambda: docx(p(r('«1»toc entry'), '<w:r><w:tab/></w:r>', r('«2»7'), ppr='<w:tabs><w:tab w:val="right" w:leader="dot" w:pos="9350"/></w:tabs>'))),
    ('P9-comment-in-heading', ['C12'], lambda: docx(p(r('«1»plain')) + p('<w:commentRangeStart w:id="0"/>', r('«2»commented'), '<w:commentRangeEnd w:id="0"/>', r('«3» tail'), ppr='<w:pStyle w:val="Heading1"/>'), comments=COM(0))),
    ('P10-switched-off', ['C07', 'C06'], lambda: docx(p(r('x&lt;y', '<w:b w:val="0"/><w:i w:val="false"/><w:vertAlign w:val="baseline"/><w:u w:val="none"/>'), r(' z', '<w:b/>')))),
    ('P11-multi-format-link', ['C10', 'C07'], lambda: docx(p(r('«1»see '), link('r:id="rId9"', r('«2»bold', '<w:b/>'), r('«3»plain')), r('«4» end')), docrels=LINK)),
    ('P12-nested-table-lineage', ['C05', 'C19'], lambda: docx(p(r('«1»before')) + tbl(tr(tc(p(r('«2»A1')), tbl(tr(tc(p(r('«3»inner'))))), p(r('«4»A1-after'))), tc(p(r('«5»B1')))), tr(tc(p(r('«6»A2'))), tc(p(r('«7»B2'))))) + p(r('«8»after')))),
    ('P12b-sdt-in-cell-lineage', ['C05'], lambda: docx(tbl(tr(tc(p(r('«1»a')), '<w:sdt><w:sdtContent>' + p(r('«2»in sdt')) + '</w:sdtContent></w:sdt>', p(r('«3»b'))), tc(p(r('«4»c'))))))),
    ('P13-start-0', ['C08'], lambda: docx(LISTP('«1»x') + LISTP('«2»y') + LISTP('«3»z', 1), numbering=NUM0)),
    ('P36-dangling-abstractNum-beside-a-defined-list', ['C08', 'C13'], lambda: docx(LISTP('«1»x') + LISTP('«2»y') + LISTP('«3»z', 1), numbering=NUM0 + '<w:num w:numId="3"><w:abstractNumId w:val="7"/></w:num>')),
    ('P37-text-after-a-phonetic-guide-in-the-same-run', ['C07'], lambda: docx(p(r('«1»before '), '<w:r><w:rPr><w:i/></w:rPr><w:t>«2»pre </w:t><w:ruby><w:rubyPr><w:rubyAlign w:val="center"/></w:rubyPr><w:rt><w:r><w:t>«3»kana</w:t></w:r></w:rt><w:rubyBase><w:r><w:t>«4»kanji</w:t></w:r></w:rubyBase></w:ruby><w:t>«5» post</w:t></w:r>', r('«6» after')))),
    # a relationships member that is not well-formed XML: every read raises, and raises again when repeated (no half-filled cache)
    ('P38-relationships-member-not-well-formed', ['C14', 'C15'], lambda: docx(p(r('«1»text')), extra={'word/_rels/footer9.xml.rels': '<Relationships xmlns="x"><Relationship'})),
    ('P39-display-equation-between-paragraphs-inside-a-comment-range', ['C12', 'C02', 'C01'], lambda: docx(p(r('«1»a'), '<w:commentRangeStart w:id="0"/>') + '<m:oMathPara><m:oMath><m:r><m:t>z</m:t></m:r></m:oMath></m:oMathPara>' + p('<w:commentRangeEnd w:id="0"/><w:r><w:commentReference w:id="0"/></w:r>', r('«2»b')) + p(r('«3»c')), comments=COM(0))),
    # inline content outside every paragraph inside table cells: a stray run before / after the cell's paragraph, in a cell that spans
    # two columns (its copy holds a copy of the implicit paragraph) and in a vertically continued cell; each stays in its own cell
    ('P40-stray-runs-in-table-cells', ['C01', 'C02', 'C04', 'C05', 'C19', 'C13'], lambda: docx(p(r('«1»before')) + tbl(
        tr(tc(r('«2»stray'), p(r('«3»a')), pr='<w:gridSpan w:val="2"/>'), tc(p(r('«4»b')), r('«5»tail'), pr='<w:vMerge w:val="restart"/>')),
        tr(tc(p(r('«6»c'))), tc(r('«7»only-stray')), tc(p(r('«8»hidden')), pr='<w:vMerge/>'))) + p(r('«9»after')))),
    # Strict conformance class: adjacent links with different targets / anchors stay apart, whatever the namespace URIs are
    ('P41-strict-namespaces-adjacent-links', ['C10', 'C06', 'C13'], lambda: strict(docx(p(link('r:id="rId9"', r('«1»alpha')), link('r:id="rId8"', r('«2»beta')), link('r:id="rId8" w:anchor="g"', r('«3»gamma'))),
        docrels=LINK + [('rId8', 'hyperlink', 'http://beta.example/', True)]))),
    # notes that hold inline content only (a display equation is block-level content, schema-valid): each keeps its label and its text,
    # nothing is lost when the part ends
    ('P42-notes-holding-only-equations', ['C02', 'C10', 'C01', 'C13', 'C19'], lambda: docx(p(r('«1»body'), '<w:r><w:footnoteReference w:id="1"/></w:r>', '<w:r><w:footnoteReference w:id="2"/></w:r>'),
        parts={'footnotes.xml': ('footnotes', '<w:footnotes NS><w:footnote w:id="1"><m:oMathPara><m:oMath><m:r><m:t>«2»x</m:t></m:r></m:oMath></m:oMathPara></w:footnote>'
                                 '<w:footnote w:id="2"><m:oMathPara><m:oMath><m:r><m:t>«3»y</m:t></m:r></m:oMath></m:oMathPara></w:footnote>'
                                 '<w:footnote w:id="3"><w:p><w:r><w:t>«4»n3</w:t></w:r></w:p><m:oMathPara><m:oMath><m:r><m:t>«5»z</m:t></m:r></m:oMath></m:oMathPara></w:footnote></w:footnotes>')})),
    ('P43-text-after-a-text-box-in-a-link-run', ['C07', 'C19', 'C10'], lambda: docx(p(r('«9»see '), link('r:id="rId9"', '<w:r><w:rPr><w:highlight w:val="yellow"/></w:rPr><w:t>«1»head </w:t><w:pict><v:shape><v:textbox><w:txbxContent>'
        + p(r('«2»boxed ')) + '</w:txbxContent></v:textbox></v:shape></w:pict><w:t>«3»tail</w:t></w:r>')), docrels=LINK)),
    # formatted blanks (the underlined gaps of a form line): text without any token carries its formatting too
    ('P44-formatted-blanks', ['C07', 'C19', 'C06'], lambda: docx(p(r('«1»Name:', '<w:b/>'), r('      ', '<w:u w:val="single"/>'), r(' ', '<w:strike/>'), r('«2» end'))
        + p(r('«3»x'), r('\u00a0\u2003', '<w:highlight w:val="yellow"/>'), r('«4»y', '<w:i/>'), ppr='<w:pStyle w:val="Heading2"/>'))),
    # an equation whose text nodes include blanks: every character is part of the stand-in
    ('P45-equation-with-blank-text-nodes', ['C02', 'C07'], lambda: docx(p(r('«1»see '), '<m:oMath><m:r><m:t>a</m:t></m:r><m:r><m:t xml:space="preserve"> </m:t></m:r><m:r><m:t>b</m:t></m:r></m:oMath>', r('«2» here'))
        + p(r('«3»left'), '<m:oMath><m:r><m:t xml:space="preserve"> </m:t></m:r></m:oMath>', r('«4»right')))),
    ('P15-links-different-anchors', ['C10', 'C06'], lambda: docx(p(link('r:id="rId9" w:anchor="a"', r('«1»x')), link('r:id="rId9" w:anchor="b"', r('«2»y'))), docrels=LINK)),
    ('P46-footers-whose-numbers-differ-in-length', ['C09', 'C03'], lambda: docx(p(r('«1»body')), docrels=[('rId2', 'footer', 'footer2.xml'), ('rId3', 'footer', 'footer10.xml')],
                                                                 extra={'word/footer2.xml': f'<w:ftr {NS}>' + p(r('«2»second')) + '</w:ftr>', 'word/footer10.xml': f'<w:ftr {NS}>' + p(r('«3»tenth')) + '</w:ftr>'})),
    ('P16-word-word', ['C09'], lambda: docx(p(r('body')), docrels=[('rId2', 'header', 'word/h.xml')], extra={'word/word/h.xml': f'<w:hdr {NS}>' + p(r('head-in-word-word')) + '</w:hdr>'})),
    ('P18-range-end-without-start', ['C13', 'C12'], lambda: docx(p(r('a'), '<w:commentRangeEnd w:id="5"/>', r('b', '<w:b/>')))),
    ('P21-comment-ids-mismatch', ['C13', 'C12'], lambda: docx(p('<w:commentRangeStart w:id="0"/>', r('a'), '<w:commentRangeEnd w:id="0"/>'), comments=COM(7))),
    ('P22-cell-without-paragraph', ['C13', 'C01'], lambda: docx(tbl(tr(tc('<w:bookmarkStart w:id="1" w:name="b"/>'), tc(p(r('«1»x'))))))),
    ('P23-span-cell-nested-sdt', ['C13', 'C01'], lambda: docx(tbl(tr(tc('<w:sdt><w:sdtContent>' + p(r('«1»a')) + '<w:sdt><w:sdtContent>' + p(r('«2»b')) + '</w:sdtContent></w:sdt></w:sdtContent></w:sdt>', pr='<w:gridSpan w:val="2"/>'))))),
    ('P25-comment-in-rPr', ['C13', 'C18'], lambda: docx(p(f'<w:r><w:rPr><!-- c --><w:b/></w:rPr><w:t>«1»x</w:t></w:r>', ppr='<!-- d --><w:pStyle w:val="Title"/>'))),
    ('P26-comment-in-rels', ['C13', 'C18', 'C09'], lambda: _with(docx(p(r('«1»x'), link('r:id="rId9"', r('L'))), docrels=LINK), 'word/_rels/document.xml.rels', lambda s: s.replace(b'<Relationship ', b'<!-- c --><Relationship ', 1))),
    ('P27-comment-in-core', ['C18', 'C14'], lambda: docx(p(r('x')), root_rels=[('rId1', 'officeDocument', 'word/document.xml'), ('rId2', CORE_RT, 'docProps/core.xml')],
                                                 extra={'docProps/core.xml': '<cp:coreProperties xmlns:cp="http://schemas.openxmlformats.org/package/2006/metadata/core-properties" xmlns:dc="http://purl.org/dc/elements/1.1/"><!-- c --><dc:title>T</dc:title></cp:coreProperties>'})),
    ('P17-part-related-twice', ['C16'], lambda: docx(p(r('«1»body')), docrels=[('rId2', 'header', 'h.xml'), ('rId3', 'header', 'h.xml')], extra={'word/h.xml': f'<w:hdr {NS}>' + p(r('«2»head')) + '</w:hdr>'})),
    ('P17b-part-related-under-two-types', ['C16'], lambda: docx(p(r('«1»body')), docrels=[('rId2', 'http://example.com/relationships/pageTemplate', 'h.xml'), ('rId3', 'header', 'h.xml')], extra={'word/h.xml': f'<w:hdr {NS}>' + p(r('«2»head')) + '</w:hdr>'})),
    ('P29-cell-without-paragraph-after-text-cell', ['C02', 'C13', 'C01'], lambda: docx(tbl(tr(tc(p(r('«1»top'))), tc(p(r('«2»x')))), tr(tc(p(r('«3»keep me'))), tc('<w:altChunk r:id="rId50"/>', pr='<w:vMerge/><w:gridSpan w:val="2"/>'))))),
    ('P30-vmerge-cell-ending-in-nested-sdt', ['C13', 'C01', 'C04'], lambda: docx(tbl(tr(tc(p(r('«1»a1')), pr='<w:vMerge w:val="restart"/>'), tc(p(r('«2»b1')))),
        tr(tc(p(r('«3»x')), '<w:sdt><w:sdtPr/><w:sdtContent>' + p(r('«4»outer control')) + '<w:sdt><w:sdtPr/><w:sdtContent>' + p(r('«5»inner control')) + '</w:sdtContent></w:sdt></w:sdtContent></w:sdt>', pr='<w:vMerge/>'),
           tc(p(r('«6»b2'))))))),
    ('P31-equation-text-with-markup-characters', ['C07', 'C19'], lambda: docx(p(r('«1»x&lt;y '), '<m:oMath><m:r><m:t>a&lt;b&amp;c</m:t></m:r><m:r><m:t>&amp;lt;</m:t></m:r></m:oMath>', r(' «2»z', '<w:b/>')))),
    ('P32-comment-on-part-of-a-link', ['C12', 'C13'], lambda: docx(p(r('«1»before '), link('r:id="rId9"', r('«2»a '), '<w:commentRangeStart w:id="0"/>', r('«3»linked'), '<w:commentRangeEnd w:id="0"/>'), r('«4» after'),
        '<w:commentRangeStart w:id="1"/>', r('«5»x'), link('r:id="rId9"', r('«6»l2 '), '<w:commentRangeEnd w:id="1"/>', r('«7»more'))), docrels=LINK, comments=COM(0) + COM(1, 'two'))),
    ('P33-text-box-anchored-inside-a-hyperlink', ['C19', 'C02', 'C10'], lambda: docx(p(r('«9»see '), link('r:id="rId9"', r('«1»q ', '<w:b/>'),
        '<w:r><w:t xml:space="preserve">«2»uni </w:t><w:pict><v:shape><v:textbox><w:txbxContent>' + p(r('«3»boxed ')) + '</w:txbxContent></v:textbox></v:shape></w:pict></w:r>'), r('«4» end')), docrels=LINK)),
    ('P34-markers-in-a-link-merged-with-its-neighbour', ['C12'], lambda: docx(p(r('«1»see '), link('w:anchor="bm"', '<w:commentRangeStart w:id="0"/>', '<w:commentRangeEnd w:id="0"/>', '<w:r><w:commentReference w:id="0"/></w:r>'),
        link('w:anchor="bm"', r('«2»target')), r('«3» end')), comments=COM(0))),
    ('P35-package-absolute-targets', ['C13', 'C09'], lambda: docx(p(r('«1»body')), root_rels=[('rId1', 'officeDocument', '/word/document.xml')],
        docrels=[('rId2', 'header', '/word/header1.xml')], extra={'word/header1.xml': f'<w:hdr {NS}>' + p(r('«2»head')) + '</w:hdr>'})),
    # constructs the line-coverage measurement (harness/tools/cover.py) showed no generated case reached
    ('cov-math-text-outside-omath', ['C13', 'C01', 'C03', 'C07'], lambda: docx(p(r('«1»a'), '<m:r><m:t>«2»x&lt;y</m:t></m:r>', r('«3»b', '<w:b/>')))),
    ('cov-two-comments-parts', ['C12', 'C13'], lambda: docx(p('<w:commentRangeStart w:id="0"/>', r('«1»a'), '<w:commentRangeEnd w:id="0"/>', r('«2»b')), comments=COM(0, 'first'),
                                                          parts={'comments2.xml': ('comments', '<w:comments NS>' + COM(0, 'second') + '</w:comments>')})),
    ('plain-two-tables', ['C01', 'C02', 'C03', 'C05', 'C19', 'C13'], lambda: docx(p(r('«1»a')) + tbl(tr(tc(p(r('«2»b'))), tc(p(r('«3»c'))))) + p(r('«4»d')) + tbl(tr(tc(p(r('«5»e'))))))),
]


def _with(data, name, f):
    z = zipfile.ZipFile(io.BytesIO(data)); b = io.BytesIO()
    with zipfile.ZipFile(b, 'w', zipfile.ZIP_DEFLATED) as o:
        for n in z.namelist(): o.writestr(n, f(z.read(n)) if n == name else z.read(n))
    return b.getvalue()


def probes(prop):
    return [(name, build()) for name, props, build in ALL if prop in props]
