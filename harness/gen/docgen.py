"""Seeded generator of WordprocessingML packages (DESIGN.md section 6, "package grammar").

Every choice comes from the one `random.Random` handed in, so a case replays from its seed.
A *profile* is a dict of probabilities / switches; property runners pick the profile that
exercises what their property is about.  All productions are schema-valid constructs (ECMA-376)
unless the profile switches `malformed` on.
"""
import io, zipfile
from xml.sax.saxutils import escape as _esc

W = 'http://schemas.openxmlformats.org/wordprocessingml/2006/main'
R = 'http://schemas.openxmlformats.org/officeDocument/2006/relationships'
NSMAP = {
    'w': W, 'r': R,
    'm': 'http://schemas.openxmlformats.org/officeDocument/2006/math',
    'a': 'http://schemas.openxmlformats.org/drawingml/2006/main',
    'wp': 'http://schemas.openxmlformats.org/drawingml/2006/wordprocessingDrawing',
    'v': 'urn:schemas-microsoft-com:vml',
    'mc': 'http://schemas.openxmlformats.org/markup-compatibility/2006',
    'wps': 'http://schemas.microsoft.com/office/word/2010/wordprocessingShape',
}
RT = 'http://schemas.openxmlformats.org/officeDocument/2006/relationships/'
PKG_RELS = 'http://schemas.openxmlformats.org/package/2006/relationships'
CORE_RT = 'http://schemas.openxmlformats.org/package/2006/relationships/metadata/core-properties'


STRICT = [('http://schemas.openxmlformats.org/wordprocessingml/2006/main', 'http://purl.oclc.org/ooxml/wordprocessingml/main'),
          ('http://schemas.openxmlformats.org/officeDocument/2006/relationships', 'http://purl.oclc.org/ooxml/officeDocument/relationships'),
          ('http://schemas.openxmlformats.org/officeDocument/2006/math', 'http://purl.oclc.org/ooxml/officeDocument/math'),
          ('http://schemas.openxmlformats.org/drawingml/2006/main', 'http://purl.oclc.org/ooxml/drawingml/main'),
          ('http://schemas.openxmlformats.org/drawingml/2006/wordprocessingDrawing', 'http://purl.oclc.org/ooxml/drawingml/wordprocessingDrawing')]


def ns_decl(omit=()):
    return ' '.join(f'xmlns:{p}="{u}"' for p, u in NSMAP.items() if p not in omit)


def esc(s):
    return _esc(s, {'"': '&quot;'})


DEFAULT = dict(
    # structure
    blocks=(0, 5), p_table=0.2, p_sdt_block=0.08, p_customxml=0.06, p_block_misc=0.06, max_depth=3,
    rows=(1, 3), cells=(1, 3), p_span=0.3, p_vmerge=0.3, p_grid_gap=0.15, p_cell_nopar=0.0, p_cell_block=0.35,
    p_sdt_cell=0.1,
    # paragraph
    inlines=(0, 4), p_ppr=0.45, p_style=0.3, p_list=0.3, p_tabstops=0.0,
    # inline
    p_link=0.07, p_comment_marker=0.06, p_bookmark=0.06, p_ins=0.06, p_fld=0.05, p_sdt_inline=0.05, p_math=0.08,
    # run
    run_items=(0, 3), p_rpr=0.5, p_text=0.35, p_tab=0.07, p_br=0.06, p_sym=0.05, p_noteref=0.05, p_form=0.06,
    p_drawing=0.06, p_pict=0.05, p_textbox=0.05, p_instr=0.04, p_deltext=0.04, p_runmisc=0.04,
    rich_text=True, offvals=True,
    # parts
    p_prchange=0.07, bare_vals=False, p_double_rel=0.12, p_abs_target=0.12, p_orphan_core=0.2, p_same_image_name=0.0, p_empty_part=0.15,
    p_footnotes=0.6, p_endnotes=0.4, p_header=0.5, p_footer=0.5, p_comments=0.5, p_numbering=0.85, p_core=0.5,
    p_no_r_ns=0.0, dangling=True,
)


def profile(**kw):
    p = dict(DEFAULT); p.update(kw); return p


TEXTS_PLAIN = ['a', 'b c', '', 'Hello', 'x y z', ' lead', 'trail ', 'Zeta']
TEXTS_RICH = ['&', '<', '>', 'a<b', '"q"', "it's", '&amp;', '&lt;b&gt;', '  ', ' ', 'éß', '\U0001F600', 'a&b<c>d',
              '<a href="x">', '----', 'tab\there', '1 < 2 && 3 > 2', ' ' if False else 'uni nbsp', ']]>', '&#65;']
ONOFF = ['', '0', '1', 'true', 'false', 'on', 'off']


class DocGen:
    def __init__(self, rng, prof=None):
        self.r = rng
        self.p = prof or DEFAULT
        self.stats = {}
        self.comment_ids = []      # ids of comment ranges started, in order
        self.open_ranges = []
        self.next_comment = 0
        self.feat = set()

    # -- helpers
    def c(self, key, n=1): self.stats[key] = self.stats.get(key, 0) + n
    def coin(self, key): return self.r.random() < self.p.get(key, 0.0)
    def rint(self, key):
        a, b = self.p[key]; return self.r.randint(a, b)

    def text(self):
        if self.p.get('tokens'):
            if self.r.random() < 0.1: return self.r.choice([' ', '  ', '', ' '])      # whitespace-only / empty text nodes
            self.ntok = getattr(self, 'ntok', 0) + 1
            return f'\u00ab{self.ntok}\u00bb' + self.r.choice(['', '', ' ', 'x', '&', '<b>', ' y ', '&amp;', '&lt;b&gt;', '&#38;', 'T&T;', '>', '"q"', '&nbsp;x', 'a&'])
        pool = TEXTS_PLAIN + (TEXTS_RICH if self.p.get('rich_text') else [])
        n = self.r.choice([1, 1, 1, 2, 3])
        return ''.join(self.r.choice(pool) for _ in range(n))

    def onoff(self, tag):
        v = self.r.choice(ONOFF if self.p.get('offvals') else ['', '1', 'true'])
        return f'<w:{tag}/>' if v == '' else f'<w:{tag} w:val="{v}"/>'

    # -- run level
    def rpr(self):
        if not self.coin('p_rpr'): return ''
        r = self.r; out = ''
        for t in ['b', 'i', 'strike', 'caps', 'smallCaps', 'vanish', 'bCs']:
            if r.random() < 0.2: out += self.onoff(t)
        if r.random() < 0.2: out += f'<w:u w:val="{r.choice(["single", "none", "double", "wave"])}"/>'
        if r.random() < 0.07: out += '<w:u/>'
        if r.random() < 0.2: out += f'<w:vertAlign w:val="{r.choice(["superscript", "subscript", "baseline"])}"/>'
        if r.random() < 0.2: out += f'<w:sz w:val="{r.choice(["24", "1", "0", "11"])}"/>'
        if r.random() < 0.05: out += '<w:sz/>'
        if r.random() < 0.2: out += f'<w:color w:val="{r.choice(["FF0000", "auto", "00ff00"])}" w:themeColor="accent1"/>'
        if r.random() < 0.2: out += f'<w:highlight w:val="{r.choice(["yellow", "none", "darkBlue"])}"/>'
        if r.random() < 0.1: out += '<w:rStyle w:val="Strong"/>'
        if r.random() < 0.05: out += '<w:b/>'       # duplicate property
        if self.p.get('bare_vals') and r.random() < 0.15: out += r.choice(['<w:vertAlign/>', '<w:color/>', '<w:highlight/>', '<w:vertAlign w:val="sideways"/>', '<w:rStyle/>'])
        if self.coin('p_prchange'):
            # a tracked formatting change: the OLD run properties sit below w:rPrChange and do not apply
            old = ''.join(x for x in ['<w:b/>', '<w:i/>', '<w:color w:val="00FF00"/>', '<w:vertAlign w:val="superscript"/>', '<w:u w:val="single"/>',
                                      '<w:sz w:val="40"/>', '<w:highlight w:val="red"/>', '<w:strike/>', '<w:caps/>'] if r.random() < 0.35)
            out += f'<w:rPrChange w:id="70" w:author="a" w:date="2020-01-01T00:00:00Z"><w:rPr>{old}</w:rPr></w:rPrChange>'; self.c('rPrChange'); self.feat.add('tracked_property_change')
        if out: self.c('rPr')
        return f'<w:rPr>{out}</w:rPr>' if out or r.random() < 0.1 else ''

    def form(self):
        r = self.r; self.c('form')
        if r.random() < 0.5:
            inner = ''
            if r.random() < 0.5: inner += '<w:sizeAuto/>'
            if r.random() < 0.6: inner += self.onoff('default')
            if r.random() < 0.5: inner += self.onoff('checked')
            return f'<w:fldChar w:fldCharType="begin"><w:ffData><w:name w:val="c"/><w:checkBox>{inner}</w:checkBox></w:ffData></w:fldChar>'
        n = r.randint(0, 3); inner = ''
        if r.random() < 0.5: inner += f'<w:result w:val="{r.randint(0, 3)}"/>'
        if r.random() < 0.3: inner += f'<w:default w:val="{r.randint(0, 3)}"/>'
        inner += ''.join(f'<w:listEntry w:val="e{i}"/>' for i in range(n))
        return f'<w:fldChar w:fldCharType="begin"><w:ffData><w:ddList>{inner}</w:ddList></w:ffData></w:fldChar>'

    def run_item(self, d, in_link=False):
        r = self.r; P = self.p
        table = [('p_text', 'text'), ('p_tab', 'tab'), ('p_br', 'br'), ('p_sym', 'sym'), ('p_noteref', 'noteref'), ('p_form', 'form'),
                 ('p_drawing', 'drawing'), ('p_pict', 'pict'), ('p_textbox', 'textbox'), ('p_instr', 'instr'), ('p_deltext', 'deltext'),
                 ('p_runmisc', 'misc')]
        tot = sum(P.get(k, 0) for k, _ in table)
        x = r.random() * tot; kind = 'text'
        for k, name in table:
            x -= P.get(k, 0)
            if x <= 0: kind = name; break
        if kind == 'textbox' and in_link and self.p.get('no_textbox_in_link'): kind = 'text'
        self.c('ri:' + kind)
        if kind == 'text':
            t = self.text()
            sp = ' xml:space="preserve"' if t != t.strip() else ''
            return f'<w:t{sp}>{esc(t)}</w:t>'
        if kind == 'tab': return '<w:tab/>'
        if kind == 'br': return r.choice(['<w:br/>', '<w:br w:type="page"/>', '<w:cr/>', '<w:br w:type="textWrapping" w:clear="all"/>'])
        if kind == 'sym': return r.choice(['<w:sym w:font="Symbol" w:char="F0B7"/>', '<w:sym w:char="F0B7"/>', '<w:sym w:font="Symbol"/>', '<w:sym/>', '<w:sym w:font="Wingdings" w:char="F04A"/>'])
        if kind == 'noteref':
            return r.choice(['<w:footnoteReference w:id="2"/>', '<w:footnoteReference w:id="2" w:customMarkFollows="1"/>', '<w:endnoteReference w:id="9"/>',
                             '<w:footnoteRef/>', '<w:footnoteReference w:id="3"/>', '<w:endnoteRef/>'])
        if kind == 'form': return self.form()
        if kind == 'drawing':
            dsc = r.choice(['', ' descr="d &amp; &lt;x&gt;"', ' descr=""', ' descr="plain alt"', ' title="t &amp; &lt;i&gt;"', ' title="only a title"'] if P.get('alt_markup', True) else ['', ' descr="plain alt"', ' descr="alt two"'])
            e = r.choice(['r:embed="rId20"', 'r:embed="rId404"', 'r:link="rId21"', '', 'r:embed="rId21"'] if P.get('dangling') else ['r:embed="rId20"', 'r:embed="rId21"', ''])
            if P.get('no_r'): e = r.choice(['', f'xmlns:r="{NSMAP["r"]}" r:embed="rId20"'])      # the prefix may be declared on the picture itself
            if r.random() < 0.2 and dsc:
                # a described drawing without a picture (chart / shape placeholder): only the alt text is rendered
                return f'<w:drawing><wp:inline><wp:extent cx="1" cy="1"/><wp:docPr id="2" name="chart"{dsc}/><a:graphic><a:graphicData uri="chart"><a:chartPlaceholder/></a:graphicData></a:graphic></wp:inline></w:drawing>'
            return f'<w:drawing><wp:inline><wp:extent cx="1" cy="1"/><wp:docPr id="1" name="n"{dsc}/><a:graphic><a:graphicData uri="u"><a:blip {e}/></a:graphicData></a:graphic></wp:inline></w:drawing>'
        if kind == 'pict':
            if P.get('no_r'): return '<w:pict><v:shape><v:imagedata croptop="1f"/></v:shape></w:pict>'
            return r.choice(['<w:pict><v:shape><v:imagedata r:id="rId20"/></v:shape></w:pict>', '<w:pict><v:shape><v:imagedata croptop="1f"/></v:shape></w:pict>',
                             '<w:object><v:shape><v:imagedata r:id="rId404"/></v:shape></w:object>' if P.get('dangling') else '<w:object><v:shape><v:imagedata r:id="rId20"/></v:shape></w:object>'])
        if kind == 'textbox':
            if d >= P['max_depth']: return '<w:t>tb</w:t>'
            self.feat.add('textbox')
            k = r.randint(1, 2)
            inner = ''.join(self.par(d + 1) for _ in range(k))
            if r.random() < 0.5:
                return '<w:pict><v:shape><v:textbox><w:txbxContent>' + inner + '</w:txbxContent></v:textbox></v:shape></w:pict>'
            return ('<mc:AlternateContent><mc:Choice Requires="wps"><w:drawing><wp:anchor><a:graphic><a:graphicData uri="u"><wps:wsp><wps:txbx><w:txbxContent>'
                    + inner + '</w:txbxContent></wps:txbx></wps:wsp></a:graphicData></a:graphic></wp:anchor></w:drawing></mc:Choice><mc:Fallback><w:pict><v:shape><v:textbox><w:txbxContent>'
                    + (''.join(self.par(d + 1) for _ in range(k)) if self.p.get('tokens') else inner) + '</w:txbxContent></v:textbox></v:shape></w:pict></mc:Fallback></mc:AlternateContent>')
        if kind == 'instr':
            if r.random() < 0.12 and self.p.get('ruby', True):
                # a phonetic guide: runs nested in a run
                self.feat.add('ruby')
                return ('<w:ruby><w:rubyPr><w:rubyAlign w:val="center"/></w:rubyPr><w:rt>' + self.run(d, rpr=self.rpr(), in_link=True if self.p.get('no_textbox_in_link') else in_link) + '</w:rt><w:rubyBase>'
                        + self.run(d, rpr='', in_link=True if self.p.get('no_textbox_in_link') else in_link) + '</w:rubyBase></w:ruby>')
            return '<w:instrText xml:space="preserve"> PAGE </w:instrText>'
        if kind == 'deltext': return '<w:delText>gone</w:delText>'
        return r.choice(['<w:commentReference w:id="0"/>', '<w:noBreakHyphen/>', '<w:softHyphen/>', '<w:lastRenderedPageBreak/>',
                         '<w:ptab w:relativeTo="margin" w:alignment="right" w:leader="none"/>', '<w:annotationRef/>', '<w:separator/>',
                         '<w:continuationSeparator/>', '<w:dayShort/>', '<w:fldChar w:fldCharType="end"/>', '<w:fldChar w:fldCharType="separate"/>'])

    def run(self, d=0, rpr=None, in_link=False):
        self.c('run')
        rp = self.rpr() if rpr is None else rpr
        return f'<w:r>{rp}{"".join(self.run_item(d, in_link) for _ in range(self.rint("run_items")))}</w:r>'

    # -- inline level
    def hyperlink(self, d):
        r = self.r; self.c('hyperlink'); self.feat.add('hyperlink')
        if self.p.get('no_r'):
            a = r.choice(['w:anchor="bm"', '', 'w:anchor="x" w:tooltip="t"'])
            inner = ''.join(self.inline(d + 1, in_link=True) for _ in range(r.randint(0, 3)))
            return f'<w:hyperlink {a}>{inner}</w:hyperlink>'
        opts = ['r:id="rId9"', 'w:anchor="bm"', 'r:id="rId9" w:anchor="bm"', '', 'r:id="" w:anchor="x"', 'w:tooltip="t" r:id="rId9" w:history="1"',
                'r:id="rId10"', 'r:id="rId9" w:anchor="other"', 'r:id="rId9" w:anchor="{bm}"', 'r:id="rId10" w:tgtFrame="_blank" w:docLocation="loc"']
        if self.p.get('dangling'): opts.append('r:id="rId404"')
        a = r.choice(opts)
        inner = ''.join(self.inline(d + 1, in_link=True) for _ in range(r.randint(0, 3)))
        return f'<w:hyperlink {a}>{inner}</w:hyperlink>'

    def comment_marker(self, bare=False):
        """bare: range markers only (between the rows of a table / the cells of a row no run may stand)"""
        r = self.r; self.c('comment_marker')
        ref = (lambda i: '') if bare else (lambda i: f'<w:r><w:commentReference w:id="{i}"/></w:r>')
        k = r.random()
        if k < 0.45 or not self.open_ranges:
            i = self.next_comment; self.next_comment += 1
            self.comment_ids.append(i)
            if r.random() < 0.2:      # an empty range
                return f'<w:commentRangeStart w:id="{i}"/><w:commentRangeEnd w:id="{i}"/>' + ref(i)
            self.open_ranges.append(i)
            return f'<w:commentRangeStart w:id="{i}"/>'
        i = self.open_ranges.pop(r.randrange(len(self.open_ranges)))
        return f'<w:commentRangeEnd w:id="{i}"/>' + ref(i)

    def inline(self, d=0, in_link=False):
        r = self.r; P = self.p
        table = [('p_link', 'link'), ('p_comment_marker', 'cm'), ('p_bookmark', 'bm'), ('p_ins', 'ins'), ('p_fld', 'fld'),
                 ('p_sdt_inline', 'sdt'), ('p_math', 'math')]
        x = r.random()
        kind = 'run'
        for k, name in table:
            x -= P.get(k, 0)
            if x <= 0: kind = name; break
        if kind == 'link' and (in_link and d > 2): kind = 'run'
        if kind == 'cm' and in_link and self.p.get('no_marker_in_link'): kind = 'run'
        if kind == 'run': return self.run(d, in_link=in_link)
        self.c('il:' + kind)
        if kind == 'link': return self.hyperlink(d)
        if kind == 'cm': return self.comment_marker()
        if kind == 'bm':
            return r.choice(['<w:bookmarkStart w:id="1" w:name="bm"/>', '<w:bookmarkEnd w:id="1"/>', '<w:proofErr w:type="gramStart"/>', '<w:proofErr w:type="spellEnd"/>',
                             '<w:permEnd w:id="3"/>', '<w:moveFromRangeStart w:id="5" w:name="m"/>'])
        if kind == 'ins':
            t = r.choice(['ins', 'moveTo', 'smartTag', 'del', 'moveFrom', 'dir', 'bdo', 'customXml'] if self.p.get('tracked_deletions', True) else ['ins', 'moveTo', 'smartTag'])
            a = ' w:element="e"' if t in ('smartTag', 'customXml') else ' w:val="rtl"' if t in ('dir', 'bdo') else ' w:id="3" w:author="a"'
            if t == 'del':      # deleted text is w:delText: not content
                return f'<w:del{a}><w:r>{self.rpr()}<w:delText xml:space="preserve">deleted text</w:delText></w:r></w:del>'
            # (inside a hyperlink a range marker may sit below such a wrapper: found by the link's scan of its whole subtree)
            deep = self.comment_marker() if in_link and not self.p.get('no_marker_in_link') and P.get('p_comment_marker', 0) > 0 and r.random() < 0.3 else ''
            return f'<w:{t}{a}>' + deep + self.run(d, in_link=in_link) + f'</w:{t}>'
        if kind == 'fld': return '<w:fldSimple w:instr=" PAGE ">' + self.run(d, in_link=in_link) + '</w:fldSimple>'
        if kind == 'sdt': return '<w:sdt><w:sdtPr><w:dropDownList><w:listItem w:value="a"/></w:dropDownList></w:sdtPr><w:sdtEndPr/><w:sdtContent>' + self.run(d, in_link=in_link) + '</w:sdtContent></w:sdt>'
        self.feat.add('math')
        if r.random() < 0.2:
            # ordinary text inside an equation is a w:r, not an m:r
            return '<m:oMath><m:r><m:t>x=</m:t></m:r><w:r><w:t xml:space="preserve"> where </w:t></w:r><m:r><m:t>y</m:t></m:r></m:oMath>'
        if r.random() < 0.7 or not self.p.get('math_markup', True):
            return '<m:oMath><m:r><m:t>x</m:t></m:r><m:f><m:num><m:r><m:t>1</m:t></m:r></m:num><m:den><m:r><m:t>2</m:t></m:r></m:den></m:f></m:oMath>'
        return '<m:oMathPara><m:oMath><m:r><m:t>' + r.choice(['y&lt;', 'a&lt;b', 'x&gt;0 &amp; y', '&amp;lt;', 'p&amp;q', 'y&lt;']) + '</m:t></m:r></m:oMath></m:oMathPara>'

    # -- paragraph
    def ppr(self):
        r = self.r
        if not self.coin('p_ppr'): return ''
        out = ''
        if self.coin('p_style'):
            out += f'<w:pStyle w:val="{r.choice(["Heading1", "Heading2", "Heading7", "Title", "ListParagraph", "", "Heading6", "heading1", "Heading 2", "heading 3", "Heading10", "MyHeading1"])}"/>'; self.c('pStyle')
        if self.coin('p_tabstops'):
            out += '<w:tabs>' + ''.join('<w:tab w:val="left" w:pos="%d"/>' % (720 * (i + 1)) for i in range(r.randint(1, 2))) + '</w:tabs>'; self.feat.add('tabstops')
        if self.coin('p_list'):
            il = r.choice(['<w:ilvl w:val="0"/>', '<w:ilvl w:val="1"/>', '<w:ilvl w:val="8"/>', '', '<w:ilvl w:val="3"/>', '<w:ilvl w:val="2"/>'])
            ni = r.choice(['<w:numId w:val="1"/>', '<w:numId w:val="2"/>', '<w:numId w:val="0"/>', '<w:numId w:val="77"/>', '', '<w:numId w:val="3"/>', '<w:numId w:val="1"/>'])
            out += f'<w:numPr>{il}{ni}</w:numPr>'; self.c('numPr'); self.feat.add('list')
        if r.random() < 0.1: out += '<w:rPr><w:b/></w:rPr>'
        elif r.random() < 0.12: out += '<w:rPr><w:ins w:id="8" w:author="a"/></w:rPr>'; self.feat.add('tracked_paragraph_mark')   # an EMPTY w:ins
        if r.random() < 0.05 and not self.p.get('no_r'): out += '<w:sectPr><w:headerReference w:type="default" r:id="rId30"/></w:sectPr>'
        if self.p.get('bare_vals') and r.random() < 0.1 and 'pStyle' not in out and 'numPr' not in out:
            out = r.choice(['<w:pStyle/>', '<w:numPr><w:ilvl/><w:numId w:val="1"/></w:numPr>', '<w:numPr><w:ilvl w:val="0"/><w:numId/></w:numPr>']) + out
        if self.coin('p_prchange'):
            # a tracked paragraph-property change: the OLD style / list membership sits below w:pPrChange and does not apply
            old = ''.join(x for x in ['<w:pStyle w:val="Heading1"/>', '<w:numPr><w:ilvl w:val="0"/><w:numId w:val="1"/></w:numPr>', '<w:jc w:val="left"/>',
                                      '<w:tabs><w:tab w:val="left" w:pos="720"/></w:tabs>'] if r.random() < 0.4)
            out += f'<w:pPrChange w:id="60" w:author="a"><w:pPr>{old}</w:pPr></w:pPrChange>'; self.c('pPrChange'); self.feat.add('tracked_property_change')
        return f'<w:pPr>{out}</w:pPr>' if out or r.random() < 0.1 else ''

    def par(self, d=0):
        self.c('par')
        pre = post = ''
        if d == 0 and getattr(self, 'pending_end', None) is not None:
            i = self.pending_end; self.pending_end = None
            pre = f'<w:commentRangeEnd w:id="{i}"/><w:r><w:commentReference w:id="{i}"/></w:r>'
        ppr = self.ppr()
        inl = ''.join(self.inline(d) for _ in range(self.rint('inlines')))
        if d == 0 and self.p.get('straddle_ranges') and getattr(self, 'pending_end', None) is None and self.r.random() < float(self.p.get('straddle_ranges')):
            # a range that starts after the last run of this paragraph and ends before the first run of the next one
            i = self.next_comment; self.next_comment += 1; self.comment_ids.append(i); self.pending_end = i
            post = f'<w:commentRangeStart w:id="{i}"/>'; self.feat.add('straddling_range')
        return f'<w:p>{ppr}{pre}{inl}{post}</w:p>'

    # -- tables
    def table(self, d):
        r = self.r; P = self.p; self.c('table'); self.feat.add('table')
        if d > 0: self.feat.add('nested_table' if d > 0 else 'table')
        rows = self.rint('rows')
        out = '<w:tbl><w:tblPr><w:tblStyle w:val="TableGrid"/></w:tblPr><w:tblGrid><w:gridCol w:w="1"/></w:tblGrid>'
        for i in range(rows):
            trpr = ''
            if self.coin('p_grid_gap'):
                trpr = r.choice(['<w:trPr><w:gridBefore w:val="1"/></w:trPr>', '<w:trPr><w:gridAfter w:val="2"/><w:cantSplit/></w:trPr>', '<w:tblPrEx/>'])
                self.feat.add('grid_gap')
            elif self.coin('p_prchange'):
                trpr = r.choice(['<w:trPr><w:trPrChange w:id="40" w:author="a"><w:trPr><w:gridBefore w:val="1"/><w:gridAfter w:val="1"/></w:trPr></w:trPrChange></w:trPr>',
                                 '<w:trPr><w:ins w:id="41" w:author="a"/></w:trPr>', '<w:trPr><w:del w:id="42" w:author="a"/></w:trPr>'])
                self.feat.add('tracked_property_change')
            if self.coin('p_comment_marker') and not self.p.get('no_marker_between_cells'): out += self.comment_marker(bare=True); self.feat.add('marker_between_rows_or_cells')
            out += f'<w:tr>{trpr}'
            for j in range(self.rint('cells')):
                if self.coin('p_comment_marker') and not self.p.get('no_marker_between_cells'): out += self.comment_marker(bare=True); self.feat.add('marker_between_rows_or_cells')
                pr = ''
                if self.coin('p_span'): pr += f'<w:gridSpan w:val="{r.randint(1, 3)}"/>'; self.feat.add('gridSpan')
                cont_cell = False
                if self.coin('p_vmerge'):
                    vm = r.choice(['<w:vMerge/>', '<w:vMerge w:val="restart"/>', '<w:vMerge w:val="continue"/>']); self.feat.add('vMerge')
                    pr += vm; cont_cell = 'restart' not in vm
                if r.random() < 0.06: pr += r.choice(['<w:hMerge w:val="restart"/>', '<w:hMerge/>', '<w:hMerge w:val="continue"/>'])      # legacy horizontal merge: separate cells
                if P.get('bare_vals') and r.random() < 0.1: pr += '<w:gridSpan/>'
                if self.coin('p_prchange'):
                    pr += r.choice(['<w:tcPrChange w:id="50" w:author="a"><w:tcPr><w:gridSpan w:val="3"/></w:tcPr></w:tcPrChange>',
                                    '<w:tcPrChange w:id="51" w:author="a"><w:tcPr><w:vMerge w:val="restart"/><w:gridSpan w:val="2"/></w:tcPr></w:tcPrChange>',
                                    '<w:tcPrChange w:id="52" w:author="a"><w:tcPr><w:vMerge/></w:tcPr></w:tcPrChange>', '<w:cellIns w:id="53" w:author="a"/>',
                                    '<w:cellMerge w:id="54" w:author="a" w:vMerge="cont"/>'])
                    self.feat.add('tracked_property_change')
                cont = ''
                if cont_cell and r.random() < 0.5:
                    # what Word leaves in a vertically continued cell: an empty paragraph that keeps its properties
                    out += f'<w:tc><w:tcPr>{pr}</w:tcPr>' + r.choice(['<w:p/>', '<w:p><w:pPr><w:pStyle w:val="Heading1"/></w:pPr></w:p>', '<w:p><w:pPr><w:pStyle w:val="Heading2"/><w:jc w:val="center"/></w:pPr><w:r><w:rPr><w:b/></w:rPr></w:r></w:p>',
                                                                     '<w:p><w:pPr><w:numPr><w:ilvl w:val="0"/><w:numId w:val="1"/></w:numPr></w:pPr></w:p>', '<w:p><w:pPr><w:rPr><w:i/></w:rPr></w:pPr></w:p>']) + '</w:tc>'
                    continue
                if self.coin('p_cell_block'): cont += ''.join(self.block(d + 1) for _ in range(r.randint(1, 2)))
                if self.coin('p_cell_nopar'):
                    cont = cont or '<w:bookmarkStart w:id="9" w:name="c"/>'; self.feat.add('cell_nopar')
                else:
                    if r.random() < 0.9 or not cont: cont += self.par(d)
                if self.coin('p_comment_marker') and not self.p.get('no_marker_between_cells'): cont += self.comment_marker(bare=True); self.feat.add('marker_between_rows_or_cells')
                out += f'<w:tc><w:tcPr>{pr}</w:tcPr>{cont}</w:tc>'
            if self.coin('p_sdt_cell'): out += '<w:sdt><w:sdtContent><w:tc><w:p/></w:tc></w:sdtContent></w:sdt>'
            out += '</w:tr>'
        return out + '</w:tbl>'

    def block(self, d=0):
        r = self.r; P = self.p
        if d > P['max_depth']: return self.par(d)
        x = r.random()
        for k, name in [('p_table', 'tbl'), ('p_sdt_block', 'sdt'), ('p_customxml', 'cx'), ('p_block_misc', 'misc')]:
            x -= P.get(k, 0)
            if x <= 0:
                self.c('bl:' + name)
                if name == 'tbl': return self.table(d)
                if name == 'sdt':
                    self.feat.add('block_sdt')
                    return ('<w:sdt><w:sdtPr><w:docPartObj><w:docPartGallery w:val="Table of Contents"/></w:docPartObj></w:sdtPr><w:sdtContent>'
                            + ''.join(self.block(d + 1) for _ in range(r.randint(0, 2))) + '</w:sdtContent></w:sdt>')
                if name == 'cx': return '<w:customXml w:element="e">' + ''.join(self.block(d + 1) for _ in range(r.randint(0, 2))) + '</w:customXml>'
                if self.p.get('stray_inline') and r.random() < 0.5:
                    # inline content outside any paragraph / an unknown wrapper that declares a default namespace: well-formed, not schema-valid
                    return r.choice([self.run(d), '<block xmlns="urn:x-unknown">' + self.par(d) + '</block>', self.run(d) + self.run(d)])
                return r.choice(['<w:bookmarkStart w:id="4" w:name="z"/>', '<w:altChunk r:id="rId50"/>' if not self.p.get('no_r') else '<w:bookmarkEnd w:id="4"/>',
                                 '<m:oMathPara><m:oMath><m:r><m:t>' + (esc(self.text()) if self.p.get('tokens') else 'z') + '</m:t></m:r></m:oMath></m:oMathPara>', self.comment_marker()])
        return self.par(d)

    # -- parts
    def numbering(self):
        r = self.r
        def lv(i):
            if self.p.get('bare_vals') and r.random() < 0.06: return f'<w:lvl w:ilvl="{i}">' + r.choice(['<w:start/>', '<w:numFmt/>']) + '</w:lvl>'      # not schema-valid: the definitions are dropped, nothing raises
            return (f'<w:lvl w:ilvl="{i}">' + r.choice(['', '<w:start w:val="1"/>', '<w:start w:val="0"/>', '<w:start w:val="5"/>', '<w:start w:val="27"/>'])
                    + r.choice(['', '<w:numFmt w:val="decimal"/>', '<w:numFmt w:val="lowerLetter"/>', '<w:numFmt w:val="upperRoman"/>', '<w:numFmt w:val="bullet"/>',
                                '<w:numFmt w:val="ordinal"/>', '<w:numFmt w:val="none"/>', '<w:numFmt w:val="upperLetter"/>', '<w:numFmt w:val="lowerRoman"/>'])
                    + '<w:lvlText w:val="%1."/></w:lvl>')
        s = ''
        for a in range(2):
            s += f'<w:abstractNum w:abstractNumId="{a}"><w:multiLevelType w:val="hybridMultilevel"/>' + ''.join(lv(i) for i in range(r.choice([0, 1, 3, 9, 9]))) + '</w:abstractNum>'
        s += '<w:num w:numId="1"><w:abstractNumId w:val="0"/></w:num><w:num w:numId="2"><w:abstractNumId w:val="1"/><w:lvlOverride w:ilvl="0"><w:startOverride w:val="3"/></w:lvlOverride></w:num>'
        k = r.random()
        if k < 0.2: s += '<w:num w:numId="3"/>'
        elif k < 0.45: s += '<w:num w:numId="3"><w:abstractNumId w:val="7"/></w:num>'     # refers to a definition that does not exist
        return s

    def body(self):
        inner = ''.join(self.block() for _ in range(self.rint('blocks')))
        # close comment ranges still open at the end of the body (valid documents pair them)
        if getattr(self, 'pending_end', None) is not None: inner += self.par()
        while self.open_ranges and self.r.random() < 0.8:
            i = self.open_ranges.pop()
            inner += f'<w:p><w:commentRangeEnd w:id="{i}"/></w:p>'
        return inner + self.r.choice(['', '<w:sectPr><w:pgSz w:w="1"/></w:sectPr>'])


def rels_xml(items, comment=False):
    s = f'<?xml version="1.0" encoding="UTF-8" standalone="yes"?><Relationships xmlns="{PKG_RELS}">'
    if comment: s += '<!-- generated -->'
    for rid, typ, target, *rest in items:
        mode = ' TargetMode="External"' if rest and rest[0] else ''
        t = typ if '://' in typ else RT + typ
        s += f'<Relationship Id="{rid}" Type="{t}" Target="{esc(target)}"{mode}/>'
    return s + '</Relationships>'


class Package:
    """parts: ordered dict name -> bytes/str; written as a zip"""

    def __init__(self):
        self.members = []       # (name, data)

    def add(self, name, data): self.members.append((name, data if isinstance(data, bytes) else data.encode('utf-8')))

    def get(self, name):
        for n, d in self.members:
            if n == name: return d
        return None

    def set(self, name, data):
        data = data if isinstance(data, bytes) else data.encode('utf-8')
        self.members = [(n, data if n == name else d) for n, d in self.members]

    def to_bytes(self, compression=zipfile.ZIP_DEFLATED, rng=None):
        """with `rng`: compression method chosen per member, member timestamps varied"""
        b = io.BytesIO()
        with zipfile.ZipFile(b, 'w', compression) as z:
            for n, d in self.members:
                if rng is None: z.writestr(n, d)
                else:
                    zi = zipfile.ZipInfo(n, date_time=(rng.randint(1980, 2030), rng.randint(1, 12), rng.randint(1, 28), rng.randint(0, 23), 0, 0))
                    zi.compress_type = rng.choice([zipfile.ZIP_STORED, zipfile.ZIP_DEFLATED])
                    z.writestr(zi, d)
        return b.getvalue()


def make_package(rng, prof=None, body=None):
    """returns (Package, meta); meta has the generator statistics and feature set"""
    prof = prof or DEFAULT
    r = rng
    omit = ('r',) if r.random() < prof.get('p_no_r_ns', 0) else ()
    if omit: prof = dict(prof, no_r=True)       # a part that does not declare the r prefix cannot use r: attributes
    g = DocGen(rng, prof)
    NS = ns_decl(omit)
    body_xml = g.body() if body is None else body
    import re as _re
    if omit and ('r:' in _re.sub(r'xmlns:r="[^"]*" r:embed="[^"]*"', '', body_xml)): omit = (); NS = ns_decl()
    if omit: g.feat.add('no_r_namespace')
    pk = Package()
    pk.add('[Content_Types].xml', '<Types xmlns="http://schemas.openxmlformats.org/package/2006/content-types"/>')
    root_rels = [('rId1', 'officeDocument', 'word/document.xml')]
    if r.random() < prof['p_core']:
        root_rels.append(('rId2', CORE_RT, 'docProps/core.xml'))
    pk.add('_rels/.rels', rels_xml(root_rels))
    pk.add('word/document.xml', f'<w:document {NS}><w:body>{body_xml}</w:body></w:document>')
    dr = [('rId9', 'hyperlink', r.choice(['http://x/', 'http://x/', 'http://z/app/#/settings', 'http://x/guide.html#intro', 'mailto:a@b.c', 'C:\\docs\\x.docx', 'HTTP://X/Y', 'tel:+123', '../other.docx', 'https://e.com/users/{id}/profile', 'http://x/%7Buser%7D?q={0}']), True), ('rId10', 'hyperlink', 'http://y/?a=1&b=2', True), ('rId20', 'image', 'media/i.png'),
          ('rId21', 'image', 'http://ext/i.png', True)]
    if r.random() < prof['p_numbering']:
        pk.add('word/numbering.xml', f'<w:numbering {ns_decl()}>{g.numbering()}</w:numbering>'); dr.append(('rId3', 'numbering', 'numbering.xml'))
    ncom = 0
    if r.random() < prof['p_comments']:
        ids = list(g.comment_ids)
        k = r.random()
        if k < 0.15 and ids: ids = ids[:-1]                 # fewer entries than ranges
        elif k < 0.25: ids = ids + [max(ids + [0]) + 1]     # more entries than ranges
        if len(ids) >= 2 and r.random() < 0.4:
            ids = ids[:]; r.shuffle(ids); g.feat.add('comments_part_order_differs')      # the part need not list comments in document order
        com = ''
        for i in ids:
            com += (f'<w:comment w:id="{i}" w:author="A{i}"' + r.choice(['', ' w:date="2020-01-01T00:00:00Z"', ' w:initials="X"']) + '>'
                    + ''.join(g.par() for _ in range(r.randint(0, 2))) + '</w:comment>')
        ncom = len(ids)
        pk.add('word/comments.xml', f'<w:comments {ns_decl()}>{com}</w:comments>'); dr.append(('rId4', 'comments', 'comments.xml'))
    extra_rels = {}
    def note_body():
        # with stray_inline: a note that holds inline content only (a display equation is block-level content), or ends with one
        eq = lambda: '<m:oMathPara><m:oMath><m:r><m:t>' + (esc(g.text()) if prof.get('tokens') else 'z') + '</m:t></m:r></m:oMath></m:oMathPara>'
        if prof.get('stray_inline') and r.random() < 0.3:
            g.feat.add('note_without_paragraph'); return eq()
        return g.par() + (g.table(1) if r.random() < 0.4 else '') + g.par() + (eq() if prof.get('stray_inline') and r.random() < 0.2 else '')
    if r.random() < prof['p_footnotes']:
        # producers other than Word number ordinary notes from 0 (or -1) and write no separator notes: "arbitrary ids"
        nid = r.choice(['2', '2', '2', '0', '-1', '1', '40'])
        seps = '' if nid in ('0', '-1') else '<w:footnote w:type="separator" w:id="-1"><w:p><w:r><w:separator/></w:r></w:p></w:footnote><w:footnote w:type="continuationSeparator" w:id="0"><w:p/></w:footnote>'
        fn = (seps +
              f'<w:footnote w:id="{nid}"' + r.choice(['', '', ' w:type="normal"']) + '>' + note_body() + '</w:footnote>'
              + (('<w:footnote w:type="continuationNotice" w:id="12">' + g.par() + '</w:footnote>') if r.random() < 0.3 else '')
              # (an empty note is not schema-valid; it is kept as the LAST note, where its queued label cannot leak into another note)
              + r.choice(['<w:footnote w:id="3"/>', '<w:footnote w:id="3">' + g.par() + '</w:footnote>']))
        pk.add('word/footnotes.xml', f'<w:footnotes {ns_decl()}>{fn}</w:footnotes>'); dr.append(('rId5', 'footnotes', 'footnotes.xml'))
        extra_rels['word/_rels/footnotes.xml.rels'] = [('rId9', 'hyperlink', 'http://fn/', True), ('rId20', 'image', 'media/j.png')]
    elif r.random() < prof.get('p_empty_part', 0):
        pk.add('word/footnotes.xml', f'<w:footnotes {ns_decl()}/>'); dr.append(('rId5', 'footnotes', 'footnotes.xml')); g.feat.add('part_without_paragraphs')
    if r.random() < prof['p_endnotes']:
        pk.add('word/endnotes.xml', f'<w:endnotes {ns_decl()}><w:endnote w:id="' + r.choice(['9', '9', '0', '-1']) + '">' + g.par() + '</w:endnote>' + (('<w:endnote w:type="continuationNotice" w:id="10">' + g.par() + g.par() + '</w:endnote>') if r.random() < 0.3 else '') + '</w:endnotes>'); dr.append(('rId6', 'endnotes', 'endnotes.xml'))
    nh = 0
    while r.random() < prof['p_header'] and nh < 3:
        nh += 1
        tgt = f'header{nh}.xml'
        if r.random() < prof.get('p_abs_target', 0): tgt = '/word/' + tgt; g.feat.add('absolute_target')      # package-absolute target: sorts before every relative one
        pk.add(f'word/header{nh}.xml', f'<w:hdr {ns_decl()}>' + ''.join(g.block() for _ in range(r.randint(0, 2))) + '</w:hdr>'); dr.append((f'rId3{nh}', 'header', tgt))
        if nh == 1: extra_rels['word/_rels/header1.xml.rels'] = [('rId9', 'hyperlink', 'http://hdr/', True)]
        if nh == 1 and r.random() < prof.get('p_same_image_name', 0):
            # another image part with the SAME file name in another folder, related from the header
            extra_rels['word/_rels/header1.xml.rels'].append(('rId20', 'image', 'media2/i.png')); g.feat.add('two_image_parts_one_file_name')
        if nh == 1 and r.random() < prof.get('p_double_rel', 0):
            # one part, two relationships (default and first-page header): it is extracted once per relationship
            dr.append(('rId39', 'header', 'header1.xml')); g.feat.add('part_related_twice')
    nf = 0
    while r.random() < prof['p_footer'] and nf < 2:
        nf += 1
        tgt = f'footer{nf}.xml'
        if r.random() < prof.get('p_abs_target', 0): tgt = '/word/' + tgt; g.feat.add('absolute_target')
        pk.add(f'word/footer{nf}.xml', f'<w:ftr {ns_decl()}>' + g.par() + '</w:ftr>'); dr.append((f'rId4{nf}', 'footer', tgt))
    pk.add('word/_rels/document.xml.rels', rels_xml(dr, comment=r.random() < 0.15))
    for n, items in extra_rels.items(): pk.add(n, rels_xml(items))
    pk.add('word/media/i.png', b'\x89PNG\r\n\x1a\n' + bytes(r.randrange(256) for _ in range(r.choice([0, 5, 40]))))
    if 'word/_rels/footnotes.xml.rels' in extra_rels: pk.add('word/media/j.png', b'JPNG' + bytes([r.randrange(256)]))
    if 'two_image_parts_one_file_name' in g.feat: pk.add('word/media2/i.png', b'\x89PNG other folder ' + bytes([r.randrange(256)]))
    orphan = (not any(t == CORE_RT for _, t, *_ in root_rels)) and r.random() < prof.get('p_orphan_core', 0)
    if orphan: g.feat.add('orphan_core_part')     # a docProps/core.xml that no relationship points to: not the core properties
    if orphan or any(t == CORE_RT for _, t, *_ in root_rels):
        pk.add('docProps/core.xml', '<cp:coreProperties xmlns:cp="http://schemas.openxmlformats.org/package/2006/metadata/core-properties" xmlns:dc="http://purl.org/dc/elements/1.1/">'
               '<dc:title/><dc:creator>me &amp; you</dc:creator><cp:revision>3</cp:revision><!-- c --></cp:coreProperties>')
    if r.random() < 0.3: pk.add('customXml/item1.xml', '<root><x>1</x></root>')
    if r.random() < 0.3: pk.add('word/settings.xml', f'<w:settings {ns_decl()}/>')
    meta = {'stats': g.stats, 'features': sorted(g.feat), 'ranges': len(g.comment_ids), 'comments': ncom, 'body': body_xml}
    if r.random() < prof.get('p_strict', 0.0):
        # the Strict conformance class (ISO/IEC 29500 Strict, Word's "Strict Open XML Document"): other namespace URIs, same prefixes
        for n, d in list(pk.members):
            if n.endswith(('.xml', '.rels')):
                t = d
                for a, b in STRICT: t = t.replace(a.encode(), b.encode())
                pk.set(n, t)
        meta['features'] = sorted(set(meta['features']) | {'strict_namespaces'})
    return pk, meta
