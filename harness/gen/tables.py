"""Rectangular tilings of an n x m grid and their WordprocessingML rendering (C04, C19)."""
import itertools


def random_tiling(rng, n, m, p_merge=0.45):
    covered = [[None] * m for _ in range(n)]; rects = []
    for i in range(n):
        for j in range(m):
            if covered[i][j] is not None: continue
            w = h = 1
            if rng.random() < p_merge:
                maxw = 1
                while j + maxw < m and covered[i][j + maxw] is None: maxw += 1
                w = rng.randint(1, maxw); h = rng.randint(1, n - i)
            k = len(rects); rects.append((i, j, h, w))
            for a in range(i, i + h):
                for b in range(j, j + w): covered[a][b] = k
    return rects


def all_tilings(n, m):
    """every tiling of the n x m grid by rectangles (exhaustive)"""
    def rec(covered, rects):
        pos = next(((i, j) for i in range(n) for j in range(m) if covered[i][j] is None), None)
        if pos is None: yield list(rects); return
        i, j = pos
        maxw = 1
        while j + maxw < m and covered[i][j + maxw] is None: maxw += 1
        for w in range(1, maxw + 1):
            for h in range(1, n - i + 1):
                if any(covered[a][b] is not None for a in range(i, i + h) for b in range(j, j + w)): continue
                for a in range(i, i + h):
                    for b in range(j, j + w): covered[a][b] = len(rects)
                rects.append((i, j, h, w))
                yield from rec(covered, rects)
                rects.pop()
                for a in range(i, i + h):
                    for b in range(j, j + w): covered[a][b] = None
    yield from rec([[None] * m for _ in range(n)], [])


def render(rects, n, m, texts, spell, para=lambda t: f'<w:p><w:r><w:t>{t}</w:t></w:r></w:p>', hidden=lambda k, a: '<w:p/>', tracked=None):
    """texts[k] = list of paragraph texts of rectangle k; spell(k, row) in {'bare', 'explicit'} for continuation cells.
    Returns (xml, expected) where expected(dup) is the n x m grid of paragraph-text lists."""
    rows = [[] for _ in range(n)]
    for k, (i, j, h, w) in enumerate(rects):
        for a in range(i, i + h): rows[a].append((j, k, a == i))
    xml = '<w:tbl><w:tblPr><w:tblW w:w="0" w:type="auto"/></w:tblPr><w:tblGrid>' + '<w:gridCol w:w="100"/>' * m + '</w:tblGrid>'
    for a in range(n):
        xml += '<w:tr>'
        if tracked is not None and tracked.random() < 0.25:
            # tracked row changes: the OLD row properties sit below w:trPrChange and do not apply
            xml += tracked.choice(['<w:trPr><w:trPrChange w:id="90" w:author="a"><w:trPr><w:gridBefore w:val="1"/><w:gridAfter w:val="2"/></w:trPr></w:trPrChange></w:trPr>',
                                   '<w:trPr><w:ins w:id="91" w:author="a"/></w:trPr>', '<w:trPr><w:cantSplit/><w:trPrChange w:id="92" w:author="a"><w:trPr/></w:trPrChange></w:trPr>'])
        for j, k, top in sorted(rows[a]):
            i0, j0, h, w = rects[k]
            pr = ''
            if w > 1: pr += f'<w:gridSpan w:val="{w}"/>'
            if h > 1:
                if top: pr += '<w:vMerge w:val="restart"/>'
                else: pr += '<w:vMerge/>' if spell(k, a) == 'bare' else '<w:vMerge w:val="continue"/>'
            if tracked is not None and tracked.random() < 0.3:
                # a tracked change of the cell properties: the OLD span / merge below w:tcPrChange does not apply
                pr += tracked.choice(['<w:tcPrChange w:id="93" w:author="a"><w:tcPr><w:gridSpan w:val="3"/></w:tcPr></w:tcPrChange>',
                                      '<w:tcPrChange w:id="94" w:author="a"><w:tcPr><w:vMerge w:val="restart"/><w:gridSpan w:val="2"/></w:tcPr></w:tcPrChange>',
                                      '<w:tcPrChange w:id="95" w:author="a"><w:tcPr><w:vMerge/></w:tcPr></w:tcPrChange>', '<w:cellIns w:id="96" w:author="a"/>',
                                      '<w:tcPrChange w:id="97" w:author="a"><w:tcPr><w:tcW w:w="5" w:type="dxa"/></w:tcPr></w:tcPrChange>'])
            body = ''.join(para(t) for t in texts[k]) if top else hidden(k, a)
            xml += f'<w:tc><w:tcPr><w:tcW w:w="100" w:type="dxa"/>{pr}</w:tcPr>{body}</w:tc>'
        xml += '</w:tr>'
    xml += '</w:tbl>'

    def expected(dup):
        g = [[None] * m for _ in range(n)]
        for k, (i, j, h, w) in enumerate(rects):
            for a in range(i, i + h):
                for b in range(j, j + w):
                    if dup or (a == i and b == j): g[a][b] = list(texts[k])
                    elif b == j: g[a][b] = [('own', k, a)]        # the continuation cell's own (hidden) paragraph
                    else: g[a][b] = ['']                            # padding created for a gridSpan: always a bare empty paragraph
        return g
    return xml, expected
