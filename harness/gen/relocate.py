"""Relocation rewrite of a package (C09): rename parts, move them to directories at or below the
referring part's directory, rewrite targets as relative or package-absolute, re-number the
relationship ids of every part independently (so one id means different things in different parts)."""
import io, posixpath, zipfile
from lxml import etree
from gen.docgen import R, PKG_RELS

ROOT_DIRS = ['docs', 'w', 'content/main', 'Word', 'x_y']
SUB_DIRS = ['', '', 'sub', 'parts/inner', 'h', '_x']
NAMES = ['main', 'doc1', 'part', 'α', 'body.part', 'Document', 'chart%201', 'my part', 'a+b', '100%25done', 'x&y']      # names are member names, taken literally (no percent-decoding)


def rels_path(part):
    d, b = posixpath.split(part)
    return posixpath.join(d, '_rels', b + '.rels')


def relocate(rng, data):
    """parts of one kind are extracted in path order: a relocation that permutes that order changes the
    (documented) concatenation order, so such draws are rejected and re-drawn"""
    for _ in range(60):
        out, moved = _relocate(rng, data)
        kinds = {}
        for old, new in moved.items():
            k = ''.join(c for c in old.rsplit('/', 1)[-1].split('.')[0] if not c.isdigit())
            kinds.setdefault(k, []).append((old, new))
        if all([n for _, n in sorted(v)] == sorted(n for _, n in v) for v in kinds.values()): return out, moved
    raise RuntimeError('no order-preserving relocation drawn in 60 tries')      # the caller skips the variant


def _relocate(rng, data):
    z = zipfile.ZipFile(io.BytesIO(data)); names = z.namelist(); blob = {n: z.read(n) for n in names}

    def rels_of(part):
        rp = rels_path(part) if part else '_rels/.rels'
        if rp not in blob: return None, rp
        return etree.fromstring(blob[rp]), rp

    root, _ = rels_of('')
    main = next(r.get('Target') for r in root if isinstance(r.tag, str) and r.get('Type').endswith('/officeDocument'))
    main_dir = posixpath.dirname(main)
    new_root_dir = rng.choice(ROOT_DIRS)
    newname = {}          # old member -> new member
    used = set(); bases = []

    def fresh(path):
        k = 0; p = path
        while p in used: k += 1; p = path.replace('.', f'{k}.', 1) if '.' in posixpath.basename(path) else path + str(k)
        used.add(p); return p

    newname[main] = fresh(posixpath.join(new_root_dir, rng.choice(NAMES) + '.xml'))

    def place(part, depth=0):
        """choose new locations for the internal targets of `part`, recursively"""
        r, rp = rels_of(part)
        if r is None: return
        nd = posixpath.dirname(newname[part])
        for rel in r:
            if not isinstance(rel.tag, str) or rel.get('TargetMode') == 'External': continue
            t = rel.get('Target')
            old = t.lstrip('/') if t.startswith('/') else posixpath.normpath(posixpath.join(posixpath.dirname(part), t))
            if old not in blob or old in newname: continue
            ty = rel.get('Type').rsplit('/', 1)[-1]
            if ty == 'image':
                newname[old] = fresh(posixpath.join(nd, t))          # media travel with their referrer, target unchanged
            elif ty == 'numbering':
                newname[old] = old                                     # read by fixed name
            else:
                sub = rng.choice(SUB_DIRS)
                # also names that merely BEGIN with the name of the directory they are stored in (word/wordmark1.xml)
                dn = posixpath.basename(nd)
                base = rng.choice(['p', 'item', 'ξ', ty, dn + 'mark' if dn and not sub else ty]) + str(rng.randint(0, 99)) + '.xml'
                # two parts may carry the SAME file name in different directories (word/hdr/part1.xml, word/ftr/part1.xml): each has
                # its own relationships file, found by its full path
                same = [b for b in bases if posixpath.normpath(posixpath.join(nd, sub, b)) not in used]
                if same and rng.random() < 0.4: base = rng.choice(same)
                bases.append(base)
                newname[old] = fresh(posixpath.normpath(posixpath.join(nd, sub, base)))
            place(old, depth + 1)

    place(main)
    out = {}
    # rewrite every relocated part's relationships file and ids
    def rewrite(part, newpart):
        r, rp = rels_of(part)
        xml = blob[part]
        if r is not None:
            ids = [rel.get('Id') for rel in r if isinstance(rel.tag, str)]
            perm = list(range(1, len(ids) + 1)); rng.shuffle(perm)
            idmap = {old: f'rId{k}' for old, k in zip(ids, perm)}
            nd = posixpath.dirname(newpart)
            for rel in r:
                if not isinstance(rel.tag, str): continue
                rel.set('Id', idmap[rel.get('Id')])
                if rel.get('TargetMode') == 'External': continue
                t = rel.get('Target')
                old = t.lstrip('/') if t.startswith('/') else posixpath.normpath(posixpath.join(posixpath.dirname(part), t))
                if old in newname and newname[old] != old or old in newname:
                    ty = rel.get('Type').rsplit('/', 1)[-1]
                    if ty == 'image': continue
                    nt = newname[old]
                    rel.set('Target', '/' + nt if rng.random() < 0.4 else posixpath.relpath(nt, nd))
            out[rels_path(newpart)] = etree.tostring(r, xml_declaration=True, encoding='UTF-8', standalone=True)
            # ids inside the part
            tree = etree.fromstring(xml)
            for e in tree.iter():
                if not isinstance(e.tag, str): continue
                for k, v in list(e.attrib.items()):
                    if k.startswith('{%s}' % R) and v in idmap: e.set(k, idmap[v])
            xml = etree.tostring(tree, xml_declaration=True, encoding='UTF-8', standalone=True)
        out[newpart] = xml

    for old, new in newname.items():
        if old.endswith(('.xml',)) and old in blob:
            try: rewrite(old, new)
            except etree.XMLSyntaxError: out[new] = blob[old]
        else: out[new] = blob[old]
    # package root relationships
    for rel in root:
        if isinstance(rel.tag, str) and rel.get('Target') == main:
            rel.set('Target', '/' + newname[main] if rng.random() < 0.3 else newname[main])
    out['_rels/.rels'] = etree.tostring(root, xml_declaration=True, encoding='UTF-8', standalone=True)
    moved = set(newname) | {rels_path(p) for p in newname} | {'_rels/.rels'}
    for n in names:
        if n not in moved and n not in out: out[n] = blob[n]
    items = list(out.items()); rng.shuffle(items)
    b = io.BytesIO()
    with zipfile.ZipFile(b, 'w', zipfile.ZIP_DEFLATED) as o:
        for n, d in items: o.writestr(n, d)
    return b.getvalue(), {old: new for old, new in newname.items() if old != new}
