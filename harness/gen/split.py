"""Content-preserving rewrites of a content part used by C06 (and C17): cut runs, text nodes and
same-target hyperlinks into consecutive pieces, sprinkle non-content markup and unrecognised
properties / attributes."""
import copy, io, zipfile
from lxml import etree
import src

W = src.W
def w(n): return f'{{{W}}}{n}'


def split_run(rng, root):
    runs = [r for r in root.iter(w('r')) if len([c for c in r if c.tag != w('rPr')]) >= 2]
    if not runs: return False
    r = rng.choice(runs)
    kids = [c for c in r if c.tag != w('rPr')]
    cut = rng.randint(1, len(kids) - 1)
    new = etree.Element(w('r'), nsmap=None)
    for k, v in r.attrib.items(): new.set(k, v)
    rpr = r.find(w('rPr'))
    if rpr is not None:
        npr = copy.deepcopy(rpr); new.append(npr)
        # the pieces of one run need not spell the same formatting the same way (another editor, another session)
        for c in npr:
            if c.tag in (w('b'), w('i'), w('strike'), w('caps'), w('smallCaps')) and c.get(w('val')) in (None, '1', 'true', 'on') and rng.random() < 0.5:
                v = rng.choice([None, '1', 'true', 'on'])
                if v is None: c.attrib.pop(w('val'), None)
                else: c.set(w('val'), v)
            if c.tag == w('u') and c.get(w('val')) not in (None, 'none') and rng.random() < 0.5:
                c.set(w('val'), rng.choice(['single', 'double', 'thick', 'dotted']))
    for c in kids[cut:]: new.append(c)
    new.tail = r.tail; r.tail = None
    r.addnext(new)
    return True


def split_text(rng, root):
    ts = [t for t in root.iter(w('t')) if t.text and len(t.text) >= 2 and t.getparent().tag == w('r')]
    if not ts: return False
    t = rng.choice(ts); cut = rng.randint(1, len(t.text) - 1)
    new = copy.deepcopy(t); new.tail = None
    a, b = t.text[:cut], t.text[cut:]
    t.text = a; new.text = b
    # as Word writes it: xml:space="preserve" only on a piece with leading / trailing white space (sometimes on both anyway)
    XS = '{http://www.w3.org/XML/1998/namespace}space'
    both = rng.random() < 0.3
    for x in (t, new):
        if both or x.text != x.text.strip(): x.set(XS, 'preserve')
        elif XS in x.attrib: del x.attrib[XS]
    t.addnext(new)
    return True


def split_text_inside(needle):
    """a cut that falls INSIDE an occurrence of `needle` (the way a spelling or revision boundary cuts a placeholder)"""
    def f(rng, root):
        ts = [t for t in root.iter(w('t')) if t.text and needle in t.text and t.getparent().tag == w('r') and len(needle) >= 2]
        if not ts: return False
        t = rng.choice(ts); at = t.text.index(needle); cut = at + rng.randint(1, len(needle) - 1)
        new = copy.deepcopy(t); new.tail = None
        a, b = t.text[:cut], t.text[cut:]
        t.text = a; new.text = b
        XS = '{http://www.w3.org/XML/1998/namespace}space'
        for x in (t, new):
            if x.text != x.text.strip(): x.set(XS, 'preserve')
            elif XS in x.attrib: del x.attrib[XS]
        t.addnext(new)
        return True
    return f


def split_link(rng, root):
    ls = [h for h in root.iter(w('hyperlink')) if len(h) >= 2]
    if not ls: return False
    h = rng.choice(ls); kids = list(h); cut = rng.randint(1, len(kids) - 1)
    new = etree.Element(w('hyperlink'))
    for k, v in h.attrib.items(): new.set(k, v)
    # attributes that are not part of the target (r:id / w:anchor) may differ between the pieces
    for name, val in (('tooltip', 'tip'), ('history', '1'), ('tgtFrame', '_blank'), ('docLocation', 'loc')):
        if rng.random() < 0.25:
            if new.get(w(name)) is None: new.set(w(name), val)
            else: del new.attrib[w(name)]
    for c in kids[cut:]: new.append(c)
    new.tail = h.tail; h.tail = None
    h.addnext(new)
    return True


NOISE = ['<w:proofErr xmlns:w="%s" w:type="spellStart"/>', '<w:proofErr xmlns:w="%s" w:type="gramEnd"/>', '<w:bookmarkStart xmlns:w="%s" w:id="900" w:name="_GoBack"/>',
         '<w:bookmarkEnd xmlns:w="%s" w:id="900"/>', '<w:permStart xmlns:w="%s" w:id="901" w:edGrp="everyone"/>']


def sprinkle(rng, root):
    hosts = [e for e in root.iter() if e.tag in (w('p'), w('hyperlink')) and len(e)]
    if not hosts: return False
    h = rng.choice(hosts)
    first = 1 if (len(h) and h[0].tag == w('pPr')) else 0
    pos = rng.randint(first, len(h))
    h.insert(pos, etree.fromstring(rng.choice(NOISE) % W))
    return True


def unrecognised(rng, root):
    runs = list(root.iter(w('r'))) + list(root.iter(w('p')))
    if not runs: return False
    r = rng.choice(runs)
    if rng.random() < 0.5:
        r.set(w(rng.choice(['rsidR', 'rsidRPr', 'rsidRDefault'])), '00%06X' % rng.randrange(1 << 24)); return True
    tag = 'rPr' if r.tag == w('r') else 'pPr'
    pr = r.find(w(tag))
    if pr is None:
        if tag == 'pPr': return False
        pr = etree.Element(w(tag)); r.insert(0, pr)
    if tag == 'pPr':
        x = etree.fromstring(rng.choice(['<w:keepNext xmlns:w="%s"/>', '<w:spacing xmlns:w="%s" w:after="0"/>', '<w:jc xmlns:w="%s" w:val="center"/>']) % W)
        # schema order does not matter to the extraction; keep pStyle first
        pr.append(x)
    else:
        pr.append(etree.fromstring(rng.choice(['<w:noProof xmlns:w="%s"/>', '<w:lang xmlns:w="%s" w:val="en-US"/>', '<w:rFonts xmlns:w="%s" w:ascii="Arial"/>', '<w:kern xmlns:w="%s" w:val="2"/>', '<w:spacing xmlns:w="%s" w:val="10"/>']) % W))
    return True


def respell(rng, root):
    """write the same recognised formatting differently: another on-spelling of a toggle, or an explicitly switched-off
    property where there was none"""
    runs = list(root.iter(w('r')))
    if not runs: return False
    r = rng.choice(runs); pr = r.find(w('rPr'))
    if pr is None: pr = etree.Element(w('rPr')); r.insert(0, pr)
    toggles = [c for c in pr if c.tag in (w('b'), w('i'), w('strike'), w('caps'), w('smallCaps')) and c.get(w('val')) in (None, '1', 'true', 'on')]
    if toggles and rng.random() < 0.6:
        c = rng.choice(toggles); v = rng.choice([None, '1', 'true', 'on'])
        if v is None: c.attrib.pop(w('val'), None)
        else: c.set(w('val'), v)
        return True
    present = {c.tag for c in pr}
    cand = [(n, v) for n, v in [('b', '0'), ('i', 'false'), ('strike', 'off'), ('caps', '0'), ('smallCaps', 'false'), ('u', 'none'), ('vertAlign', 'baseline')] if w(n) not in present]
    if not cand: return False
    n, v = rng.choice(cand); e = etree.SubElement(pr, w(n)); e.set(w('val'), v)
    return True


OPS = [('respell', respell), ('split_run', split_run), ('split_text', split_text), ('split_link', split_link), ('sprinkle', sprinkle), ('unrecognised', unrecognised)]


def variant(rng, data, parts, nops, first=()):
    """apply nops random rewrites to the given parts; returns (bytes, list of applied op names); `first`: (name, op) pairs tried on
    every part before the random ones"""
    z = zipfile.ZipFile(io.BytesIO(data)); out = io.BytesIO(); applied = []
    roots = {p: etree.fromstring(z.read(p)) for p in parts}
    for name, f in first:
        for p in parts:
            if f(rng, roots[p]): applied.append(name)
    for _ in range(nops):
        p = rng.choice(parts); name, f = rng.choice(OPS)
        if f(rng, roots[p]): applied.append(name)
    with zipfile.ZipFile(out, 'w', zipfile.ZIP_DEFLATED) as o:
        for n in z.namelist():
            o.writestr(n, etree.tostring(roots[n], xml_declaration=True, encoding='UTF-8', standalone=True) if n in roots else z.read(n))
    return out.getvalue(), applied
