"""Serialisation-level rewrites of a package that keep its content (C18)."""
import io, zipfile
from lxml import etree

STRICT = {
    b'http://schemas.openxmlformats.org/wordprocessingml/2006/main': b'http://purl.oclc.org/ooxml/wordprocessingml/main',
    b'http://schemas.openxmlformats.org/officeDocument/2006/relationships/': b'http://purl.oclc.org/ooxml/officeDocument/relationships/',
    b'http://schemas.openxmlformats.org/officeDocument/2006/relationships"': b'http://purl.oclc.org/ooxml/officeDocument/relationships"',
    b'http://schemas.openxmlformats.org/officeDocument/2006/math': b'http://purl.oclc.org/ooxml/officeDocument/math',
    b'http://schemas.openxmlformats.org/drawingml/2006/main': b'http://purl.oclc.org/ooxml/drawingml/main',
    b'http://schemas.openxmlformats.org/drawingml/2006/wordprocessingDrawing': b'http://purl.oclc.org/ooxml/drawingml/wordprocessingDrawing',
}
W_URIS = ('http://schemas.openxmlformats.org/wordprocessingml/2006/main', 'http://purl.oclc.org/ooxml/wordprocessingml/main')
M_URIS = ('http://schemas.openxmlformats.org/officeDocument/2006/math', 'http://purl.oclc.org/ooxml/officeDocument/math')


def is_xml(name): return name.endswith(('.xml', '.rels'))


def strict(rng, name, raw):
    for a, b in STRICT.items(): raw = raw.replace(a, b)
    return raw


def attr_order(rng, name, raw):
    root = etree.fromstring(raw)
    for e in root.iter():
        if isinstance(e.tag, str) and len(e.attrib) > 1:
            items = list(e.attrib.items()); rng.shuffle(items)
            for k, _ in items: del e.attrib[k]
            for k, v in items: e.set(k, v)
    return etree.tostring(root, xml_declaration=True, encoding='UTF-8', standalone=True)


def _text_sensitive(e):
    """is whitespace directly inside `e` visible to the extraction? (text and equation content)"""
    if not isinstance(e.tag, str): return True
    q = etree.QName(e.tag)
    if q.namespace in M_URIS: return True
    if q.namespace in W_URIS and q.localname in ('t', 'delText', 'instrText'): return True
    return any(isinstance(a.tag, str) and etree.QName(a.tag).namespace in M_URIS for a in e.iterancestors())


def whitespace_comments(rng, name, raw):
    root = etree.fromstring(raw)
    for e in list(root.iter()):
        if not isinstance(e.tag, str) or _text_sensitive(e): continue
        if len(e) and (e.text is None or not e.text.strip()) and rng.random() < 0.6: e.text = rng.choice(['\n  ', ' ', '\n\t', '\r\n'])
        for c in list(e):
            if (c.tail is None or not c.tail.strip()) and rng.random() < 0.5: c.tail = rng.choice(['\n', '  ', '\n    '])
        if rng.random() < 0.25:
            cm = etree.Comment(rng.choice([' note ', 'x', ' <w:p/> ']))
            e.insert(rng.randint(0, len(e)), cm)
        if rng.random() < 0.08:
            e.insert(rng.randint(0, len(e)), etree.ProcessingInstruction('mso-x', 'a="b"'))
    return etree.tostring(root, xml_declaration=True, encoding='UTF-8', standalone=True)


def encoding(rng, name, raw):
    root = etree.fromstring(raw)
    k = rng.random()
    tail = rng.choice([b'', b'', b'\n', b'\r\n', b'\n  \n'])         # white space after the root element is not content
    if k < 0.15: return etree.tostring(root, xml_declaration=True, encoding='UTF-16')
    if k < 0.4:
        # UTF-16 in either byte order with a byte-order mark, and a line end after the root element
        text = '<?xml version="1.0" encoding="UTF-16"?>\n' + etree.tostring(root, encoding='unicode') + rng.choice(['', '\n', '\r\n', ' \n'])
        return (b'\xfe\xff' + text.encode('utf-16-be')) if rng.random() < 0.6 else (b'\xff\xfe' + text.encode('utf-16-le'))
    if k < 0.5: return b'\xef\xbb\xbf' + etree.tostring(root, xml_declaration=True, encoding='UTF-8', standalone=True) + tail      # UTF-8 with a byte-order mark
    if k < 0.65: return etree.tostring(root, xml_declaration=False, encoding='UTF-8') + tail
    if k < 0.8: return etree.tostring(root, xml_declaration=True, encoding='UTF-8', standalone=False) + tail
    return etree.tostring(root, xml_declaration=True, encoding='ISO-8859-1') + tail     # non-latin1 characters become character references


XML_REWRITES = [('strict-uris', strict), ('attribute-order', attr_order), ('whitespace-comments', whitespace_comments), ('encoding', encoding)]


def rewrite(rng, data):
    z = zipfile.ZipFile(io.BytesIO(data)); items = [(n, z.read(n)) for n in z.namelist()]
    applied = []
    chosen = [r for r in XML_REWRITES if rng.random() < 0.55] or [rng.choice(XML_REWRITES)]
    if ('strict-uris', strict) in chosen:      # URI family is a property of the whole package
        chosen.remove(('strict-uris', strict)); chosen.insert(0, ('strict-uris', strict))
    out = []
    for n, raw in items:
        if is_xml(n):
            for name, f in chosen:
                try: raw = f(rng, n, raw)
                except etree.XMLSyntaxError: pass
        out.append((n, raw))
    applied += [n for n, _ in chosen]
    arch = []
    if rng.random() < 0.6: rng.shuffle(out); arch.append('member-order')
    if rng.random() < 0.5:
        out.append(('customXml/extra%d.xml' % rng.randint(0, 9), b'<x/>')); out.insert(0, ('zzz/unrelated.bin', b'\x00\x01PK\x03\x04')); arch.append('extra-members')
        if rng.random() < 0.6:
            # left-over members that no relationship refers to, stored where related ones usually are
            out.append(('word/media/image9%d.png' % rng.randint(0, 9), b'\x89PNG left over')); out.append(('docProps/thumbnail.jpeg', b'\xff\xd8thumb'))
            out.append(('word/header9.xml', b'<w:hdr xmlns:w="http://schemas.openxmlformats.org/wordprocessingml/2006/main"><w:p><w:r><w:t>orphan header</w:t></w:r></w:p></w:hdr>'))
            arch.append('unreferenced-members-in-usual-places')
    b = io.BytesIO()
    comp = rng.choice(['stored', 'deflated', 'mixed'])
    with zipfile.ZipFile(b, 'w') as o:
        for n, raw in out:
            zi = zipfile.ZipInfo(n, date_time=(rng.randint(1980, 2040), rng.randint(1, 12), rng.randint(1, 28), rng.randint(0, 23), rng.randint(0, 59), 0))
            zi.compress_type = {'stored': zipfile.ZIP_STORED, 'deflated': zipfile.ZIP_DEFLATED}.get(comp, rng.choice([zipfile.ZIP_STORED, zipfile.ZIP_DEFLATED]))
            o.writestr(zi, raw)
    arch += ['compression:' + comp, 'timestamps']
    return b.getvalue(), applied + arch
