"""Read the *source* of a generated archive independently of docx2python (lxml only): which
paragraphs exist, their own text tokens, ancestors, style, list settings.  Used by the checkers
that compare the implementation's output with what the source says."""
import io, re, zipfile, posixpath
from lxml import etree

W = 'http://schemas.openxmlformats.org/wordprocessingml/2006/main'
TOKEN = re.compile('«(\\d+)»')


def ptag(e):
    if not isinstance(e.tag, str): return None
    return f'{e.prefix}:{etree.QName(e.tag).localname}'


def wval(e, name='val'):
    u = e.nsmap.get('w')
    return e.get(f'{{{u}}}{name}') if u else None


def child(e, tag):
    for c in e:
        if ptag(c) == tag: return c
    return None


class ParInfo:
    def __init__(self, part, k, e):
        self.part, self.k, self.e = part, k, e
        anc = [ptag(a) for a in e.iterancestors()]
        self.in_tc = 'w:tc' in anc
        self.in_tbl = 'w:tbl' in anc
        self.nested_in_par = 'w:p' in anc
        self.in_link = 'w:hyperlink' in anc
        # inside a vertically continued cell: Word does not show that content; the extraction replaces it
        # with the cell above when duplicate_merged_cells is on
        self.in_continuation = False
        for a in e.iterancestors():
            if ptag(a) == 'w:tc':
                pr = child(a, 'w:tcPr'); vm = child(pr, 'w:vMerge') if pr is not None else None
                if vm is not None and wval(vm) in (None, 'continue'): self.in_continuation = True
        ppr = child(e, 'w:pPr')
        st = child(ppr, 'w:pStyle') if ppr is not None else None
        self.style = (wval(st) or '') if st is not None else ''
        npr = child(ppr, 'w:numPr') if ppr is not None else None
        self.numId = self.ilvl = None
        if npr is not None:
            a, b = child(npr, 'w:numId'), child(npr, 'w:ilvl')
            self.numId = wval(a) if a is not None else None
            self.ilvl = wval(b) if b is not None else None
        self.own = []          # own descendants (nearest w:p ancestor is this paragraph), document order
        self.encloses_par = False
        for x in e.iterdescendants():
            if not isinstance(x.tag, str): continue
            near = next((a for a in x.iterancestors() if ptag(a) == 'w:p'), None)
            if ptag(x) == 'w:p': self.encloses_par = True
            if near is e: self.own.append(x)
        # text the paragraph shows: its own, and everything below its hyperlinks - a link is rendered as ONE run from all
        # the text below it, paragraphs of a text box anchored inside the link included (in document order)
        def shown(x):
            for a in x.iterancestors():
                if a is e: return False
                if ptag(a) == 'w:hyperlink' and next((b for b in a.iterancestors() if ptag(b) == 'w:p'), None) is e: return True
            return False
        own = set(self.own)
        vis = [x for x in e.iterdescendants() if isinstance(x.tag, str) and (x in own or shown(x))] if self.encloses_par else self.own
        self.tokens = [t for x in vis if ptag(x) in ('w:t', 'm:t') for t in TOKEN.findall(x.text or '')]
        # ... of which those in a paragraph nested below one of its links: they are part of the link's one run, but WHERE in
        # it no property says (a nested paragraph is concluded before the text around it) - membership is checked, not position
        self.loose = {t for x in vis if x not in own and ptag(x) in ('w:t', 'm:t') for t in TOKEN.findall(x.text or '')}
        self.link_nested = any(x not in own for x in vis)       # a paragraph (text box) below one of its links, with or without text
        self.run_tabs = sum(1 for x in self.own if ptag(x) == 'w:tab' and ptag(x.getparent()) == 'w:r')
        self.breaks = sum(1 for x in self.own if ptag(x) == 'w:br')
        self.is_list = self.numId is not None and self.ilvl is not None

    def same_text(self, toks):
        """toks (tokens of one output paragraph) are this paragraph's tokens: all of them, nothing else, in source order"""
        if not self.loose: return toks == self.tokens
        return sorted(toks) == sorted(self.tokens) and [t for t in toks if t not in self.loose] == [t for t in self.tokens if t not in self.loose]


def parts_of(data):
    """member name -> parsed root for every XML member"""
    z = zipfile.ZipFile(io.BytesIO(data)); out = {}
    for n in z.namelist():
        try: out[n] = etree.fromstring(z.read(n))
        except Exception: pass
    return out


def paragraphs(root, part):
    return [ParInfo(part, k, e) for k, e in enumerate(x for x in root.iter() if ptag(x) == 'w:p')]


def content_parts(data):
    """(type, path) of the content parts, found by following the relationships from the package
    root the OPC way (independent of docx2python's resolution)"""
    z = zipfile.ZipFile(io.BytesIO(data)); names = set(z.namelist()); out = []
    def rels_of(part):
        d, b = posixpath.split(part)
        rp = posixpath.join(d, '_rels', b + '.rels')
        if rp not in names: return []
        try: root = etree.fromstring(z.read(rp))
        except Exception: return []
        res = []
        for r in root:
            if not isinstance(r.tag, str): continue
            t = r.get('Target', ''); ty = r.get('Type', '').rsplit('/', 1)[-1]
            if r.get('TargetMode') == 'External': continue
            path = t.lstrip('/') if t.startswith('/') else posixpath.normpath(posixpath.join(d, t))
            res.append((ty, path, r.get('Id')))
        return res
    for ty, path, _ in rels_of(''):
        if ty == 'officeDocument':
            out.append((ty, path))
            for ty2, p2, _ in rels_of(path):
                if ty2 in ('header', 'footer', 'footnotes', 'endnotes', 'comments'): out.append((ty2, p2))
    return out


def own_rels(data, part):
    """Id -> Target of the part's own relationships file (OPC: <dir>/_rels/<name>.rels), {} if absent"""
    z = zipfile.ZipFile(io.BytesIO(data))
    d, b = posixpath.split(part)
    rp = posixpath.join(d, '_rels', b + '.rels')
    if rp not in z.namelist(): return {}
    out = {}
    for r in etree.fromstring(z.read(rp)):
        if isinstance(r.tag, str): out[r.get('Id')] = r.get('Target')
    return out


def rattr(e, name):
    u = e.nsmap.get('r')
    return e.get(f'{{{u}}}{name}') if u else None
