"""Package-level correspondence: the real docx2python and the Lean model on the same archive."""
import json
from encode import encode_archive
from impl import observe


def fix_elems(x, ords):
    """model element ids are the encoder's preorder ids; the harness identifies a paragraph by
    (member, k-th w:p in document order)"""
    if isinstance(x, dict):
        if 'copy' in x and 'elem' in x:
            x['elem'] = None if x['copy'] or x['elem'] is None else ords.get(x['elem'])
        for v in x.values(): fix_elems(v, ords)
    elif isinstance(x, list):
        for v in x: fix_elems(v, ords)


def wild_copy(a, b):
    """where the implementation-side record says copy=None (not observable: a paragraph without element), the model's copy mark is
    not compared; everything else is"""
    if isinstance(a, dict) and isinstance(b, dict):
        if 'copy' in a and a['copy'] is None and 'copy' in b: b['copy'] = None
        for k in a:
            if k in b: wild_copy(a[k], b[k])
    elif isinstance(a, list) and isinstance(b, list):
        for x, y in zip(a, b): wild_copy(x, y)


_cache = {}


def encoded(data):
    k = hash(data)
    if k not in _cache:
        if len(_cache) > 8: _cache.clear()
        _cache[k] = encode_archive(data)
    return _cache[k]


def model_case(data, html, dup, want=None):
    case, ords = encoded(data)
    case = dict(case)
    case.update({'op': 'package', 'html': html, 'dup': dup})
    if want: case['want'] = want
    return case, ords


def both(drv, data, html, dup, want=None):
    case, ords = model_case(data, html, dup, want)
    m = drv.ask(case)
    fix_elems(m, ords)
    i = observe(data, html, dup, want)
    return i, m


OPTS = [(False, True), (True, True), (False, False), (True, False)]
