"""Shared plumbing of the checks: paths, build + audit of the Lean project, the model driver,
evidence / replay / known-findings handling.

Every check is  tables -> lake build -> audit -> corpus + generated cases -> correspondence
(model vs. implementation on the property's observation) + the property's checker on the
implementation's output -> evidence + verdict.  See DESIGN.md sections 3, 6, 7.
"""
import fcntl, hashlib, json, os, random, re, subprocess, sys, tempfile, time, glob

HERE = os.path.dirname(os.path.abspath(__file__))
ROOT = os.environ.get('VERIF_ROOT', os.path.dirname(HERE))
LEAN = os.path.join(ROOT, 'lean')
REPO = os.environ.get('VERIF_REPO', '/repo')
DRIVER = os.path.join(LEAN, '.lake', 'build', 'bin', 'd2pdriver')
EVID = os.path.join(ROOT, 'evidence')
REPLAYS = os.path.join(ROOT, 'replays')
FINDINGS = os.path.join(ROOT, 'known_findings.json')
ALLOWED_AXIOMS = {'propext', 'Classical.choice', 'Quot.sound'}
GUARD = 'DOCX2PYTHON_VERIF'
os.environ.setdefault(GUARD, '1')
if REPO not in sys.path: sys.path.insert(0, REPO)
if HERE not in sys.path: sys.path.insert(0, HERE)

TRUSTED_BASE = [
    'Lean 4.33.0 kernel and elaborator (leanchecker re-check in the thorough tier)',
    'axioms: only propext, Classical.choice, Quot.sound (audited with #print axioms on every run); no sorry/admit/native_decide/bv_decide',
    'harness/gen_tables.py: prints the live tables of /repo faithfully into D2P/Model/Generated.lean',
    'hand-written Lean model D2P/Model/*.lean of the Python code; its agreement with /repo is established only on the cases of the correspondence check',
    'correspondence harness (harness/*.py), lxml->JSON encoder, JSON decoder of the Lean driver: a bug there can hide a difference, never create a theorem',
    'modelled, not verified: lxml (parse, nsmap, child iteration, deepcopy), zipfile, pathlib, str methods, dict order',
]


def sh(cmd, **kw):
    return subprocess.run(cmd, capture_output=True, text=True, **kw)


# ----------------------------------------------------------------------------------------------
# property -> Lean modules and theorems (the proof obligations audited on every run)
# ----------------------------------------------------------------------------------------------
def load_obligations():
    return json.load(open(os.path.join(HERE, 'obligations.json')))


def lean_imports():
    """module -> set of D2P modules it imports (direct)"""
    g = {}
    for f in glob.glob(os.path.join(LEAN, 'D2P', '**', '*.lean'), recursive=True):
        mod = 'D2P.' + os.path.relpath(f, os.path.join(LEAN, 'D2P'))[:-5].replace('/', '.')
        g[mod] = set(re.findall(r'^import (D2P\.[\w.]+)', open(f).read(), re.M))
    return g


def closure(g, roots):
    seen = set(); todo = list(roots)
    while todo:
        m = todo.pop()
        if m in seen: continue
        seen.add(m); todo += list(g.get(m, ()))
    return seen


def source_hash():
    h = hashlib.sha256()
    for f in sorted(glob.glob(os.path.join(LEAN, 'D2P', '**', '*.lean'), recursive=True)) + [os.path.join(LEAN, 'lakefile.toml'), os.path.join(ROOT, 'harness', 'obligations.json')]:
        h.update(f.encode()); h.update(open(f, 'rb').read())
    return h.hexdigest()


def strip_comments(src):
    src = re.sub(r'/-.*?-/', lambda m: '\n' * m.group(0).count('\n'), src, flags=re.S)
    return re.sub(r'--.*', '', src)


FORBIDDEN = re.compile(r'\b(sorry|admit|native_decide|bv_decide|implemented_by)\b|^\s*axiom\s|\bunsafe\s|maxHeartbeats\s+0\b', re.M)


def textual_audit():
    hits = []
    for f in sorted(glob.glob(os.path.join(LEAN, 'D2P', '**', '*.lean'), recursive=True)):
        body = strip_comments(open(f).read())
        for m in FORBIDDEN.finditer(body):
            line = body[:m.start()].count('\n') + 1
            hits.append(f'{os.path.relpath(f, LEAN)}:{line}: {m.group(0).strip()}')
    return hits


def build(prop, thorough=False):
    """Regenerate the tables from the live source, rebuild, audit.
    Returns dict(obligations, discharged, notes, broken, theorems)."""
    ob = load_obligations()[prop]
    thms = ob['theorems']
    notes, broken = [], []
    os.makedirs(os.path.join(LEAN, '.lake'), exist_ok=True)
    lock = open(os.path.join(LEAN, '.lake', 'verif.lock'), 'w')
    fcntl.flock(lock, fcntl.LOCK_EX)
    try:
        env = {**os.environ, 'PYTHONPATH': REPO, GUARD: '1'}
        g = sh([sys.executable, '-B', os.path.join(HERE, 'gen_tables.py')], env=env, cwd=tempfile.gettempdir())
        gen_path = os.path.join(LEAN, 'D2P', 'Model', 'Generated.lean')
        if g.returncode not in (0, 3) or not g.stdout.strip():
            broken.append('tables: gen_tables.py failed: ' + g.stderr.strip()[-400:])
        else:
            if g.returncode == 3:
                broken += ['tables: ' + l for l in g.stderr.splitlines() if l.startswith('BROKEN-TIE')]
            if not os.path.exists(gen_path) or open(gen_path).read() != g.stdout:
                open(gen_path, 'w').write(g.stdout); notes.append('Generated.lean differs from the committed copy: re-elaborating')
        graph = lean_imports()
        mine = closure(graph, ['D2P.' + m for m in ob['modules']])
        b = sh(['lake', 'build', 'D2P', 'd2pdriver'], cwd=LEAN)
        out = b.stdout + b.stderr
        if b.returncode != 0:
            errs = re.findall(r'error: (D2P/\S+?)\.lean:(\d+):\d+: (.*)', out)
            failed = {f.replace('/', '.') for f, _, _ in errs} | set(re.findall(r'✖ \[\d+/\d+\] Building (D2P[\w.]*)', out))
            rel = [e for e in errs if e[0].replace('/', '.') in mine]
            drv = closure(graph, ['D2P.Driver.Main'])
            for f, ln, msg in rel[:6]: broken.append(f'lean: {f}.lean:{ln}: {msg[:200]}')
            if failed & drv and not rel:
                for f, ln, msg in errs[:3]: broken.append(f'lean(driver): {f}.lean:{ln}: {msg[:200]}')
            if not errs and (failed & mine or not failed):
                broken.append('lean: lake build failed: ' + out[-400:])
        # audit (cached on the hash of all Lean sources)
        discharged = 0
        if not any(x.startswith('lean') for x in broken):
            cache_p = os.path.join(LEAN, '.lake', 'audit_cache.json')
            key = source_hash()
            cache = {}
            if os.path.exists(cache_p):
                try: cache = json.load(open(cache_p))
                except Exception: cache = {}
            if cache.get('key') != key:
                allthms = sorted({t for v in load_obligations().values() for t in v['theorems']})
                src = 'import D2P\nopen D2P\n' + ''.join(f'#print axioms {t}\n' for t in allthms)
                with tempfile.NamedTemporaryFile('w', suffix='.lean', dir=os.path.join(LEAN, '.lake'), delete=False) as f:
                    f.write(src); tmp = f.name
                a = sh(['lake', 'env', 'lean', tmp], cwd=LEAN); os.unlink(tmp)
                res = {}
                text = a.stdout + a.stderr
                for t in allthms:
                    m = re.search(r"'(?:D2P\.)?" + re.escape(t) + r"' (depends on axioms: \[([^\]]*)\]|does not depend on any axioms)", text)
                    res[t] = None if not m else sorted(x.strip() for x in (m.group(2) or '').replace('\n', ' ').split(',') if x.strip())
                cache = {'key': key, 'axioms': res, 'textual': textual_audit()}
                json.dump(cache, open(cache_p, 'w'))
            for t in thms:
                ax = cache['axioms'].get(t)
                if ax is None: broken.append(f'audit: theorem {t} not found in the compiled environment')
                elif set(ax) <= ALLOWED_AXIOMS: discharged += 1
                else: broken.append(f'audit: {t} depends on axioms {sorted(set(ax) - ALLOWED_AXIOMS)}')
            for h in cache['textual']:
                broken.append('audit: forbidden token ' + h)
            if thorough and not broken:
                mods = sorted(m for m in mine if m.startswith('D2P.Props'))
                lc = sh(['lake', 'env', 'leanchecker'] + mods, cwd=LEAN)
                if lc.returncode != 0: broken.append('audit: leanchecker failed: ' + (lc.stdout + lc.stderr)[-300:])
                else: notes.append('leanchecker re-checked ' + ', '.join(mods))
    finally:
        fcntl.flock(lock, fcntl.LOCK_UN)
    return {'obligations': len(thms), 'discharged': discharged, 'notes': notes, 'broken': broken, 'theorems': thms}


# ----------------------------------------------------------------------------------------------
class Driver:
    """the compiled Lean model, one JSON object per line each way"""

    def __init__(self):
        self.p = subprocess.Popen([DRIVER], stdin=subprocess.PIPE, stdout=subprocess.PIPE, text=True, bufsize=1 << 20)
        self.n = 0

    def ask(self, obj):
        self.p.stdin.write(json.dumps(obj) + '\n'); self.p.stdin.flush()
        line = self.p.stdout.readline()
        if not line: raise RuntimeError('model driver died')
        self.n += 1
        return json.loads(line)

    def ask_many(self, objs):
        """pipelined: write all, read all (the driver flushes per reply; a writer thread avoids a pipe deadlock)"""
        import threading
        objs = list(objs)
        def w():
            for o in objs: self.p.stdin.write(json.dumps(o) + '\n')
            self.p.stdin.flush()
        t = threading.Thread(target=w); t.start()
        out = []
        for _ in objs:
            line = self.p.stdout.readline()
            if not line: raise RuntimeError('model driver died')
            out.append(json.loads(line))
        t.join(); self.n += len(objs)
        return out

    def close(self):
        try: self.p.stdin.close(); self.p.wait(timeout=10)
        except Exception: self.p.kill()


def first_diff(a, b, path=''):
    """first position where two JSON values differ: (path, a, b) or None"""
    if type(a) != type(b) and not (isinstance(a, (int, float)) and isinstance(b, (int, float))): return path, a, b
    if isinstance(a, dict):
        for k in sorted(set(a) | set(b)):
            if k not in a or k not in b: return path + '/' + k, a.get(k, '<missing>'), b.get(k, '<missing>')
            d = first_diff(a[k], b[k], path + '/' + k)
            if d: return d
        return None
    if isinstance(a, list):
        for i, (x, y) in enumerate(zip(a, b)):
            d = first_diff(x, y, f'{path}[{i}]')
            if d: return d
        if len(a) != len(b): return path + '/len', len(a), len(b)
        return None
    return None if a == b else (path, a, b)


def jhash(x):
    return hashlib.sha256(json.dumps(x, sort_keys=True, default=str).encode()).hexdigest()[:16]


def guard(f):
    try: return {'ok': f()}
    except Exception as e: return {'err': type(e).__name__}


# ----------------------------------------------------------------------------------------------
class Ctx:
    """state of one check run"""

    def __init__(self, prop, tier, seed):
        self.prop, self.tier, self.seed = prop, tier, seed
        self.rng = random.Random(f'{prop}-{seed}')
        self.t0 = time.time()
        self.evaluations = 0
        self.validated = 0          # cases on which model and implementation agreed on the observation
        self.distinct = set()       # structural hashes of non-trivial cases
        self.diffs = []             # correspondence differences
        self.fails = []             # property failures on the implementation
        self.known_hits = {}        # finding id -> count
        self.samples = []
        self.hist = {}
        self.rule = ''
        self.notes = []
        self.skipped_raises = 0
        self.exhaustive = False
        self.drv = None
        self.budget_s = None

    quick = property(lambda self: self.tier == 'quick')

    def count(self, key, n=1): self.hist[key] = self.hist.get(key, 0) + n

    def nontrivial(self, case_hash): self.distinct.add(case_hash)

    def sample(self, x, limit=4):
        if len(self.samples) < limit: self.samples.append(x)

    def diff(self, what, case, impl, model, path=None):
        self.diffs.append({'kind': 'correspondence', 'observation': what, 'where': path, 'case': case,
                           'impl': impl, 'model': model})

    def fail(self, what, case, observed=None, expected=None, features=()):
        self.fails.append({'kind': 'failing-input', 'what': what, 'case': case, 'observed': observed,
                           'expected': expected, 'features': sorted(features)})

    def time_left(self):
        return None if self.budget_s is None else self.budget_s - (time.time() - self.t0)


def trunc(x, n=2000):
    s = json.dumps(x, default=str)
    return x if len(s) <= n else s[:n] + '...'


def load_findings():
    if not os.path.exists(FINDINGS): return []
    return json.load(open(FINDINGS)).get('findings', [])


def finish(ctx, binfo, replay_case=None):
    """classify, write evidence, print verdict lines; returns exit code"""
    os.makedirs(EVID, exist_ok=True); os.makedirs(REPLAYS, exist_ok=True)
    prop = ctx.prop
    findings = [f for f in load_findings() if f['property'] == prop and f.get('status', 'open') == 'open']
    lines = []

    def write_replay(kind, payload):
        h = jhash(payload)
        p = os.path.join(REPLAYS, f'{prop}-{ctx.seed}-{h}.json')
        json.dump({'property': prop, 'kind': kind, 'seed': ctx.seed, 'tier': ctx.tier, **payload,
                   'replay_cmd': f'./check {prop} --replay {p}'}, open(p, 'w'), indent=1, default=str)
        return p

    unknown = []
    for f in ctx.fails:
        match = next((k for k in findings if set(k['signature']['features']) <= set(f['features'])
                      and k['signature']['what'] == f['what']), None)
        if match: ctx.known_hits[match['id']] = ctx.known_hits.get(match['id'], 0) + 1
        else: unknown.append(f)
    for k in findings:
        if ctx.known_hits.get(k['id']):
            lines.append(f"KNOWN-FINDING: property={prop} {k['id']}: {k['description']}")
    broken = binfo['broken']
    nviol = 0
    if unknown:
        nviol = len(unknown)
        lines.append(f"VIOLATION property={prop} replay={write_replay('failing-input', unknown[0])}")
    elif ctx.diffs or broken:
        nviol = 1
        payload = {'no_longer_checks': broken or [f"correspondence obs_{prop[1:]} ({ctx.diffs[0]['observation']})"],
                   'first_difference': ctx.diffs[0] if ctx.diffs else None, 'differences': len(ctx.diffs),
                   'searched': f"{ctx.evaluations} cases with the property's checker on the implementation's output: none failed"}
        lines.append(f"VIOLATION property={prop} replay={write_replay('tie-broken', payload)} no-failing-input-found")
    wall = round(time.time() - ctx.t0, 2)
    cov = {
        'obligations': binfo['obligations'], 'discharged': binfo['discharged'],
        'theorems': binfo['theorems'],
        'checker_cmd': 'cd lean && lake build D2P d2pdriver && lake env lean <file with `#print axioms <theorem>` for each obligation>'
                       + (' && lake env leanchecker <property modules>' if ctx.tier == 'thorough' else ''),
        'trusted_base': TRUSTED_BASE,
        'evaluations': ctx.evaluations, 'distinct_nontrivial': len(ctx.distinct), 'rule': ctx.rule,
        'samples': [trunc(s) for s in ctx.samples] or ['(none)'],
        'traces_validated_against_impl': ctx.validated,
        'correspondence_differences': len(ctx.diffs), 'property_failures_on_impl': len(ctx.fails),
        'known_findings_hit': ctx.known_hits, 'cases_skipped_because_impl_raised': ctx.skipped_raises,
        'input_distribution': dict(sorted(ctx.hist.items())), 'exhaustive': ctx.exhaustive,
        'notes': binfo['notes'] + ctx.notes, 'broken': broken,
    }
    ev = {'property_id': prop, 'tier': ctx.tier, 'seed': ctx.seed, 'level': 'proof', 'coverage': cov,
          'assumptions': ['the theorems are about the Lean model; they transfer to /repo only through the correspondence, which is checked on the explored cases, not proved',
                          'lxml / zipfile / pathlib / CPython behave as modelled'],
          'wall_s': wall, 'violations': nviol}
    json.dump(ev, open(os.path.join(EVID, prop + '.json'), 'w'), indent=1, default=str)
    for l in lines: print(l)
    print(f"{prop} [{ctx.tier} seed={ctx.seed}]: theorems {binfo['discharged']}/{binfo['obligations']}, cases {ctx.evaluations}, "
          f"agree {ctx.validated}, differences {len(ctx.diffs)}, property failures {len(ctx.fails)} "
          f"(known {sum(ctx.known_hits.values())}), {wall} s")
    return 1 if nviol else 0
