import D2P.Model.Merge
/-!
# The hypotheses of `mergeElems_idem`, as a decidable predicate (shared by the driver and `Proofs/MergeTree`)
-/
namespace D2P

mutual
/-- all element nodes of a tree, in document order -/
def descT : Xml → List Xml
  | .elem i p t m a tx tl ks => .elem i p t m a tx tl ks :: descL ks
  | _ => []
def descL : List Xml → List Xml
  | [] => []
  | k :: ks => descT k ++ descL ks
end

/-- the property children of a node (`<w:rPr>` below `<w:r>` …) carry no content -/
def prCleanNode (e : Xml) : Bool :=
  match e.tag? with
  | some t => e.kids.all fun c => !(c.tag? == some ⟨t.ns, t.name ++ lit "Pr"⟩) || !hasContent c
  | none => true

/-- one prefix per namespace: every node carries the prefixed tag of the first node with its tag -/
def prefixOK (d : List Xml) : Bool :=
  d.all fun e => (d.find? fun e' => e'.tag? == e.tag?).map Xml.ptag == some e.ptag

/-- distinct identities, one prefix per namespace, content-free property children -/
def goodTree (x : Xml) : Bool :=
  let d := descL [x]
  decide (d.filterMap Xml.id?).Nodup && prefixOK d && d.all prCleanNode

end D2P
