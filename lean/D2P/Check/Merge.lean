import D2P.Model.Merge
/-!
# The hypotheses of `mergeElems_idem`, as a decidable predicate (shared by the driver and `Proofs/MergeTree`)
-/
namespace D2P

mutual
/-- all element nodes of a tree, in document order -/
def descT : Xml → List Xml
  | .elem i p t m a tx tl ks => .elem i p t m a tx tl ks :: descL ks
  | _ => []
def descL : List Xml → List Xml
  | [] => []
  | k :: ks => descT k ++ descL ks
end

mutual
/-- no mergeable element (run, text, hyperlink) at or below the node -/
def noMergeT : Xml → Bool
  | .elem i p t m a tx tl ks => !isMergeable (.elem i p t m a tx tl ks) && noMergeL ks
  | _ => true
def noMergeL : List Xml → Bool
  | [] => true
  | k :: ks => noMergeT k && noMergeL ks
end

/-- the property children of a node (`<w:rPr>` below `<w:r>`, `<w:pPr>` below `<w:p>` …) hold nothing that merges
(they may hold content tags: the `<w:tab>` elements of tab-stop definitions are content tags) -/
def prCleanNode (e : Xml) : Bool :=
  match e.tag? with
  | some t => e.kids.all fun c => !(c.tag? == some ⟨t.ns, t.name ++ lit "Pr"⟩) || noMergeT c
  | none => true

/-- one prefix per namespace: every node carries the prefixed tag of the first node with its tag -/
def prefixOK (d : List Xml) : Bool :=
  d.all fun e => (d.find? fun e' => e'.tag? == e.tag?).map Xml.ptag == some e.ptag

/-- distinct identities, one prefix per namespace, nothing mergeable below property children -/
def goodTree (x : Xml) : Bool :=
  let d := descL [x]
  decide (d.filterMap Xml.id?).Nodup && prefixOK d && d.all prCleanNode

end D2P
