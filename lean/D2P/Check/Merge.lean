import D2P.Model.Merge
/-!
# The hypotheses of `mergeElems_idem`, as a decidable predicate (shared by the driver and `Proofs/MergeTree`)
-/
namespace D2P

mutual
/-- all element nodes of a tree, in document order -/
def descT : Xml → List Xml
  | .elem i p t m a tx tl ks => .elem i p t m a tx tl ks :: descL ks
  | _ => []
def descL : List Xml → List Xml
  | [] => []
  | k :: ks => descT k ++ descL ks
end

mutual
/-- no mergeable element (run, text, hyperlink) at or below the node -/
def noMergeT : Xml → Bool
  | .elem i p t m a tx tl ks => !isMergeable (.elem i p t m a tx tl ks) && noMergeL ks
  | _ => true
def noMergeL : List Xml → Bool
  | [] => true
  | k :: ks => noMergeT k && noMergeL ks
end

/-- the local name ends in `Pr` -/
def endsPr (s : Str) : Bool := s.reverse.take 2 == ['r', 'P']

/-- the property children of a node (`<w:rPr>`, `<w:pPr>`, `<w:tcPr>`, `<w:numPr>` … : local name ending in `Pr`) hold
nothing that merges (they may hold content tags: the `<w:tab>` elements of tab-stop definitions are content tags) -/
def prCleanNode (e : Xml) : Bool := e.kids.all fun c => !endsPr c.localname || noMergeT c

/-- one prefix per namespace: every node carries the prefixed tag of the first node with its tag -/
def prefixOK (d : List Xml) : Bool :=
  d.all fun e => (d.find? fun e' => e'.tag? == e.tag?).map Xml.ptag == some e.ptag

/-- distinct identities, one prefix per namespace, nothing mergeable below property children -/
def goodTree (x : Xml) : Bool :=
  let d := descL [x]
  decide (d.filterMap Xml.id?).Nodup && prefixOK d && d.all prCleanNode

/-- the prefix `w` is bound alike in every element of the tree (to the namespace the root binds it to) -/
def sameWb (x : Xml) : Bool :=
  (descL [x]).all fun e => e.nsmap.find? (fun b => b.1 == some (lit "w")) == x.nsmap.find? (fun b => b.1 == some (lit "w"))

end D2P
