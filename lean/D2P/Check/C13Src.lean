import D2P.Check.C13
import D2P.Check.Merge
/-!
# C13: validity of a package AS STORED (definitions only; shared by the driver and `Props/C13MergeValid`)
-/
namespace D2P

/-- a content part as stored: it can be read, its relationships can be read, and its tree is valid (`validT`),
with distinct identities, one prefix per namespace, nothing mergeable below property children (`goodTree`)
and one binding of the prefix `w` (`sameWb`) -/
def srcPartOK (a : Archive) (files : List Rel) (r : Rel) : Bool :=
  match a.readXml r.path, partRels a files r with
  | .ok root, .ok _ => validT root && goodTree root && sameWb root
  | _, _ => false

/-- relationships can be listed, the numbering part (if any) can be read, every content part is `srcPartOK` -/
def validSrcPkg (a : Archive) : Bool :=
  match a.files, numId2Attrs a with
  | .ok files, .ok _ => partTypes.all fun t => (filesOfType files [lit t]).all (srcPartOK a files)
  | _, _ => false

end D2P
