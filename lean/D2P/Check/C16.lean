import D2P.Model.Save
/-!
# C16: the side conditions of `C16_reextract` (definitions only; shared by the driver and `Props/C16Extract`)
-/
namespace D2P

def contentPaths (files : List Rel) : List Str := (files.filter fun r => contentTypes.contains r.type).map Rel.path

/-- no content part is stored under the name of the numbering part or of a relationships part that some part uses -/
def saveSane (files : List Rel) : Bool :=
  !(contentPaths files).contains (lit "word/numbering.xml") &&
  files.all fun r => (files.filter fun f => f.target == r.relsPath).all fun f => !(contentPaths files).contains f.path

end D2P
