import D2P.Model.Walk
import D2P.Model.Output
/-!
# C13: the validity predicate (definitions only; shared by the driver and `Props/C13Total`)
-/
namespace D2P

def Except.isOk {ε α : Type} : Except ε α → Bool | .ok _ => true | .error _ => false

def wBoundb (x : Xml) : Bool := (x.nsmap.find? (fun e => e.1 == some (lit "w"))).isSome

def hasId (x : Xml) : Bool := Except.isOk (x.attrReq (lit "w") (lit "id"))

def noteOK (x : Xml) : Bool :=
  match isSeparatorNote x with
  | .ok b => b || hasId x
  | .error _ => false

def ilvlOK (x : Xml) : Bool :=
  match bulletFmt x with
  | (some _, some l) => (parseInt l).isSome
  | _ => true

def spanOK (x : Xml) : Bool :=
  match gatherPr x with
  | .ok pr => Except.isOk (spanExtra pr)
  | .error _ => true

def ddOK (x : Xml) : Bool :=
  (match wq x "listEntry" with
    | .ok q => Except.isOk (reqVals (x.findChildren q))
    | .error _ => true) &&
  (match wChild x "result" with
    | .ok (some r) => (match r.attrReq (lit "w") (lit "val") with
        | .ok v => (parseInt v).isSome
        | .error _ => true)
    | _ => true)

/-- range markers below a hyperlink (found by qualified name, whatever their prefix) carry `w:id` -/
def linkMarkersOK (x : Xml) : Bool :=
  (match wq x "commentRangeStart" with
    | .ok q => (descTaggedL q x.kids).all hasId
    | .error _ => true) &&
  (match wq x "commentRangeEnd" with
    | .ok q => (descTaggedL q x.kids).all hasId
    | .error _ => true)

/-- the local, schema-guaranteed facts about one element -/
def validElem (x : Xml) : Bool :=
  wBoundb x &&
  match tagMember x.ptag with
  | some "COMMENT_RANGE_START" => hasId x
  | some "COMMENT_RANGE_END" => hasId x
  | some "FOOTNOTE_REFERENCE" => hasId x
  | some "ENDNOTE_REFERENCE" => hasId x
  | some "FOOTNOTE" => noteOK x
  | some "ENDNOTE" => noteOK x
  | some "PARAGRAPH" => ilvlOK x
  | some "TABLE_CELL" => spanOK x
  | some "FORM_DDLIST" => ddOK x
  | some "HYPERLINK" => linkMarkersOK x
  | _ => true

mutual
def validT : Xml → Bool
  | .elem i p t m a tx tl ks => validElem (.elem i p t m a tx tl ks) && validL ks
  | _ => true
def validL : List Xml → Bool
  | [] => true
  | k :: ks => validT k && validL ks
end

/-! ## a whole package -/

/-- the part can be read (its XML, its relationships) and what is walked — the merged tree — is valid -/
def partOK (o : Opts) (a : Archive) (files : List Rel) (r : Rel) : Bool :=
  match rootElement o a files r, partRels a files r with
  | .ok cr, .ok _ => validT cr.2
  | _, _ => false

/-- relationships can be listed, the numbering part (if any) can be read, every content part is `partOK` -/
def validPkg (o : Opts) (a : Archive) : Bool :=
  match a.files, numId2Attrs a with
  | .ok files, .ok _ => partTypes.all fun t => (filesOfType files [lit t]).all (partOK o a files)
  | _, _ => false

/-- a comment entry: `w:id`, `w:author` (both required by the schema), valid content -/
def commentOK (c : Xml) : Bool :=
  hasId c && Except.isOk (c.attrReq (lit "w") (lit "author")) && validT c

/-- there is a main part; the comments part (if any) and its relationships can be read and its entries are `commentOK` -/
def commentsOK (a : Archive) : Bool :=
  match a.files with
  | .ok files =>
    !(filesOfType files [lit "officeDocument"]).isEmpty &&
    (match filesOfType files [lit "comments"] with
      | [] => true
      | cf :: _ =>
        match a.readXml cf.path, partRels a files cf with
        | .ok root, .ok _ => (root.kids.filter Xml.isElem).all commentOK
        | _, _ => false)
  | .error _ => false

end D2P
