import D2P.Model.Output
/-!
# C01 checker: definitions only (no proofs), shared by the driver and `Props/C01`
-/
namespace D2P

mutual
/-- `wf n x`: `x` is `n` list levels above paragraphs -/
def wf : Nat → Nest → Bool
  | 0, .par _ => true
  | n+1, .list xs => wfL n xs
  | _, _ => false
def wfL : Nat → List Nest → Bool
  | _, [] => true
  | n, x :: xs => wf n x && wfL n xs
end

/-- root items are tables: three list levels above paragraphs -/
def Shape4 (root : List Nest) : Prop := wfL 3 root = true

/-! ## shapes of the returned string views -/

mutual
/-- `tshape n t`: `t` is `n` list levels above string leaves -/
def tshape : Nat → Tree → Bool
  | 0, .leaf _ => true
  | n+1, .node xs => tshapeL n xs
  | _, _ => false
def tshapeL : Nat → List Tree → Bool
  | _, [] => true
  | n, x :: xs => tshape n x && tshapeL n xs
end

/-- nesting skeleton with the items at paragraph level erased -/
inductive Skel where
  | tip
  | node (items : List Skel)
  deriving Repr

mutual
def Skel.beq : Skel → Skel → Bool
  | .tip, .tip => true
  | .node xs, .node ys => Skel.beqL xs ys
  | _, _ => false
def Skel.beqL : List Skel → List Skel → Bool
  | [], [] => true
  | x :: xs, y :: ys => Skel.beq x y && Skel.beqL xs ys
  | _, _ => false
end

mutual
def skelNest : Nest → Skel
  | .par _ => .tip
  | .list xs => .node (skelNestL xs)
def skelNestL : List Nest → List Skel
  | [] => []
  | x :: xs => skelNest x :: skelNestL xs
end

mutual
/-- skeleton of a string view whose paragraphs are `k` levels down (`k = 0`: this node is the paragraph) -/
def skelTree : Nat → Tree → Skel
  | 0, _ => .tip
  | _+1, .leaf _ => .tip
  | k+1, .node xs => .node (skelTreeL k xs)
def skelTreeL : Nat → List Tree → List Skel
  | _, [] => []
  | k, x :: xs => skelTree k x :: skelTreeL k xs
end

/-! ## the decidable checker evaluated on the implementation's output -/

/-- what the harness reports for one attribute triple (after encoding the live objects) -/
structure C01Obs where
  pars : List Nest
  runs : List Tree
  plain : List Tree

def checkC01 (v : C01Obs) : Bool :=
  wfL 3 v.pars && tshapeL 4 v.runs && tshapeL 3 v.plain &&
  Skel.beqL (skelTreeL 3 v.runs) (skelNestL v.pars) && Skel.beqL (skelTreeL 3 v.plain) (skelNestL v.pars)

end D2P
