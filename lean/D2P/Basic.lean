def hello := "world"
