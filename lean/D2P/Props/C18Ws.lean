import D2P.Props.C18Strip
import D2P.Props.Examples
/-!
# C18 — white space (and any other text) between elements is invisible to the walk

`wsX` clears what pretty-printing changes: the tail text after every node (element, comment,
processing instruction) and the text directly inside every element that is not a text node
(`w:t`, `m:t`).  `C18_ws_walk`: for every collector state and every tree, walking the cleared tree
gives exactly the result of walking the tree itself — both option settings, any relationships, any
numbering table — provided equations are written tightly (`mathTight`: `itertext`, which
concatenates ALL text below `m:oMath`, reads the same from the cleared equation; the property says
"outside text and equation content").
-/
namespace D2P

def keepsText (x : Xml) : Bool := tagMember x.ptag == some "TEXT" || tagMember x.ptag == some "TEXT_MATH"

mutual
def wsX : Xml → Xml
  | .elem i p t m a tx tl ks =>
    .elem i p t m a (if keepsText (.elem i p t m a tx tl ks) then tx else none) none (wsL ks)
  | .comment c _ => .comment c none
  | .pi _ => .pi none
def wsL : List Xml → List Xml
  | [] => []
  | k :: ks => wsX k :: wsL ks
end

mutual
/-- equations read the same after clearing -/
def mathTight : Xml → Prop
  | .elem i p t m a tx tl ks =>
    (tagMember (Xml.elem i p t m a tx tl ks).ptag = some "MATH" →
      (wsX (.elem i p t m a tx tl ks)).itertext = (Xml.elem i p t m a tx tl ks).itertext) ∧ mathTightL ks
  | _ => True
def mathTightL : List Xml → Prop
  | [] => True
  | k :: ks => mathTight k ∧ mathTightL ks
end

theorem wsL_map : ∀ ks : List Xml, wsL ks = ks.map wsX
  | [] => rfl
  | k :: ks => by simp [wsL, wsL_map ks]

/-! ## what `wsX` does not touch -/

@[simp] theorem wsX_isElem (x : Xml) : (wsX x).isElem = x.isElem := by cases x <;> rfl
@[simp] theorem wsX_nsmap (x : Xml) : (wsX x).nsmap = x.nsmap := by cases x <;> simp [wsX, Xml.nsmap]
@[simp] theorem wsX_attrs (x : Xml) : (wsX x).attrs = x.attrs := by cases x <;> simp [wsX, Xml.attrs]
@[simp] theorem wsX_tag (x : Xml) : (wsX x).tag? = x.tag? := by cases x <;> simp [wsX, Xml.tag?]
@[simp] theorem wsX_id (x : Xml) : (wsX x).id? = x.id? := by cases x <;> simp [wsX, Xml.id?]
@[simp] theorem wsX_localname (x : Xml) : (wsX x).localname = x.localname := by cases x <;> simp [wsX, Xml.localname]
@[simp] theorem wsX_ptag (x : Xml) : (wsX x).ptag = x.ptag := by
  cases x with
  | elem i p t m a tx tl ks => cases p <;> simp [wsX, Xml.ptag]
  | comment _ _ => rfl
  | pi _ => rfl
@[simp] theorem wsX_kids (x : Xml) : (wsX x).kids = wsL x.kids := by
  cases x <;> simp [wsX, Xml.kids, wsL]

theorem wsX_text_keep (x : Xml) (h : keepsText x = true) (he : x.isElem = true) : (wsX x).text? = x.text? := by
  cases x with
  | elem i p t m a tx tl ks => simp [wsX, Xml.text?, h]
  | comment _ _ => simp [Xml.isElem] at he
  | pi _ => simp [Xml.isElem] at he

@[simp] theorem wsX_qn (x : Xml) (p n : Str) : (wsX x).qn p n = x.qn p n := by simp [Xml.qn]
@[simp] theorem wsX_attrGet (x : Xml) (q : QName) : (wsX x).attrGet q = x.attrGet q := by simp [Xml.attrGet]
@[simp] theorem wsX_attrQ (x : Xml) (p n : Str) : (wsX x).attrQ p n = x.attrQ p n := by simp [Xml.attrQ]
@[simp] theorem wsX_attrReq (x : Xml) (p n : Str) : (wsX x).attrReq p n = x.attrReq p n := by simp [Xml.attrReq]
@[simp] theorem wsX_wq (x : Xml) (n : String) : wq (wsX x) n = wq x n := by simp [wq]

@[simp] theorem wsX_findChild (x : Xml) (q : QName) : (wsX x).findChild q = (x.findChild q).map wsX := by
  simp only [Xml.findChild, wsX_kids, wsL_map, List.find?_map]
  have : ((fun k : Xml => k.tag? == some q) ∘ wsX) = (fun k => k.tag? == some q) := by funext k; simp
  rw [this]
@[simp] theorem wsX_findChildren (x : Xml) (q : QName) : (wsX x).findChildren q = (x.findChildren q).map wsX := by
  simp only [Xml.findChildren, wsX_kids, wsL_map, List.filter_map]
  have : ((fun k : Xml => k.tag? == some q) ∘ wsX) = (fun k => k.tag? == some q) := by funext k; simp
  rw [this]

/-! ## formatting and numbering read the same -/

theorem gatherStep_ws (d : Dict Str (Option Str)) (k : Xml) : gatherStep d (wsX k) = gatherStep d k := by
  simp [gatherStep]

theorem gatherFold_wsL : ∀ (ks : List Xml) (d : Dict Str (Option Str)), gatherFold (wsL ks) d = gatherFold ks d
  | [], d => rfl
  | k :: ks, d => by
    simp only [wsL, gatherFold, gatherStep_ws]
    cases gatherStep d k with
    | error e => rfl
    | ok d' => simp only [ok_bind]; exact gatherFold_wsL ks d'

@[simp] theorem gatherPr_ws (x : Xml) : gatherPr (wsX x) = gatherPr x := by
  unfold gatherPr
  simp only [wsX_tag, wsX_findChild]
  cases x.tag? with
  | none => rfl
  | some t =>
    simp only
    cases x.findChild ⟨t.ns, t.name ++ lit "Pr"⟩ with
    | none => rfl
    | some pr => simp [gatherFold_wsL]

@[simp] theorem getPStyle_ws (x : Xml) : getPStyle (wsX x) = getPStyle x := by simp [getPStyle]
@[simp] theorem parFormatting_ws (h : Bool) (x : Xml) : parFormatting h (wsX x) = parFormatting h x := by simp [parFormatting]
@[simp] theorem runFormatting_ws (h : Bool) (x : Xml) : runFormatting h (wsX x) = runFormatting h x := by simp [runFormatting]

@[simp] theorem bulletFmt_ws (p : Xml) : bulletFmt (wsX p) = bulletFmt p := by
  unfold bulletFmt
  simp only [wsX_wq, wsX_findChild]
  cases wq p "pPr" with
  | error e => rfl
  | ok qp =>
    simp only
    cases p.findChild qp with
    | none => rfl
    | some ppr =>
      simp only [Option.map_some, wsX_wq, wsX_findChild]
      cases wq ppr "numPr" with
      | error e => rfl
      | ok qn' =>
        simp only
        cases ppr.findChild qn' with
        | none => rfl
        | some npr =>
          simp only [Option.map_some, wsX_wq, wsX_findChild]
          congr 1
          · cases wq npr "numId" with
            | error e => rfl
            | ok q => simp only; cases npr.findChild q <;> simp
          · cases wq npr "ilvl" with
            | error e => rfl
            | ok q => simp only; cases npr.findChild q <;> simp

@[simp] theorem parNumber_ws (b : Bullets) (p : Xml) (pid : Nat) : parNumber b (wsX p) pid = parNumber b p pid := by
  simp [parNumber]
@[simp] theorem getBullet_ws (b : Bullets) (p : Xml) (pid : Nat) : getBullet b (wsX p) pid = getBullet b p pid := by
  simp [getBullet]
@[simp] theorem listPosition_ws (b : Bullets) (p : Xml) (pid : Nat) : listPosition b (wsX p) pid = listPosition b p pid := by
  simp [listPosition]


theorem wChild_ws (x : Xml) (n : String) :
    wChild (wsX x) n = (match wChild x n with | .ok o => .ok (o.map wsX) | .error e => .error e) := by
  unfold wChild
  simp only [wsX_wq, wsX_findChild]
  cases wq x n <;> rfl

@[simp] theorem checkBoxVal_ws (cb : Xml) : checkBoxVal (wsX cb) = checkBoxVal cb := by
  unfold checkBoxVal
  simp only [wChild_ws]
  cases wChild cb "checked" with
  | error e => rfl
  | ok c =>
    cases c with
    | some c => simp only [Option.map_some, ok_bind, wsX_attrQ]
    | none =>
      simp only [Option.map_none, ok_bind]
      cases wChild cb "default" with
      | error e => rfl
      | ok d =>
        cases d with
        | some d => simp only [Option.map_some, ok_bind, wsX_attrReq]
        | none => rfl

@[simp] theorem checkBoxEntry_ws (cb : Xml) : checkBoxEntry (wsX cb) = checkBoxEntry cb := by simp [checkBoxEntry]

theorem reqVals_map_ws : ∀ es : List Xml, reqVals (es.map wsX) = reqVals es
  | [] => rfl
  | e :: es => by simp [reqVals, reqVals_map_ws es]

@[simp] theorem ddListEntry_ws (dd : Xml) : ddListEntry (wsX dd) = ddListEntry dd := by
  unfold ddListEntry
  simp only [wsX_wq, wsX_findChildren, reqVals_map_ws, wChild_ws]
  cases wq dd "listEntry" with
  | error e => rfl
  | ok ql =>
    simp only [ok_bind]
    cases reqVals (dd.findChildren ql) with
    | error e => rfl
    | ok entries =>
      simp only [ok_bind]
      cases wChild dd "result" with
      | error e => rfl
      | ok r =>
        cases r with
        | none => rfl
        | some r => simp only [Option.map_some, ok_bind, wsX_attrReq]

/-! ## the handlers -/

@[simp] theorem commencePar_ws (html : Bool) (s : DC) (x : Xml) (c : Bool) :
    s.commencePar html (some (wsX x)) c = s.commencePar html (some x) c := by
  simp [DC.commencePar]

@[simp] theorem commenceRun_ws (html : Bool) (s : DC) (x : Xml) :
    s.commenceRun html (some (wsX x)) = s.commenceRun html (some x) := by
  simp [DC.commenceRun]

@[simp] theorem openParagraph_ws (cfg : PartCfg) (s : DC) (x : Xml) (c : Bool) :
    openParagraph cfg s (wsX x) c = openParagraph cfg s x c := by
  simp [openParagraph]

@[simp] theorem noteLabel_ws (s : DC) (x : Xml) (k : String) : noteLabel s (wsX x) k = noteLabel s x k := by
  simp [noteLabel, isSeparatorNote]

@[simp] theorem symCode_ws (x : Xml) : symCode (wsX x) = symCode x := by simp [symCode, attrStrOrNone]
@[simp] theorem relTarget_ws (cfg : PartCfg) (x : Xml) (n : String) : relTarget cfg (wsX x) n = relTarget cfg x n := by
  simp [relTarget]
@[simp] theorem linkRun_ws (cfg : PartCfg) (x : Xml) (t : Str) : linkRun cfg (wsX x) t = linkRun cfg x t := by
  simp [linkRun, linkHref]
@[simp] theorem imageRun_ws (cfg : PartCfg) (x : Xml) (n : String) : imageRun cfg (wsX x) n = imageRun cfg x n := by
  simp [imageRun]


/-! ## depth -/

mutual
theorem nearestPar_ws : (x : Xml) → nearestPar (wsX x) = nearestPar x
  | .elem i p t m a tx tl ks => by
    have hp := wsX_ptag (.elem i p t m a tx tl ks)
    simp only [wsX] at hp
    simp only [wsX, nearestPar, hp, nearestParL_ws ks]
  | .comment _ _ => rfl
  | .pi _ => rfl
theorem nearestParL_ws : (ks : List Xml) → nearestParL (wsL ks) = nearestParL ks
  | [] => rfl
  | k :: ks => by simp only [wsL, nearestParL, nearestPar_ws k, nearestParL_ws ks]
end

@[simp] theorem elemDepth_ws (x : Xml) : elemDepth (wsX x) = elemDepth x := by
  simp [elemDepth, nearestPar_ws]

/-! ## markers below a hyperlink -/

mutual
theorem descTagged_ws (q : QName) : (x : Xml) → descTagged q (wsX x) = (descTagged q x).map wsX
  | .elem i p t m a tx tl ks => by
    simp only [wsX, descTagged, List.map_append, descTaggedL_ws q ks]
    split <;> simp [wsX]
  | .comment _ _ => rfl
  | .pi _ => rfl
theorem descTaggedL_ws (q : QName) : (ks : List Xml) → descTaggedL q (wsL ks) = (descTaggedL q ks).map wsX
  | [] => rfl
  | k :: ks => by simp only [wsL, descTaggedL, List.map_append, descTagged_ws q k, descTaggedL_ws q ks]
end

theorem foldIds_ws (f : DC → Str → M DC) : ∀ (ms : List Xml) (s : DC), foldIds f s (ms.map wsX) = foldIds f s ms
  | [], s => rfl
  | m :: ms, s => by
    simp only [List.map_cons, foldIds, wsX_attrReq]
    cases m.attrReq (lit "w") (lit "id") with
    | error e => rfl
    | ok id =>
      simp only [ok_bind]
      cases f s id with
      | error e => rfl
      | ok s1 => simp only [ok_bind]; exact foldIds_ws f ms s1

theorem openHyperlink_ws (cfg : PartCfg) (s : DC) (x : Xml) (roots : List (List Nest)) :
    openHyperlink cfg s (wsX x) roots = openHyperlink cfg s x roots := by
  unfold openHyperlink
  simp only [wsX_wq, wsX_kids, descTaggedL_ws, foldIds_ws, linkRun_ws]

/-! ## the open and close steps -/

theorem openStep_ws (cfg : PartCfg) (s : DC) (x : Xml) (c : Bool) (roots : List (List Nest)) (he : x.isElem = true)
    (hm : tagMember x.ptag = some "MATH" → (wsX x).itertext = x.itertext) :
    openStep cfg s (wsX x) c roots = openStep cfg s x c roots := by
  unfold openStep
  rw [wsX_ptag]
  generalize hmm : tagMember x.ptag = mm at hm
  have hk : ∀ name, mm = some name → (name = "TEXT" ∨ name = "TEXT_MATH") → (wsX x).text? = x.text? := by
    intro name h1 h2
    apply wsX_text_keep x _ he
    rcases h2 with rfl | rfl <;> simp [keepsText, hmm, h1]
  split
  all_goals first
    | (simp only [openParagraph_ws, commenceRun_ws, wsX_attrReq, symCode_ws, noteLabel_ws, openHyperlink_ws,
        checkBoxEntry_ws, ddListEntry_ws, imageRun_ws, wsX_attrGet]; done)
    | (rw [hk "TEXT" rfl (Or.inl rfl)]; done)
    | (rw [hk "TEXT_MATH" rfl (Or.inr rfl)]; done)
    | (rw [hm rfl]; done)
    | skip

@[simp] theorem closeTableCell_ws (dup : Bool) (s : DC) (tc : Xml) : closeTableCell dup s (wsX tc) = closeTableCell dup s tc := by
  simp [closeTableCell]

@[simp] theorem closeStep_ws (cfg : PartCfg) (s : DC) (x : Xml) : closeStep cfg s (wsX x) = closeStep cfg s x := by
  unfold closeStep closeStepCore
  simp only [wsX_ptag, closeTableCell_ws, elemDepth_ws]

theorem isCellTag_ws (x : Xml) : isCellTag (wsX x) = isCellTag x := by simp [isCellTag]

/-! ## the walk -/

mutual
theorem walk_ws (cfg : PartCfg) (num : Dict Str (List NumAttr)) :
    (x : Xml) → mathTight x → ∀ (c : Bool) (s : DC), walk cfg num c s (wsX x) = walk cfg num c s x
  | .elem i p t m a tx tl ks, hn, c, s => by
    simp only [mathTight] at hn
    have hd := elemDepth_ws (.elem i p t m a tx tl ks)
    have hp := wsX_ptag (.elem i p t m a tx tl ks)
    have hc := isCellTag_ws (.elem i p t m a tx tl ks)
    have ho := fun s1 roots => openStep_ws cfg s1 (.elem i p t m a tx tl ks) c roots rfl hn.1
    have hcl := fun s3 => closeStep_ws cfg s3 (.elem i p t m a tx tl ks)
    simp only [wsX] at hd hp hc ho hcl ⊢
    simp only [walk, hd, hp, hc, textBelowL_ws cfg num ks hn.2, ho, hcl]
    congr 1; funext s1
    congr 1; funext roots
    congr 1; funext rr
    have e3 : (if rr.2 = true then walkL cfg num (c || isCellTag (.elem i p t m a tx tl ks)) rr.1 (wsL ks) else pure rr.1)
        = (if rr.2 = true then walkL cfg num (c || isCellTag (.elem i p t m a tx tl ks)) rr.1 ks else pure rr.1) := by
      split
      · exact walkL_ws cfg num ks hn.2 _ _
      · rfl
    rw [e3]
  | .comment _ _, _, _, _ => rfl
  | .pi _, _, _, _ => rfl
theorem walkL_ws (cfg : PartCfg) (num : Dict Str (List NumAttr)) :
    (ks : List Xml) → mathTightL ks → ∀ (c : Bool) (s : DC), walkL cfg num c s (wsL ks) = walkL cfg num c s ks
  | [], _, _, _ => rfl
  | k :: ks, hn, c, s => by
    simp only [mathTightL] at hn
    simp only [wsL, walkL, walk_ws cfg num k hn.1 c s]
    congr 1; funext s1
    exact walkL_ws cfg num ks hn.2 c s1
theorem textBelowL_ws (cfg : PartCfg) (num : Dict Str (List NumAttr)) :
    (ks : List Xml) → mathTightL ks → ∀ (c : Bool), textBelowL cfg num c (wsL ks) = textBelowL cfg num c ks
  | [], _, _ => rfl
  | k :: ks, hn, c => by
    simp only [mathTightL] at hn
    simp only [wsL, textBelowL, walk_ws cfg num k hn.1 c _, textBelowL_ws cfg num ks hn.2 c]
end

/-- **C18: white space between elements is invisible.** The collector built from a part with every
tail and every text outside text nodes cleared is the collector built from the part itself. -/
theorem C18_ws_walk (cfg : PartCfg) (num : Dict Str (List NumAttr)) (root : Xml) (c : Bool) (h : mathTight root) :
    newDepthCollector cfg num (wsX root) c = newDepthCollector cfg num root c := by
  unfold newDepthCollector
  rw [walk_ws cfg num root h c _]

namespace Ex
/-- non-vacuity: a pretty-printed paragraph (newlines and indentation between the elements) -/
def pretty : Xml :=
  .elem 1 (some (lit "w")) ⟨some W, lit "p"⟩ ns [] (some (lit "\n    ")) (some (lit "\n")) [
    .elem 2 (some (lit "w")) ⟨some W, lit "r"⟩ ns [] (some (lit "\n      ")) (some (lit "\n    ")) [
      .elem 3 (some (lit "w")) ⟨some W, lit "t"⟩ ns [] (some (lit "a b")) (some (lit "\n    ")) []],
    .comment (lit "note") (some (lit "\n  "))]

example : mathTight pretty := by
  simp only [pretty, mathTight, mathTightL, and_true]
  refine ⟨by decide, by decide, by decide⟩

example : (newDepthCollector cfg [] (wsX pretty)).map texts = .ok [lit "a b"] := by decide +kernel
example : (wsX pretty).kids.map (·.tail?) = [none, none] ∧ (wsX pretty).text? = none := by decide +kernel
end Ex

end D2P
