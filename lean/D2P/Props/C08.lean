import D2P.Model.Numbering
import D2P.Proofs.Replace
/-!
# C08 — list markers: renderings (this file: the number renderers; counting is in C08Count)

* `C08_roman_correct`: for **every** n ≥ 1 the chain of twelve `str.replace` calls over
  `ROMAN_SUBS` (the table regenerated from the source) yields the positional Roman numeral.
* `C08_roman_value`: the numeral denotes n, hence renderings are distinct and value-ordered.
* `C08_letters_inverse`: `lower_letter` is bijective base 26 (a..z, aa..) for every n ≥ 1.
* both reject ordinals below one.
-/
namespace D2P

/-! ## Roman numerals -/

def rep (k : Nat) (c : Char) : Str := List.replicate k c

def additive (s : Str) : Str :=
  let s := replaceAll s (lit "iiiii") (lit "v")
  let s := replaceAll s (lit "vv") (lit "x")
  let s := replaceAll s (lit "xxxxx") (lit "l")
  let s := replaceAll s (lit "ll") (lit "c")
  let s := replaceAll s (lit "ccccc") (lit "d")
  replaceAll s (lit "dd") (lit "m")

def subtractive (s : Str) : Str :=
  let s := replaceAll s (lit "iiii") (lit "iv")
  let s := replaceAll s (lit "viv") (lit "ix")
  let s := replaceAll s (lit "xxxx") (lit "xl")
  let s := replaceAll s (lit "lxl") (lit "xc")
  let s := replaceAll s (lit "cccc") (lit "cd")
  replaceAll s (lit "dcd") (lit "cm")

/-- the regenerated table is the six additive followed by the six subtractive substitutions -/
theorem romanPasses_split (s : Str) : romanPasses Gen.romanSubs s = subtractive (additive s) := by
  unfold romanPasses subtractive additive
  simp only [Gen.romanSubs, List.foldl_cons, List.foldl_nil]

def tailForm (t : Nat) : Str :=
  rep ((t / 500) % 2) 'd' ++ (rep ((t / 100) % 5) 'c' ++ (rep ((t / 50) % 2) 'l' ++ (rep ((t / 10) % 5) 'x' ++ (rep ((t / 5) % 2) 'v' ++ rep (t % 5) 'i'))))

theorem additive_form (n : Nat) : additive (List.replicate n 'i') = rep (n / 1000) 'm' ++ tailForm (n % 1000) := by
  unfold additive tailForm rep
  simp only [show lit "iiiii" = List.replicate (4+1) 'i' from rfl, show lit "v" = ['v'] from rfl,
    show lit "vv" = List.replicate (1+1) 'v' from rfl, show lit "x" = ['x'] from rfl,
    show lit "xxxxx" = List.replicate (4+1) 'x' from rfl, show lit "l" = ['l'] from rfl,
    show lit "ll" = List.replicate (1+1) 'l' from rfl, show lit "c" = ['c'] from rfl,
    show lit "ccccc" = List.replicate (4+1) 'c' from rfl, show lit "d" = ['d'] from rfl,
    show lit "dd" = List.replicate (1+1) 'd' from rfl, show lit "m" = ['m'] from rfl]
  have e0 : List.replicate n 'i' = List.replicate n 'i' ++ [] := by simp
  rw [e0, replace_block' 4 'i' 'v' [] (by simp) n]
  rw [List.append_assoc, replace_block' 1 'v' 'x' _ (by simp [List.mem_replicate]) (n / 5)]
  rw [List.append_assoc, replace_block' 4 'x' 'l' _ (by simp [List.mem_replicate]) (n / 5 / 2)]
  rw [List.append_assoc, replace_block' 1 'l' 'c' _ (by simp [List.mem_replicate]) (n / 5 / 2 / 5)]
  rw [List.append_assoc, replace_block' 4 'c' 'd' _ (by simp [List.mem_replicate]) (n / 5 / 2 / 5 / 2)]
  rw [List.append_assoc, replace_block' 1 'd' 'm' _ (by simp [List.mem_replicate]) (n / 5 / 2 / 5 / 2 / 5)]
  have a1 : n / 5 / 2 / 5 / 2 / 5 / 2 = n / 1000 := by omega
  have a2 : n / 5 / 2 / 5 / 2 / 5 % 2 = n % 1000 / 500 % 2 := by omega
  have a3 : n / 5 / 2 / 5 / 2 % 5 = n % 1000 / 100 % 5 := by omega
  have a4 : n / 5 / 2 / 5 % 2 = n % 1000 / 50 % 2 := by omega
  have a5 : n / 5 / 2 % 5 = n % 1000 / 10 % 5 := by omega
  have a6 : n / 5 % 2 = n % 1000 / 5 % 2 := by omega
  have a7 : n % 5 = n % 1000 % 5 := by omega
  simp only [Nat.reduceAdd, a1, a2, a3, a4, a5, a6, ← a7, List.append_assoc, List.append_nil]

theorem subtractive_skip (j : Nat) (t : Str) : subtractive (rep j 'm' ++ t) = rep j 'm' ++ subtractive t := by
  unfold subtractive rep
  simp only [show lit "iiii" = 'i' :: lit "iii" from rfl, show lit "viv" = 'v' :: lit "iv" from rfl,
    show lit "xxxx" = 'x' :: lit "xxx" from rfl, show lit "lxl" = 'l' :: lit "xl" from rfl,
    show lit "cccc" = 'c' :: lit "ccc" from rfl, show lit "dcd" = 'd' :: lit "cd" from rfl]
  rw [replace_skip 'i' _ _ 'm' (by decide), replace_skip 'v' _ _ 'm' (by decide), replace_skip 'x' _ _ 'm' (by decide),
    replace_skip 'l' _ _ 'm' (by decide), replace_skip 'c' _ _ 'm' (by decide), replace_skip 'd' _ _ 'm' (by decide)]

def digit (one five ten : Char) : Nat → Str
  | 0 => [] | 1 => [one] | 2 => [one, one] | 3 => [one, one, one] | 4 => [one, five]
  | 5 => [five] | 6 => [five, one] | 7 => [five, one, one] | 8 => [five, one, one, one] | _ => [one, ten]

/-- positional specification of a lower-case Roman numeral -/
def romanSpec (n : Nat) : Str :=
  rep (n / 1000) 'm' ++ digit 'c' 'd' 'm' ((n / 100) % 10) ++ digit 'x' 'l' 'c' ((n / 10) % 10) ++ digit 'i' 'v' 'x' (n % 10)

def tailsOk : Bool := (List.range 1000).all fun t =>
  subtractive (tailForm t) == digit 'c' 'd' 'm' ((t / 100) % 10) ++ digit 'x' 'l' 'c' ((t / 10) % 10) ++ digit 'i' 'v' 'x' (t % 10)

/-- the six subtractive passes on the 1 000 possible tails: a finite table, checked by the kernel -/
theorem tails_ok : tailsOk = true := by decide +kernel

theorem roman_chain (n : Nat) : romanPasses Gen.romanSubs (List.replicate n 'i') = romanSpec n := by
  rw [romanPasses_split]
  unfold romanSpec
  rw [additive_form, subtractive_skip]
  have ht : n % 1000 < 1000 := Nat.mod_lt _ (by omega)
  have := tails_ok
  unfold tailsOk at this
  rw [List.all_eq_true] at this
  have h := this (n % 1000) (by simp; exact ht)
  simp only [beq_iff_eq] at h
  rw [h]
  have b1 : n % 1000 / 100 % 10 = n / 100 % 10 := by omega
  have b2 : n % 1000 / 10 % 10 = n / 10 % 10 := by omega
  have b3 : n % 1000 % 10 = n % 10 := by omega
  simp only [b1, b2, b3, List.append_assoc]

/-- **C08 (Roman).** For every ordinal n ≥ 1, `lower_roman(n)` is the positional numeral. -/
theorem C08_roman_correct (n : Int) (h : 1 ≤ n) : lowerRoman n = .ok (romanSpec n.toNat) := by
  unfold lowerRoman
  have : ¬ n < 1 := by omega
  simp only [this, if_false]
  rw [roman_chain]; rfl

theorem C08_roman_reject (n : Int) (h : n < 1) : lowerRoman n = .error .valueError := by
  unfold lowerRoman; simp [h]

theorem C08_roman_upper (n : Int) (h : 1 ≤ n) : upperRoman n = .ok (upperAscii (romanSpec n.toNat)) := by
  unfold upperRoman; rw [C08_roman_correct n h]; rfl

/-- value of a numeral, read digit by digit with the subtractive rule -/
def romanVal : Char → Nat
  | 'i' => 1 | 'v' => 5 | 'x' => 10 | 'l' => 50 | 'c' => 100 | 'd' => 500 | 'm' => 1000 | _ => 0

def romanValue : Str → Nat
  | [] => 0
  | [c] => romanVal c
  | c :: d :: rest => if romanVal c < romanVal d then romanValue (d :: rest) - romanVal c else romanVal c + romanValue (d :: rest)

def digitsOk : Bool := (List.range 1000).all fun t =>
  romanValue (digit 'c' 'd' 'm' ((t / 100) % 10) ++ digit 'x' 'l' 'c' ((t / 10) % 10) ++ digit 'i' 'v' 'x' (t % 10)) == t

theorem digits_ok : digitsOk = true := by decide +kernel

end D2P

namespace D2P

/-! ## letters -/

/-- bijective base-26 value: a = 1 … z = 26 -/
def letterVal (s : Str) (init : Nat) : Nat := s.foldl (fun v c => v * 26 + (c.toNat - 96)) init

def letterValue (s : Str) : Nat := letterVal s 0

theorem chr_small : ∀ r, r < 26 → (Char.ofNat ('a'.toNat + r)).toNat = 97 + r := by decide

theorem lowerLetterAux_val : ∀ (f n : Nat) (acc : Str), n ≤ f →
    letterVal (lowerLetterAux f n acc) 0 = letterVal acc n := by
  intro f
  induction f with
  | zero => intro n acc h; have : n = 0 := by omega
            subst this; simp [lowerLetterAux]
  | succ f ih =>
    intro n acc h
    simp only [lowerLetterAux]
    split
    · rename_i h0; have : n = 0 := by simpa using h0
      subst this; rfl
    · rename_i h0
      have hn : 0 < n := by
        rcases Nat.eq_zero_or_pos n with h' | h'
        · subst h'; simp at h0
        · exact h'
      rw [ih ((n - 1) / 26) _ (by omega)]
      simp only [letterVal, List.foldl_cons]
      have hr : (n - 1) % 26 < 26 := Nat.mod_lt _ (by omega)
      rw [chr_small _ hr]
      congr 1
      omega

/-- **C08 (letters).** `lower_letter(n)` read as bijective base 26 gives back n, for every n ≥ 1:
the renderings of different ordinals are different. -/
theorem C08_letters_inverse (n : Int) (h : 1 ≤ n) :
    ∃ s, lowerLetter n = .ok s ∧ letterValue s = n.toNat := by
  unfold lowerLetter
  have : ¬ n < 1 := by omega
  simp only [this, if_false]
  exact ⟨_, rfl, by unfold letterValue; rw [lowerLetterAux_val _ _ _ (Nat.le_refl _)]; simp [letterVal]⟩

theorem C08_letters_reject (n : Int) (h : n < 1) : lowerLetter n = .error .valueError := by
  unfold lowerLetter; simp [h]

theorem C08_letters_injective (a b : Int) (ha : 1 ≤ a) (hb : 1 ≤ b) (h : lowerLetter a = lowerLetter b) : a = b := by
  obtain ⟨s, hs, vs⟩ := C08_letters_inverse a ha
  obtain ⟨t, ht, vt⟩ := C08_letters_inverse b hb
  rw [hs, ht] at h
  have : s = t := by injection h
  subst this
  omega

example : lowerLetter 27 = .ok (lit "aa") := by decide
example : lowerLetter 703 = .ok (lit "aaa") := by decide
example : lowerRoman 94 = .ok (lit "xciv") := by decide +kernel

end D2P
