import D2P.Model.Output
import D2P.Proofs.Dict
/-!
# C12 — comments: the degenerate cases, and what a range marker records

* `C12_no_comments_part`: a package without a part related as `comments` yields `[]`;
* `C12_mismatch`: different numbers of ranges and of comment entries yield `[]`
  (the code warns; warnings are not modelled);
* `C12_marker_records_count`: a range marker records the number of run strings emitted so far,
  the closing tag of a paragraph that is still open not being counted (repaired behaviour, P9).
The main theorem (`C12_ranges`: that count *is* the index in the final `body_runs`) is still to
do — DESIGN §9/C12.
-/
namespace D2P

theorem C12_no_comments_part (o : Opts) (a : Archive) (files : List Rel) (doc : Rel) (rest : List Rel) (dc : DC)
    (hf : a.files = .ok files) (hd : filesOfType files [lit "officeDocument"] = doc :: rest)
    (hc : partCollector o a files (numId2Attrs a) doc = .ok dc)
    (hn : filesOfType files [lit "comments"] = []) :
    comments o a = .ok [] := by
  unfold comments
  simp only [hf, ok_bind, hd, hc, hn]
  show (if (dc.ranges.length != ([] : List Xml).length) = true then pure [] else _) = _
  split
  · rfl
  · rfl

theorem C12_mismatch (o : Opts) (a : Archive) (files : List Rel) (doc : Rel) (rest : List Rel) (dc : DC)
    (cf : Rel) (crest : List Rel) (croot : Xml)
    (hf : a.files = .ok files) (hd : filesOfType files [lit "officeDocument"] = doc :: rest)
    (hc : partCollector o a files (numId2Attrs a) doc = .ok dc)
    (hn : filesOfType files [lit "comments"] = cf :: crest) (hr : a.readXml cf.path = .ok croot)
    (hne : dc.ranges.length ≠ (croot.kids.filter Xml.isElem).length) :
    comments o a = .ok [] := by
  unfold comments
  simp only [hf, ok_bind, hd, hc, hn, hr]
  have : (dc.ranges.length != (croot.kids.filter Xml.isElem).length) = true := by simpa using hne
  show (if (dc.ranges.length != (croot.kids.filter Xml.isElem).length) = true then pure [] else _) = _
  rw [if_pos this]; rfl

/-- what a start marker records -/
theorem C12_marker_records_count (s s' : DC) (id : Str) (n : Nat) (hc : s.countRuns = .ok n)
    (h : s.startRange id = .ok s') : s'.ranges.get? id = some (n, n) := by
  unfold DC.startRange at h
  simp only [hc, ok_bind] at h
  have := pure_ok h; subst this
  exact D2P.Dict.get?_set_eq _ _ _

end D2P
