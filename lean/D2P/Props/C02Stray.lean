import D2P.Props.C02Implicit
import D2P.Proofs.InlineWalk
/-!
# C02 — inline content outside every paragraph: its own record, its own text, its own place

`walk_ensure`: for an element whose first effect on the collector is to make sure a paragraph is open
(`opensFirst`: a `w:r`, an `m:oMath`, or a wrapper the walk does not know whose first child is such —
`m:oMathPara`), walking from `s` is walking from `s` after `ensurePar`.  With nothing open, `ensurePar`
opens an implicit paragraph holding the queued note label (`ensurePar_empty_spec`); `walk_flat` then
says the element appends exactly its `inlineText` there.

`C02_stray_block`: such an element walked while nothing is open leaves ONE open paragraph, implicit,
whose text is the queued label followed by the element's `inlineText`; nothing already collected
changes.  `C02_stray_then_paragraph`: followed by a paragraph that encloses no other, the records
appended are, in this order, that implicit paragraph and the paragraph's record.
-/
namespace D2P

mutual
def opensFirst : Xml → Bool
  | .elem i p t m a tx tl ks =>
    match tagMember (Xml.elem i p t m a tx tl ks).ptag with
    | some "RUN" => true
    | some "MATH" => true
    | none => opensFirstL ks
    | _ => false
  | _ => false
def opensFirstL : List Xml → Bool
  | [] => false
  | k :: _ => opensFirst k
end

theorem ensurePar_idem (html : Bool) (s s1 : DC) (h : s.ensurePar html = .ok s1) : s1.ensurePar html = .ok s1 := by
  have hne : s1.openPars ≠ [] := by
    unfold DC.ensurePar at h
    split at h
    · have e := commencePar_elems html s s1 none false h
      intro h0
      have : elems s1 = [] := by simp [elems, h0]
      rw [this] at e; simp at e
    · rename_i hn
      have := pure_ok h; subst this
      intro h0; rw [h0] at hn; simp at hn
  unfold DC.ensurePar
  have : s1.openPars.isEmpty = false := by cases hq : s1.openPars with | nil => exact absurd hq hne | cons _ _ => rfl
  simp [this]; rfl

theorem commenceRun_ensure (html : Bool) (s s1 : DC) (e : Option Xml) (h1 : s.ensurePar html = .ok s1) :
    s.commenceRun html e = s1.commenceRun html e := by
  unfold DC.commenceRun
  rw [h1, ensurePar_idem html s s1 h1]

theorem ensureRun_ensure (html : Bool) (s s1 : DC) (h1 : s.ensurePar html = .ok s1) : s.ensureRun html = s1.ensureRun html := by
  unfold DC.ensureRun
  rw [h1, ensurePar_idem html s s1 h1]

theorem insertNewRun_ensure (html : Bool) (s s1 : DC) (t : Str) (h1 : s.ensurePar html = .ok s1) :
    s.insertNewRun html t = s1.insertNewRun html t := by
  unfold DC.insertNewRun
  rw [ensureRun_ensure html s s1 h1]

theorem commenceRun_needs_par (html : Bool) (s s' : DC) (e : Option Xml) (h : s.commenceRun html e = .ok s') :
    ∃ s1, s.ensurePar html = .ok s1 := by
  unfold DC.commenceRun at h
  obtain ⟨_, _, h⟩ := bind_ok h
  obtain ⟨s1, h1, _⟩ := bind_ok h
  exact ⟨s1, h1⟩

theorem insertNewRun_needs_par (html : Bool) (s s' : DC) (t : Str) (h : s.insertNewRun html t = .ok s') :
    ∃ s1, s.ensurePar html = .ok s1 := by
  unfold DC.insertNewRun DC.ensureRun at h
  obtain ⟨_, h, _⟩ := bind_ok h
  obtain ⟨s1, h1, _⟩ := bind_ok h
  exact ⟨s1, h1⟩

mutual
/-- walking an element that opens a paragraph first = walking it after `ensurePar` -/
theorem walk_ensure (cfg : PartCfg) (num : Dict Str (List NumAttr)) :
    (x : Xml) → opensFirst x = true → flatInline x = true → ∀ (c : Bool) (s s' : DC), walk cfg num c s x = .ok s' →
      ∃ s1, s.ensurePar cfg.html = .ok s1 ∧ walk cfg num c s1 x = .ok s'
  | .elem i p t m a tx tl ks, ho, hf, c, s, s', h => by
    have hd := elemDepth_flat _ hf
    simp only [flatInline, Bool.and_eq_true, Bool.not_eq_true'] at hf
    simp only [opensFirst] at ho
    have hl : ((Xml.elem i p t m a tx tl ks).ptag == hyperlinkTag) = false := by
      cases hb : ((Xml.elem i p t m a tx tl ks).ptag == hyperlinkTag) with
      | false => rfl
      | true =>
        have e : (Xml.elem i p t m a tx tl ks).ptag = hyperlinkTag := by simpa using hb
        rw [e, tagMember_hyperlink] at ho; simp at ho
    simp only [walk, hd, setCaretOpen_none, ok_bind, hl, Bool.false_eq_true, if_false] at h ⊢
    obtain ⟨roots, hr, h⟩ := bind_ok h
    have := pure_ok hr; subst this
    simp only [pure, Except.pure, ok_bind]
    cases hm : tagMember (Xml.elem i p t m a tx tl ks).ptag with
    | none =>
      rw [hm] at ho
      have hop : ∀ z, openStep cfg z (.elem i p t m a tx tl ks) c [] = .ok (z, true) := by
        intro z; unfold openStep; rw [hm]; rfl
      rw [hop] at h
      simp only [ok_bind, if_true] at h
      obtain ⟨s3, h3, h⟩ := bind_ok h
      obtain ⟨s1, h1, h3'⟩ := walkL_ensure cfg num ks ho hf.2 (c || isCellTag (.elem i p t m a tx tl ks)) s s3 h3
      refine ⟨s1, h1, ?_⟩
      rw [hop]; simp only [ok_bind, if_true, h3']
      exact h
    | some mem =>
      rw [hm] at ho
      have hmem : mem = "RUN" ∨ mem = "MATH" := by
        by_cases h1 : mem = "RUN"
        · exact Or.inl h1
        · by_cases h2 : mem = "MATH"
          · exact Or.inr h2
          · exfalso; revert ho; split <;> simp_all
      obtain ⟨⟨s2, rec⟩, h2, h⟩ := bind_ok h
      rcases hmem with rfl | rfl
      · have e2 : openStep cfg s (.elem i p t m a tx tl ks) c [] = withTrue (s.commenceRun cfg.html (some (.elem i p t m a tx tl ks))) := by
          unfold openStep; rw [hm]; rfl
        rw [e2] at h2
        obtain ⟨s1, h1⟩ := commenceRun_needs_par cfg.html s s2 _ (withTrue_ok h2).1
        refine ⟨s1, h1, ?_⟩
        have e2' : openStep cfg s1 (.elem i p t m a tx tl ks) c [] = withTrue (s1.commenceRun cfg.html (some (.elem i p t m a tx tl ks))) := by
          unfold openStep; rw [hm]; rfl
        rw [e2', ← commenceRun_ensure cfg.html s s1 _ h1, h2]
        exact h
      · have e2 : ∀ z, openStep cfg z (.elem i p t m a tx tl ks) c [] = withFalse (z.insertNewRun cfg.html
            (lit "<latex>" ++ (if cfg.html then escapeHtml (Xml.elem i p t m a tx tl ks).itertext else (Xml.elem i p t m a tx tl ks).itertext) ++ lit "</latex>")) := by
          intro z; unfold openStep; rw [hm]; rfl
        rw [e2] at h2
        obtain ⟨s1, h1⟩ := insertNewRun_needs_par cfg.html s s2 _ (withFalse_ok h2).1
        refine ⟨s1, h1, ?_⟩
        rw [e2, ← insertNewRun_ensure cfg.html s s1 _ h1, h2]
        exact h
  | .comment _ _, ho, _, _, _, _, _ => by simp [opensFirst] at ho
  | .pi _, ho, _, _, _, _, _ => by simp [opensFirst] at ho
theorem walkL_ensure (cfg : PartCfg) (num : Dict Str (List NumAttr)) :
    (xs : List Xml) → opensFirstL xs = true → flatInlineL xs = true → ∀ (c : Bool) (s s' : DC), walkL cfg num c s xs = .ok s' →
      ∃ s1, s.ensurePar cfg.html = .ok s1 ∧ walkL cfg num c s1 xs = .ok s'
  | [], ho, _, _, _, _, _ => by simp [opensFirstL] at ho
  | k :: ks, ho, hf, c, s, s', h => by
    simp only [opensFirstL] at ho
    simp only [flatInlineL, Bool.and_eq_true] at hf
    simp only [walkL] at h ⊢
    obtain ⟨s2, h2, h⟩ := bind_ok h
    obtain ⟨s1, h1, h2'⟩ := walk_ensure cfg num k ho hf.1 c s s2 h2
    exact ⟨s1, h1, by rw [h2']; exact h⟩
end

/-- `_open_par` with nothing open: one implicit paragraph holding the queued runs; nothing collected changes -/
theorem ensurePar_empty_spec (html : Bool) (s s1 : DC) (h0 : s.openPars = []) (h : s.ensurePar html = .ok s1) :
    ∃ p0, s1.openPars = [p0] ∧ p0.elem = none ∧ p0.runs = s.queued ∧ leafParsL s1.root = leafParsL s.root ∧
      s1.queued = [] ∧ s1.ranges = s.ranges ∧ s1.bullets = s.bullets := by
  unfold DC.ensurePar at h
  simp only [h0, List.isEmpty_nil, if_true] at h
  unfold DC.commencePar at h
  obtain ⟨s0, hc, h⟩ := bind_ok h
  obtain ⟨hs, _, h⟩ := bind_ok h
  obtain ⟨st, _, h⟩ := bind_ok h
  have f1 := setCaret_frame s s0 _ _ hc
  have e := pure_ok h
  rw [← e]
  refine ⟨{ elem := none, htmlStyle := hs, style := st, lineage := s0.lineage, runs := s0.queued }, ?_, rfl, f1.queued, f1.leaves, rfl, f1.ranges, f1.bullets⟩
  simp [f1.openPars, h0]

/-- **inline content outside every paragraph gets a record of its own with exactly its text.** Walked
while nothing is open, the element leaves one open paragraph, an implicit one, whose text is the
queued note label followed by the element's `inlineText`; tree, ranges and counters are untouched. -/
theorem C02_stray_block (cfg : PartCfg) (num : Dict Str (List NumAttr)) (c : Bool) (x : Xml) (s s' : DC)
    (ho : opensFirst x = true) (hf : flatInline x = true) (h0 : s.openPars = []) (h : walk cfg num c s x = .ok s') :
    ∃ p t, inlineText cfg x = .ok t ∧ s'.openPars = [p] ∧ p.elem = none ∧
      parText p = sjoin (s.queued.map (·.text)) ++ t ∧ leafParsL s'.root = leafParsL s.root ∧
      s'.queued = [] ∧ s'.ranges = s.ranges ∧ s'.bullets = s.bullets := by
  obtain ⟨s1, h1, hw⟩ := walk_ensure cfg num x ho hf c s s' h
  obtain ⟨p0, o1, e1, r1, l1, q1, g1, b1⟩ := ensurePar_empty_spec cfg.html s s1 h0 h1
  obtain ⟨t, ht, g⟩ := walk_flat cfg num x c s1 s' hf ⟨p0, by rw [o1]; rfl⟩ hw
  obtain ⟨q, q', hq, hq', hmeta, htext⟩ := g.top
  have hq0 : q = p0 := by rw [o1] at hq; exact (Option.some.inj hq).symm
  subst hq0
  have hone : s'.openPars = [q'] := by
    have hb := g.below
    rw [o1] at hb
    have hne : s'.openPars ≠ [] := by intro e; rw [e] at hq'; cases hq'
    have := List.dropLast_concat_getLast hne
    rw [hb] at this
    have hl : s'.openPars.getLast hne = q' := by
      rw [List.getLast?_eq_some_getLast hne] at hq'; exact Option.some.inj hq'
    rw [hl] at this
    simpa using this.symm
  refine ⟨q', t, ht, hone, ?_, ?_, ?_, ?_, ?_, ?_⟩
  · have := congrArg (·.1) hmeta; simp only [parMeta] at this; rw [this]; exact e1
  · rw [htext]; simp only [parText, r1]
  · rw [g.root, l1]
  · rw [g.queued, q1]
  · rw [g.ranges, g1]
  · rw [g.bullets, b1]

/-- **… and its own place**: followed by a paragraph that encloses no other paragraph, the records
appended to the document order are, in this order, the implicit paragraph with the stray content's
text and the paragraph's record (element, text = list marker ++ `inlineText` of its children). -/
theorem C02_stray_then_paragraph (cfg : PartCfg) (num : Dict Str (List NumAttr)) (c : Bool) (x : Xml) (s s1 s' : DC)
    (ho : opensFirst x = true) (hf : flatInline x = true) (h0 : s.openPars = [])
    (i : Nat) (pf : Option Str) (t : QName) (m : NsMap) (a : List (QName × Str)) (tx tl : Option Str) (ks : List Xml)
    (hx : (Xml.elem i pf t m a tx tl ks).ptag = paragraphTag) (hk : flatInlineL ks = true)
    (h1 : walk cfg num c s x = .ok s1) (h2 : walk cfg num c s1 (.elem i pf t m a tx tl ks) = .ok s') :
    ∃ p par tx0 body bb, inlineText cfg x = .ok tx0 ∧ inlineTextL cfg ks = .ok body ∧
      getBullet s.bullets (.elem i pf t m a tx tl ks) i = .ok bb ∧
      leafParsL s'.root = leafParsL s.root ++ [p, par] ∧
      p.elem = none ∧ parText p = sjoin (s.queued.map (·.text)) ++ tx0 ∧
      par.elem = some i ∧ parText par = bb.2 ++ body ∧ s'.openPars = [] := by
  obtain ⟨p, tx0, ht, hone, he, htext, hl, hq, _, hb⟩ := C02_stray_block cfg num c x s s1 ho hf h0 h1
  have hd := elemDepth_par (.elem i pf t m a tx tl ks) hx rfl
  obtain ⟨s0, hc, hl0, ho0, hw⟩ := C02_implicit_in_order cfg num c s1 s' p hone he i pf t m a tx tl ks 4 hd h2
  obtain ⟨hq0, hb0⟩ : s0.queued = s1.queued ∧ s0.bullets = s1.bullets := by
    obtain ⟨_, _, a3, _, a5⟩ := concludePar_spec s1 s0 p (by rw [hone]; rfl) hc
    exact ⟨a3, a5⟩
  obtain ⟨par, body, bb, e1, e2, _, _, e5, e6, e7, e8, _⟩ :=
    walk_paragraph cfg num c s0 s' i pf t m a tx tl ks hx hk (noImpl_of_closed ho0) hw
  refine ⟨p, par, tx0, body, bb, ht, e6, by rw [← hb, ← hb0]; exact e7, ?_, he, htext, e5, ?_, by rw [e2, ho0]⟩
  · rw [e1, hl0, hl]; simp
  · rw [e8, hq0, hq]; simp [sjoin]

end D2P
