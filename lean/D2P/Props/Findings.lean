import D2P.Props.Examples
import D2P.Model.Output
import D2P.Proofs.Elems
import D2P.Props.C02Stray
import D2P.Props.C02BodyStray
import D2P.Props.C02Notes
import D2P.Props.C02Deep
import D2P.Props.C02DeepCells
import D2P.Props.C02Post
import D2P.Props.C05Post
import D2P.Props.C02PostAny
import D2P.Props.C05PostAny
import D2P.Props.C02PostNodup
/-!
# Open findings, as kernel-checked witnesses

For the genuine defects that are recorded rather than repaired (`known_findings.json`) the model
exhibits the same behaviour as the code; here witness inputs are evaluated in the
kernel, so that "the property is false of the model at this input" is itself a checked statement (and
stops checking the day the behaviour is repaired in code and model).
-/
namespace D2P.Ex

def cfgFindingsHtml : PartCfg := { html := true, dup := true, rels := [] }
def MNS : Str := lit "http://schemas.openxmlformats.org/officeDocument/2006/math"
def mel (id : Nat) (name : String) (text : Option Str) (kids : List Xml) : Xml :=
  .elem id (some (lit "m")) ⟨some MNS, lit name⟩ ns [] text none kids

def runStrs (dc : DC) : M (List (List Str)) := (leafParsL dc.root).mapM (fun q => q.runStrings)

/-- an italic run holding text, a phonetic guide (two nested runs), and text again -/
def rubyDoc : Xml :=
  el 0 "body" [] none [p 1 [el 2 "r" [] none [el 3 "rPr" [] none [el 4 "i" [] none []], t 5 "pre ",
    el 6 "ruby" [] none [el 7 "rt" [] none [r 8 [t 9 "kana"]], el 10 "rubyBase" [] none [r 11 [t 12 "kanji"]]], t 13 " post"]]]

/-- **C07-text-after-nested-run**: the text before the nested runs is italic, the text after them is not -/
theorem C07_finding_nested_run :
    (newDepthCollector cfgFindingsHtml [] rubyDoc >>= runStrs) = .ok [[lit "<i>pre </i>", lit "kana", lit "kanji", lit " post"]] := by
  decide +kernel

/-- a, a display equation directly in the body, b, c -/
def strayDoc : Xml :=
  el 0 "body" [] none [p 1 [r 2 [t 3 "a"]],
    mel 4 "oMathPara" none [mel 5 "oMath" none [mel 6 "r" none [mel 7 "t" (some (lit "z")) []]]],
    p 8 [r 9 [t 10 "b"]], p 11 [r 12 [t 13 "c"]]]

/-- **C12-inline-content-outside-paragraph, repaired**: the equation's implicit paragraph is concluded
where the next block begins (`conclude_implicit_paragraph`) — before the repair it came out after `c`,
when the part ended -/
theorem C12_repaired_stray_inline :
    (newDepthCollector cfg [] strayDoc >>= runStrs) = .ok [[lit "a"], [lit "<latex>z</latex>"], [lit "b"], [lit "c"]] := by
  decide +kernel

/-- non-vacuity of `C02_implicit_in_order_reachable`: walking a stray run from the initial state leaves
exactly one open paragraph, an implicit one -/
theorem stray_run_pending :
    (match walkL cfg [] false ({ bullets := { numAttrs := [] } } : DC) [r 2 [t 3 "stray"]] with
      | .ok s => some (elems s) | .error _ => none) = some [none] := by
  decide +kernel

/-- non-vacuity of `C02_stray_block` / `C02_stray_then_paragraph`: a display equation directly in the
body and a stray run both meet the hypotheses -/
def strayEq : Xml := mel 4 "oMathPara" none [mel 5 "oMath" none [mel 6 "r" none [mel 7 "t" (some (lit "z")) []]]]
theorem stray_hypotheses :
    opensFirst strayEq = true ∧ flatInline strayEq = true ∧
    opensFirst (r 2 [t 3 "stray"]) = true ∧ flatInline (r 2 [t 3 "stray"]) = true := by
  decide +kernel

/-- an italic run OUTSIDE every paragraph holding text, a text box, and text again -/
def boxDoc : Xml :=
  el 0 "body" [] none [p 1 [r 2 [t 3 "a"]],
    el 4 "r" [] none [el 5 "rPr" [] none [el 6 "i" [] none []], t 7 "pre ",
      el 8 "txbxContent" [] none [p 9 [r 10 [t 11 "boxed"]]], t 12 " post"],
    p 13 [r 14 [t 15 "b"]]]

/-- **C07-text-after-text-box-in-implicit-run**: everything is in document order (13.30), but the text after the
box starts an unformatted run in a new implicit paragraph (and closing the run leaves an empty one behind) -/
theorem C07_finding_text_after_box :
    (newDepthCollector cfgFindingsHtml [] boxDoc >>= runStrs) =
      .ok [[lit "a"], [lit "<i>pre </i>"], [lit "boxed"], [lit " post"], [], [lit "b"]] := by
  decide +kernel

/-- non-vacuity of `C02_items`: paragraph, display equation, paragraph, and a final group of a stray run and an equation -/
theorem items_ok :
    okSeq false [.blk (p 1 [r 2 [t 3 "a"]]), .grp [strayEq], .blk (p 8 [r 9 [t 10 "b"]]), .grp [r 20 [t 21 "s"], strayEq]] = true := by
  decide +kernel

/-- non-vacuity of `C02_part`: the body of `strayDoc` (paragraph, display equation, two paragraphs) meets its
hypotheses — the children form an admissible sequence and no label is left queued -/
theorem part_hypotheses :
    itemsOK strayDoc.kids = true ∧
    (match walk cfg [] false ({ bullets := { numAttrs := [] } } : DC) strayDoc with
      | .ok s5 => s5.queued.isEmpty | .error _ => false) = true := by
  decide +kernel

/-- a notes part: a separator note, a note holding only a display equation, a note with a paragraph and an equation -/
def notesDoc : Xml :=
  el 0 "footnotes" [] none [
    el 1 "footnote" [wattr "type" "separator", wattr "id" "-1"] none [p 2 [r 3 [el 4 "separator" [] none []]]],
    el 5 "footnote" [wattr "id" "1"] none [strayEq],
    el 10 "footnote" [wattr "id" "2"] none [p 11 [r 12 [t 13 "n2"]], strayEq]]

/-- non-vacuity of `C02_notes_part`, and the repaired behaviour of 13.33 as a kernel-checked value: every note keeps
its label and its text -/
theorem notes_part_witness :
    notesPartOK notesDoc = true ∧
    (match walk cfg [] false ({ bullets := { numAttrs := [] } } : DC) notesDoc with
      | .ok s5 => s5.queued.isEmpty | .error _ => false) = true ∧
    (newDepthCollector cfg [] notesDoc >>= runStrs) =
      .ok [[], [lit "footnote1)\t", lit "<latex>z</latex>"], [lit "footnote2)\t", lit "n2"], [lit "<latex>z</latex>"]] := by
  decide +kernel

/-- non-vacuity of `C02_document` / `C02_part_decidable`: `w:document` > `w:body` > (paragraph, display equation, two
paragraphs) meets every hypothesis, and the tree it yields -/
def fullDoc : Xml := el 100 "document" [] none [strayDoc]
theorem document_witness :
    partItemsOK fullDoc = true ∧ fullDoc.ptag = documentTag ∧ strayDoc.ptag = bodyTag ∧
    (newDepthCollector cfg [] fullDoc >>= runStrs) = .ok [[lit "a"], [lit "<latex>z</latex>"], [lit "b"], [lit "c"]] := by
  decide +kernel

/-- a body with a content control (`w:sdt` > `w:sdtContent`) holding a paragraph, a display equation and a
`w:customXml` around another paragraph -/
def sdtDoc : Xml :=
  el 0 "body" [] none [p 1 [r 2 [t 3 "a"]],
    el 4 "sdt" [] none [el 5 "sdtPr" [] none [], el 6 "sdtContent" [] none [p 7 [r 8 [t 9 "in"]], strayEq,
      el 14 "customXml" [] none [p 15 [r 16 [t 17 "deep"]]]]],
    p 20 [r 21 [t 22 "z"]]]
def cfgNoDup : PartCfg := { html := false, dup := false, rels := [] }
def cfgDup : PartCfg := { html := false, dup := true, rels := [] }

/-- non-vacuity of `C02_deep_once_in_order`: the hypotheses hold, and both sides of its conclusion evaluate to the
paragraph identities in document order -/
theorem deep_witness :
    deepPartOK sdtDoc = true ∧
    sdtDoc.kids.flatMap (fun k => if deep 6 k then out 6 k else []) = [1, 7, 15, 20] ∧
    (match newDepthCollector cfgNoDup [] sdtDoc with | .ok dc => elemsOf (leafParsL dc.root) | .error _ => []) = [1, 7, 15, 20] := by
  decide +kernel

/-- a body with a paragraph holding a hyperlink, a content control around a paragraph with comment range markers,
a display equation and a paragraph -/
def linkDoc : Xml :=
  el 0 "body" [] none [p 1 [r 2 [t 3 "see "], el 4 "hyperlink" [(⟨some (lit "R"), lit "id"⟩, lit "rId9")] none [r 5 [t 6 "link"]], r 7 [t 8 " end"]],
    el 10 "sdt" [] none [el 11 "sdtContent" [] none [p 12 [el 13 "commentRangeStart" [wattr "id" "0"] none [], r 14 [t 15 "x"], el 16 "commentRangeEnd" [wattr "id" "0"] none []]]],
    strayEq, p 20 [r 21 [t 22 "z"]]]

/-- non-vacuity of `C02_deep_once_in_order` for paragraphs with links and markers (`isSimplePar`) -/
theorem deep_links_witness :
    deepPartOK linkDoc = true ∧
    linkDoc.kids.flatMap (fun k => if deep 6 k then out 6 k else []) = [1, 12, 20] ∧
    (match newDepthCollector cfgNoDup [] linkDoc with | .ok dc => elemsOf (leafParsL dc.root) | .error _ => []) = [1, 12, 20] := by
  decide +kernel

/-- a table whose first cell holds a paragraph with a link, a NESTED table and another paragraph, and whose second cell
spans two columns -/
def tblDoc : Xml :=
  el 0 "body" [] none [p 1 [r 2 [t 3 "a"]],
    tbl 10 [tr 11 [tc 12 [] [p 14 [r 15 [t 16 "see "], el 17 "hyperlink" [(⟨some (lit "R"), lit "id"⟩, lit "rId9")] none [r 18 [t 19 "link"]]],
                              tbl 20 [tr 21 [tc 22 [] [p 24 [r 25 [t 26 "inner"]]]]],
                              p 30 [r 31 [t 32 "after"]]],
                   tc 40 [el 41 "gridSpan" [wattr "val" "2"] none []] [p 43 [r 44 [t 45 "wide"]]]]],
    p 50 [r 51 [t 52 "z"]]]

/-- non-vacuity of `C02_deepC_once_in_order`: tables of any shape (duplication off) -/
theorem deepC_witness :
    deepCPartOK tblDoc = true ∧
    tblDoc.kids.flatMap (fun k => if deepC 8 k then outC 8 k else []) = [1, 14, 24, 30, 43, 50] ∧
    (match newDepthCollector cfgNoDup [] tblDoc with | .ok dc => elemsOf (leafParsL dc.root) | .error _ => []) = [1, 14, 24, 30, 43, 50] := by
  decide +kernel

/-- a paragraph whose run holds a text box with a paragraph and a table, and a hyperlink whose run holds a text box -/
def nestDoc : Xml :=
  el 0 "body" [] none [p 1 [r 2 [t 3 "pre ",
      el 8 "txbxContent" [] none [p 9 [r 10 [t 11 "boxed"]],
        tbl 60 [tr 61 [tc 62 [] [p 64 [r 65 [t 66 "cell"]]]]]], t 12 " post"],
      el 70 "hyperlink" [(⟨some (lit "R"), lit "id"⟩, lit "rId9")] none [r 71 [el 72 "txbxContent" [] none [p 73 [r 74 [t 75 "in link"]]]]]],
    p 20 [r 21 [t 22 "z"]]]

/-- `C02_post_part` on a part with paragraphs nested in a paragraph: the records are the paragraphs in the order of their
closing tags (the text box's paragraphs 9 and 64 before the paragraph 1 that encloses them; nothing for paragraph 73 below
the link); the paragraphs that enclose nothing (9, 64, 20) are in document order -/
theorem post_witness :
    post nestDoc = [9, 64, 1, 20] ∧ pre nestDoc = [1, 9, 64, 20] ∧ leafIds nestDoc = [9, 64, 20] ∧
    (match newDepthCollector cfgNoDup [] nestDoc with | .ok dc => elemsOf (leafParsL dc.root) | .error _ => []) = [9, 64, 1, 20] ∧
    -- and the hypothesis of `C02_post_document_order` holds for the table document of `deepC_witness`
    (leafIds tblDoc == pre tblDoc) = true ∧ post tblDoc = [1, 14, 24, 30, 43, 50] ∧
    -- `C02_post_part_dup`: no cell of `tblDoc` continues a vertical merge; with duplication ON the span's copy carries no identity
    vfree tblDoc = true ∧
    (match newDepthCollector cfgDup [] tblDoc with | .ok dc => elemsOf (leafParsL dc.root) | .error _ => []) = [1, 14, 24, 30, 43, 50] := by
  decide +kernel

/-- a styled paragraph in a table cell and a styled paragraph outside every table -/
def styDoc : Xml :=
  el 0 "body" [] none [
    tbl 10 [tr 11 [tc 12 [] [el 90 "p" [] none [el 91 "pPr" [] none [el 92 "pStyle" [wattr "val" "Heading1"] none []], r 93 [t 94 "h"]]]]],
    el 100 "p" [] none [el 101 "pPr" [] none [el 102 "pStyle" [wattr "val" "Title"] none []], r 103 [t 104 "t"]]]

/-- `C05_post_part` on concrete parts: identity, style id and "is the table lineage" of every record with an identity —
a styled paragraph in a cell and one outside (duplication on); the nested table and the text-box document of `post_witness`:
paragraph 64 stands in a cell of a table inside a text box and reports the table lineage, the text-box paragraph 9 and the
paragraph 1 that encloses it do not -/
theorem C05_post_witness :
    (match newDepthCollector cfgDup [] styDoc with
      | .ok dc => (metaL dc.root).map (fun (m : Meta) => (m.1, m.2.1 == lit "Heading1", m.2.1 == lit "Title", m.2.2 == tableLineage)) | .error _ => [])
      = [(90, true, false, true), (100, false, true, false)] ∧
    vfree styDoc = true ∧
    (match newDepthCollector cfgDup [] tblDoc with
      | .ok dc => (metaL dc.root).map (fun (m : Meta) => (m.1, m.2.2 == tableLineage)) | .error _ => [])
      = [(1, false), (14, true), (24, true), (30, true), (43, true), (50, false)] ∧
    (postX false tblDoc).map (fun yc => (yc.1.id?, yc.2)) = [(some 1, false), (some 14, true), (some 24, true), (some 30, true), (some 43, true), (some 50, false)] ∧
    (match newDepthCollector cfgNoDup [] nestDoc with
      | .ok dc => (metaL dc.root).map (fun (m : Meta) => (m.1, m.2.2 == tableLineage)) | .error _ => [])
      = [(9, false), (64, true), (1, false), (20, false)] := by
  decide +kernel

/-- a vertically merged column whose continuation cell holds a paragraph of its own -/
def vmDoc : Xml :=
  el 0 "body" [] none [p 1 [r 2 [t 3 "a"]],
    tbl 10 [tr 11 [tc 12 [el 13 "vMerge" [wattr "val" "restart"] none []] [p 14 [r 15 [t 16 "top"]]]],
            tr 21 [tc 22 [el 23 "vMerge" [] none []] [p 24 [r 25 [t 26 "hidden"]]]]],
    p 50 [r 51 [t 52 "z"]]]

/-- `C02_post_part_any` is the most that holds with duplication on: `vfree` fails for `vmDoc`, the continuation cell's own
paragraph 24 is replaced by a copy of the cell above, the records are a PROPER sublist of `post`; with duplication off
(`C02_post_part`) they are `post` -/
theorem post_any_witness :
    vfree vmDoc = false ∧ post vmDoc = [1, 14, 24, 50] ∧
    (match newDepthCollector cfgDup [] vmDoc with | .ok dc => elemsOf (leafParsL dc.root) | .error _ => []) = [1, 14, 50] ∧
    (match newDepthCollector cfgNoDup [] vmDoc with | .ok dc => elemsOf (leafParsL dc.root) | .error _ => []) = [1, 14, 24, 50] := by
  decide +kernel

/-- `C05_post_part_any` with duplication on and a vertical-merge continuation: the records that remain carry the identity
and (in the cell) the table lineage of their source paragraphs -/
theorem C05_post_any_witness :
    (match newDepthCollector cfgDup [] vmDoc with
      | .ok dc => (metaL dc.root).map (fun (m : Meta) => (m.1, m.2.2 == tableLineage)) | .error _ => [])
      = [(1, false), (14, true), (50, false)] ∧
    (postX false vmDoc).map (fun yc => (yc.1.id?, yc.2)) = [(some 1, false), (some 14, true), (some 24, true), (some 50, false)] := by
  decide +kernel

/-- the hypothesis of `C02_post_nodup` holds for the witness documents -/
theorem uniqueIds_witness : uniqueIds nestDoc = true ∧ uniqueIds tblDoc = true ∧ uniqueIds vmDoc = true := by
  decide +kernel

end D2P.Ex
