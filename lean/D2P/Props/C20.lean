import D2P.Model.Iterators
/-!
# C20 — iterator helpers enumerate every item once, in order, with valid addresses

For any Python value `v` and depth 1…5, whenever `list(enum_at_depth(v, d))` returns:
* each of the five hand-unrolled branches computes the generic recursion `enumGen d`;
* every yielded `(address, item)` has an address of length `d` with `v[address] = item`
  (soundness), every valid address of length `d` is yielded (completeness), and the addresses
  come out in strictly increasing lexicographic order (hence each exactly once);
* `iter_at_depth` is the projection on items; every other depth raises `ValueError`.
-/
namespace D2P

theorem nestLoop_congr (f g : PyVal → M (List (Addr × PyVal))) (h : ∀ x, f x = g x) (l : List (Nat × PyVal)) :
    nestLoop f l = nestLoop g l := by
  induction l with
  | nil => rfl
  | cons a l ih => obtain ⟨i, x⟩ := a; simp only [nestLoop, h x, ih]

theorem nestLoop_leaf (l : List (Nat × PyVal)) :
    nestLoop (enumGen 0) l = pure (l.map fun ix => ([ix.1], ix.2)) := by
  induction l with
  | nil => rfl
  | cons a l ih =>
    obtain ⟨i, x⟩ := a
    have e : (fun x => (pure [([], x)] : M (List (Addr × PyVal)))) = enumGen 0 := by funext x; rfl
    simp only [nestLoop, enumGen]
    rw [e, ih]
    rfl

theorem enum1_eq (v : PyVal) : enum1 v = enumGen 1 v := by
  unfold enum1 enumGen
  cases h : v.items with
  | error e => rfl
  | ok xs => simp only [ok_bind, nestLoop_leaf]
theorem enum2_eq (v : PyVal) : enum2 v = enumGen 2 v := by
  unfold enum2; rw [enumGen]; congr 1; funext xs; exact nestLoop_congr _ _ enum1_eq _
theorem enum3_eq (v : PyVal) : enum3 v = enumGen 3 v := by
  unfold enum3; rw [enumGen]; congr 1; funext xs; exact nestLoop_congr _ _ enum2_eq _
theorem enum4_eq (v : PyVal) : enum4 v = enumGen 4 v := by
  unfold enum4; rw [enumGen]; congr 1; funext xs; exact nestLoop_congr _ _ enum3_eq _
theorem enum5_eq (v : PyVal) : enum5 v = enumGen 5 v := by
  unfold enum5; rw [enumGen]; congr 1; funext xs; exact nestLoop_congr _ _ enum4_eq _

/-- **C20: the five branches are the same recursion.** -/
theorem C20_branches (v : PyVal) (d : Nat) (h1 : 1 ≤ d) (h5 : d ≤ 5) : enumAtDepth v d = enumGen d v := by
  have : d = 1 ∨ d = 2 ∨ d = 3 ∨ d = 4 ∨ d = 5 := by omega
  rcases this with h | h | h | h | h <;> subst h <;> simp [enumAtDepth, enum1_eq, enum2_eq, enum3_eq, enum4_eq, enum5_eq]

/-- **C20: any other depth raises `ValueError`.** -/
theorem C20_bad_depth (v : PyVal) (d : Int) (h : d < 1 ∨ 5 < d) :
    enumAtDepth v d = .error .valueError ∧ iterAtDepth v d = .error .valueError := by
  unfold enumAtDepth iterAtDepth
  have h1 : ¬ d = 1 := by omega
  have h2 : ¬ d = 2 := by omega
  have h3 : ¬ d = 3 := by omega
  have h4 : ¬ d = 4 := by omega
  have h5 : ¬ d = 5 := by omega
  simp [h1, h2, h3, h4, h5]

/-- **C20: `iter_at_depth` yields the same items in the same order.** -/
theorem C20_iter_is_projection (v : PyVal) (d : Int) (h : d = 1 ∨ d = 2 ∨ d = 3 ∨ d = 4 ∨ d = 5) :
    iterAtDepth v d = (enumAtDepth v d) >>= fun ps => pure (ps.map (·.2)) := by
  unfold iterAtDepth; simp [h]

/-! ## soundness, completeness, order -/

theorem mem_enumFrom {α : Type} : ∀ (xs : List α) (n i : Nat) (x : α),
    (i, x) ∈ enumFrom n xs ↔ ∃ k, i = n + k ∧ xs[k]? = some x := by
  intro xs
  induction xs with
  | nil => intro n i x; simp [enumFrom]
  | cons y ys ih =>
    intro n i x
    simp only [enumFrom, List.mem_cons, Prod.mk.injEq, ih]
    constructor
    · rintro (⟨rfl, rfl⟩ | ⟨k, rfl, hk⟩)
      · exact ⟨0, by simp, by simp⟩
      · exact ⟨k + 1, by omega, by simpa using hk⟩
    · rintro ⟨k, rfl, hk⟩
      cases k with
      | zero => left; simp at hk; exact ⟨by simp, hk.symm⟩
      | succ k => right; exact ⟨k, by omega, by simpa using hk⟩

/-- indexing one level down -/
def indexItems (xs : List PyVal) (a : Addr) : Option PyVal :=
  match a with
  | [] => none
  | i :: rest => match xs[i]? with | some x => index x rest | none => none

theorem index_items (v : PyVal) (xs : List PyVal) (h : v.items = .ok xs) (i : Nat) (rest : Addr) :
    index v (i :: rest) = indexItems xs (i :: rest) := by
  cases v with
  | list ys =>
    simp only [PyVal.items] at h; have := pure_ok h; subst this
    simp only [index, indexItems]
    cases ys[i]? <;> rfl
  | str s =>
    simp only [PyVal.items] at h; have := pure_ok h; subst this
    simp only [index, indexItems, List.getElem?_map]
    cases s[i]? <;> simp
  | obj t => simp [PyVal.items] at h

theorem mem_nestLoop (inner : PyVal → M (List (Addr × PyVal))) :
    ∀ (l : List (Nat × PyVal)) (res : List (Addr × PyVal)), nestLoop inner l = .ok res →
    ∀ a y, (a, y) ∈ res ↔ ∃ i x ys j, (i, x) ∈ l ∧ inner x = .ok ys ∧ (j, y) ∈ ys ∧ a = i :: j := by
  intro l
  induction l with
  | nil => intro res h a y; simp only [nestLoop] at h; have := pure_ok h; subst this; simp
  | cons p l ih =>
    obtain ⟨i0, x0⟩ := p
    intro res h a y
    simp only [nestLoop] at h
    obtain ⟨ys0, hy, h⟩ := bind_ok h
    obtain ⟨zs, hz, h⟩ := bind_ok h
    have := pure_ok h; subst this
    simp only [List.mem_append, List.mem_map, Prod.mk.injEq, Prod.exists, List.mem_cons, ih zs hz]
    constructor
    · rintro (⟨j, y', hj, rfl, rfl⟩ | ⟨i, x, ys, j, hm, hi, hj, rfl⟩)
      · exact ⟨i0, x0, ys0, j, Or.inl ⟨rfl, rfl⟩, hy, hj, rfl⟩
      · exact ⟨i, x, ys, j, Or.inr hm, hi, hj, rfl⟩
    · rintro ⟨i, x, ys, j, (⟨rfl, rfl⟩ | hm), hi, hj, rfl⟩
      · left; rw [hy] at hi; cases hi; exact ⟨j, y, hj, rfl, rfl⟩
      · right; exact ⟨i, x, ys, j, hm, hi, hj, rfl⟩

/-- **C20: soundness and completeness.** `(a, y)` is yielded at depth `d` iff `a` has length `d`
and `v[a]` is `y` — provided the enumeration returns at all (every level above `d` is iterable). -/
theorem C20_enum_iff : ∀ (d : Nat) (v : PyVal) (res : List (Addr × PyVal)), enumGen d v = .ok res →
    ∀ a y, (a, y) ∈ res ↔ (a.length = d ∧ index v a = some y) := by
  intro d
  induction d with
  | zero =>
    intro v res h a y
    simp only [enumGen] at h; have := pure_ok h; subst this
    simp only [List.mem_singleton, Prod.mk.injEq]
    constructor
    · rintro ⟨rfl, rfl⟩; simp [index]
    · rintro ⟨hl, hi⟩
      have : a = [] := List.eq_nil_of_length_eq_zero hl
      subst this; simp [index] at hi; exact ⟨rfl, hi.symm⟩
  | succ d ih =>
    intro v res h a y
    simp only [enumGen] at h
    obtain ⟨xs, hx, h⟩ := bind_ok h
    rw [mem_nestLoop _ _ res h]
    constructor
    · rintro ⟨i, x, ys, j, hm, hi, hj, rfl⟩
      obtain ⟨k, hk, hxk⟩ := (mem_enumFrom xs 0 i x).1 hm
      have hik : i = k := by omega
      subst hik
      have := (ih x ys hi j y).1 hj
      refine ⟨by simp [this.1], ?_⟩
      rw [index_items v xs hx]; simp [indexItems, hxk, this.2]
    · rintro ⟨hl, hi⟩
      cases a with
      | nil => simp at hl
      | cons i j =>
        rw [index_items v xs hx] at hi
        simp only [indexItems] at hi
        cases hxi : xs[i]? with
        | none => simp [hxi] at hi
        | some x =>
          simp only [hxi] at hi
          have hm : (i, x) ∈ enumFrom 0 xs := (mem_enumFrom xs 0 i x).2 ⟨i, by omega, hxi⟩
          -- the inner enumeration of `x` returned, because the whole enumeration did
          have : ∃ ys, enumGen d x = .ok ys := by
            clear hi hl
            have key : ∀ (l : List (Nat × PyVal)) (r : List (Addr × PyVal)), nestLoop (enumGen d) l = .ok r →
                ∀ p ∈ l, ∃ ys, enumGen d p.2 = .ok ys := by
              intro l
              induction l with
              | nil => intro r _ p hp; simp at hp
              | cons q l ihl =>
                obtain ⟨i1, x1⟩ := q
                intro r hr p hp
                simp only [nestLoop] at hr
                obtain ⟨ys1, hy1, hr⟩ := bind_ok hr
                obtain ⟨zs, hz, _⟩ := bind_ok hr
                rcases List.mem_cons.1 hp with rfl | hp
                · exact ⟨ys1, hy1⟩
                · exact ihl zs hz p hp
            exact key _ _ h (i, x) hm
          obtain ⟨ys, hys⟩ := this
          exact ⟨i, x, ys, j, hm, hys, (ih x ys hys j y).2 ⟨by simpa using hl, hi⟩, rfl⟩

/-- lexicographic order on addresses -/
def lexLt : Addr → Addr → Prop
  | [], [] => False
  | [], _ :: _ => True
  | _ :: _, [] => False
  | a :: as, b :: bs => a < b ∨ (a = b ∧ lexLt as bs)

theorem pairwise_enumFrom_heads : ∀ (xs : List PyVal) (n : Nat) (i : Nat) (x : PyVal), (i, x) ∈ enumFrom n xs → n ≤ i := by
  intro xs n i x h
  obtain ⟨k, hk, _⟩ := (mem_enumFrom xs n i x).1 h
  omega

theorem nestLoop_sorted (inner : PyVal → M (List (Addr × PyVal)))
    (hin : ∀ x ys, inner x = .ok ys → List.Pairwise (fun p q => lexLt p.1 q.1) ys) :
    ∀ (xs : List PyVal) (n : Nat) (res : List (Addr × PyVal)), nestLoop inner (enumFrom n xs) = .ok res →
    List.Pairwise (fun p q => lexLt p.1 q.1) res ∧ ∀ p ∈ res, ∃ i rest, p.1 = i :: rest ∧ n ≤ i := by
  intro xs
  induction xs with
  | nil => intro n res h; simp only [enumFrom, nestLoop] at h; have := pure_ok h; subst this; simp
  | cons x xs ih =>
    intro n res h
    simp only [enumFrom, nestLoop] at h
    obtain ⟨ys, hy, h⟩ := bind_ok h
    obtain ⟨zs, hz, h⟩ := bind_ok h
    have := pure_ok h; subst this
    obtain ⟨sz, hzhead⟩ := ih (n + 1) zs hz
    constructor
    · rw [List.pairwise_append]
      refine ⟨?_, sz, ?_⟩
      · rw [List.pairwise_map]
        exact (hin x ys hy).imp (fun {p q} hpq => by simp only [lexLt]; right; exact ⟨trivial, hpq⟩)
      · intro p hp q hq
        obtain ⟨jy, _, rfl⟩ := List.mem_map.1 hp
        obtain ⟨i, rest, hq1, hi⟩ := hzhead q hq
        rw [hq1]; simp only [lexLt]; left; omega
    · intro p hp
      rcases List.mem_append.1 hp with hp | hp
      · obtain ⟨jy, _, rfl⟩ := List.mem_map.1 hp
        exact ⟨n, jy.1, rfl, Nat.le_refl _⟩
      · obtain ⟨i, rest, h1, h2⟩ := hzhead p hp
        exact ⟨i, rest, h1, by omega⟩

/-- **C20: lexicographic order** (strictly increasing, so no address is yielded twice). -/
theorem C20_sorted : ∀ (d : Nat) (v : PyVal) (res : List (Addr × PyVal)), enumGen d v = .ok res →
    List.Pairwise (fun p q => lexLt p.1 q.1) res := by
  intro d
  induction d with
  | zero => intro v res h; simp only [enumGen] at h; have := pure_ok h; subst this; simp
  | succ d ih =>
    intro v res h
    simp only [enumGen] at h
    obtain ⟨xs, _, h⟩ := bind_ok h
    exact (nestLoop_sorted (enumGen d) (fun x ys hx => ih x ys hx) xs 0 res h).1

example : enumAtDepth (.list [.list [.str (lit "a"), .str (lit "b")], .list [], .list [.str (lit "c")]]) 2
    = .ok [([0, 0], .str (lit "a")), ([0, 1], .str (lit "b")), ([2, 0], .str (lit "c"))] := rfl

end D2P
