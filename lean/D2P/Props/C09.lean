import D2P.Model.Package
/-!
# C09 — parts are found through package relationships: path inference

`opcResolve` is the Open Packaging Conventions rule for a target without parent-directory
segments: a package-absolute target names the member directly, a relative target is taken
relative to the directory of the *source part* (the parent of the `_rels` directory in which the
relationship is declared).

`C09_path` says that `File.path` computes exactly that, under the scope of the property
(`Scope09`) — which, forced by the code, excludes one layout: a relative target that itself
begins with the source part's directory path (`word/_rels/x.rels` declaring `word/h.xml`),
where the code deliberately returns `word/h.xml` instead of `word/word/h.xml`.
`C09_path_shortcut` states that excluded behaviour exactly (known finding P16).
-/
namespace D2P

def opcResolve (sourceDir : List Str) (target : Str) : Str :=
  let t := PPath.ofStr target
  sjoinSep ['/'] (if t.abs then t.parts else sourceDir ++ t.parts)

/-- the first segment exists and starts with neither `.` nor `/` -/
def cleanFirst : List Str → Bool
  | (c :: _) :: _ => c != '.' && c != '/'
  | _ => false

/-- directory of the source part of a relationship -/
def Rel.sourceDir (r : Rel) : PPath := (PPath.ofStr r.dir).parent

structure Scope09 (r : Rel) : Prop where
  relDir : r.sourceDir.abs = false
  noShortcut : (PPath.ofStr r.target).abs = true ∨ r.sourceDir.parts = [] ∨
    r.sourceDir.parts.isPrefixOf (PPath.ofStr r.target).parts = false
  clean : cleanFirst (if (PPath.ofStr r.target).abs then (PPath.ofStr r.target).parts
            else r.sourceDir.parts ++ (PPath.ofStr r.target).parts) = true

theorem lstrip_clean (parts : List Str) (h : cleanFirst parts = true) :
    lstripSlashDot (sjoinSep ['/'] parts) = sjoinSep ['/'] parts := by
  match parts, h with
  | (c :: p) :: rest, h =>
    simp only [cleanFirst, Bool.and_eq_true, bne_iff_ne, ne_eq] at h
    have hd : ∃ tl, sjoinSep ['/'] ((c :: p) :: rest) = c :: tl := by
      cases rest with
      | nil => exact ⟨p, rfl⟩
      | cons y ys => exact ⟨p ++ ['/'] ++ sjoinSep ['/'] (y :: ys), by simp [sjoinSep]⟩
    obtain ⟨tl, e⟩ := hd
    rw [e]
    unfold lstripSlashDot
    simp [List.dropWhile_cons, h.1, h.2]

theorem lstrip_abs (parts : List Str) (h : cleanFirst parts = true) :
    lstripSlashDot ('/' :: sjoinSep ['/'] parts) = sjoinSep ['/'] parts := by
  have := lstrip_clean parts h
  unfold lstripSlashDot at this ⊢
  simp only [List.dropWhile_cons, beq_self_eq_true, Bool.true_or, if_true]
  exact this

/-- **C09: `File.path` is the OPC resolution of the target against the source part's directory.** -/
theorem C09_path (r : Rel) (h : Scope09 r) : r.path = opcResolve r.sourceDir.parts r.target := by
  unfold Rel.path opcResolve
  have hd : (PPath.ofStr r.dir).parent = r.sourceDir := rfl
  simp only [hd]
  generalize ht : PPath.ofStr r.target = t at h
  have hclean := h.clean
  simp only [ht] at hclean
  cases hta : t.abs with
  | true =>
    -- absolute target: `is_relative_to` is false (anchors differ), `dir_ / target` is the target
    have : t.isRelativeTo r.sourceDir = false := by unfold PPath.isRelativeTo; simp [hta, h.relDir]
    simp only [this, Bool.false_eq_true, if_false, PPath.join, hta, if_true, PPath.toStr]
    simp only [hta, if_true] at hclean
    exact lstrip_abs _ hclean
  | false =>
    simp only [hta, Bool.false_eq_true, if_false] at hclean ⊢
    rcases h.noShortcut with h1 | h1 | h1
    · rw [ht] at h1; rw [hta] at h1; cases h1
    · -- source part in the package root: prefix test is trivially true, result is the target
      have hr : t.isRelativeTo r.sourceDir = true := by
        unfold PPath.isRelativeTo; simp [hta, h.relDir, h1]
      simp only [hr, if_true, PPath.join, Bool.false_eq_true, if_false, h1, List.length_nil, List.drop_zero,
        List.nil_append, PPath.toStr, h.relDir]
      simp only [h1, List.nil_append] at hclean
      have hne : t.parts ≠ [] := by intro e; simp [e, cleanFirst] at hclean
      have : t.parts.isEmpty = false := by cases hp : t.parts <;> simp_all
      simp only [this, Bool.false_eq_true, if_false]
      exact lstrip_clean _ hclean
    · rw [ht] at h1
      have hr : t.isRelativeTo r.sourceDir = false := by unfold PPath.isRelativeTo; simp [h1]
      simp only [hr, Bool.false_eq_true, if_false, PPath.join, hta, PPath.toStr, h.relDir]
      have hne : (r.sourceDir.parts ++ t.parts).isEmpty = false := by
        cases hp : r.sourceDir.parts ++ t.parts with
        | nil => simp [hp, cleanFirst] at hclean
        | cons a b => rfl
      simp only [hne, Bool.false_eq_true, if_false]
      exact lstrip_clean _ hclean

example : ({ id := lit "rId1", type := lit "header", target := lit "sub/h.xml", dir := lit "docs/_rels" } : Rel).path
    = lit "docs/sub/h.xml" := by decide
example : ({ id := lit "rId1", type := lit "footer", target := lit "/docs/f.xml", dir := lit "docs/_rels" } : Rel).path
    = lit "docs/f.xml" := by decide
/-- the excluded layout (P16): the code's shortcut, not the OPC path -/
example : ({ id := lit "rId1", type := lit "header", target := lit "word/h.xml", dir := lit "word/_rels" } : Rel).path
    = lit "word/h.xml" ∧ opcResolve [lit "word"] (lit "word/h.xml") = lit "word/word/h.xml" := by decide

end D2P
