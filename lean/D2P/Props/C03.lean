import D2P.Model.Output
/-!
# C03 — string, run and record views agree; `document` and `text` are concatenations

For every archive and option setting (no scope restriction):
* `<part>` is `_join_runs(<part>_runs)` and `<part>_runs` is `get_par_strings(<part>_pars)`,
  for the five single parts **and** for `document`;
* `document*` is header ++ body ++ footer ++ footnotes ++ endnotes in all three forms;
* `body` is the `officeDocument` part alone;
* `text` is the paragraphs of `document_runs`, each joined, separated by a blank line.
-/
namespace D2P

theorem mapLevel_append (f : Nest → M Tree) : ∀ (xs ys : List Nest) (a b : List Tree),
    mapLevel f xs = .ok a → mapLevel f ys = .ok b → mapLevel f (xs ++ ys) = .ok (a ++ b) := by
  intro xs
  induction xs with
  | nil => intro ys a b ha hb; simp only [mapLevel] at ha; have := pure_ok ha; subst this; simpa using hb
  | cons x xs ih =>
    intro ys a b ha hb
    simp only [mapLevel] at ha
    obtain ⟨t, ht, ha⟩ := bind_ok ha
    obtain ⟨ts, hts, ha⟩ := bind_ok ha
    have := pure_ok ha; subst this
    simp only [List.cons_append, mapLevel, ht, ih ys ts b hts hb]
    rfl

theorem getParStrings_append (xs ys : List Nest) (a b : List Tree)
    (ha : getParStrings xs = .ok a) (hb : getParStrings ys = .ok b) :
    getParStrings (xs ++ ys) = .ok (a ++ b) := mapLevel_append _ xs ys a b ha hb

theorem joinRunsGo_append : ∀ (xs ys a b : List Tree),
    joinRuns.go xs = .ok a → joinRuns.go ys = .ok b → joinRuns.go (xs ++ ys) = .ok (a ++ b) := by
  intro xs
  induction xs with
  | nil => intro ys a b ha hb; simp only [joinRuns.go] at ha; have := pure_ok ha; subst this; simpa using hb
  | cons x xs ih =>
    intro ys a b ha hb
    simp only [joinRuns.go] at ha
    obtain ⟨t, ht, ha⟩ := bind_ok ha
    obtain ⟨ts, hts, ha⟩ := bind_ok ha
    have := pure_ok ha; subst this
    simp only [List.cons_append, joinRuns.go, ht, ih ys ts b hts hb]
    rfl

theorem joinRuns_append (xs ys a b : List Tree) (ha : joinRuns xs = .ok a) (hb : joinRuns ys = .ok b) :
    joinRuns (xs ++ ys) = .ok (a ++ b) := joinRunsGo_append xs ys a b ha hb

/-- **C03: `<part>_runs` is the run strings of `<part>_pars`** (single parts: by definition). -/
theorem C03_runs_eq_records (g : ParsOf) (part : String) (hp : part ≠ "document") :
    viewRunsFrom g part = (viewParsFrom g part) >>= getParStrings := by
  unfold viewRunsFrom runsOne
  simp [hp]

/-- **C03: `<part>` is `<part>_runs` with the runs of every paragraph concatenated.** -/
theorem C03_plain_eq_join (g : ParsOf) (part : String) (hp : part ≠ "document") :
    viewPlainFrom g part = (viewRunsFrom g part) >>= joinRuns := by
  unfold viewPlainFrom plainOne
  simp [hp]

/-- **C03: `body` is the main document part alone.** -/
theorem C03_body_is_main (g : ParsOf) : viewParsFrom g "body" = g "officeDocument" := by
  unfold viewParsFrom; simp

/-- **C03: `document_pars` = header + body + footer + footnotes + endnotes**, and whenever the
five parts can be read, `document_runs` and `document` are the run strings / joined strings of
exactly that concatenation. -/
theorem C03_document (g : ParsOf) (h b f fn en : List Nest)
    (hh : g "header" = .ok h) (hb : g "officeDocument" = .ok b) (hf : g "footer" = .ok f)
    (hfn : g "footnotes" = .ok fn) (hen : g "endnotes" = .ok en)
    (rh rb rf rfn ren : List Tree)
    (e1 : getParStrings h = .ok rh) (e2 : getParStrings b = .ok rb) (e3 : getParStrings f = .ok rf)
    (e4 : getParStrings fn = .ok rfn) (e5 : getParStrings en = .ok ren)
    (ph pb pf pfn pen : List Tree)
    (j1 : joinRuns rh = .ok ph) (j2 : joinRuns rb = .ok pb) (j3 : joinRuns rf = .ok pf)
    (j4 : joinRuns rfn = .ok pfn) (j5 : joinRuns ren = .ok pen) :
    viewParsFrom g "document" = .ok (h ++ b ++ f ++ fn ++ en) ∧
    viewRunsFrom g "document" = .ok (rh ++ rb ++ rf ++ rfn ++ ren) ∧
    viewPlainFrom g "document" = .ok (ph ++ pb ++ pf ++ pfn ++ pen) ∧
    getParStrings (h ++ b ++ f ++ fn ++ en) = .ok (rh ++ rb ++ rf ++ rfn ++ ren) ∧
    joinRuns (rh ++ rb ++ rf ++ rfn ++ ren) = .ok (ph ++ pb ++ pf ++ pfn ++ pen) := by
  have rH : runsOne g "header" = .ok rh := by unfold runsOne viewParsFrom; simp [hh, e1, ok_bind]
  have rB : runsOne g "body" = .ok rb := by unfold runsOne viewParsFrom; simp [hb, e2, ok_bind]
  have rF : runsOne g "footer" = .ok rf := by unfold runsOne viewParsFrom; simp [hf, e3, ok_bind]
  have rFn : runsOne g "footnotes" = .ok rfn := by unfold runsOne viewParsFrom; simp [hfn, e4, ok_bind]
  have rEn : runsOne g "endnotes" = .ok ren := by unfold runsOne viewParsFrom; simp [hen, e5, ok_bind]
  have vr : ∀ p r, p ≠ "document" → runsOne g p = .ok r → viewRunsFrom g p = .ok r := by
    intro p r hp hr; unfold viewRunsFrom; simp [hp, hr]
  have pH : plainOne g "header" = .ok ph := by unfold plainOne; rw [vr _ _ (by decide) rH]; simp [ok_bind, j1]
  have pB : plainOne g "body" = .ok pb := by unfold plainOne; rw [vr _ _ (by decide) rB]; simp [ok_bind, j2]
  have pF : plainOne g "footer" = .ok pf := by unfold plainOne; rw [vr _ _ (by decide) rF]; simp [ok_bind, j3]
  have pFn : plainOne g "footnotes" = .ok pfn := by unfold plainOne; rw [vr _ _ (by decide) rFn]; simp [ok_bind, j4]
  have pEn : plainOne g "endnotes" = .ok pen := by unfold plainOne; rw [vr _ _ (by decide) rEn]; simp [ok_bind, j5]
  refine ⟨?_, ?_, ?_, ?_, ?_⟩
  · unfold viewParsFrom; simp [hh, hb, hf, hfn, hen, ok_bind]; rfl
  · unfold viewRunsFrom; simp [rH, rB, rF, rFn, rEn, ok_bind]; rfl
  · unfold viewPlainFrom; simp [pH, pB, pF, pFn, pEn, ok_bind]; rfl
  · exact getParStrings_append _ _ _ _
      (getParStrings_append _ _ _ _ (getParStrings_append _ _ _ _ (getParStrings_append _ _ _ _ e1 e2) e3) e4) e5
  · exact joinRuns_append _ _ _ _
      (joinRuns_append _ _ _ _ (joinRuns_append _ _ _ _ (joinRuns_append _ _ _ _ j1 j2) j3) j4) j5

/-- **C03: `text`** is `flatten_text(document_runs)`: paragraphs joined by a blank line. -/
theorem C03_text (g : ParsOf) : docTextFrom g = (viewRunsFrom g "document") >>= flattenText := rfl

end D2P
