import D2P.Props.C02Notes
import D2P.Props.C12Body
/-!
# C02 — exactly once and in document order, through block wrappers nested to any depth

`C02_items` admits paragraphs, regular tables, ignored markup and groups of inline content outside
paragraphs as the children of a part.  Real bodies also hold BLOCK WRAPPERS the walk does not know —
content controls (`w:sdt` > `w:sdtContent`), `w:customXml`, `w:smartTag` around blocks — nested to any
depth.  `deep n x`: `x` is a flat paragraph or a regular table, or (n > 0) a wrapper with a depth whose
children are, in sequence, `deep (n-1)` blocks, content-free markup and groups (`seqOK`).

`C02_deep_once_in_order` (`duplicate_merged_cells = False`): walking such an element from a state with
nothing but possibly one implicit paragraph open appends — reading the source identities off the
records of `leavesP` — exactly the identities `out n x` of its paragraphs, in document order, each once
(an implicit paragraph has no identity; the copies and paddings of merged cells neither).
-/
namespace D2P

/-- the members of the tag register for which `TagRunner` has an `_open_…` or `_close_…` method -/
def handledMembers : List String :=
  ["PARAGRAPH", "RUN", "COMMENT_RANGE_END", "COMMENT_RANGE_START", "TEXT", "TEXT_MATH", "MATH", "BR", "SYM", "FOOTNOTE", "ENDNOTE",
   "HYPERLINK", "FORM_CHECKBOX", "FORM_DDLIST", "FOOTNOTE_REFERENCE", "ENDNOTE_REFERENCE", "IMAGE", "IMAGEDATA", "IMAGE_ALT", "TAB",
   "TABLE_CELL"]

/-- no handler is dispatched for the element: it is not in the register, or its member has no method
(`w:sdt`, `w:sdtContent`, `w:customXml`, `w:smartTag`, `w:tbl`, `w:tr`, `w:body` …) -/
def noHandler (pt : Str) : Bool :=
  match tagMember pt with
  | none => true
  | some m => !handledMembers.contains m

theorem openStep_noHandler (cfg : PartCfg) (s : DC) (x : Xml) (c : Bool) (roots : List (List Nest))
    (h : noHandler x.ptag = true) : openStep cfg s x c roots = .ok (s, true) := by
  unfold noHandler at h
  unfold openStep
  cases hm : tagMember x.ptag with
  | none => rfl
  | some m =>
    rw [hm] at h
    simp only [handledMembers, Bool.not_eq_true', List.contains_eq_mem, decide_eq_false_iff_not, List.mem_cons, List.mem_nil_iff, or_false, not_or] at h
    split <;> first | rfl | (rename_i heq; injection heq with e; subst e; simp at h)

theorem closeStepCore_noHandler (cfg : PartCfg) (s : DC) (x : Xml) (h : noHandler x.ptag = true) :
    closeStepCore cfg s x = .ok s := by
  unfold noHandler at h
  unfold closeStepCore
  cases hm : tagMember x.ptag with
  | none => rfl
  | some m =>
    rw [hm] at h
    simp only [handledMembers, Bool.not_eq_true', List.contains_eq_mem, decide_eq_false_iff_not, List.mem_cons, List.mem_nil_iff, or_false, not_or] at h
    split <;> first | rfl | (rename_i heq; injection heq with e; subst e; simp at h)

/-- a block wrapper: no handler, and it has a depth (it holds a paragraph) -/
def pureWrap (x : Xml) : Bool :=
  match x with
  | .elem _ _ _ _ _ _ _ _ => noHandler x.ptag && (elemDepth x).isSome
  | _ => false

theorem walk_wrapper' (cfg : PartCfg) (num : Dict Str (List NumAttr)) (c : Bool) (s s' : DC)
    (i : Nat) (pf : Option Str) (t : QName) (m : NsMap) (a : List (QName × Str)) (tx tl : Option Str) (ks : List Xml)
    (hm : noHandler (Xml.elem i pf t m a tx tl ks).ptag = true)
    (h : walk cfg num c s (.elem i pf t m a tx tl ks) = .ok s') :
    ∃ s1 s3 s4, s.setCaretOpen (elemDepth (.elem i pf t m a tx tl ks)) (some t.name) = .ok s1 ∧
      walkL cfg num (c || isCellTag (.elem i pf t m a tx tl ks)) s1 ks = .ok s3 ∧
      s3.flushImplicit (elemDepth (.elem i pf t m a tx tl ks)) = .ok s4 ∧
      s4.setCaret (elemDepth (.elem i pf t m a tx tl ks)) none = .ok s' := by
  have hl : ((Xml.elem i pf t m a tx tl ks).ptag == hyperlinkTag) = false := by
    cases hb : ((Xml.elem i pf t m a tx tl ks).ptag == hyperlinkTag) with
    | false => rfl
    | true =>
      have e : (Xml.elem i pf t m a tx tl ks).ptag = hyperlinkTag := by simpa using hb
      unfold noHandler at hm
      rw [e, tagMember_hyperlink] at hm
      simp [handledMembers] at hm
  simp only [walk, hl, Bool.false_eq_true, if_false] at h
  obtain ⟨s1, h1, h⟩ := bind_ok h
  obtain ⟨roots, hr, h⟩ := bind_ok h
  have := pure_ok hr; subst this
  rw [openStep_noHandler cfg s1 _ c [] hm] at h
  simp only [ok_bind, if_true] at h
  obtain ⟨s3, h3, h⟩ := bind_ok h
  obtain ⟨s4, h4, h⟩ := bind_ok h
  obtain ⟨s0, h0, hc⟩ := closeStep_split cfg s3 s4 _ h4
  rw [closeStepCore_noHandler cfg s0 _ hm] at hc; cases hc
  exact ⟨s1, s3, _, h1, h3, h0, h⟩

/-- a sequence of siblings: `B`-blocks, ignored markup, and groups of flat inline content started by an
element that opens a paragraph; `true` = inside a group -/
def seqOK (B : Xml → Bool) : Bool → List Xml → Bool
  | _, [] => true
  | false, x :: r =>
    if B x then seqOK B false r
    else if !hasContent x then seqOK B false r
    else if opensFirst x && flatInline x then seqOK B true r
    else false
  | true, x :: r =>
    if flatInline x then seqOK B true r
    else if B x then seqOK B false r
    else false

def deep : Nat → Xml → Bool
  | 0, x => (isFlatPar x || regTbl x || isSimplePar x) && noNotes x
  | n+1, x => deep n x || (pureWrap x && seqOK (deep n) false x.kids)

/-- the identities of the paragraphs below, in document order -/
def out : Nat → Xml → List Nat
  | 0, x => if isFlatPar x || regTbl x then blockParIds x else idsOf [x]
  | n+1, x => if deep n x then out n x else if pureWrap x then x.kids.flatMap (fun k => if deep n k then out n k else []) else []

def idsP (s : DC) : List Nat := elemsOf (leavesP s)

/-- what walking a block does to the identities read off `leavesP` -/
def Step (cfg : PartCfg) (num : Dict Str (List NumAttr)) (x : Xml) (ids : List Nat) : Prop :=
  ∀ (c : Bool) (s s' : DC), Inv s → ClosedOrPending s → NoQ s → Sty okStyles s → walk cfg num c s x = .ok s' →
    idsP s' = idsP s ++ ids ∧ Inv s' ∧ s'.openPars = [] ∧ NoQ s' ∧ Sty okStyles s'

theorem idsP_pending (s : DC) (p : Par) (h1 : s.openPars = [p]) (hp : p.elem = none) : idsP s = elemsOf (leafParsL s.root) := by
  simp [idsP, leavesP, h1, elemsOf, hp]

theorem idsP_closed (s : DC) (h0 : s.openPars = []) : idsP s = elemsOf (leafParsL s.root) := by
  simp [idsP, leavesP, h0]

/-- the pending implicit paragraph is concluded before ANY `w:p` is walked -/
theorem walk_par_after_group (cfg : PartCfg) (num : Dict Str (List NumAttr)) (c : Bool) (y : Xml) (s s' : DC) (p : Par)
    (hy : isSimplePar y = true) (h1 : s.openPars = [p]) (hp : p.elem = none) (h : walk cfg num c s y = .ok s') :
    ∃ s0, s.concludePar = .ok s0 ∧ leafParsL s0.root = leafParsL s.root ++ [p] ∧ s0.openPars = [] ∧
      walk cfg num c s0 y = .ok s' := by
  cases y with
  | comment _ _ => simp only [isSimplePar, Bool.and_eq_true, beq_iff_eq] at hy; exact absurd hy.1 (by show ¬ lit "None:FAILED-uuid" = paragraphTag; decide)
  | pi _ => simp only [isSimplePar, Bool.and_eq_true, beq_iff_eq] at hy; exact absurd hy.1 (by show ¬ lit "None:FAILED-uuid" = paragraphTag; decide)
  | elem i pf t m a tx tl ks =>
    simp only [isSimplePar, Bool.and_eq_true, beq_iff_eq] at hy
    exact C02_implicit_in_order cfg num c s s' p h1 hp i pf t m a tx tl ks 4 (elemDepth_par _ hy.1 rfl) h

/-- paragraphs (flat, or with hyperlinks, markers, references: `isSimplePar`) and regular tables -/
theorem step0 (cfg : PartCfg) (hd : cfg.dup = false) (num : Dict Str (List NumAttr)) (x : Xml) (hx : deep 0 x = true) :
    Step cfg num x (out 0 x) := by
  simp only [deep, Bool.and_eq_true, Bool.or_eq_true] at hx
  obtain ⟨hkind, hnn⟩ := hx
  intro c s s' hs ho hq hsty h
  have i' := walk_inv cfg num x c s s' hs h
  have q' := walk_noq cfg num x hnn c s s' hq h
  have sty' := walk_sty (okSpec cfg.html) cfg rfl num x c s s' hsty h
  by_cases hft : (isFlatPar x || regTbl x) = true
  · have hx' : isFlatPar x = true ∨ regTbl x = true := by simpa [Bool.or_eq_true] using hft
    have hout : out 0 x = blockParIds x := by simp [out, hft]
    have closedCase : ∀ (s0 : DC), Inv s0 → s0.openPars = [] → walk cfg num c s0 x = .ok s' →
        idsP s' = idsP s0 ++ out 0 x ∧ s'.openPars = [] := by
      intro s0 i0 h0 hw
      obtain ⟨o, hm, hl, ho1⟩ := step_closed cfg num c x hx' s0 s' i0 h0 hw
      have := C02_once_in_order cfg hd (BlocksMatch.cons hm BlocksMatch.nil)
      simp only [List.flatMap_cons, List.flatMap_nil, List.append_nil] at this
      refine ⟨?_, ho1⟩
      rw [idsP_closed s' ho1, idsP_closed s0 h0, hl, elemsOf_append, this, hout]
    rcases ho with h0 | ⟨p, h1, hp⟩
    · obtain ⟨e, c'⟩ := closedCase s hs h0 h
      exact ⟨e, i', c', q', sty'⟩
    · obtain ⟨s0, hc0, hl0, ho0, hw⟩ := walk_block_after_group cfg num c x s s' p hx' h1 hp h
      obtain ⟨e, c'⟩ := closedCase s0 (concludePar_inv s s0 hs hc0) ho0 hw
      refine ⟨?_, i', c', q', sty'⟩
      rw [e, idsP_closed s0 ho0, idsP_pending s p h1 hp, hl0, elemsOf_append]
      simp [elemsOf, hp]
  · have hftf : (isFlatPar x || regTbl x) = false := by simpa using hft
    have hsp : isSimplePar x = true := by
      rcases hkind with (h1 | h2) | h3
      · rw [h1] at hftf; simp at hftf
      · rw [h2] at hftf; simp at hftf
      · exact h3
    have hout : out 0 x = idsOf [x] := by simp [out, hftf]
    -- from a closed state the run machine's theorem gives one record, whose element is the paragraph
    have closedCase : ∀ (s0 : DC), Inv s0 → s0.openPars = [] → NoQ s0 → Sty okStyles s0 → walk cfg num c s0 x = .ok s' →
        idsP s' = idsP s0 ++ out 0 x ∧ s'.openPars = [] := by
      intro s0 _ h0 q0 st0 hw
      obtain ⟨k, hk⟩ := countStrings_ok (leafParsL s0.root) st0.tree
      have hout0 : Out s0 k := ⟨h0, q0, hk, st0⟩
      obtain ⟨_, _, _, _, _, ho', _, p', hl, _, _, he⟩ := par_runs cfg num c k x hsp s0 s' hout0 hw
      refine ⟨?_, ho'.closed⟩
      rw [idsP_closed s' ho'.closed, idsP_closed s0 h0, hl, elemsOf_append, hout]
      simp only [elemsOf, idsOf, List.filterMap_cons, List.filterMap_nil, he]
    rcases ho with h0 | ⟨p, h1, hp⟩
    · obtain ⟨e, c'⟩ := closedCase s hs h0 hq hsty h
      exact ⟨e, i', c', q', sty'⟩
    · obtain ⟨s0, hc0, hl0, ho0, hw⟩ := walk_par_after_group cfg num c x s s' p hsp h1 hp h
      have q0 : NoQ s0 := concludePar_noq s s0 hq hc0
      have st0 : Sty okStyles s0 := concludePar_sty s s0 hsty hc0
      obtain ⟨e, c'⟩ := closedCase s0 (concludePar_inv s s0 hs hc0) ho0 q0 st0 hw
      refine ⟨?_, i', c', q', sty'⟩
      rw [e, idsP_closed s0 ho0, idsP_pending s p h1 hp, hl0, elemsOf_append]
      simp [elemsOf, hp]

/-- a sequence of siblings: the identities of its blocks, in order -/
theorem seq_ids (cfg : PartCfg) (num : Dict Str (List NumAttr)) (B : Xml → Bool) (I : Xml → List Nat)
    (hB : ∀ x, B x = true → Step cfg num x (I x)) :
    ∀ (xs : List Xml) (g : Bool) (c : Bool) (s s' : DC), seqOK B g xs = true → Inv s →
      (g = false → s.openPars = []) → (g = true → ∃ p, s.openPars = [p] ∧ p.elem = none) → NoQ s → Sty okStyles s →
      walkL cfg num c s xs = .ok s' →
      idsP s' = idsP s ++ xs.flatMap (fun x => if B x then I x else []) ∧ Inv s' ∧ ClosedOrPending s' ∧ NoQ s' ∧ Sty okStyles s'
  | [], g, c, s, s', _, hs, hc, hp, hq, hsty, h => by
    simp only [walkL] at h; have := pure_ok h; subst this
    refine ⟨by simp, hs, ?_, hq, hsty⟩
    cases g with
    | false => exact Or.inl (hc rfl)
    | true => exact Or.inr (hp rfl)
  | x :: r, false, c, s, s', hok, hs, hc, _, hq, hsty, h => by
    have h0 := hc rfl
    simp only [walkL] at h
    obtain ⟨s1, h1, h⟩ := bind_ok h
    simp only [seqOK] at hok
    by_cases hb : B x = true
    · simp only [hb, if_true] at hok
      obtain ⟨e1, i1, c1, q1, st1⟩ := hB x hb c s s1 hs (Or.inl h0) hq hsty h1
      obtain ⟨e2, i2, cp2⟩ := seq_ids cfg num B I hB r false c s1 s' hok i1 (fun _ => c1) (by intro e; cases e) q1 st1 h
      exact ⟨by rw [e2, e1]; simp [hb, List.append_assoc], i2, cp2⟩
    · have hbf : B x = false := by simpa using hb
      simp only [hbf, Bool.false_eq_true, if_false] at hok
      by_cases hi : hasContent x = false
      · simp only [hi, Bool.not_false, if_true] at hok
        rw [walk_contentless cfg num x hi c s] at h1; cases h1
        obtain ⟨e2, i2, cp2⟩ := seq_ids cfg num B I hB r false c s s' hok hs hc (by intro e; cases e) hq hsty h
        exact ⟨by rw [e2]; simp [hbf], i2, cp2⟩
      · have hif : hasContent x = true := by simpa using hi
        simp only [hif, Bool.not_true, Bool.false_eq_true, if_false] at hok
        by_cases hg : (opensFirst x && flatInline x) = true
        · simp only [hg, if_true] at hok
          simp only [Bool.and_eq_true] at hg
          obtain ⟨p, t, _, hone, he, _, hl, hq1, _⟩ := C02_stray_block cfg num c x s s1 hg.1 hg.2 h0 h1
          have i1 := walk_inv cfg num x c s s1 hs h1
          have st1 := walk_sty (okSpec cfg.html) cfg rfl num x c s s1 hsty h1
          obtain ⟨e2, i2, cp2⟩ := seq_ids cfg num B I hB r true c s1 s' hok i1 (by intro e; cases e) (fun _ => ⟨p, hone, he⟩) hq1 st1 h
          refine ⟨?_, i2, cp2⟩
          rw [e2, idsP_pending s1 p hone he, idsP_closed s h0, hl]; simp [hbf]
        · have : (opensFirst x && flatInline x) = false := by simpa using hg
          simp [this] at hok
  | x :: r, true, c, s, s', hok, hs, _, hp, hnq, hsty, h => by
    obtain ⟨p, h1p, hep⟩ := hp rfl
    simp only [walkL] at h
    obtain ⟨s1, h1, h⟩ := bind_ok h
    simp only [seqOK] at hok
    have i1 := walk_inv cfg num x c s s1 hs h1
    by_cases hf : flatInline x = true
    · simp only [hf, if_true] at hok
      -- more inline content: it goes into the pending paragraph, no identity is added
      obtain ⟨t, _, g⟩ := walk_flat cfg num x c s s1 hf ⟨p, by rw [h1p]; rfl⟩ h1
      obtain ⟨q, q', hq, hq', hmeta, _⟩ := g.top
      have hq0 : q = p := by rw [h1p] at hq; exact (Option.some.inj hq).symm
      subst hq0
      have hone : s1.openPars = [q'] := by
        have hbl := g.below
        rw [h1p] at hbl
        have hne : s1.openPars ≠ [] := by intro e; rw [e] at hq'; cases hq'
        have := List.dropLast_concat_getLast hne
        rw [hbl] at this
        have hl : s1.openPars.getLast hne = q' := by
          rw [List.getLast?_eq_some_getLast hne] at hq'; exact Option.some.inj hq'
        rw [hl] at this
        simpa using this.symm
      have he' : q'.elem = none := by
        have := congrArg (·.1) hmeta; simp only [parMeta] at this; rw [this]; exact hep
      have hnb : B x = false := by
        -- a block is walked by `Step`, which leaves nothing open; flat inline content keeps the paragraph open
        cases hbx : B x with
        | false => rfl
        | true =>
          have := (hB x hbx c s s1 hs (Or.inr ⟨q, h1p, hep⟩) hnq hsty h1).2.2.1
          rw [hone] at this; cases this
      have q1 : NoQ s1 := by unfold NoQ; rw [g.queued]; exact hnq
      have st1 := walk_sty (okSpec cfg.html) cfg rfl num x c s s1 hsty h1
      obtain ⟨e2, i2, cp2⟩ := seq_ids cfg num B I hB r true c s1 s' hok i1 (by intro e; cases e) (fun _ => ⟨q', hone, he'⟩) q1 st1 h
      refine ⟨?_, i2, cp2⟩
      rw [e2, idsP_pending s1 q' hone he', idsP_pending s q h1p hep, g.root]; simp [hnb]
    · have hff : flatInline x = false := by simpa using hf
      simp only [hff, Bool.false_eq_true, if_false] at hok
      by_cases hb : B x = true
      · simp only [hb, if_true] at hok
        obtain ⟨e1, i1', c1, q1, st1⟩ := hB x hb c s s1 hs (Or.inr ⟨p, h1p, hep⟩) hnq hsty h1
        obtain ⟨e2, i2, cp2⟩ := seq_ids cfg num B I hB r false c s1 s' hok i1' (fun _ => c1) (by intro e; cases e) q1 st1 h
        exact ⟨by rw [e2, e1]; simp [hb, List.append_assoc], i2, cp2⟩
      · have : B x = false := by simpa using hb
        simp [this] at hok

theorem idsP_of_leavesP {s s' : DC} (h : leavesP s' = leavesP s) : idsP s' = idsP s := by unfold idsP; rw [h]

/-- a wrapper with a depth around an admissible sequence -/
theorem stepWrap (cfg : PartCfg) (num : Dict Str (List NumAttr)) (B : Xml → Bool) (I : Xml → List Nat)
    (hB : ∀ x, B x = true → Step cfg num x (I x)) (x : Xml) (hw : pureWrap x = true) (hk : seqOK B false x.kids = true) :
    Step cfg num x (x.kids.flatMap (fun k => if B k then I k else [])) := by
  cases x with
  | comment _ _ => simp [pureWrap] at hw
  | pi _ => simp [pureWrap] at hw
  | elem i pf t m a tx tl ks =>
    simp only [pureWrap, Bool.and_eq_true] at hw
    obtain ⟨d, hd⟩ := Option.isSome_iff_exists.1 hw.2
    intro c s s' hs ho hq hsty h
    obtain ⟨s1, s3, s4, h1, h3, h4, h5⟩ := walk_wrapper' cfg num c s s' i pf t m a tx tl ks hw.1 h
    rw [hd] at h1 h4 h5
    unfold DC.setCaretOpen at h1
    obtain ⟨sa, ha, h1⟩ := bind_ok h1
    obtain ⟨hla, hoa⟩ := flushImplicit_closes s sa d ho ha
    have ia : Inv sa := flushImplicit_preserves concludePar_inv s sa _ hs ha
    have f1 := setCaret_frame sa s1 _ _ h1
    have i1 := setCaret_inv sa s1 _ _ ia h1
    have ho1 : s1.openPars = [] := by rw [f1.openPars]; exact hoa
    have hl1 : leavesP s1 = leavesP s := by simp only [leavesP, f1.leaves, f1.openPars]; exact hla
    have qa : NoQ sa := by unfold NoQ; rw [(flushImplicit_keeps s sa _ ha).1]; exact hq
    have sta : Sty okStyles sa := flushImplicit_preserves (P := Sty okStyles) concludePar_sty s sa _ hsty ha
    have q1 : NoQ s1 := setCaret_noq sa s1 _ _ qa h1
    have st1 : Sty okStyles s1 := sty_of_frame sa s1 f1 sta
    obtain ⟨e3, i3, cp3, q3, st3⟩ := seq_ids cfg num B I hB ks false _ s1 s3 hk i1 (fun _ => ho1) (by intro e; cases e) q1 st1 h3
    obtain ⟨hl4, ho4⟩ := flushImplicit_closes s3 s4 d cp3 h4
    have i4 : Inv s4 := flushImplicit_preserves concludePar_inv s3 s4 _ i3 h4
    have q4 : NoQ s4 := by unfold NoQ; rw [(flushImplicit_keeps s3 s4 _ h4).1]; exact q3
    have st4 : Sty okStyles s4 := flushImplicit_preserves (P := Sty okStyles) concludePar_sty s3 s4 _ st3 h4
    have f5 := setCaret_frame s4 s' _ _ h5
    have hl5 : leavesP s' = leavesP s4 := by simp [leavesP, f5.leaves, f5.openPars]
    refine ⟨?_, setCaret_inv s4 s' _ _ i4 h5, by rw [f5.openPars]; exact ho4, setCaret_noq s4 s' _ _ q4 h5, sty_of_frame s4 s' f5 st4⟩
    rw [idsP_of_leavesP (hl5.trans hl4), e3, idsP_of_leavesP hl1]; rfl

/-- **every `deep` block**, by induction on the nesting depth of the wrappers -/
theorem deep_step (cfg : PartCfg) (hd : cfg.dup = false) (num : Dict Str (List NumAttr)) :
    ∀ (n : Nat) (x : Xml), deep n x = true → Step cfg num x (out n x)
  | 0, x, hx => step0 cfg hd num x hx
  | n+1, x, hx => by
    by_cases h0 : deep n x = true
    · have : out (n+1) x = out n x := by simp [out, h0]
      rw [this]; exact deep_step cfg hd num n x h0
    · have h0f : deep n x = false := by simpa using h0
      simp only [deep, h0f, Bool.false_or, Bool.and_eq_true] at hx
      have : out (n+1) x = x.kids.flatMap (fun k => if deep n k then out n k else []) := by simp [out, h0f, hx.1]
      rw [this]
      exact stepWrap cfg num (deep n) (out n) (fun k hk => deep_step cfg hd num n k hk) x hx.1 hx.2

/-- **C02, exactly once and in document order, through nested block wrappers and stray inline content**
(`duplicate_merged_cells = False`): for a part whose root is a wrapper (header, footer, body …) and whose
children are, in sequence, `deep n` blocks, ignored markup and groups of inline content outside
paragraphs, the identities read off the leaf paragraphs `new_depth_collector` returns are exactly the
identities of the source paragraphs in document order, each once. -/
theorem C02_deep_once_in_order (cfg : PartCfg) (hd : cfg.dup = false) (num : Dict Str (List NumAttr)) (c : Bool) (dc : DC) (n : Nat)
    (i : Nat) (pf : Option Str) (t : QName) (m : NsMap) (a : List (QName × Str)) (tx tl : Option Str) (ks : List Xml)
    (hm : wrapperTag (Xml.elem i pf t m a tx tl ks).ptag) (hok : seqOK (deep n) false ks = true)
    (hn : noNotes (.elem i pf t m a tx tl ks) = true)
    (h : newDepthCollector cfg num (.elem i pf t m a tx tl ks) c = .ok dc) :
    elemsOf (leafParsL dc.root) = ks.flatMap (fun k => if deep n k then out n k else []) := by
  unfold newDepthCollector at h
  obtain ⟨s5, hw, hf⟩ := bind_ok h
  have hq5 : s5.queued = [] := walk_noq cfg num _ hn c _ s5 (show NoQ ({ bullets := { numAttrs := num } } : DC) from rfl) hw
  obtain ⟨s1, s3, s4, h1, h3, h4, h5⟩ := walk_wrapper cfg num c _ s5 i pf t m a tx tl ks hm hw
  have i0 : Inv ({ bullets := { numAttrs := num } } : DC) := init_inv _
  rw [setCaretOpen_noImpl _ _ _ (noImpl_of_closed rfl)] at h1
  have f1 := setCaret_frame _ s1 _ _ h1
  have i1 := setCaret_inv _ s1 _ _ i0 h1
  have ho1 : s1.openPars = [] := by rw [f1.openPars]
  have hl1 : leafParsL s1.root = [] := by rw [f1.leaves]; rfl
  have st0 : Sty okStyles ({ bullets := { numAttrs := num } } : DC) := ⟨by intro p hp; simp [leafParsL] at hp, by simp, by simp⟩
  have q1 : NoQ s1 := setCaret_noq _ s1 _ _ (show NoQ ({ bullets := { numAttrs := num } } : DC) from rfl) h1
  have st1 : Sty okStyles s1 := sty_of_frame _ s1 f1 st0
  obtain ⟨e3, _, cp3, _, _⟩ := seq_ids cfg num (deep n) (out n) (fun k hk => deep_step cfg hd num n k hk) ks false _ s1 s3 hok i1 (fun _ => ho1) (by intro e; cases e) q1 st1 h3
  obtain ⟨hl4, hfin4, _⟩ := flushImplicit_leavesP s3 s4 _ cp3 h4
  have f5 := setCaret_frame s4 s5 _ _ h5
  have hfin5 : s5.openPars = [] ∨ ∃ p, s5.openPars = [p] ∧ p.elem = none := by rw [f5.openPars]; exact hfin4
  have hl5 : leavesP s5 = leavesP s4 := by simp [leavesP, f5.leaves, f5.openPars]
  rw [finish_leaves cfg s5 dc hq5 hfin5 hf]
  have : elemsOf (leavesP s5) = idsP s3 := by rw [hl5, hl4]; rfl
  rw [this, e3]
  simp [idsP, leavesP, hl1, ho1, elemsOf]

/-- the same for the main document part: `w:document` holding one `w:body` -/
theorem C02_deep_document (cfg : PartCfg) (hd : cfg.dup = false) (num : Dict Str (List NumAttr)) (c : Bool) (dc : DC) (n : Nat)
    (i : Nat) (pf : Option Str) (t : QName) (m : NsMap) (a : List (QName × Str)) (tx tl : Option Str)
    (i' : Nat) (pf' : Option Str) (t' : QName) (m' : NsMap) (a' : List (QName × Str)) (tx' tl' : Option Str) (ks : List Xml)
    (hdoc : (Xml.elem i pf t m a tx tl [.elem i' pf' t' m' a' tx' tl' ks]).ptag = documentTag)
    (hb : (Xml.elem i' pf' t' m' a' tx' tl' ks).ptag = bodyTag) (hok : seqOK (deep n) false ks = true)
    (hn : noNotes (.elem i pf t m a tx tl [.elem i' pf' t' m' a' tx' tl' ks]) = true)
    (h : newDepthCollector cfg num (.elem i pf t m a tx tl [.elem i' pf' t' m' a' tx' tl' ks]) c = .ok dc) :
    elemsOf (leafParsL dc.root) = ks.flatMap (fun k => if deep n k then out n k else []) := by
  have tmd : tagMember documentTag = some "DOCUMENT" := by decide
  have tmb : tagMember bodyTag = some "BODY" := by decide
  have wd : wrapperTag (Xml.elem i pf t m a tx tl [.elem i' pf' t' m' a' tx' tl' ks]).ptag := by rw [hdoc]; exact Or.inr (Or.inr tmd)
  have wb : wrapperTag (Xml.elem i' pf' t' m' a' tx' tl' ks).ptag := by rw [hb]; exact Or.inr (Or.inl tmb)
  have edd : elemDepth (.elem i pf t m a tx tl [.elem i' pf' t' m' a' tx' tl' ks]) = none := by
    unfold elemDepth; rw [hdoc]; simp
  have edb : elemDepth (.elem i' pf' t' m' a' tx' tl' ks) = none := by
    unfold elemDepth; rw [hb]; simp
  unfold newDepthCollector at h
  obtain ⟨s5, hw, hf⟩ := bind_ok h
  have hq5 : s5.queued = [] := walk_noq cfg num _ hn c _ s5 (show NoQ ({ bullets := { numAttrs := num } } : DC) from rfl) hw
  obtain ⟨s1, s3, s4, h1, h3, h4, h5⟩ := walk_wrapper cfg num c _ s5 i pf t m a tx tl _ wd hw
  rw [edd] at h1 h4 h5
  have e1 := Except.ok.inj ((setCaretOpen_none _ _).symm.trans h1)
  have e4 := Except.ok.inj ((flushImplicit_none s3).symm.trans h4)
  have e5 : s4 = s5 := Except.ok.inj (by rw [← h5]; rfl)
  subst e1; subst e4; subst e5
  simp only [walkL] at h3
  obtain ⟨sb, hwb, h3⟩ := bind_ok h3
  have := pure_ok h3; subst this
  obtain ⟨b1, b3, b4, g1, g3, g4, g5⟩ := walk_wrapper cfg num (c || isCellTag (.elem i pf t m a tx tl [.elem i' pf' t' m' a' tx' tl' ks])) _ sb i' pf' t' m' a' tx' tl' ks wb hwb
  rw [edb] at g1 g4 g5
  have f1 := Except.ok.inj ((setCaretOpen_none _ _).symm.trans g1)
  have f4 := Except.ok.inj ((flushImplicit_none b3).symm.trans g4)
  have f5 : b4 = sb := Except.ok.inj (by rw [← g5]; rfl)
  subst f1; subst f4; subst f5
  have st0 : Sty okStyles ({ bullets := { numAttrs := num } } : DC) := ⟨by intro p hp; simp [leafParsL] at hp, by simp, by simp⟩
  obtain ⟨e3, _, cp3, _, _⟩ := seq_ids cfg num (deep n) (out n) (fun k hk => deep_step cfg hd num n k hk) ks false _ _ b3 hok (init_inv _) (fun _ => rfl) (by intro e; cases e) rfl st0 g3
  rw [finish_leaves cfg b3 dc hq5 cp3 hf]
  show idsP b3 = _
  rw [e3]
  simp [idsP, leavesP, leafParsL, elemsOf]

/-- decidable, evaluated by the driver (with `n` = 6 levels of wrappers) -/
def deepPartOK (root : Xml) : Bool :=
  seqOK (deep 6) false (bodyKids root) && noNotes root &&
  (match tagMember root.ptag with | none => true | some "BODY" => true | some "DOCUMENT" => true | _ => false)

end D2P
