import D2P.Model.Output
import D2P.Check.C01
import D2P.Proofs.ShapeWalk
/-!
# C01 — paragraphs sit at depth 4 in every view, for every document

Reading of the statement: for every archive and option setting, each of the six
attributes is a list nested exactly four levels deep whose items at level four are strings
(`<part>`), run-string lists (`<part>_runs`, i.e. five levels with string leaves) or
paragraph records (`<part>_pars`), and the three forms have the same nesting skeleton.
The theorems below hold for **every** input tree: there is no scope restriction.
-/
namespace D2P

mutual
theorem Skel.beq_refl : (a : Skel) → Skel.beq a a = true
  | .tip => by simp [Skel.beq]
  | .node xs => by simp only [Skel.beq]; exact Skel.beqL_refl xs
theorem Skel.beqL_refl : (xs : List Skel) → Skel.beqL xs xs = true
  | [] => by simp [Skel.beqL]
  | x :: xs => by simp only [Skel.beqL, Bool.and_eq_true]; exact ⟨Skel.beq_refl x, Skel.beqL_refl xs⟩
end

/-! ## `get_par_strings` and `_join_runs` preserve the skeleton -/

theorem leaves_shape (rs : List Str) : tshapeL 0 (rs.map Tree.leaf) = true := by
  induction rs with
  | nil => simp [tshapeL]
  | cons r rs ih => simp [tshapeL, tshape, ih]

theorem runsLevel_spec : ∀ (n : Nat) (x : Nest) (t : Tree), wf n x = true → runsLevel n x = .ok t →
    tshape (n + 1) t = true ∧ skelTree n t = skelNest x := by
  intro n
  induction n with
  | zero =>
    intro x t hw h
    cases x with
    | par p =>
      simp only [runsLevel] at h
      obtain ⟨rs, _, h⟩ := bind_ok h
      have := pure_ok h; subst this
      exact ⟨by simp [tshape, leaves_shape], by simp [skelTree, skelNest]⟩
    | list xs => simp [wf] at hw
  | succ n ih =>
    intro x t hw h
    cases x with
    | par p => simp [wf] at hw
    | list xs =>
      simp only [runsLevel] at h
      obtain ⟨ts, hgo, h⟩ := bind_ok h
      have := pure_ok h; subst this
      simp only [wf] at hw
      have key : ∀ (ys : List Nest) (us : List Tree), wfL n ys = true → runsLevel.go n ys = .ok us →
          tshapeL (n + 1) us = true ∧ skelTreeL n us = skelNestL ys := by
        intro ys
        induction ys with
        | nil => intro us _ hu; simp only [runsLevel.go] at hu; have := pure_ok hu; subst this; simp [tshapeL, skelTreeL, skelNestL]
        | cons y ys ihy =>
          intro us hwy hu
          simp only [runsLevel.go] at hu
          obtain ⟨t1, h1, hu⟩ := bind_ok hu
          obtain ⟨t2, h2, hu⟩ := bind_ok hu
          have := pure_ok hu; subst this
          simp only [wfL, Bool.and_eq_true] at hwy
          have a := ih y t1 hwy.1 h1
          have b := ihy t2 hwy.2 h2
          simp [tshapeL, skelTreeL, skelNestL, a.1, a.2, b.1, b.2]
      have k := key xs ts hw hgo
      exact ⟨by simp [tshape, k.1], by simp [skelTree, skelNest, k.2]⟩

theorem getParStrings_spec : ∀ (root : List Nest) (ts : List Tree), wfL 3 root = true → getParStrings root = .ok ts →
    tshapeL 4 ts = true ∧ skelTreeL 3 ts = skelNestL root := by
  intro root
  unfold getParStrings
  induction root with
  | nil => intro ts _ h; simp only [mapLevel] at h; have := pure_ok h; subst this; simp [tshapeL, skelTreeL, skelNestL]
  | cons y ys ih =>
    intro ts hw h
    simp only [mapLevel] at h
    obtain ⟨t1, h1, h⟩ := bind_ok h
    obtain ⟨t2, h2, h⟩ := bind_ok h
    have := pure_ok h; subst this
    simp only [wfL, Bool.and_eq_true] at hw
    have a := runsLevel_spec 3 y t1 hw.1 h1
    have b := ih t2 hw.2 h2
    simp [tshapeL, skelTreeL, skelNestL, a.1, a.2, b.1, b.2]

theorem joinLevel_spec : ∀ (n : Nat) (t u : Tree), tshape (n + 1) t = true → joinLevel n t = .ok u →
    tshape n u = true ∧ skelTree n u = skelTree n t := by
  intro n
  induction n with
  | zero =>
    intro t u ht h
    cases t with
    | leaf s => simp [tshape] at ht
    | node rs =>
      simp only [joinLevel] at h
      obtain ⟨s, _, h⟩ := bind_ok h
      have := pure_ok h; subst this
      exact ⟨by simp [tshape], by simp [skelTree]⟩
  | succ n ih =>
    intro t u ht h
    cases t with
    | leaf s => simp [tshape] at ht
    | node xs =>
      simp only [joinLevel] at h
      obtain ⟨ts, hgo, h⟩ := bind_ok h
      have := pure_ok h; subst this
      simp only [tshape] at ht
      have key : ∀ (ys us : List Tree), tshapeL (n + 1) ys = true → joinLevel.go n ys = .ok us →
          tshapeL n us = true ∧ skelTreeL n us = skelTreeL n ys := by
        intro ys
        induction ys with
        | nil => intro us _ hu; simp only [joinLevel.go] at hu; have := pure_ok hu; subst this; simp [tshapeL, skelTreeL]
        | cons y ys ihy =>
          intro us hy hu
          simp only [joinLevel.go] at hu
          obtain ⟨t1, h1, hu⟩ := bind_ok hu
          obtain ⟨t2, h2, hu⟩ := bind_ok hu
          have := pure_ok hu; subst this
          simp only [tshapeL, Bool.and_eq_true] at hy
          have a := ih y t1 hy.1 h1
          have b := ihy t2 hy.2 h2
          simp [tshapeL, skelTreeL, a.1, a.2, b.1, b.2]
      have k := key xs ts ht hgo
      exact ⟨by simp [tshape, k.1], by simp [skelTree, k.2]⟩

theorem joinRuns_spec : ∀ (ts us : List Tree), tshapeL 4 ts = true → joinRuns ts = .ok us →
    tshapeL 3 us = true ∧ skelTreeL 3 us = skelTreeL 3 ts := by
  intro ts
  unfold joinRuns
  induction ts with
  | nil => intro us _ h; simp only [joinRuns.go] at h; have := pure_ok h; subst this; simp [tshapeL, skelTreeL]
  | cons y ys ih =>
    intro us hy h
    simp only [joinRuns.go] at h
    obtain ⟨t1, h1, h⟩ := bind_ok h
    obtain ⟨t2, h2, h⟩ := bind_ok h
    have := pure_ok h; subst this
    simp only [tshapeL, Bool.and_eq_true] at hy
    have a := joinLevel_spec 3 y t1 hy.1 h1
    have b := ih t2 hy.2 h2
    simp [tshapeL, skelTreeL, a.1, a.2, b.1, b.2]

/-! ## the property for one part and for the package -/

/-- **C01, record view of one part.** Whatever the tree, the options, the relationships and the
numbering definitions: if the walk returns at all, the result is four levels deep with
paragraph records as leaves. -/
theorem C01_walk_shape (cfg : PartCfg) (num : Dict Str (List NumAttr)) (root : Xml) (inCell : Bool) (dc : DC)
    (h : newDepthCollector cfg num root inCell = .ok dc) : Shape4 dc.root :=
  (newDepthCollector_inv cfg num root inCell dc h).shape

theorem partCollector_shape (o : Opts) (a : Archive) (files : List Rel) (numM : M NumTable) (r : Rel) (dc : DC)
    (h : partCollector o a files numM r = .ok dc) : Shape4 dc.root := by
  unfold partCollector at h
  obtain ⟨cr, _, h⟩ := bind_ok h
  obtain ⟨rels, _, h⟩ := bind_ok h
  obtain ⟨num, _, h⟩ := bind_ok h
  exact C01_walk_shape _ _ _ _ dc h

theorem partsContent_shape (o : Opts) (a : Archive) (files : List Rel) (numM : M NumTable) :
    ∀ (rs : List Rel) (root : List Nest), partsContent o a files numM rs = .ok root → Shape4 root := by
  intro rs
  induction rs with
  | nil => intro root h; simp only [partsContent] at h; have := pure_ok h; subst this; simp [Shape4, wfL]
  | cons r rs ih =>
    intro root h
    simp only [partsContent] at h
    obtain ⟨dc, h1, h⟩ := bind_ok h
    obtain ⟨rest, h2, h⟩ := bind_ok h
    have := pure_ok h; subst this
    have a := partCollector_shape o a files numM r dc h1
    have b := ih rest h2
    unfold Shape4 at *
    rw [wfL_append]; simp [a, b]

theorem getPars_shape (o : Opts) (a : Archive) (t : String) (root : List Nest) (h : getPars o a t = .ok root) :
    Shape4 root := by
  unfold getPars at h
  obtain ⟨files, _, h⟩ := bind_ok h
  exact partsContent_shape o a files _ _ root h

/-- **C01, `<part>_pars`** for all six attributes, document included. -/
theorem C01_pars (o : Opts) (a : Archive) (part : String) (root : List Nest)
    (h : viewPars o a part = .ok root) : Shape4 root := by
  unfold viewPars viewParsFrom at h
  split at h
  · obtain ⟨x1, h1, h⟩ := bind_ok h
    obtain ⟨x2, h2, h⟩ := bind_ok h
    obtain ⟨x3, h3, h⟩ := bind_ok h
    obtain ⟨x4, h4, h⟩ := bind_ok h
    obtain ⟨x5, h5, h⟩ := bind_ok h
    have := pure_ok h; subst this
    have s1 := getPars_shape o a _ x1 h1
    have s2 := getPars_shape o a _ x2 h2
    have s3 := getPars_shape o a _ x3 h3
    have s4 := getPars_shape o a _ x4 h4
    have s5 := getPars_shape o a _ x5 h5
    unfold Shape4 at *
    simp [wfL_append, s1, s2, s3, s4, s5]
  · split at h
    · exact getPars_shape o a _ root h
    · exact getPars_shape o a _ root h

/-- **C01, one part, the two string views.** From a record view of the right shape,
`get_par_strings` gives five levels with string leaves, `_join_runs` four levels with string
leaves, and all three have the same skeleton: an address valid in one is valid in the others. -/
theorem C01_views (root : List Nest) (runs plain : List Tree) (hs : Shape4 root)
    (hr : getParStrings root = .ok runs) (hp : joinRuns runs = .ok plain) :
    tshapeL 4 runs = true ∧ tshapeL 3 plain = true ∧
    skelTreeL 3 runs = skelNestL root ∧ skelTreeL 3 plain = skelNestL root := by
  have a := getParStrings_spec root runs hs hr
  have b := joinRuns_spec runs plain a.1 hp
  exact ⟨a.1, b.1, a.2, by rw [b.2, a.2]⟩

/-- the model passes its own checker whenever it returns the three views -/
theorem C01_check (root : List Nest) (runs plain : List Tree) (hs : Shape4 root)
    (hr : getParStrings root = .ok runs) (hp : joinRuns runs = .ok plain) :
    checkC01 ⟨root, runs, plain⟩ = true := by
  have h := C01_views root runs plain hs hr hp
  have hw : wfL 3 root = true := hs
  unfold checkC01
  simp only [h.1, h.2.1, h.2.2.1, h.2.2.2, hw, Skel.beqL_refl, Bool.and_self]

end D2P
