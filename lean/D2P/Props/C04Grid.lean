import D2P.Proofs.Grid
import D2P.Props.Examples
/-!
# C04 — a regular table comes out as a grid, position by position

`walk_regTbl` (Proofs/Grid.lean) follows the walk through an entire table: every `w:tbl` whose rows
are `w:tr` elements, whose cells are `w:tc` elements with readable properties and whose cells
directly contain flat paragraphs (plus any number of elements the walk ignores: `tblPr`, `tblGrid`,
`trPr`, `tcPr`, bookmarks, XML comments …) — walked from ANY collector state.  This file rewrites
the accumulated result as a function of grid positions and reads the property off it:

* `C04_table`      one table is appended, `tableSpec` of the source cells;
* `C04_rows`       one row per source row;
* `C04_width`, `C04_rectangular`  one cell per grid column: a row has Σ gridSpan cells, so rows that
                   span the same number of columns give an n × m grid;
* `C04_blank`      duplication off: a cell's own paragraphs at its first position, a single empty
                   paragraph at each further position it spans;
* `C04_duplicate`  duplication on: every position a cell spans repeats the content found at its
                   first position, and for a vertical continuation that content is the content
                   of the position above (so, by induction down the column, of the restart cell);
* `C04_uncovered_same`  positions of cells that do not continue a vertical merge, at their first
                   column, are the same under both settings.

The cells' records are the records of the source cell's paragraphs (`ParsFrom`: identity and text),
carried in `CellMatches`.
-/
namespace D2P

/-! ## the layout as a function of the position -/

/-- what the walk puts at the first grid column `col` of a cell, given the row above -/
def cellBaseP (dup cont : Bool) (prev : Option Nest) (col : Nat) (Q : List Nest) : Nest :=
  if dup && cont then
    match prev with
    | some (.list p) => (match p[col]? with | some above => markCopyT above | none => .list Q)
    | _ => .list Q
  else .list Q

theorem cellBase_eq (dup cont : Bool) (R C Q : List Nest) :
    cellBase dup cont R C Q = cellBaseP dup cont R.getLast? C.length Q := rfl

/-- a row, cell by cell, from grid column `col` on -/
def rowSpec (dup : Bool) (prev : Option Nest) : Nat → List CellOut → List Nest
  | _, [] => []
  | col, o :: os =>
    (cellBaseP dup o.cont prev col o.Q :: List.replicate o.n (spanCell dup (cellBaseP dup o.cont prev col o.Q))) ++
      rowSpec dup prev (col + (o.n + 1)) os

theorem rowCells_eq (dup : Bool) (R : List Nest) : ∀ (outs : List CellOut) (C : List Nest),
    rowCells dup R C outs = C ++ rowSpec dup R.getLast? C.length outs
  | [], C => by simp [rowCells, rowSpec]
  | o :: os, C => by
    simp only [rowCells, rowSpec, rowCells_eq dup R os, cellBase_eq, List.length_append, List.length_cons,
      List.length_replicate, List.append_assoc, List.cons_append, List.nil_append]

/-- a table, row by row, each row laid out against the row above it -/
def tableSpec (dup : Bool) : Option Nest → List (List CellOut) → List Nest
  | _, [] => []
  | prev, o :: os => .list (rowSpec dup prev 0 o) :: tableSpec dup (some (.list (rowSpec dup prev 0 o))) os

theorem tableRows_eq (dup : Bool) : ∀ (outs : List (List CellOut)) (R : List Nest),
    tableRows dup R outs = R ++ tableSpec dup R.getLast? outs
  | [], R => by simp [tableRows, tableSpec]
  | o :: os, R => by
    simp only [tableRows, tableSpec, tableRows_eq dup os, rowCells_eq, List.nil_append, List.length_nil,
      List.getLast?_append, List.getLast?_singleton, Option.some_or, List.append_assoc, List.singleton_append]

/-- **C04, the table.** A regular table walked from any collector state (any caret depth, anything
collected before, so: anywhere in any content part, nested in a cell or not) appends exactly one
table whose rows are `tableSpec` of the source cells, and leaves the caret at table level. -/
theorem C04_table (cfg : PartCfg) (num : Dict Str (List NumAttr)) (c : Bool) (x : Xml) (hx : regTbl x = true)
    (s s' : DC) (h1 : 1 ≤ s.depth) (h4 : s.depth ≤ 4) (hni : NoImpl s) (h : walk cfg num c s x = .ok s') :
    ∃ outs, RowsMatch cfg (x.kids.filter regRow) outs ∧ s'.depth = 1 ∧
      s'.root = s.root ++ [.list (tableSpec cfg.dup none outs)] ∧ s'.openPars = s.openPars := by
  obtain ⟨outs, hm, hd, hr, ho⟩ := walk_regTbl cfg num c x hx s s' h1 h4 hni h
  exact ⟨outs, hm, hd, by rw [hr, tableRows_eq]; rfl, ho⟩

/-! ## n × m -/

/-- the number of grid columns a row's cells span -/
def width (o : List CellOut) : Nat := (o.map (fun c => c.n + 1)).sum

def cellCount : Nest → Nat
  | .list cells => cells.length
  | .par _ => 0

def isList : Nest → Bool
  | .list _ => true
  | .par _ => false

theorem rowSpec_length (dup : Bool) (prev : Option Nest) : ∀ (outs : List CellOut) (col : Nat),
    (rowSpec dup prev col outs).length = width outs
  | [], _ => rfl
  | o :: os, col => by
    simp only [rowSpec, List.length_append, List.length_cons, List.length_replicate, rowSpec_length dup prev os,
      width, List.map_cons, List.sum_cons]

/-- **one row per source row** -/
theorem C04_rows (dup : Bool) : ∀ (outs : List (List CellOut)) (prev : Option Nest),
    (tableSpec dup prev outs).length = outs.length
  | [], _ => rfl
  | o :: os, prev => by simp [tableSpec, C04_rows dup os]

/-- **one cell per grid column**: each row is a list of as many cells as its source cells span -/
theorem C04_width (dup : Bool) : ∀ (outs : List (List CellOut)) (prev : Option Nest),
    (tableSpec dup prev outs).map cellCount = outs.map width ∧ (tableSpec dup prev outs).all isList = true
  | [], _ => ⟨rfl, rfl⟩
  | o :: os, prev => by
    obtain ⟨h1, h2⟩ := C04_width dup os (some (.list (rowSpec dup prev 0 o)))
    exact ⟨by simp [tableSpec, cellCount, rowSpec_length, h1], by simp only [tableSpec, List.all_cons, isList, h2]; rfl⟩

/-- **n × m**: when the cells of every source row span the same number `m` of grid columns, every
extracted row has exactly `m` cells -/
theorem C04_rectangular (dup : Bool) (outs : List (List CellOut)) (prev : Option Nest) (m : Nat)
    (hm : ∀ o ∈ outs, width o = m) : ∀ r ∈ tableSpec dup prev outs, ∃ cells, r = .list cells ∧ cells.length = m := by
  intro r hr
  obtain ⟨h1, h2⟩ := C04_width dup outs prev
  have hl : isList r = true := List.all_eq_true.1 h2 r hr
  cases r with
  | par _ => simp [isList] at hl
  | list cells =>
    refine ⟨cells, rfl, ?_⟩
    have hmem : cellCount (.list cells) ∈ (tableSpec dup prev outs).map cellCount := List.mem_map.2 ⟨_, hr, rfl⟩
    rw [h1] at hmem
    obtain ⟨o, ho, hw⟩ := List.mem_map.1 hmem
    rw [hm o ho] at hw
    exact hw.symm

/-! ## duplication off -/

/-- a cell's own paragraphs, then one single-empty-paragraph cell per further column it spans -/
def blankCells (o : CellOut) : List Nest := .list o.Q :: List.replicate o.n (.list [.par emptyPar])

theorem rowSpec_false (prev : Option Nest) : ∀ (outs : List CellOut) (col : Nat),
    rowSpec false prev col outs = outs.flatMap blankCells
  | [], _ => rfl
  | o :: os, col => by
    simp only [rowSpec, rowSpec_false prev os, List.flatMap_cons, blankCells, cellBaseP, Bool.false_and,
      Bool.false_eq_true, if_false, spanCell]

/-- **C04, duplicate_merged_cells=False**: the content appears only at a merged cell's first
position; every other position it spans holds a single empty paragraph; a cell that continues a
vertical merge keeps its own (in Word's output: empty) paragraphs. -/
theorem C04_blank : ∀ (outs : List (List CellOut)) (prev : Option Nest),
    tableSpec false prev outs = outs.map (fun o => .list (o.flatMap blankCells))
  | [], _ => rfl
  | o :: os, prev => by simp only [tableSpec, rowSpec_false, C04_blank os, List.map_cons]

/-! ## duplication on -/

theorem markCopyL_map : ∀ (xs : List Nest), markCopyL xs = xs.map markCopyT
  | [] => rfl
  | x :: xs => by simp [markCopyL, markCopyL_map xs]

/-- the content of a subtree: the subtree with the bookkeeping of copies (the copy mark and the
source element identity) erased.  A deep copy has the content of its original (`markCopy_idem`). -/
abbrev content : Nest → Nest := markCopyT

/-- the content at every position of a row, given the content of the row above -/
def dupRow (prevC : Option (List Nest)) : Nat → List CellOut → List Nest
  | _, [] => []
  | col, o :: os =>
    List.replicate (o.n + 1)
      (match (if o.cont then prevC.bind (fun p => p[col]?) else none) with
       | some above => above
       | none => content (.list o.Q)) ++
      dupRow prevC (col + (o.n + 1)) os

def contentOfRow : Option Nest → Option (List Nest)
  | some (.list p) => some (p.map content)
  | _ => none

theorem content_cellBaseP (cont : Bool) (prev : Option Nest) (col : Nat) (Q : List Nest) :
    content (cellBaseP true cont prev col Q) =
      (match (if cont then (contentOfRow prev).bind (fun p => p[col]?) else none) with
       | some above => above
       | none => content (.list Q)) := by
  cases cont with
  | false => simp [cellBaseP]
  | true =>
    simp only [cellBaseP, Bool.and_self, if_true]
    cases prev with
    | none => simp [contentOfRow]
    | some r =>
      cases r with
      | par _ => simp [contentOfRow]
      | list p =>
        simp only [contentOfRow, Option.bind_some, List.getElem?_map]
        cases p[col]? with
        | none => simp
        | some above => simp [content, markCopy_idem]

theorem rowSpec_true (prev : Option Nest) : ∀ (outs : List CellOut) (col : Nat),
    (rowSpec true prev col outs).map content = dupRow (contentOfRow prev) col outs
  | [], _ => rfl
  | o :: os, col => by
    have e : markCopyT (cellBaseP true o.cont prev col o.Q) = _ := content_cellBaseP o.cont prev col o.Q
    have ih := rowSpec_true prev os (col + (o.n + 1))
    simp only [content] at ih
    have e2 : markCopyT (markCopyT (cellBaseP true o.cont prev col o.Q)) = markCopyT (cellBaseP true o.cont prev col o.Q) :=
      markCopy_idem _
    simp only [rowSpec, dupRow, List.map_append, List.map_cons, List.map_replicate, spanCell, if_true,
      e2, List.replicate_succ, ih]
    rw [e]
    show _ = _
    rw [show content (cellBaseP true o.cont prev col o.Q) = _ from e]

/-- the content of a table with duplication on, row by row -/
def dupTable : Option (List Nest) → List (List CellOut) → List (List Nest)
  | _, [] => []
  | prevC, o :: os => dupRow prevC 0 o :: dupTable (some (dupRow prevC 0 o)) os

def rowContent : Nest → List Nest
  | .list cells => cells.map content
  | .par _ => []

/-- **C04, duplicate_merged_cells=True**: every position a cell spans holds the same content —
the cell's own paragraphs, or, for a cell that continues a vertical merge, whatever the row above
holds at the cell's first column (hence, down a merged column, the content of the restart cell). -/
theorem C04_duplicate : ∀ (outs : List (List CellOut)) (prev : Option Nest),
    (tableSpec true prev outs).map rowContent = dupTable (contentOfRow prev) outs
  | [], _ => rfl
  | o :: os, prev => by
    simp only [tableSpec, dupTable, List.map_cons, rowContent, rowSpec_true, C04_duplicate os, contentOfRow]

/-! ## positions not covered by a merge -/

/-- positions that are a cell's first column, for cells that do not continue a vertical merge -/
def ownMask (outs : List CellOut) : List Bool := outs.flatMap (fun o => (!o.cont) :: List.replicate o.n false)

def AgreeOn (mask : List Bool) (a b : List Nest) : Prop := ∀ j : Nat, mask[j]? = some true → a[j]? = b[j]?

theorem agreeOn_append {m1 m2 : List Bool} {a1 a2 b1 b2 : List Nest} (ha : a1.length = m1.length) (hb : b1.length = m1.length)
    (h1 : AgreeOn m1 a1 b1) (h2 : AgreeOn m2 a2 b2) : AgreeOn (m1 ++ m2) (a1 ++ a2) (b1 ++ b2) := by
  unfold AgreeOn at *
  intro j hj
  by_cases hlt : j < m1.length
  · rw [List.getElem?_append_left hlt] at hj
    rw [List.getElem?_append_left (by omega), List.getElem?_append_left (by omega)]
    exact h1 j hj
  · rw [List.getElem?_append_right (by omega)] at hj
    rw [List.getElem?_append_right (by omega), List.getElem?_append_right (by omega), ha, hb]
    exact h2 _ hj

/-- **C04, positions not covered by any merge are identical under both settings** (row level:
whatever the rows above look like under either setting). -/
theorem C04_uncovered_same (prevT prevF : Option Nest) : ∀ (outs : List CellOut) (col : Nat),
    AgreeOn (ownMask outs) (rowSpec true prevT col outs) (rowSpec false prevF col outs)
  | [], _ => by unfold AgreeOn; intro j hj; simp [ownMask] at hj
  | o :: os, col => by
    have ih := C04_uncovered_same prevT prevF os (col + (o.n + 1))
    simp only [ownMask, List.flatMap_cons, rowSpec]
    refine agreeOn_append (by simp) (by simp) ?_ ih
    unfold AgreeOn
    intro j hj
    cases j with
    | zero =>
      simp only [List.getElem?_cons_zero, Option.some.injEq, Bool.not_eq_true'] at hj
      simp [cellBaseP, hj]
    | succ j =>
      simp only [List.getElem?_cons_succ, List.getElem?_replicate] at hj
      split at hj <;> simp at hj

/-- … and so are whole tables without merged cells -/
theorem C04_no_merge_same : ∀ (outs : List (List CellOut)) (p q : Option Nest),
    (∀ o ∈ outs, ∀ c ∈ o, c.n = 0 ∧ c.cont = false) → tableSpec true p outs = tableSpec false q outs
  | [], _, _, _ => rfl
  | o :: os, p, q, h => by
    have hrow : ∀ (cs : List CellOut) (col : Nat) (p q : Option Nest), (∀ c ∈ cs, c.n = 0 ∧ c.cont = false) →
        rowSpec true p col cs = rowSpec false q col cs := by
      intro cs
      induction cs with
      | nil => intros; rfl
      | cons c cs ih =>
        intro col p q hc
        obtain ⟨hn, hcont⟩ := hc c (by simp)
        simp only [rowSpec, hn, hcont, cellBaseP, Bool.and_false, Bool.false_and, Bool.false_eq_true, if_false,
          List.replicate_zero, ih _ p q (fun c' hc' => hc c' (by simp [hc']))]
    simp only [tableSpec, hrow o 0 p q (h o (by simp))]
    rw [C04_no_merge_same os _ _ (fun o' ho' => h o' (by simp [ho']))]

/-! ## non-vacuity -/
namespace Ex

/-- a 3 × 3 grid: A spans two columns; B starts a vertical merge continued in rows 2 and 3 (the
second time with an explicit value); rows carry `trPr`, the table `tblPr`/`tblGrid` -/
def grid : Xml :=
  tbl 1 [el 2 "tblPr" [] none [], el 3 "tblGrid" [] none [el 4 "gridCol" [] none []],
    tr 10 [el 11 "trPr" [] none [],
      tc 12 [el 13 "gridSpan" [wattr "val" "2"] none []] [p 14 [r 15 [t 16 "A"]]],
      tc 17 [el 18 "vMerge" [wattr "val" "restart"] none []] [p 19 [r 20 [t 21 "B"]], p 22 [r 23 [t 24 "B2"]]]],
    tr 30 [
      tc 31 [] [p 32 [r 33 [t 34 "C"]]],
      tc 35 [] [p 36 [r 37 [t 38 "D"]]],
      tc 39 [el 40 "vMerge" [] none []] [p 41 []]],
    tr 50 [
      tc 51 [] [p 52 [r 53 [t 54 "E"]]],
      tc 55 [] [p 56 [r 57 [t 58 "F"]]],
      tc 59 [el 60 "vMerge" [wattr "val" "continue"] none []] [p 61 []]]]

/-- the hypothesis of `C04_table` -/
example : regTbl grid = true := by decide +kernel

def cellTexts : Nest → List (List Str)
  | .list rows => rows.map (fun | .list cells => cells.map (fun c => sjoin ((leafParsT c).map parText)) | .par _ => [])
  | .par _ => []

def tableTexts (dup : Bool) : M (List (List (List Str))) :=
  (newDepthCollector { html := false, dup := dup, rels := [] } [] (el 0 "body" [] none [grid])).map (fun dc => dc.root.map cellTexts)

example : tableTexts true = .ok [[[lit "A", lit "A", lit "BB2"], [lit "C", lit "D", lit "BB2"], [lit "E", lit "F", lit "BB2"]]] := by
  decide +kernel
example : tableTexts false = .ok [[[lit "A", lit "", lit "BB2"], [lit "C", lit "D", lit ""], [lit "E", lit "F", lit ""]]] := by
  decide +kernel

end Ex
end D2P
