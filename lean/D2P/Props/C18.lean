import D2P.Model.Xml
/-!
# C18 — equivalent serialisations: attribute order and namespace URI families (lookup level)

Everything the model reads from an element's attributes goes through `attrGet` (Clark-name
lookup) and everything it reads about namespaces through `qn` (`elem.nsmap[prefix]`). Hence:

* `C18_attr_order`: permuting the attributes of an element (names being distinct, as XML
  requires) does not change any lookup;
* `C18_uri_family`: renaming namespace URIs by any injective map — applied to the attribute
  names and to the in-scope namespace map alike, prefixes untouched (transitional ↔ strict) —
  does not change any `attrQ` lookup.
Lifting these two facts through every function of the model (a congruence over the whole
extraction) and the byte-level rewrites handled by the parser are still to do / observed —
DESIGN §9/C18.
-/
namespace D2P

theorem find_perm {α : Type} (p : α → Bool) : ∀ {l l' : List α}, l.Perm l' →
    (∀ a ∈ l, ∀ b ∈ l, p a = true → p b = true → a = b) → l.find? p = l'.find? p := by
  intro l l' h
  induction h with
  | nil => intro _; rfl
  | cons x _ ih =>
    intro hu
    simp only [List.find?_cons]
    split
    · rfl
    · exact ih (fun a ha b hb => hu a (List.mem_cons_of_mem _ ha) b (List.mem_cons_of_mem _ hb))
  | swap x y l =>
    intro hu
    simp only [List.find?_cons]
    cases hx : p x <;> cases hy : p y <;> simp
    have := hu x (by simp) y (by simp) hx hy
    exact this.symm
  | trans h1 h2 ih1 ih2 =>
    intro hu
    rw [ih1 hu]
    apply ih2
    intro a ha b hb
    exact hu a (h1.mem_iff.2 ha) b (h1.mem_iff.2 hb)

/-- **C18: attribute order.** -/
theorem C18_attr_order (i : Nat) (p : Option Str) (t : QName) (m : NsMap) (as as' : List (QName × Str))
    (tx tl : Option Str) (ks : List Xml) (hperm : as.Perm as') (hnd : (as.map (·.1)).Nodup) (q : QName) :
    (Xml.elem i p t m as tx tl ks).attrGet q = (Xml.elem i p t m as' tx tl ks).attrGet q := by
  unfold Xml.attrGet Xml.attrs
  congr 1
  apply find_perm _ hperm
  intro a ha b hb h1 h2
  have e1 : a.1 = q := by simpa using h1
  have e2 : b.1 = q := by simpa using h2
  have hk : a.1 = b.1 := e1.trans e2.symm
  -- distinct names: equal names means the same entry
  clear h1 h2 e1 e2 hperm
  induction as with
  | nil => simp at ha
  | cons c cs ih =>
    simp only [List.map_cons, List.nodup_cons] at hnd
    rcases List.mem_cons.1 ha with rfl | ha' <;> rcases List.mem_cons.1 hb with rfl | hb'
    · rfl
    · exact absurd (List.mem_map.2 ⟨b, hb', hk.symm⟩) hnd.1
    · exact absurd (List.mem_map.2 ⟨a, ha', hk⟩) hnd.1
    · exact ih hnd.2 ha' hb'

/-- rename the namespace URIs of an attribute list / a namespace map -/
def renameAttrs (f : Str → Str) (as : List (QName × Str)) : List (QName × Str) :=
  as.map fun a => (⟨a.1.ns.map f, a.1.name⟩, a.2)
def renameNsMap (f : Str → Str) (m : NsMap) : NsMap := m.map fun e => (e.1, f e.2)

/-- **C18: namespace URI families.** A prefixed attribute lookup gives the same answer after any
injective renaming of URIs. -/
theorem C18_uri_family (f : Str → Str) (hf : ∀ a b, f a = f b → a = b)
    (i : Nat) (p : Option Str) (t : QName) (m : NsMap) (as : List (QName × Str)) (tx tl : Option Str) (ks : List Xml)
    (pfx name : Str) :
    (Xml.elem i p ⟨t.ns.map f, t.name⟩ (renameNsMap f m) (renameAttrs f as) tx tl ks).attrQ pfx name
      = (Xml.elem i p t m as tx tl ks).attrQ pfx name := by
  unfold Xml.attrQ Xml.qn Xml.nsmap
  have hcomp : ((fun e : Option Str × Str => e.1 == some pfx) ∘ fun e : Option Str × Str => (e.1, f e.2))
      = fun e : Option Str × Str => e.1 == some pfx := by funext e; rfl
  simp only [renameNsMap, List.find?_map, hcomp]
  cases he : m.find? (fun e => e.1 == some pfx) with
  | none => rfl
  | some e =>
    simp only [Option.map_some, ok_bind]
    congr 1
    unfold Xml.attrGet Xml.attrs renameAttrs
    simp only [List.find?_map, Option.map_map]
    have hpred : ((fun a : QName × Str => a.1 == (⟨some (f e.2), name⟩ : QName)) ∘ fun a : QName × Str => ((⟨a.1.ns.map f, a.1.name⟩ : QName), a.2))
        = fun a : QName × Str => a.1 == (⟨some e.2, name⟩ : QName) := by
      funext a
      obtain ⟨⟨ns, nm⟩, v⟩ := a
      simp only [Function.comp]
      -- both sides are `decide` of an equation between QNames
      have key : ((⟨ns.map f, nm⟩ : QName) = ⟨some (f e.2), name⟩) ↔ ((⟨ns, nm⟩ : QName) = ⟨some e.2, name⟩) := by
        simp only [QName.mk.injEq]
        cases ns with
        | none => simp
        | some u =>
          simp only [Option.map_some, Option.some.injEq]
          constructor
          · rintro ⟨h1, h2⟩; exact ⟨hf _ _ h1, h2⟩
          · rintro ⟨h1, h2⟩; exact ⟨by rw [h1], h2⟩
      by_cases h : (⟨ns, nm⟩ : QName) = ⟨some e.2, name⟩
      · have h' := key.2 h
        rw [beq_iff_eq.2 h, beq_iff_eq.2 h']
      · have h' : ¬ ((⟨ns.map f, nm⟩ : QName) = ⟨some (f e.2), name⟩) := fun x => h (key.1 x)
        rw [beq_eq_false_iff_ne.2 h, beq_eq_false_iff_ne.2 h']
    rw [hpred]
    cases as.find? (fun a => a.1 == (⟨some e.2, name⟩ : QName)) <;> rfl

end D2P
