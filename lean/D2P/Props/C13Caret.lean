import D2P.Proofs.ShapeWalk
/-!
# C13 — the caret can always be moved: `CaretDepthError` is never raised by `set_caret`

`Inv2` adds to the C01 invariant that the rightmost spine down to the caret consists of lists
(what the stack of aliases `_rightmost_branches` denotes). Under `Inv2`, `set_caret(d)` for any
d in 1..4 returns — it neither raises `CaretDepthError` nor gets stuck — and re-establishes
`Inv2`; so does appending a paragraph at depth 4.
-/
namespace D2P

/-- following last children `d` times from `xs` only meets lists -/
def Spine : Nat → List Nest → Prop
  | 0, _ => True
  | d+1, xs => ∃ ys, xs.getLast? = some (.list ys) ∧ Spine d ys

structure Inv2 (s : DC) : Prop where
  inv : Inv s
  spine : Spine (s.depth - 1) s.root

theorem modAt_append_ok (d : Nat) (xs : List Nest) (x : Nest) (h : Spine d xs) :
    ∃ r, modAt d xs (fun ys => pure (ys ++ [x])) = .ok r := by
  induction d generalizing xs with
  | zero => exact ⟨_, rfl⟩
  | succ d ih =>
    obtain ⟨ys, hl, hs⟩ := h
    obtain ⟨r, hr⟩ := ih ys hs
    exact ⟨_, by simp only [modAt, hl, hr, ok_bind]; rfl⟩

/-- after appending `x` at the end of the list `d` levels down the spine, the spine is intact,
and it extends one level further when `x` is itself a list -/
theorem spine_after_append (d : Nat) (xs r : List Nest) (x : Nest) (h : Spine d xs)
    (hm : modAt d xs (fun ys => pure (ys ++ [x])) = .ok r) :
    Spine d r ∧ (∀ zs, x = .list zs → Spine (d + 1) r) := by
  induction d generalizing xs r with
  | zero =>
    simp only [modAt] at hm
    have := pure_ok hm; subst this
    refine ⟨trivial, ?_⟩
    intro zs hx; subst hx
    exact ⟨zs, by simp, trivial⟩
  | succ d ih =>
    obtain ⟨ys, hl, hs⟩ := h
    simp only [modAt, hl] at hm
    obtain ⟨ys', hy, hm⟩ := bind_ok hm
    have := pure_ok hm; subst this
    obtain ⟨a, b⟩ := ih ys ys' hs hy
    refine ⟨⟨ys', by simp, a⟩, ?_⟩
    intro zs hx
    exact ⟨ys', by simp, b zs hx⟩

theorem spine_shorter (d : Nat) (xs : List Nest) (h : Spine (d + 1) xs) : Spine d xs := by
  induction d generalizing xs with
  | zero => trivial
  | succ d ih =>
    obtain ⟨ys, hl, hs⟩ := h
    exact ⟨ys, hl, ih ys hs⟩

theorem drop_ok (s : DC) (h : Inv2 s) (hd : s.depth < 4) : ∃ s', s.drop = .ok s' ∧ Inv2 s' ∧ s'.depth = s.depth + 1 := by
  obtain ⟨r, hr⟩ := modAt_append_ok (s.depth - 1) s.root (.list []) h.spine
  have hdrop : s.drop = .ok { s with root := r, depth := s.depth + 1 } := by
    unfold DC.drop DC.appendAtCaret
    have : ¬ s.depth ≥ 4 := by omega
    simp only [this, if_false, hr, ok_bind]; rfl
  refine ⟨_, hdrop, ⟨drop_inv s _ h.inv hdrop, ?_⟩, rfl⟩
  have := (spine_after_append (s.depth - 1) s.root r (.list []) h.spine hr).2 [] rfl
  have hlo := h.inv.lo
  have e : s.depth - 1 + 1 = s.depth + 1 - 1 := by omega
  simpa [e] using this

theorem raise_ok (s : DC) (h : Inv2 s) (hd : 1 < s.depth) : ∃ s', s.raise = .ok s' ∧ Inv2 s' ∧ s'.depth = s.depth - 1 := by
  have hne : (s.depth == 1) = false := by simp; omega
  have hr : s.raise = .ok { s with depth := s.depth - 1 } := by unfold DC.raise; simp [hne]; rfl
  refine ⟨_, hr, ⟨raise_inv s _ h.inv hr, ?_⟩, rfl⟩
  have : s.depth - 1 = (s.depth - 1 - 1) + 1 := by omega
  have hs := h.spine
  rw [this] at hs
  exact spine_shorter _ _ hs

/-- **C13: `set_caret` never raises.** From any state satisfying the invariant, the caret can be
set to every depth 1..4; the invariant is re-established. -/
theorem C13_setCaret_total (s : DC) (h : Inv2 s) (d : Nat) (hd1 : 1 ≤ d) (hd4 : d ≤ 4) (name : Option Str) :
    ∃ s', s.setCaret (some d) name = .ok s' ∧ Inv2 s' ∧ s'.depth = d := by
  unfold DC.setCaret
  -- at most three moves are needed; eight units of fuel are supplied
  have key : ∀ (k f : Nat) (s : DC), Inv2 s → (s.depth - d) + (d - s.depth) = k → k < f →
      ∃ s', DC.setCaretAux f s d name = .ok s' ∧ Inv2 s' ∧ s'.depth = d := by
    intro k
    induction k with
    | zero =>
      intro f s hs hk hf
      have heq : s.depth = d := by omega
      cases f with
      | zero => omega
      | succ f =>
        refine ⟨{ s with lineage := s.lineage.set d name }, ?_, ⟨⟨hs.inv.shape, hs.inv.lo, hs.inv.hi⟩, hs.spine⟩, heq⟩
        simp [DC.setCaretAux, heq]; rfl
    | succ k ih =>
      intro f s hs hk hf
      cases f with
      | zero => omega
      | succ f =>
        have hne : (s.depth == d) = false := by simp; omega
        simp only [DC.setCaretAux, hne, Bool.false_eq_true, if_false]
        by_cases hlt : s.depth < d
        · simp only [hlt, if_true]
          obtain ⟨s1, h1, i1, hd1'⟩ := drop_ok s hs (by omega)
          obtain ⟨s', hs', r⟩ := ih f s1 i1 (by omega) (by omega)
          exact ⟨s', by simp only [h1, ok_bind]; exact hs', r⟩
        · simp only [hlt, if_false]
          have hs0 : Inv2 ({ s with lineage := s.lineage.set d none } : DC) := ⟨⟨hs.inv.shape, hs.inv.lo, hs.inv.hi⟩, hs.spine⟩
          obtain ⟨s1, h1, i1, hd1'⟩ := raise_ok _ hs0 (by simp; omega)
          simp at hd1'
          obtain ⟨s', hs', r⟩ := ih f s1 i1 (by omega) (by omega)
          exact ⟨s', by simp only [h1, ok_bind]; exact hs', r⟩
  have hlo := h.inv.lo; have hhi := h.inv.hi
  exact key _ 8 s h rfl (by omega)

end D2P
