import D2P.Proofs.EraseWalk
import D2P.Check.C01
import D2P.Props.Examples
/-!
# C19 — switching `html` changes strings only

`newDepthCollector_abs` (Proofs/EraseWalk.lean): in either mode, the walk of a part with every
text erased *is* the run of the structural machine `skeletonOf`, which has no `html` parameter.
Hence two extractions of the same part that differ only in `html` agree on everything that is not
text:

* `C19_html_structure`  the erased collectors are equal;
* `C19_html_shape`      the nesting skeleton (tables, rows, cells, paragraphs) is the same;
* `C19_html_records`    paragraph by paragraph: same count, same source element, style name,
                        lineage, list position and copy mark;
* `C19_html_caret`      caret, lineage register and numbering counters end the same.

The hypotheses are that both extractions return: an exception in one mode only is C13's business.
-/
namespace D2P

/-- **C19, html.** Same part, same relationships, same `duplicate_merged_cells`: whatever the two
`html` settings are, the collectors agree once the text is erased. -/
theorem C19_html_structure (cfg1 cfg2 : PartCfg) (hd : cfg1.dup = cfg2.dup) (hr : cfg1.rels = cfg2.rels)
    (num : Dict Str (List NumAttr)) (root : Xml) (c : Bool) (dc1 dc2 : DC)
    (h1 : newDepthCollector cfg1 num root c = .ok dc1) (h2 : newDepthCollector cfg2 num root c = .ok dc2) :
    absDC dc1 = absDC dc2 := by
  have a1 := newDepthCollector_abs cfg1 num root c dc1 h1
  have a2 := newDepthCollector_abs cfg2 num root c dc2 h2
  rw [hd, hr] at a1
  rw [a1] at a2
  exact Except.ok.inj a2

/-! ## what the erased collector still shows -/

mutual
theorem skelNest_erase : (x : Nest) → skelNest (eraseT x) = skelNest x
  | .par p => rfl
  | .list xs => by simp only [eraseT, skelNest]; rw [skelNestL_erase xs]
theorem skelNestL_erase : (xs : List Nest) → skelNestL (eraseL xs) = skelNestL xs
  | [] => rfl
  | x :: xs => by simp only [eraseL, skelNestL]; rw [skelNest_erase x, skelNestL_erase xs]
end

mutual
theorem leafParsT_erase : (x : Nest) → leafParsT (eraseT x) = (leafParsT x).map erasePar
  | .par p => rfl
  | .list xs => by simp only [eraseT, leafParsT]; exact leafParsL_erase xs
theorem leafParsL_erase : (xs : List Nest) → leafParsL (eraseL xs) = (leafParsL xs).map erasePar
  | [] => rfl
  | x :: xs => by simp only [eraseL, leafParsL, List.map_append]; rw [leafParsT_erase x, leafParsL_erase xs]
end

/-- everything a paragraph record says apart from its text -/
structure ParFacts where
  elem : Option Nat
  style : Str
  lineage : Lineage
  listPos : Option Str × List Nat
  copy : Bool
  deriving DecidableEq

def parFacts (p : Par) : ParFacts := ⟨p.elem, p.style, p.lineage, p.listPos, p.copy⟩

theorem parFacts_erase (p : Par) : parFacts (erasePar p) = parFacts p := by cases p; rfl

/-- **same nesting shape** in both modes -/
theorem C19_html_shape (cfg1 cfg2 : PartCfg) (hd : cfg1.dup = cfg2.dup) (hr : cfg1.rels = cfg2.rels)
    (num : Dict Str (List NumAttr)) (root : Xml) (c : Bool) (dc1 dc2 : DC)
    (h1 : newDepthCollector cfg1 num root c = .ok dc1) (h2 : newDepthCollector cfg2 num root c = .ok dc2) :
    skelNestL dc1.root = skelNestL dc2.root := by
  have h := congrArg DC.root (C19_html_structure cfg1 cfg2 hd hr num root c dc1 dc2 h1 h2)
  have : skelNestL (eraseL dc1.root) = skelNestL (eraseL dc2.root) := congrArg skelNestL h
  rwa [skelNestL_erase, skelNestL_erase] at this

/-- **same paragraphs**: count, source element, style, lineage, list position, copy mark -/
theorem C19_html_records (cfg1 cfg2 : PartCfg) (hd : cfg1.dup = cfg2.dup) (hr : cfg1.rels = cfg2.rels)
    (num : Dict Str (List NumAttr)) (root : Xml) (c : Bool) (dc1 dc2 : DC)
    (h1 : newDepthCollector cfg1 num root c = .ok dc1) (h2 : newDepthCollector cfg2 num root c = .ok dc2) :
    (leafParsL dc1.root).map parFacts = (leafParsL dc2.root).map parFacts ∧
    (leafParsL dc1.root).length = (leafParsL dc2.root).length := by
  have h := congrArg DC.root (C19_html_structure cfg1 cfg2 hd hr num root c dc1 dc2 h1 h2)
  have hl : leafParsL (eraseL dc1.root) = leafParsL (eraseL dc2.root) := congrArg leafParsL h
  rw [leafParsL_erase, leafParsL_erase] at hl
  have hm := congrArg (List.map parFacts) hl
  simp only [List.map_map] at hm
  have e : parFacts ∘ erasePar = parFacts := by funext p; exact parFacts_erase p
  rw [e] at hm
  exact ⟨hm, by simpa using congrArg List.length hm⟩

theorem C19_html_caret (cfg1 cfg2 : PartCfg) (hd : cfg1.dup = cfg2.dup) (hr : cfg1.rels = cfg2.rels)
    (num : Dict Str (List NumAttr)) (root : Xml) (c : Bool) (dc1 dc2 : DC)
    (h1 : newDepthCollector cfg1 num root c = .ok dc1) (h2 : newDepthCollector cfg2 num root c = .ok dc2) :
    dc1.depth = dc2.depth ∧ dc1.lineage = dc2.lineage ∧ dc1.bullets = dc2.bullets := by
  have h := C19_html_structure cfg1 cfg2 hd hr num root c dc1 dc2 h1 h2
  exact ⟨(congrArg DC.depth h : (absDC dc1).depth = (absDC dc2).depth), (congrArg DC.lineage h : (absDC dc1).lineage = (absDC dc2).lineage), (congrArg DC.bullets h : (absDC dc1).bullets = (absDC dc2).bullets)⟩

/-! ## non-vacuity: both runs of the nested-table document return, and differ in text -/
namespace Ex

def cfgH : PartCfg := { html := true, dup := true, rels := [] }

def styled : Xml :=
  el 0 "body" [] none [
    p 1 [el 2 "pPr" [] none [el 3 "pStyle" [wattr "val" "Heading1"] none []], r 4 [el 5 "rPr" [] none [el 6 "b" [] none []], t 7 "a<b"]],
    tbl 8 [tr 9 [tc 10 [el 11 "gridSpan" [wattr "val" "2"] none []] [p 12 [r 13 [t 14 "x"]]]]]]

/-- both extractions return, and differ in text (the escape) -/
example : (newDepthCollector cfg [] styled).map texts = .ok [lit "a<b", lit "x", lit "x"] := by decide +kernel
example : (newDepthCollector cfgH [] styled).map texts = .ok [lit "a&lt;b", lit "x", lit "x"] := by decide +kernel
example : (newDepthCollector cfgH [] styled).map (fun dc => (leafParsL dc.root).map (·.htmlStyle)) =
    .ok [[lit "h1"], [], []] := by decide +kernel
/-- the structural machine runs on its own and gives the records of the real walk -/
example : ((skeletonOf true [] [] styled).map (fun a => (leafParsL a.root).map parFacts)) =
    (newDepthCollector cfgH [] styled).map (fun a => (leafParsL a.root).map parFacts) := by decide +kernel

end Ex
end D2P
