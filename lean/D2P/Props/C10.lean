import D2P.Props.C02
import D2P.Proofs.Elems
/-!
# C10 — hyperlinks and note references are rendered as matchable, exact markers

* `C10_link_render`: a hyperlink whose `r:id` resolves in the part's own relationships is
  rendered `<a href="TARGET[#anchor]">TEXT</a>`; an anchor-only or unresolvable one contributes
  just its text (html on or off);
* `C10_note_ref`: a footnote/endnote reference contributes exactly `----footnoteN----` /
  `----endnoteN----`, as a run of its own;
* `C10_note_label`: a non-separator note with id N queues the label `footnoteN)\t`
  (`endnoteN)\t`), and by C02 the next paragraph's text starts with it.
(The `get_links` regular expression is modelled in `Replace.lean`; its theorem is still to do.)
-/
namespace D2P

/-- **C10: link rendering.** -/
theorem C10_link_render (cfg : PartCfg) (x : Xml) (text : Str) :
    (∀ href, linkHref cfg x = .ok href → linkRun cfg x text = .ok (lit "<a href=\"" ++ href ++ lit "\">" ++ text ++ lit "</a>")) ∧
    (linkHref cfg x = .error .keyError → linkRun cfg x text = .ok text) := by
  constructor
  · intro href h; unfold linkRun; rw [h]; rfl
  · intro h; unfold linkRun; rw [h]; rfl

/-- the target is the relationship's target, followed by `#anchor` when both are non-empty -/
theorem C10_link_href (cfg : PartCfg) (x : Xml) (rid target : Str)
    (hid : x.attrReq (lit "r") (lit "id") = .ok rid) (ht : cfg.rels.get? rid = some target)
    (anchor : Option Str) (ha : x.attrQ (lit "w") (lit "anchor") = .ok anchor) :
    linkHref cfg x = .ok (match anchor with
      | some a => if !target.isEmpty && !a.isEmpty then target ++ ['#'] ++ a else target
      | none => target) := by
  unfold linkHref relTarget
  simp only [hid, ok_bind, Dict.getM, ht, ha]
  cases anchor <;> rfl

/-- an unresolvable id falls back to the text -/
theorem C10_link_dangling (cfg : PartCfg) (x : Xml) (rid : Str) (text : Str)
    (hid : x.attrReq (lit "r") (lit "id") = .ok rid) (ht : cfg.rels.get? rid = none) :
    linkRun cfg x text = .ok text := by
  apply (C10_link_render cfg x text).2
  unfold linkHref relTarget
  simp only [hid, ok_bind, Dict.getM, ht]
  rfl

/-- **C10: note references.** -/
theorem C10_note_ref (cfg : PartCfg) (x : Xml) (id : Str) (hid : x.attrReq (lit "w") (lit "id") = .ok id) :
    (tagMember x.ptag = some "FOOTNOTE_REFERENCE" → ownText cfg x = .ok (lit "----footnote" ++ id ++ lit "----", true)) ∧
    (tagMember x.ptag = some "ENDNOTE_REFERENCE" → ownText cfg x = .ok (lit "----endnote" ++ id ++ lit "----", true)) := by
  constructor <;> intro h <;> unfold ownText <;> simp only [h, hid, ok_bind] <;> rfl

/-- the reference is inserted as a run of its own (followed by a fresh run that inherits the style) -/
theorem C10_ref_is_own_run (html : Bool) (s s' : DC) (t : Str) (p : Par) (hp : s.openPars.getLast? = some p)
    (hr : p.runs ≠ []) (h : s.insertNewRun html t = .ok s') :
    ∃ p', s'.openPars.getLast? = some p' ∧ p'.runs = p.runs ++ [{ style := [], text := t }, { style := lastRunStyle p }] := by
  unfold DC.insertNewRun at h
  obtain ⟨s1, h1, h⟩ := bind_ok h
  have := pure_ok h; subst this
  unfold DC.ensureRun at h1
  rw [ensurePar_hasTop html s ⟨p, hp⟩] at h1
  obtain ⟨s0, h0, h1⟩ := bind_ok h1
  cases h0
  have := pure_ok h1; subst this
  have he : p.runs.isEmpty = false := by cases hpr : p.runs <;> simp_all
  refine ⟨{ p with runs := p.runs ++ [{ style := [], text := t }, { style := lastRunStyle p }] }, ?_, rfl⟩
  unfold DC.modTop
  simp only [hp, getLast?_dropLast_append, he, Bool.false_eq_true, if_false]

/-- **C10: note labels.** A non-separator note queues exactly its label for the next paragraph. -/
theorem C10_note_label (s s' : DC) (x : Xml) (kind : String) (id : Str)
    (hsep : isSeparatorNote x = .ok false) (hid : x.attrReq (lit "w") (lit "id") = .ok id)
    (h : noteLabel s x kind = .ok s') :
    s'.queued = s.queued ++ [{ style := [], text := lit kind ++ id ++ lit ")\t" }] := by
  unfold noteLabel at h
  simp only [hsep, ok_bind, Bool.false_eq_true, if_false, hid] at h
  obtain ⟨s0, h0, h⟩ := bind_ok h
  have := pure_ok h; subst this
  show s0.queued ++ _ = _
  rw [(flushImplicit_keeps s s0 _ h0).1]

/-- … and by `C02_paragraph` the first paragraph of the note starts with that label. -/
theorem C10_label_prefixes_paragraph (cfg : PartCfg) (num : Dict Str (List NumAttr)) (c : Bool) (s s' : DC) (x : Xml)
    (label : Str) (hq : s.queued = [{ style := [], text := label }])
    (hx : flatPar x = true) (hni : NoImpl s) (h : walk cfg num c s x = .ok s') :
    ∃ par rest, leafParsL s'.root = leafParsL s.root ++ [par] ∧ parText par = label ++ rest := by
  obtain ⟨par, h1, _, _, _, _, h6⟩ := C02_paragraph cfg num c s s' x hx hni h
  cases x with
  | elem i p t m a tx tl ks =>
    simp only [parSpec] at h6
    obtain ⟨bb, _, h6⟩ := bind_ok h6
    obtain ⟨body, _, h6⟩ := bind_ok h6
    have := pure_ok h6
    refine ⟨par, bb.2 ++ body, h1, ?_⟩
    have e := congrArg Prod.fst this
    simp only [hq, List.map_cons, List.map_nil, sjoin, List.append_nil] at e
    rw [← e, List.append_assoc]
  | comment _ _ => simp [flatPar] at hx
  | pi _ => simp [flatPar] at hx

/-- after the flush of an element that has a depth — and after a note label — no implicit paragraph is pending -/
theorem flushImplicit_noImpl_of_sole (s s0 : DC) (d : Nat) (hs : Sole (elems s)) (h : s.flushImplicit (some d) = .ok s0) :
    NoImpl s0 := by
  have ha := (flushImplicit_sole s s0 _ hs h).2 rfl
  intro p hp
  have hmem : p.elem ∈ elems s0 := List.mem_map.2 ⟨p, List.mem_of_getLast? hp, rfl⟩
  have := ha _ hmem
  cases he : p.elem with
  | none => rw [he] at this; cases this
  | some _ => rfl

/-- **C10: a note's label opens the note's first paragraph, whatever came before.** In any state the
walk reaches (`Sole`) with nothing queued — in particular with inline content of the PREVIOUS note still
pending in an implicit paragraph — a non-separator note queues its label after concluding that
paragraph, and the note's first paragraph (one that encloses no other) starts with exactly this
label. (Before the repair of `queue_run_for_next_paragraph` the pending paragraph swallowed the next
note's text and was lost when the part ended.) -/
theorem C10_note_first_paragraph (cfg : PartCfg) (num : Dict Str (List NumAttr)) (c : Bool) (s s1 s' : DC) (x y : Xml)
    (kind : String) (id : Str) (hs : Sole (elems s)) (hq : s.queued = [])
    (hsep : isSeparatorNote x = .ok false) (hid : x.attrReq (lit "w") (lit "id") = .ok id)
    (h1 : noteLabel s x kind = .ok s1) (hy : flatPar y = true) (h2 : walk cfg num c s1 y = .ok s') :
    ∃ par rest, leafParsL s'.root = leafParsL s1.root ++ [par] ∧ parText par = (lit kind ++ id ++ lit ")\t") ++ rest := by
  have hq1 := C10_note_label s s1 x kind id hsep hid h1
  rw [hq, List.nil_append] at hq1
  have hni : NoImpl s1 := by
    unfold noteLabel at h1
    simp only [hsep, ok_bind, Bool.false_eq_true, if_false, hid] at h1
    obtain ⟨s0, h0, h1⟩ := bind_ok h1
    have := pure_ok h1; subst this
    exact NoImpl_of_openPars (s := s0) rfl (flushImplicit_noImpl_of_sole s s0 4 hs h0)
  exact C10_label_prefixes_paragraph cfg num c s1 s' y _ hq1 hy hni h2

end D2P
