import D2P.Props.C07Escape
import D2P.Model.Collector
/-!
# C07 — run strings and paragraph strings are tag-balanced; stripping the tags gives the text

String-level theorems about what `Run.__str__` and `Par.run_strings` build.  A string is read by
the two-state scanner every HTML consumer uses: outside a tag, `<` opens one; inside, `>` closes it.
`stripTags` deletes the tags, `tagsOf` lists their contents, `balanced` runs the usual stack.

* `C07_run_string`: for a run whose style strings are well-formed tag contents (`GoodStyle`: no
  angle bracket, starts with the tag name) and whose text is itself closed and balanced (`Closed`,
  `Balanced` — e.g. escaped document text, `closed_of_noAngle`), the run string is
  `<s₁>…<sₙ> text </nameₙ>…</name₁>`: its tags are balanced on their own, in properly nested order,
  the tag names are exactly the first words of the style strings, and deleting the tags leaves the
  text (`stripTags`); with `C07_escape_roundtrip`, unescaping that gives the document text back.
* `C07_paragraph_string`: the same for the concatenation of a paragraph's run strings inside the
  paragraph's own tags (heading level).
-/
namespace D2P

/-! ## the scanner -/

def stripAux : Bool → Str → Str
  | _, [] => []
  | false, c :: cs => if c == '<' then stripAux true cs else c :: stripAux false cs
  | true, c :: cs => if c == '>' then stripAux false cs else stripAux true cs

/-- delete every `<…>` -/
def stripTags (s : Str) : Str := stripAux false s

def tagsAux : Option Str → Str → List Str
  | _, [] => []
  | none, c :: cs => if c == '<' then tagsAux (some []) cs else tagsAux none cs
  | some acc, c :: cs => if c == '>' then acc :: tagsAux none cs else tagsAux (some (acc ++ [c])) cs

/-- the contents of the tags, in order -/
def tagsOf (s : Str) : List Str := tagsAux none s

def NoAngle (s : Str) : Prop := '<' ∉ s ∧ '>' ∉ s

/-- reading `s` from outside a tag ends outside a tag, whatever follows: strings with this property
can be concatenated and scanned piecewise -/
def Closed (s : Str) : Prop :=
  ∀ rest, stripTags (s ++ rest) = stripTags s ++ stripTags rest ∧ tagsOf (s ++ rest) = tagsOf s ++ tagsOf rest

theorem closed_nil : Closed [] := by intro rest; simp [stripTags, tagsOf, stripAux, tagsAux]

theorem closed_append {a b : Str} (ha : Closed a) (hb : Closed b) : Closed (a ++ b) := by
  intro rest
  have h1 := ha (b ++ rest)
  have h2 := hb rest
  have h3 := ha b
  rw [List.append_assoc, h1.1, h1.2, h2.1, h2.2, h3.1, h3.2]
  simp [List.append_assoc]

theorem strip_append {a b : Str} (ha : Closed a) : stripTags (a ++ b) = stripTags a ++ stripTags b := (ha b).1
theorem tags_append {a b : Str} (ha : Closed a) : tagsOf (a ++ b) = tagsOf a ++ tagsOf b := (ha b).2

theorem noAngle_cons {c : Char} {s : Str} (h : NoAngle (c :: s)) : c ≠ '<' ∧ c ≠ '>' ∧ NoAngle s := by
  obtain ⟨h1, h2⟩ := h
  simp only [List.mem_cons, not_or] at h1 h2
  exact ⟨fun e => h1.1 e.symm, fun e => h2.1 e.symm, h1.2, h2.2⟩

/-- text without angle brackets (in particular: escaped text) passes through the scanner unchanged -/
theorem closed_of_noAngle : ∀ (s : Str), NoAngle s → Closed s ∧ stripTags s = s ∧ tagsOf s = []
  | [], _ => ⟨closed_nil, rfl, rfl⟩
  | c :: s, h => by
    obtain ⟨h1, h2, hs⟩ := noAngle_cons h
    obtain ⟨ih1, ih2, ih3⟩ := closed_of_noAngle s hs
    have e1 : (c == '<') = false := by simpa using h1
    refine ⟨?_, ?_, ?_⟩
    · intro rest
      have := ih1 rest
      simp only [stripTags, tagsOf] at this ⊢
      simp only [List.cons_append, stripAux, tagsAux, e1, Bool.false_eq_true, if_false, this.1, this.2]
      simp
    · simp only [stripTags] at ih2 ⊢; simp only [stripAux, e1, Bool.false_eq_true, if_false, ih2]
    · simp only [tagsOf] at ih3 ⊢; simp only [tagsAux, e1, Bool.false_eq_true, if_false, ih3]

/-- inside a tag whose remaining content has no angle bracket -/
theorem inside_tag (rest : Str) : ∀ (x acc : Str), NoAngle x →
    stripAux true (x ++ '>' :: rest) = stripAux false rest ∧
    tagsAux (some acc) (x ++ '>' :: rest) = (acc ++ x) :: tagsAux none rest
  | [], acc, _ => by simp [stripAux, tagsAux]
  | c :: x, acc, h => by
    obtain ⟨_, h2, hx⟩ := noAngle_cons h
    have e2 : (c == '>') = false := by simpa using h2
    obtain ⟨i1, i2⟩ := inside_tag rest x (acc ++ [c]) hx
    simp only [List.cons_append, stripAux, tagsAux, e2, Bool.false_eq_true, if_false, i1, i2, List.append_assoc]
    simp

/-- one tag `<x>` -/
theorem closed_tag (x : Str) (h : NoAngle x) :
    Closed ('<' :: x ++ ['>']) ∧ stripTags ('<' :: x ++ ['>']) = [] ∧ tagsOf ('<' :: x ++ ['>']) = [x] := by
  have key : ∀ rest, stripTags (('<' :: x ++ ['>']) ++ rest) = stripTags rest ∧ tagsOf (('<' :: x ++ ['>']) ++ rest) = x :: tagsOf rest := by
    intro rest
    obtain ⟨i1, i2⟩ := inside_tag rest x [] h
    simp only [stripTags, tagsOf, List.cons_append, List.append_assoc, List.singleton_append, stripAux, tagsAux,
      beq_self_eq_true, if_true, i1, i2, List.nil_append, and_self]
  have k0 := key []
  simp only [List.append_nil] at k0
  have s0 : stripTags ('<' :: x ++ ['>']) = [] := by rw [k0.1]; rfl
  have t0 : tagsOf ('<' :: x ++ ['>']) = [x] := by rw [k0.2]; rfl
  refine ⟨?_, s0, t0⟩
  intro rest
  rw [(key rest).1, (key rest).2, s0, t0]
  exact ⟨rfl, rfl⟩

/-! ## the stack -/

def isClose (t : Str) : Bool := t.head? == some '/'
/-- the name of an opening tag: its first word -/
def tagName (t : Str) : Str := (t.dropWhile isPyWs).takeWhile (fun c => !isPyWs c)

/-- the usual stack check; `some stk` = no mismatch, `stk` left open -/
def balAux : List Str → List Str → Option (List Str)
  | stk, [] => some stk
  | stk, t :: ts =>
    if isClose t then
      match stk with
      | top :: stk' => if top == t.tail then balAux stk' ts else none
      | [] => none
    else balAux (tagName t :: stk) ts

def Balanced (tags : List Str) : Prop := balAux [] tags = some []

theorem balAux_append : ∀ (a b stk : List Str), balAux stk (a ++ b) = (balAux stk a).bind (fun s => balAux s b)
  | [], b, stk => rfl
  | t :: a, b, stk => by
    simp only [List.cons_append, balAux]
    split
    · cases stk with
      | nil => rfl
      | cons top stk' =>
        simp only
        split
        · exact balAux_append a b stk'
        · rfl
    · exact balAux_append a b _

/-- a balanced stretch leaves any stack below it alone -/
theorem balAux_frame : ∀ (mid s r below : List Str), balAux s mid = some r → balAux (s ++ below) mid = some (r ++ below)
  | [], s, r, below, h => by simp only [balAux] at h ⊢; rw [Option.some.inj h]
  | t :: mid, s, r, below, h => by
    simp only [balAux] at h ⊢
    split
    · rename_i hc
      simp only [hc, if_true] at h
      cases s with
      | nil => simp at h
      | cons top s' =>
        simp only [List.cons_append] at h ⊢
        split
        · rename_i he; simp only [he, if_true] at h; exact balAux_frame mid s' r below h
        · rename_i he; simp only [he] at h; simp at h
    · rename_i hc
      simp only [hc] at h
      exact balAux_frame mid (tagName t :: s) r below h

theorem balanced_frame (mid stk : List Str) (h : Balanced mid) : balAux stk mid = some stk := by
  have := balAux_frame mid [] [] stk h
  simpa using this

/-- a well-formed tag content: no angle bracket, begins with the tag name (not blank, not `/`) -/
def GoodStyle (x : Str) : Prop := NoAngle x ∧ ∃ c cs, x = c :: cs ∧ c ≠ '/' ∧ isPyWs c = false

theorem good_not_close (x : Str) (h : GoodStyle x) : isClose x = false := by
  obtain ⟨_, c, cs, rfl, hc, _⟩ := h
  simp [isClose, hc]

theorem good_firstWord (x : Str) (h : GoodStyle x) : firstWord x = .ok (tagName x) ∧ NoAngle (tagName x) := by
  obtain ⟨hn, c, cs, rfl, _, hw⟩ := h
  have hne : ((c :: cs).dropWhile isPyWs).takeWhile (fun c => !isPyWs c) ≠ [] := by
    simp [List.dropWhile, hw, List.takeWhile]
  refine ⟨?_, ?_⟩
  · unfold firstWord tagName
    simp only
    split
    · rename_i he; exact absurd (List.isEmpty_iff.1 he) hne
    · rfl
  · unfold tagName
    have hsub : ∀ y ∈ ((c :: cs).dropWhile isPyWs).takeWhile (fun c => !isPyWs c), y ∈ c :: cs := fun y hy =>
      (List.dropWhile_suffix _).subset ((List.takeWhile_prefix _).subset hy)
    exact ⟨fun h1 => hn.1 (hsub _ h1), fun h2 => hn.2 (hsub _ h2)⟩

theorem bal_opens : ∀ (st stk : List Str), (∀ x ∈ st, GoodStyle x) → balAux stk st = some ((st.map tagName).reverse ++ stk)
  | [], stk, _ => by simp [balAux]
  | x :: st, stk, h => by
    simp only [balAux, good_not_close x (h x (by simp)), Bool.false_eq_true, if_false]
    rw [bal_opens st _ (fun y hy => h y (by simp [hy]))]
    simp

theorem bal_closes : ∀ (ns stk : List Str), balAux (ns ++ stk) (ns.map (fun n => '/' :: n)) = some stk
  | [], stk => rfl
  | n :: ns, stk => by
    simp only [List.map_cons, List.cons_append, balAux, isClose, List.head?_cons, beq_self_eq_true, if_true, List.tail_cons]
    exact bal_closes ns stk

/-! ## `html_open` / `html_close` -/

theorem htmlOpen_closed : ∀ (st : List Str), (∀ x ∈ st, GoodStyle x) →
    Closed (htmlOpen st) ∧ stripTags (htmlOpen st) = [] ∧ tagsOf (htmlOpen st) = st
  | [], _ => ⟨closed_nil, rfl, rfl⟩
  | x :: st, h => by
    obtain ⟨c1, s1, t1⟩ := closed_tag x (h x (by simp)).1
    obtain ⟨c2, s2, t2⟩ := htmlOpen_closed st (fun y hy => h y (by simp [hy]))
    have e : htmlOpen (x :: st) = ('<' :: x ++ ['>']) ++ htmlOpen st := by
      simp [htmlOpen, sjoin, List.flatten]
    rw [e]
    exact ⟨closed_append c1 c2, by rw [strip_append c1, s1, s2]; rfl, by rw [tags_append c1, t1, t2]; rfl⟩

theorem closeTags_closed : ∀ (st : List Str) (c : Str), (∀ x ∈ st, GoodStyle x) → closeTags st = .ok c →
    Closed c ∧ stripTags c = [] ∧ tagsOf c = st.map (fun x => '/' :: tagName x)
  | [], c, _, h => by simp only [closeTags] at h; have := pure_ok h; subst this; exact ⟨closed_nil, rfl, rfl⟩
  | x :: st, c, hg, h => by
    simp only [closeTags] at h
    obtain ⟨w, hw, h⟩ := bind_ok h
    obtain ⟨rest, hr, h⟩ := bind_ok h
    have := pure_ok h; subst this
    obtain ⟨fw, hn⟩ := good_firstWord x (hg x (by simp))
    rw [fw] at hw; cases hw
    obtain ⟨c2, s2, t2⟩ := closeTags_closed st rest (fun y hy => hg y (by simp [hy])) hr
    have hna : NoAngle ('/' :: tagName x) := by
      refine ⟨?_, ?_⟩
      · simp only [List.mem_cons, not_or]; exact ⟨by decide, hn.1⟩
      · simp only [List.mem_cons, not_or]; exact ⟨by decide, hn.2⟩
    obtain ⟨c1, s1, t1⟩ := closed_tag ('/' :: tagName x) hna
    have e : lit "</" ++ tagName x ++ ['>'] ++ rest = ('<' :: ('/' :: tagName x) ++ ['>']) ++ rest := by
      simp [lit]
    rw [e]
    exact ⟨closed_append c1 c2, by rw [strip_append c1, s1, s2]; rfl, by rw [tags_append c1, t1, t2]; rfl⟩

/-! ## run strings -/

/-- **C07, one run.** -/
theorem C07_run_string (r : Run) (s : Str) (hst : ∀ x ∈ r.style, GoodStyle x)
    (hc : Closed r.text) (hb : Balanced (tagsOf r.text)) (h : r.str = .ok s) :
    Closed s ∧ stripTags s = stripTags r.text ∧ Balanced (tagsOf s) ∧
    (r.text ≠ [] → tagsOf s = r.style ++ tagsOf r.text ++ r.style.reverse.map (fun x => '/' :: tagName x)) := by
  unfold Run.str at h
  split at h
  · rename_i he
    have := pure_ok h; subst this
    have : r.text = [] := List.isEmpty_iff.1 he
    refine ⟨closed_nil, by rw [this], by rw [this] at hb; exact hb, fun hne => absurd this hne⟩
  · obtain ⟨c, hcl, h⟩ := bind_ok h
    have := pure_ok h; subst this
    obtain ⟨o1, o2, o3⟩ := htmlOpen_closed r.style hst
    unfold htmlClose at hcl
    obtain ⟨c1, c2, c3⟩ := closeTags_closed r.style.reverse c (fun x hx => hst x (List.mem_reverse.1 hx)) hcl
    have ht : tagsOf (htmlOpen r.style ++ r.text ++ c) = r.style ++ tagsOf r.text ++ r.style.reverse.map (fun x => '/' :: tagName x) := by
      rw [tags_append (closed_append o1 hc), tags_append o1, o3, c3]
    refine ⟨closed_append (closed_append o1 hc) c1, ?_, ?_, fun _ => ht⟩
    · rw [strip_append (closed_append o1 hc), strip_append o1, o2, c2]; simp
    · unfold Balanced
      rw [ht, balAux_append, balAux_append, bal_opens r.style [] hst]
      simp only [Option.bind_some, List.append_nil]
      rw [balanced_frame _ _ hb]
      simp only [Option.bind_some]
      have e : r.style.reverse.map (fun x => '/' :: tagName x) = ((r.style.map tagName).reverse).map (fun n => '/' :: n) := by
        simp [List.map_reverse]
      rw [e]
      have := bal_closes (r.style.map tagName).reverse []
      simpa using this

/-- a run of escaped document text: deleting the tags and unescaping gives the document text back -/
theorem C07_run_projection (st : List Str) (t : Str) (s : Str) (hst : ∀ x ∈ st, GoodStyle x)
    (h : ({ style := st, text := escapeHtml t } : Run).str = .ok s) :
    unescape (stripTags s) = t ∧ Balanced (tagsOf s) := by
  obtain ⟨hn1, hn2⟩ := C07_no_raw_markup t
  obtain ⟨c, s1, t1⟩ := closed_of_noAngle (escapeHtml t) ⟨hn1, hn2⟩
  obtain ⟨_, h2, h3, _⟩ := C07_run_string _ s hst c (by simp only [t1]; rfl) h
  simp only at h2
  rw [h2, s1, C07_escape_roundtrip]
  exact ⟨rfl, h3⟩

/-! ## paragraph strings -/

def GoodRun (r : Run) : Prop := (∀ x ∈ r.style, GoodStyle x) ∧ Closed r.text ∧ Balanced (tagsOf r.text)

theorem balanced_append {a b : List Str} (ha : Balanced a) (hb : Balanced b) : Balanced (a ++ b) := by
  unfold Balanced at *
  rw [balAux_append, ha]; exact hb

theorem runStrs_joined : ∀ (rs : List Run) (ss : List Str), (∀ r ∈ rs, GoodRun r) → runStrs rs = .ok ss →
    Closed (sjoin ss) ∧ Balanced (tagsOf (sjoin ss)) ∧ stripTags (sjoin ss) = sjoin (rs.map fun r => stripTags r.text)
  | [], ss, _, h => by
    simp only [runStrs] at h; have := pure_ok h; subst this
    exact ⟨closed_nil, rfl, rfl⟩
  | r :: rs, ss, hg, h => by
    simp only [runStrs] at h
    obtain ⟨s, hs, h⟩ := bind_ok h
    obtain ⟨ss', hss, h⟩ := bind_ok h
    have := pure_ok h; subst this
    obtain ⟨g1, g2, g3⟩ := hg r (by simp)
    obtain ⟨a1, a2, a3, _⟩ := C07_run_string r s g1 g2 g3 hs
    obtain ⟨b1, b2, b3⟩ := runStrs_joined rs ss' (fun x hx => hg x (by simp [hx])) hss
    have e : sjoin (if s.isEmpty then ss' else s :: ss') = s ++ sjoin ss' := by
      split
      · rename_i he; rw [List.isEmpty_iff.1 he]; rfl
      · simp [sjoin]
    rw [e]
    refine ⟨closed_append a1 b1, ?_, ?_⟩
    · rw [tags_append a1]; exact balanced_append a3 b2
    · rw [strip_append a1, a2, b3]; simp [sjoin]

/-- **C07, one paragraph.** The concatenation of a paragraph's run strings (what the plain view
shows for the paragraph) is closed and tag-balanced — the paragraph's own tags (heading level)
around the runs' — and deleting the tags leaves the runs' texts, in order. -/
theorem C07_paragraph_string (p : Par) (ss : List Str) (hp : ∀ x ∈ p.htmlStyle, GoodStyle x)
    (hr : ∀ r ∈ p.runs, GoodRun r) (h : p.runStrings = .ok ss) :
    Closed (sjoin ss) ∧ Balanced (tagsOf (sjoin ss)) ∧
    stripTags (sjoin ss) = sjoin (p.runs.map fun r => stripTags r.text) := by
  unfold Par.runStrings at h
  obtain ⟨rs, hrs, h⟩ := bind_ok h
  obtain ⟨b1, b2, b3⟩ := runStrs_joined p.runs rs hr hrs
  split at h
  · have := pure_ok h; subst this; exact ⟨b1, b2, b3⟩
  · obtain ⟨c, hcl, h⟩ := bind_ok h
    have := pure_ok h; subst this
    obtain ⟨o1, o2, o3⟩ := htmlOpen_closed p.htmlStyle hp
    unfold htmlClose at hcl
    obtain ⟨c1, c2, c3⟩ := closeTags_closed p.htmlStyle.reverse c (fun x hx => hp x (List.mem_reverse.1 hx)) hcl
    have sj : ∀ (xs ys : List Str), sjoin (xs ++ ys) = sjoin xs ++ sjoin ys := by
      intro xs ys; induction xs with
      | nil => rfl
      | cons x xs ih => simp [sjoin, ih, List.append_assoc]
    have e : sjoin ([htmlOpen p.htmlStyle] ++ rs ++ [c]) = htmlOpen p.htmlStyle ++ sjoin rs ++ c := by
      rw [sj, sj]; simp [sjoin]
    rw [e]
    refine ⟨closed_append (closed_append o1 b1) c1, ?_, ?_⟩
    · rw [tags_append (closed_append o1 b1), tags_append o1, o3, c3]
      unfold Balanced
      rw [balAux_append, balAux_append, bal_opens p.htmlStyle [] hp]
      simp only [Option.bind_some, List.append_nil]
      rw [balanced_frame _ _ b2]
      simp only [Option.bind_some]
      have e2 : p.htmlStyle.reverse.map (fun x => '/' :: tagName x) = ((p.htmlStyle.map tagName).reverse).map (fun n => '/' :: n) := by
        simp [List.map_reverse]
      rw [e2]
      have := bal_closes (p.htmlStyle.map tagName).reverse []
      simpa using this
    · rw [strip_append (closed_append o1 b1), strip_append o1, o2, c2, b3]; simp

/-! ## the style strings the formatter table can produce are well formed -/

def goodStyleB (x : Str) : Bool :=
  !x.contains '<' && !x.contains '>' && (match x with | c :: _ => c != '/' && !isPyWs c | [] => false)

theorem goodStyle_of_b (x : Str) (h : goodStyleB x = true) : GoodStyle x := by
  unfold goodStyleB at h
  simp only [Bool.and_eq_true, Bool.not_eq_true', List.contains_eq_mem, decide_eq_false_iff_not] at h
  obtain ⟨⟨h1, h2⟩, h3⟩ := h
  refine ⟨⟨h1, h2⟩, ?_⟩
  cases x with
  | nil => simp at h3
  | cons c cs =>
    simp only [Bool.and_eq_true, bne_iff_ne, ne_eq, Bool.not_eq_true'] at h3
    exact ⟨c, cs, rfl, h3.1, h3.2⟩

/-- non-vacuity: a bold, coloured run of escaped text in a heading -/
example : goodStyleB (lit "b") = true ∧ goodStyleB (lit "span style=\"color:FF0000\"") = true ∧ goodStyleB (lit "h1") = true := by decide

end D2P
