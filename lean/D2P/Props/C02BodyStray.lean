import D2P.Props.C02Body
import D2P.Props.C02Stray
import D2P.Props.C06Noise
import D2P.Proofs.Queued
/-!
# C02 — a body of paragraphs, tables AND inline content outside paragraphs: everything in document order

`C02_blocks` (Props/C02Body) speaks about sequences of flat paragraphs, regular tables and elements
the walk ignores.  Here the sequence may also contain GROUPS of inline content that stands outside
every paragraph (`strayGroup`: flat inline elements, the first of which opens a paragraph — a display
equation directly in the body, stray runs): each group is followed by a paragraph or a table, or ends
the sequence.

`leavesP s` = the records already in the tree followed by the open paragraphs: the document order as
far as it is determined.  `C02_items`: walking the sequence appends to `leavesP`, item by item and in
document order, the record of each paragraph, the records of each table (`tableSpec`), and for each
group ONE implicit paragraph whose text is the group's `inlineTextL` (after a queued note label) —
standing exactly where the group stands: before the records of the block that follows it.
-/
namespace D2P

inductive Item where
  | blk (x : Xml)
  | grp (xs : List Xml)

def Item.src : Item → List Xml
  | .blk x => [x]
  | .grp xs => xs

def strayGroup (xs : List Xml) : Bool := opensFirstL xs && flatInlineL xs

/-- `pend`: an implicit paragraph is pending (the previous item was a group) -/
def okSeq : Bool → List Item → Bool
  | _, [] => true
  | false, .blk x :: rest => regBlock x && okSeq false rest
  | true, .blk y :: rest => (isFlatPar y || regTbl y) && okSeq false rest
  | false, .grp xs :: rest => strayGroup xs && okSeq true rest
  | true, .grp _ :: _ => false

inductive IOut where
  | blk (o : BlockOut)
  | imp (q : Par)

def ioLeaves (dup : Bool) : IOut → List Par
  | .blk o => blockLeaves dup o
  | .imp q => [q]

/-- what the walk makes of one item (`none`: nothing, the item is ignored) -/
inductive ItemMatches (cfg : PartCfg) : Item → Option IOut → Prop
  | blk {x : Xml} {o : BlockOut} : BlockMatches cfg x o → ItemMatches cfg (.blk x) (some (.blk o))
  | inert {x : Xml} : inert x = true → ItemMatches cfg (.blk x) none
  | grp {xs : List Xml} {q : Par} {t pre : Str} : inlineTextL cfg xs = .ok t → q.elem = none → parText q = pre ++ t →
      ItemMatches cfg (.grp xs) (some (.imp q))

inductive ItemsMatch (cfg : PartCfg) : List Item → List IOut → Prop
  | nil : ItemsMatch cfg [] []
  | some {i : Item} {o : IOut} {is : List Item} {os : List IOut} :
      ItemMatches cfg i (some o) → ItemsMatch cfg is os → ItemsMatch cfg (i :: is) (o :: os)
  | none {i : Item} {is : List Item} {os : List IOut} :
      ItemMatches cfg i none → ItemsMatch cfg is os → ItemsMatch cfg (i :: is) os

/-- the document order as far as it is determined: records in the tree, then the open paragraphs -/
def leavesP (s : DC) : List Par := leafParsL s.root ++ s.openPars

/-- a group of inline content outside every paragraph, walked while nothing is open -/
theorem C02_stray_group (cfg : PartCfg) (num : Dict Str (List NumAttr)) (c : Bool) (xs : List Xml) (s s' : DC)
    (hg : strayGroup xs = true) (h0 : s.openPars = []) (h : walkL cfg num c s xs = .ok s') :
    ∃ p t, inlineTextL cfg xs = .ok t ∧ s'.openPars = [p] ∧ p.elem = none ∧
      parText p = sjoin (s.queued.map (·.text)) ++ t ∧ leafParsL s'.root = leafParsL s.root := by
  simp only [strayGroup, Bool.and_eq_true] at hg
  obtain ⟨s1, h1, hw⟩ := walkL_ensure cfg num xs hg.1 hg.2 c s s' h
  obtain ⟨p0, o1, e1, r1, l1, _, _, _⟩ := ensurePar_empty_spec cfg.html s s1 h0 h1
  obtain ⟨t, ht, g⟩ := walkL_flat cfg num xs c s1 s' hg.2 ⟨p0, by rw [o1]; rfl⟩ hw
  obtain ⟨q, q', hq, hq', hmeta, htext⟩ := g.top
  have hq0 : q = p0 := by rw [o1] at hq; exact (Option.some.inj hq).symm
  subst hq0
  have hone : s'.openPars = [q'] := by
    have hb := g.below
    rw [o1] at hb
    have hne : s'.openPars ≠ [] := by intro e; rw [e] at hq'; cases hq'
    have := List.dropLast_concat_getLast hne
    rw [hb] at this
    have hl : s'.openPars.getLast hne = q' := by
      rw [List.getLast?_eq_some_getLast hne] at hq'; exact Option.some.inj hq'
    rw [hl] at this
    simpa using this.symm
  refine ⟨q', t, ht, hone, ?_, ?_, ?_⟩
  · have := congrArg (·.1) hmeta; simp only [parMeta] at this; rw [this]; exact e1
  · rw [htext]; simp only [parText, r1]
  · rw [g.root, l1]

theorem elemDepth_regTbl (x : Xml) (hx : regTbl x = true) : elemDepth x = some 1 := by
  cases x with
  | comment _ _ => simp [regTbl] at hx
  | pi _ => simp [regTbl] at hx
  | elem i p t m a tx tl ks =>
    simp only [regTbl, Bool.and_eq_true, decide_eq_true_eq, beq_iff_eq] at hx
    obtain ⟨⟨hp, hk⟩, hc⟩ := hx
    have hnp : ((Xml.elem i p t m a tx tl ks).ptag == paragraphTag) = false := by rw [hp]; exact tblTag_facts.1
    have hcn : countRows ks ≠ 0 := by omega
    unfold elemDepth; rw [hp]
    simp only [tblTag_facts.2.1, tblTag_facts.2.2.1, Bool.or_self, Bool.false_eq_true, if_false]
    simp [nearestPar, hnp, nearestParL_tblKids ks hk, hcn]

/-- the pending implicit paragraph is concluded before a paragraph or a table is walked -/
theorem walk_block_after_group (cfg : PartCfg) (num : Dict Str (List NumAttr)) (c : Bool) (y : Xml) (s s' : DC) (p : Par)
    (hy : isFlatPar y = true ∨ regTbl y = true) (h1 : s.openPars = [p]) (hp : p.elem = none)
    (h : walk cfg num c s y = .ok s') :
    ∃ s0, s.concludePar = .ok s0 ∧ leafParsL s0.root = leafParsL s.root ++ [p] ∧ s0.openPars = [] ∧
      walk cfg num c s0 y = .ok s' := by
  cases y with
  | comment _ _ => rcases hy with hy | hy <;> simp [isFlatPar, regTbl] at hy
  | pi _ => rcases hy with hy | hy <;> simp [isFlatPar, regTbl] at hy
  | elem i pf t m a tx tl ks =>
    have hd : ∃ d, elemDepth (.elem i pf t m a tx tl ks) = some d := by
      rcases hy with hy | hy
      · simp only [isFlatPar, Bool.and_eq_true, beq_iff_eq] at hy
        exact ⟨4, elemDepth_par _ hy.1 rfl⟩
      · exact ⟨1, elemDepth_regTbl _ hy⟩
    obtain ⟨d, hd⟩ := hd
    exact C02_implicit_in_order cfg num c s s' p h1 hp i pf t m a tx tl ks d hd h

/-- a flat paragraph or a regular table walked while nothing is open -/
theorem step_closed (cfg : PartCfg) (num : Dict Str (List NumAttr)) (c : Bool) (y : Xml)
    (hy : isFlatPar y = true ∨ regTbl y = true) (s s' : DC) (hs : Inv s) (h0 : s.openPars = [])
    (h : walk cfg num c s y = .ok s') :
    ∃ o, BlockMatches cfg y o ∧ leafParsL s'.root = leafParsL s.root ++ blockLeaves cfg.dup o ∧ s'.openPars = [] := by
  have hni := noImpl_of_closed h0
  rcases hy with hp | ht
  · have hpar : ∃ q, leafParsL s'.root = leafParsL s.root ++ [q] ∧ s'.openPars = s.openPars := by
      cases y with
      | elem i p t m a tx tl kk =>
        have hp' := hp
        simp only [isFlatPar, Bool.and_eq_true, beq_iff_eq] at hp'
        obtain ⟨par, _, _, e1, e2, _⟩ := walk_paragraph cfg num c s s' i p t m a tx tl kk hp'.1 hp'.2 hni h
        exact ⟨par, e1, e2⟩
      | comment _ _ => simp [isFlatPar] at hp
      | pi _ => simp [isFlatPar] at hp
    obtain ⟨q, hq, hop⟩ := hpar
    exact ⟨.par q, BlockMatches.par hp (parFrom_of_walk cfg num c s s' y hp hni h q hq), by rw [hq]; rfl, by rw [hop, h0]⟩
  · obtain ⟨rows, hrm, _, hr1, hop⟩ := C04_table cfg num c y ht s s' hs.lo hs.hi hni h
    refine ⟨.table rows, BlockMatches.table ht hrm, ?_, by rw [hop, h0]⟩
    rw [hr1, leafParsL_append]
    simp [blockLeaves, leafParsL, leafParsT]

theorem flatMap_src_cons (i : Item) (is : List Item) : (i :: is).flatMap Item.src = i.src ++ is.flatMap Item.src := by
  simp [List.flatMap_cons]

/-- **C02 with inline content outside paragraphs: everything in document order.** -/
theorem C02_items (cfg : PartCfg) (num : Dict Str (List NumAttr)) (c : Bool) :
    ∀ (items : List Item) (pend : Bool) (s s' : DC), okSeq pend items = true → Inv s →
      (pend = false → s.openPars = []) → (pend = true → ∃ p, s.openPars = [p] ∧ p.elem = none) →
      walkL cfg num c s (items.flatMap Item.src) = .ok s' →
      ∃ outs, ItemsMatch cfg items outs ∧ leavesP s' = leavesP s ++ outs.flatMap (ioLeaves cfg.dup) ∧ Inv s' ∧
        (s'.openPars = [] ∨ ∃ p, s'.openPars = [p] ∧ p.elem = none)
  | [], pend, s, s', _, hs, hc, hp, h => by
    simp only [List.flatMap_nil, walkL] at h; have := pure_ok h; subst this
    refine ⟨[], ItemsMatch.nil, by simp, hs, ?_⟩
    cases pend with
    | false => exact Or.inl (hc rfl)
    | true => exact Or.inr (hp rfl)
  | .blk x :: rest, false, s, s', hok, hs, hc, _, h => by
    simp only [okSeq, Bool.and_eq_true] at hok
    have h0 := hc rfl
    rw [flatMap_src_cons] at h
    simp only [Item.src, List.singleton_append, walkL] at h
    obtain ⟨s1, h1, h⟩ := bind_ok h
    have i1 := walk_inv cfg num x c s s1 hs h1
    have hx := hok.1
    simp only [regBlock, Bool.or_eq_true] at hx
    rcases hx with hpt | hi
    · obtain ⟨o, hm, hl, ho1⟩ := step_closed cfg num c x hpt s s1 hs h0 h1
      obtain ⟨outs, hms, hls, hinv, hfin⟩ := C02_items cfg num c rest false s1 s' hok.2 i1 (fun _ => ho1) (by intro e; cases e) h
      refine ⟨.blk o :: outs, ItemsMatch.some (ItemMatches.blk hm) hms, ?_, hinv, hfin⟩
      rw [hls]; simp only [leavesP, hl, ho1, h0, List.append_nil, List.flatMap_cons, ioLeaves, List.append_assoc]
    · rw [walk_inert cfg num x hi c s] at h1
      cases h1
      obtain ⟨outs, hms, hls, hinv, hfin⟩ := C02_items cfg num c rest false s s' hok.2 hs hc (by intro e; cases e) h
      exact ⟨outs, ItemsMatch.none (ItemMatches.inert hi) hms, hls, hinv, hfin⟩
  | .blk y :: rest, true, s, s', hok, hs, _, hp, h => by
    simp only [okSeq, Bool.and_eq_true, Bool.or_eq_true] at hok
    obtain ⟨p, h1p, hep⟩ := hp rfl
    rw [flatMap_src_cons] at h
    simp only [Item.src, List.singleton_append, walkL] at h
    obtain ⟨s1, h1, h⟩ := bind_ok h
    have i1 := walk_inv cfg num y c s s1 hs h1
    obtain ⟨s0, hc0, hl0, ho0, hw⟩ := walk_block_after_group cfg num c y s s1 p hok.1 h1p hep h1
    have i0 := concludePar_inv s s0 hs hc0
    obtain ⟨o, hm, hl, ho1⟩ := step_closed cfg num c y hok.1 s0 s1 i0 ho0 hw
    obtain ⟨outs, hms, hls, hinv, hfin⟩ := C02_items cfg num c rest false s1 s' hok.2 i1 (fun _ => ho1) (by intro e; cases e) h
    refine ⟨.blk o :: outs, ItemsMatch.some (ItemMatches.blk hm) hms, ?_, hinv, hfin⟩
    rw [hls]; simp only [leavesP, hl, hl0, ho1, h1p, List.append_nil, List.flatMap_cons, ioLeaves, List.append_assoc]
  | .grp xs :: rest, false, s, s', hok, hs, hc, _, h => by
    simp only [okSeq, Bool.and_eq_true] at hok
    have h0 := hc rfl
    rw [flatMap_src_cons] at h
    simp only [Item.src] at h
    rw [walkL_append] at h
    obtain ⟨s1, h1, h⟩ := bind_ok h
    have i1 := walkL_inv cfg num xs c s s1 hs h1
    obtain ⟨p, t, ht, hone, he, htext, hl⟩ := C02_stray_group cfg num c xs s s1 hok.1 h0 h1
    obtain ⟨outs, hms, hls, hinv, hfin⟩ := C02_items cfg num c rest true s1 s' hok.2 i1 (by intro e; cases e) (fun _ => ⟨p, hone, he⟩) h
    refine ⟨.imp p :: outs, ItemsMatch.some (ItemMatches.grp ht he htext) hms, ?_, hinv, hfin⟩
    rw [hls]; simp only [leavesP, hl, hone, h0, List.append_nil, List.flatMap_cons, ioLeaves, List.append_assoc]
  | .grp _ :: _, true, _, _, hok, _, _, _, _ => by simp [okSeq] at hok

/-- … and when the part ends, the pending paragraph is concluded: the tree holds exactly `leavesP` -/
theorem finish_leaves (cfg : PartCfg) (s s' : DC) (hq : s.queued = [])
    (ho : s.openPars = [] ∨ ∃ p, s.openPars = [p] ∧ p.elem = none) (h : finish cfg s = .ok s') :
    leafParsL s'.root = leavesP s := by
  unfold finish at h
  simp only [hq, List.isEmpty_nil, if_true, pure, Except.pure, ok_bind] at h
  rcases ho with h0 | ⟨p, h1, _⟩
  · unfold DC.concludePar at h
    simp only [h0, List.getLast?_nil] at h
    have := pure_ok h; subst this
    simp [leavesP, h0]
  · obtain ⟨hl, _⟩ := concludePar_spec s s' p (by rw [h1]; rfl) h
    rw [hl]; simp [leavesP, h1]

/-- **the whole sequence, finished**: the leaf paragraphs of the tree are those collected before,
followed — item by item, in document order — by the records of the items -/
theorem C02_items_finished (cfg : PartCfg) (num : Dict Str (List NumAttr)) (c : Bool) (items : List Item) (s s1 s' : DC)
    (hok : okSeq false items = true) (hs : Inv s) (h0 : s.openPars = [])
    (hw : walkL cfg num c s (items.flatMap Item.src) = .ok s1) (hq : s1.queued = []) (hf : finish cfg s1 = .ok s') :
    ∃ outs, ItemsMatch cfg items outs ∧ leafParsL s'.root = leafParsL s.root ++ outs.flatMap (ioLeaves cfg.dup) := by
  obtain ⟨outs, hm, hl, _, hfin⟩ := C02_items cfg num c items false s s1 hok hs (fun _ => h0) (by intro e; cases e) hw
  refine ⟨outs, hm, ?_⟩
  rw [finish_leaves cfg s1 s' hq hfin hf, hl]
  simp [leavesP, h0]

/-! ## from a list of siblings to items -/

/-- group the siblings: an element that opens a paragraph first starts a group, which extends over the
flat inline elements that follow; everything else is a block of its own -/
def itemsGo : Option (List Xml) → List Xml → List Item
  | none, [] => []
  | some g, [] => [.grp g.reverse]
  | none, x :: rest => if opensFirst x && flatInline x then itemsGo (some [x]) rest else .blk x :: itemsGo none rest
  | some g, x :: rest => if flatInline x then itemsGo (some (x :: g)) rest else .grp g.reverse :: .blk x :: itemsGo none rest

def itemsOf (ks : List Xml) : List Item := itemsGo none ks

theorem itemsGo_src : ∀ (ks : List Xml) (acc : Option (List Xml)),
    (itemsGo acc ks).flatMap Item.src = (match acc with | some g => g.reverse | none => []) ++ ks
  | [], none => rfl
  | [], some g => by simp [itemsGo, Item.src]
  | x :: rest, none => by
    simp only [itemsGo]
    split
    · rw [itemsGo_src rest (some [x])]; simp
    · rw [List.flatMap_cons, itemsGo_src rest none]; simp [Item.src]
  | x :: rest, some g => by
    simp only [itemsGo]
    split
    · rw [itemsGo_src rest (some (x :: g))]; simp
    · rw [List.flatMap_cons, List.flatMap_cons, itemsGo_src rest none]; simp [Item.src]

theorem itemsOf_src (ks : List Xml) : (itemsOf ks).flatMap Item.src = ks := by
  unfold itemsOf; rw [itemsGo_src]; rfl

/-- the children of a part's body (of the root itself for headers, footers, notes) -/
def bodyKids (root : Xml) : List Xml :=
  if root.ptag == documentTag then
    match root.kids.find? (fun k => k.ptag == bodyTag) with
    | some b => b.kids
    | none => root.kids
  else root.kids

/-- decidable, evaluated by the driver on every generated part: the siblings form a sequence `C02_items` speaks about -/
def itemsOK (ks : List Xml) : Bool := okSeq false (itemsOf ks)

/-- **`C02_items` for a list of siblings as it stands in the part** -/
theorem C02_siblings (cfg : PartCfg) (num : Dict Str (List NumAttr)) (c : Bool) (ks : List Xml) (s s1 s' : DC)
    (hok : itemsOK ks = true) (hs : Inv s) (h0 : s.openPars = [])
    (hw : walkL cfg num c s ks = .ok s1) (hq : s1.queued = []) (hf : finish cfg s1 = .ok s') :
    ∃ outs, ItemsMatch cfg (itemsOf ks) outs ∧ leafParsL s'.root = leafParsL s.root ++ outs.flatMap (ioLeaves cfg.dup) := by
  have hw' : walkL cfg num c s ((itemsOf ks).flatMap Item.src) = .ok s1 := by rw [itemsOf_src]; exact hw
  exact C02_items_finished cfg num c (itemsOf ks) s s1 s' hok hs h0 hw' hq hf

/-! ## a whole part -/

/-- walking a wrapper the walk does not know (`w:hdr`, `w:ftr`, `w:footnotes`, `w:body`, `w:document` …):
set the caret (after concluding a pending implicit paragraph if the wrapper has a depth), walk the
children, conclude a pending implicit paragraph again if it has a depth, reset the caret -/
def wrapperTag (pt : Str) : Prop := tagMember pt = none ∨ tagMember pt = some "BODY" ∨ tagMember pt = some "DOCUMENT"

theorem walk_wrapper (cfg : PartCfg) (num : Dict Str (List NumAttr)) (c : Bool) (s s' : DC)
    (i : Nat) (pf : Option Str) (t : QName) (m : NsMap) (a : List (QName × Str)) (tx tl : Option Str) (ks : List Xml)
    (hm : wrapperTag (Xml.elem i pf t m a tx tl ks).ptag)
    (h : walk cfg num c s (.elem i pf t m a tx tl ks) = .ok s') :
    ∃ s1 s3 s4, s.setCaretOpen (elemDepth (.elem i pf t m a tx tl ks)) (some t.name) = .ok s1 ∧
      walkL cfg num (c || isCellTag (.elem i pf t m a tx tl ks)) s1 ks = .ok s3 ∧
      s3.flushImplicit (elemDepth (.elem i pf t m a tx tl ks)) = .ok s4 ∧
      s4.setCaret (elemDepth (.elem i pf t m a tx tl ks)) none = .ok s' := by
  have hl : ((Xml.elem i pf t m a tx tl ks).ptag == hyperlinkTag) = false := by
    cases hb : ((Xml.elem i pf t m a tx tl ks).ptag == hyperlinkTag) with
    | false => rfl
    | true =>
      have e : (Xml.elem i pf t m a tx tl ks).ptag = hyperlinkTag := by simpa using hb
      unfold wrapperTag at hm
      rw [e, tagMember_hyperlink] at hm; rcases hm with hm | hm | hm <;> simp at hm
  simp only [walk, hl, Bool.false_eq_true, if_false] at h
  obtain ⟨s1, h1, h⟩ := bind_ok h
  obtain ⟨roots, hr, h⟩ := bind_ok h
  have := pure_ok hr; subst this
  have hop : openStep cfg s1 (.elem i pf t m a tx tl ks) c [] = .ok (s1, true) := by
    unfold openStep; rcases hm with hm | hm | hm <;> (rw [hm]; rfl)
  rw [hop] at h
  simp only [ok_bind, if_true] at h
  obtain ⟨s3, h3, h⟩ := bind_ok h
  obtain ⟨s4, h4, h⟩ := bind_ok h
  obtain ⟨s0, h0, hc⟩ := closeStep_split cfg s3 s4 _ h4
  have hcore : closeStepCore cfg s0 (.elem i pf t m a tx tl ks) = .ok s0 := by
    unfold closeStepCore; rcases hm with hm | hm | hm <;> (rw [hm]; rfl)
  rw [hcore] at hc; cases hc
  exact ⟨s1, s3, _, h1, h3, h0, h⟩

/-- the flush at the end of a wrapper moves a pending paragraph from "open" to "in the tree": `leavesP` is unchanged -/
theorem flushImplicit_leavesP (s s' : DC) (d : Option Nat)
    (ho : s.openPars = [] ∨ ∃ p, s.openPars = [p] ∧ p.elem = none) (h : s.flushImplicit d = .ok s') :
    leavesP s' = leavesP s ∧ (s'.openPars = [] ∨ ∃ p, s'.openPars = [p] ∧ p.elem = none) ∧ s'.queued = s.queued := by
  have hq := (flushImplicit_keeps s s' d h).1
  rcases flushImplicit_cases s s' d h with e | e
  · subst e; exact ⟨rfl, ho, rfl⟩
  · rcases ho with h0 | ⟨p, h1, _⟩
    · unfold DC.concludePar at e
      simp only [h0, List.getLast?_nil] at e
      have := pure_ok e; subst this; exact ⟨rfl, Or.inl h0, rfl⟩
    · obtain ⟨hl, hop, _⟩ := concludePar_spec s s' p (by rw [h1]; rfl) e
      have h0' : s'.openPars = [] := by rw [hop, h1]; rfl
      exact ⟨by simp [leavesP, hl, h0', h1], Or.inl h0', hq⟩

/-- **a part whose root is a wrapper the walk does not know (header, footer, notes, comments, a body):**
if its children form a sequence of paragraphs, regular tables, ignored markup and groups of inline
content outside paragraphs, then `new_depth_collector` returns a tree whose leaf paragraphs are
exactly the records of these items, in document order. (`hq`: no note label is left queued when the
walk ends — true of parts without notes; with notes the label opens the note's first paragraph.) -/
theorem C02_part (cfg : PartCfg) (num : Dict Str (List NumAttr)) (c : Bool) (dc : DC)
    (i : Nat) (pf : Option Str) (t : QName) (m : NsMap) (a : List (QName × Str)) (tx tl : Option Str) (ks : List Xml)
    (hm : wrapperTag (Xml.elem i pf t m a tx tl ks).ptag) (hok : itemsOK ks = true)
    (hq : ∀ s5, walk cfg num c ({ bullets := { numAttrs := num } } : DC) (.elem i pf t m a tx tl ks) = .ok s5 → s5.queued = [])
    (h : newDepthCollector cfg num (.elem i pf t m a tx tl ks) c = .ok dc) :
    ∃ outs, ItemsMatch cfg (itemsOf ks) outs ∧ leafParsL dc.root = outs.flatMap (ioLeaves cfg.dup) := by
  unfold newDepthCollector at h
  obtain ⟨s5, hw, hf⟩ := bind_ok h
  have hq5 := hq s5 hw
  obtain ⟨s1, s3, s4, h1, h3, h4, h5⟩ := walk_wrapper cfg num c _ s5 i pf t m a tx tl ks hm hw
  -- the initial state: nothing open, nothing collected
  have i0 : Inv ({ bullets := { numAttrs := num } } : DC) := init_inv _
  have hni0 : NoImpl ({ bullets := { numAttrs := num } } : DC) := noImpl_of_closed rfl
  rw [setCaretOpen_noImpl _ _ _ hni0] at h1
  have f1 := setCaret_frame _ s1 _ _ h1
  have i1 := setCaret_inv _ s1 _ _ i0 h1
  have ho1 : s1.openPars = [] := by rw [f1.openPars]
  have hl1 : leafParsL s1.root = [] := by rw [f1.leaves]; rfl
  have h3' : walkL cfg num (c || isCellTag (.elem i pf t m a tx tl ks)) s1 ((itemsOf ks).flatMap Item.src) = .ok s3 := by
    rw [itemsOf_src]; exact h3
  obtain ⟨outs, hmatch, hl3, _, hfin3⟩ := C02_items cfg num _ (itemsOf ks) false s1 s3 hok i1 (fun _ => ho1) (by intro e; cases e) h3'
  obtain ⟨hl4, hfin4, hq4⟩ := flushImplicit_leavesP s3 s4 _ hfin3 h4
  have f5 := setCaret_frame s4 s5 _ _ h5
  have hfin5 : s5.openPars = [] ∨ ∃ p, s5.openPars = [p] ∧ p.elem = none := by rw [f5.openPars]; exact hfin4
  have hl5 : leavesP s5 = leavesP s4 := by simp [leavesP, f5.leaves, f5.openPars]
  refine ⟨outs, hmatch, ?_⟩
  rw [finish_leaves cfg s5 dc hq5 hfin5 hf, hl5, hl4, hl3]
  simp [leavesP, hl1, ho1]

/-- **the main document part**: `w:document` holding one `w:body` -/
theorem C02_document (cfg : PartCfg) (num : Dict Str (List NumAttr)) (c : Bool) (dc : DC)
    (i : Nat) (pf : Option Str) (t : QName) (m : NsMap) (a : List (QName × Str)) (tx tl : Option Str)
    (i' : Nat) (pf' : Option Str) (t' : QName) (m' : NsMap) (a' : List (QName × Str)) (tx' tl' : Option Str) (ks : List Xml)
    (hd : (Xml.elem i pf t m a tx tl [.elem i' pf' t' m' a' tx' tl' ks]).ptag = documentTag)
    (hb : (Xml.elem i' pf' t' m' a' tx' tl' ks).ptag = bodyTag) (hok : itemsOK ks = true)
    (hq : ∀ s5, walk cfg num c ({ bullets := { numAttrs := num } } : DC) (.elem i pf t m a tx tl [.elem i' pf' t' m' a' tx' tl' ks]) = .ok s5 → s5.queued = [])
    (h : newDepthCollector cfg num (.elem i pf t m a tx tl [.elem i' pf' t' m' a' tx' tl' ks]) c = .ok dc) :
    ∃ outs, ItemsMatch cfg (itemsOf ks) outs ∧ leafParsL dc.root = outs.flatMap (ioLeaves cfg.dup) := by
  have tmd : tagMember documentTag = some "DOCUMENT" := by decide
  have tmb : tagMember bodyTag = some "BODY" := by decide
  have wd : wrapperTag (Xml.elem i pf t m a tx tl [.elem i' pf' t' m' a' tx' tl' ks]).ptag := by rw [hd]; exact Or.inr (Or.inr tmd)
  have wb : wrapperTag (Xml.elem i' pf' t' m' a' tx' tl' ks).ptag := by rw [hb]; exact Or.inr (Or.inl tmb)
  have edd : elemDepth (.elem i pf t m a tx tl [.elem i' pf' t' m' a' tx' tl' ks]) = none := by
    unfold elemDepth; rw [hd]; simp
  have edb : elemDepth (.elem i' pf' t' m' a' tx' tl' ks) = none := by
    unfold elemDepth; rw [hb]; simp
  unfold newDepthCollector at h
  obtain ⟨s5, hw, hf⟩ := bind_ok h
  have hq5 := hq s5 hw
  obtain ⟨s1, s3, s4, h1, h3, h4, h5⟩ := walk_wrapper cfg num c _ s5 i pf t m a tx tl _ wd hw
  rw [edd] at h1 h4 h5
  have e1 := Except.ok.inj ((setCaretOpen_none _ _).symm.trans h1)
  have e4 := Except.ok.inj ((flushImplicit_none s3).symm.trans h4)
  have e5 : s4 = s5 := Except.ok.inj (by rw [← h5]; rfl)
  subst e1; subst e4; subst e5
  -- the body
  simp only [walkL] at h3
  obtain ⟨sb, hwb, h3⟩ := bind_ok h3
  have := pure_ok h3; subst this
  obtain ⟨b1, b3, b4, g1, g3, g4, g5⟩ := walk_wrapper cfg num (c || isCellTag (.elem i pf t m a tx tl [.elem i' pf' t' m' a' tx' tl' ks])) _ sb i' pf' t' m' a' tx' tl' ks wb hwb
  rw [edb] at g1 g4 g5
  have f1 := Except.ok.inj ((setCaretOpen_none _ _).symm.trans g1)
  have f4 := Except.ok.inj ((flushImplicit_none b3).symm.trans g4)
  have f5 : b4 = sb := Except.ok.inj (by rw [← g5]; rfl)
  subst f1; subst f4; subst f5
  have g3' : walkL cfg num ((c || isCellTag (.elem i pf t m a tx tl [.elem i' pf' t' m' a' tx' tl' ks])) || isCellTag (.elem i' pf' t' m' a' tx' tl' ks)) ({ bullets := { numAttrs := num } } : DC) ((itemsOf ks).flatMap Item.src) = .ok b3 := by
    rw [itemsOf_src]; exact g3
  obtain ⟨outs, hmatch, hl3, _, hfin3⟩ := C02_items cfg num _ (itemsOf ks) false _ b3 hok (init_inv _) (fun _ => rfl) (by intro e; cases e) g3'
  refine ⟨outs, hmatch, ?_⟩
  rw [finish_leaves cfg b3 dc hq5 hfin3 hf, hl3]
  simp [leavesP, leafParsL]

/-- **… with every hypothesis decidable**: a part without notes (`noNotes`: nothing is dispatched to the
footnote / endnote handlers, so nothing is ever queued — `walk_noq`) whose root is a wrapper and whose
children satisfy `itemsOK` -/
theorem C02_part_decidable (cfg : PartCfg) (num : Dict Str (List NumAttr)) (c : Bool) (dc : DC)
    (i : Nat) (pf : Option Str) (t : QName) (m : NsMap) (a : List (QName × Str)) (tx tl : Option Str) (ks : List Xml)
    (hm : wrapperTag (Xml.elem i pf t m a tx tl ks).ptag) (hok : itemsOK ks = true)
    (hn : noNotes (.elem i pf t m a tx tl ks) = true)
    (h : newDepthCollector cfg num (.elem i pf t m a tx tl ks) c = .ok dc) :
    ∃ outs, ItemsMatch cfg (itemsOf ks) outs ∧ leafParsL dc.root = outs.flatMap (ioLeaves cfg.dup) :=
  C02_part cfg num c dc i pf t m a tx tl ks hm hok
    (fun s5 hw => walk_noq cfg num _ hn c _ s5 (show NoQ ({ bullets := { numAttrs := num } } : DC) from rfl) hw) h

/-- decidable, evaluated by the driver: `C02_part_decidable` / `C02_document` apply to this part -/
def partItemsOK (root : Xml) : Bool :=
  itemsOK (bodyKids root) && noNotes root &&
  (match tagMember root.ptag with | none => true | some "BODY" => true | some "DOCUMENT" => true | _ => false)

end D2P
