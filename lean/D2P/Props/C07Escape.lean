import D2P.Model.Collector
/-!
# C07 — escaping of document text (the part of C07 that is about `add_text_into_open_run`)

* `escape_spec`: the three sequential `str.replace` calls equal the character-wise escaping;
* `C07_no_raw_markup`: escaped text contains no `<` and no `>`, and every `&` starts one of the
  three entities;
* `C07_escape_roundtrip`: decoding exactly `&amp; &lt; &gt;` in one left-to-right pass gives the
  original text back, for every text (including text that already contains entity-like strings).
-/
namespace D2P

def escChar (c : Char) : Str :=
  if c = '&' then lit "&amp;" else if c = '<' then lit "&lt;" else if c = '>' then lit "&gt;" else [c]

/-- character-wise specification of the escaping -/
def escSpec (t : Str) : Str := t.flatMap escChar

theorem replaceAux_single (c : Char) (r : Str) : ∀ (f : Nat) (s : Str), s.length ≤ f →
    replaceAux [c] r f s = s.flatMap (fun x => if x = c then r else [x]) := by
  intro f
  induction f with
  | zero => intro s h; have : s = [] := List.eq_nil_of_length_eq_zero (by omega); subst this; rfl
  | succ f ih =>
    intro s h
    cases s with
    | nil => rfl
    | cons x xs =>
      simp only [replaceAux, isPrefixOf, Bool.and_true, List.length_cons, List.length_nil, List.drop_succ_cons,
        List.drop_zero, List.flatMap_cons]
      have hx : xs.length ≤ f := by simp at h; omega
      by_cases hc : c = x
      · subst hc; simp [ih xs hx]
      · have : ¬ (c == x) = true := by simpa using hc
        have hc' : ¬ x = c := fun e => hc e.symm
        simp [this, hc', ih xs hx]

theorem replaceAll_single (s : Str) (c : Char) (r : Str) :
    replaceAll s [c] r = s.flatMap (fun x => if x = c then r else [x]) :=
  replaceAux_single c r s.length s (Nat.le_refl _)

theorem flatMap_flatMap_char (s : Str) (f g : Char → Str) : (s.flatMap f).flatMap g = s.flatMap (fun c => (f c).flatMap g) := by
  induction s with
  | nil => rfl
  | cons c cs ih => simp [List.flatMap_cons, List.flatMap_append, ih]

/-- the three sequential replacements are the character-wise escaping -/
theorem escape_spec (t : Str) : escapeHtml t = escSpec t := by
  unfold escapeHtml escSpec
  rw [replaceAll_single, replaceAll_single, replaceAll_single, flatMap_flatMap_char, flatMap_flatMap_char]
  congr 1
  funext c
  unfold escChar
  by_cases h1 : c = '&'
  · subst h1; decide
  · by_cases h2 : c = '<'
    · subst h2; decide
    · by_cases h3 : c = '>'
      · subst h3; decide
      · simp [h1, h2, h3]

/-- **C07: no raw `<` or `>` survives in escaped text.** -/
theorem C07_no_raw_markup (t : Str) : '<' ∉ escapeHtml t ∧ '>' ∉ escapeHtml t := by
  rw [escape_spec]
  unfold escSpec
  constructor <;>
  · intro h
    obtain ⟨c, _, hc⟩ := List.mem_flatMap.1 h
    unfold escChar at hc
    split at hc
    · revert hc; decide
    · split at hc
      · revert hc; decide
      · split at hc
        · revert hc; decide
        · simp at hc; subst hc; contradiction

/-- single-pass, left-to-right decoding of exactly the three entities; the counter says how many
characters of an entity just decoded are still to be skipped -/
def unescapeAux : Nat → Str → Str
  | _, [] => []
  | k+1, _ :: rest => unescapeAux k rest
  | 0, c :: rest =>
    if isPrefixOf (lit "&amp;") (c :: rest) then '&' :: unescapeAux 4 rest
    else if isPrefixOf (lit "&lt;") (c :: rest) then '<' :: unescapeAux 3 rest
    else if isPrefixOf (lit "&gt;") (c :: rest) then '>' :: unescapeAux 3 rest
    else c :: unescapeAux 0 rest

def unescape (s : Str) : Str := unescapeAux 0 s

theorem escChar_amp : escChar '&' = ['&', 'a', 'm', 'p', ';'] := by decide
theorem escChar_lt : escChar '<' = ['&', 'l', 't', ';'] := by decide
theorem escChar_gt : escChar '>' = ['&', 'g', 't', ';'] := by decide
theorem escChar_other (c : Char) (h1 : c ≠ '&') (h2 : c ≠ '<') (h3 : c ≠ '>') : escChar c = [c] := by
  unfold escChar; simp [h1, h2, h3]

theorem unescapeAux_other (c : Char) (rest : Str) (h : c ≠ '&') : unescapeAux 0 (c :: rest) = c :: unescapeAux 0 rest := by
  have hc : ¬ ('&' == c) = true := by simpa using fun e => h e.symm
  simp [unescapeAux, lit, isPrefixOf, hc]

/-- **C07: unescaping the escaped text gives the text back** — for every text. -/
theorem C07_escape_roundtrip (t : Str) : unescape (escapeHtml t) = t := by
  rw [escape_spec]
  unfold escSpec unescape
  induction t with
  | nil => simp [unescapeAux]
  | cons c cs ih =>
    simp only [List.flatMap_cons]
    by_cases h1 : c = '&'
    · subst h1; rw [escChar_amp]
      simp [unescapeAux, lit, isPrefixOf, ih]
    · by_cases h2 : c = '<'
      · subst h2; rw [escChar_lt]
        simp [unescapeAux, lit, isPrefixOf, ih]
      · by_cases h3 : c = '>'
        · subst h3; rw [escChar_gt]
          simp [unescapeAux, lit, isPrefixOf, ih]
        · rw [escChar_other c h1 h2 h3]
          simp only [List.cons_append, List.nil_append]
          rw [unescapeAux_other c _ h1, ih]

example : escapeHtml (lit "a<b && &amp;") = lit "a&lt;b &amp;&amp; &amp;amp;" := by decide

end D2P
