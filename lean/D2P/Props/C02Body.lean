import D2P.Props.C04Grid
import D2P.Proofs.ShapeWalk
/-!
# C02 — a body of paragraphs and tables: every source paragraph exactly once, in order

`C02_paragraph` handles one flat paragraph, `C04_table` one regular table.  This file puts them
together: for ANY sequence of blocks each of which is a flat paragraph, a regular table or an
element the walk ignores (section properties, bookmarks, proofing marks, XML comments …), of any
length, the paragraph records appended by the walk are, block by block and in document order:
the record of the paragraph; the records of the table (`tableSpec`).

* `C02_blocks`        the leaves appended are `outs.flatMap blockLeaves`, where `outs` matches the
                      blocks pairwise (`BlocksMatch`: identity and text of every record);
* `C02_once_in_order` with `duplicate_merged_cells` off, the source identities of the appended
                      records, read in order, are exactly the source paragraphs in document order —
                      each once — the synthetic padding paragraphs having no identity.
-/
namespace D2P

inductive BlockOut where
  | par (q : Par)
  | table (rows : List (List CellOut))

def blockLeaves (dup : Bool) : BlockOut → List Par
  | .par q => [q]
  | .table rows => leafParsL (tableSpec dup none rows)

def regBlock (x : Xml) : Bool := isFlatPar x || regTbl x || inert x

inductive BlockMatches (cfg : PartCfg) : Xml → BlockOut → Prop
  | par {x : Xml} {q : Par} : isFlatPar x = true → ParFrom cfg x q → BlockMatches cfg x (.par q)
  | table {x : Xml} {rows : List (List CellOut)} : regTbl x = true → RowsMatch cfg (x.kids.filter regRow) rows →
      BlockMatches cfg x (.table rows)

inductive BlocksMatch (cfg : PartCfg) : List Xml → List BlockOut → Prop
  | nil : BlocksMatch cfg [] []
  | cons {x : Xml} {o : BlockOut} {xs : List Xml} {os : List BlockOut} :
      BlockMatches cfg x o → BlocksMatch cfg xs os → BlocksMatch cfg (x :: xs) (o :: os)

theorem regTbl_not_inert (k : Xml) (h : regTbl k = true) : inert k = false := by
  cases k with
  | elem i p t m a tx tl ks =>
    simp only [regTbl, Bool.and_eq_true, beq_iff_eq] at h
    simp only [inert, h.1.1, tblTag_facts.2.2.2.2]; rfl
  | comment _ _ => simp [regTbl] at h
  | pi _ => simp [regTbl] at h

/-- **C02, a sequence of blocks**, from any collector state satisfying the walk invariant -/
theorem C02_blocks (cfg : PartCfg) (num : Dict Str (List NumAttr)) (c : Bool) :
    ∀ (ks : List Xml), (∀ k ∈ ks, regBlock k = true) → ∀ (s s' : DC), Inv s → NoImpl s → walkL cfg num c s ks = .ok s' →
      ∃ outs, BlocksMatch cfg (ks.filter (fun k => !inert k)) outs ∧
        leafParsL s'.root = leafParsL s.root ++ outs.flatMap (blockLeaves cfg.dup) ∧ Inv s' ∧ s'.openPars = s.openPars
  | [], _, s, s', hs, hni, h => by
    simp only [walkL] at h; have := pure_ok h; subst this
    exact ⟨[], BlocksMatch.nil, by simp, hs, rfl⟩
  | k :: ks, hk, s, s', hs, hni, h => by
    simp only [walkL] at h
    obtain ⟨s1, h1, h⟩ := bind_ok h
    have i1 := walk_inv cfg num k c s s1 hs h1
    have hkk := hk k (by simp)
    simp only [regBlock, Bool.or_eq_true] at hkk
    rcases hkk with (hp | ht) | hi
    · -- a flat paragraph
      have hne : inert k = false := flatPar_inert_excl k hp
      have hpar : ∃ q, leafParsL s1.root = leafParsL s.root ++ [q] ∧ s1.openPars = s.openPars := by
        cases k with
        | elem i p t m a tx tl kk =>
          have hp' := hp
          simp only [isFlatPar, Bool.and_eq_true, beq_iff_eq] at hp'
          obtain ⟨par, _, _, e1, e2, _⟩ := walk_paragraph cfg num c s s1 i p t m a tx tl kk hp'.1 hp'.2 hni h1
          exact ⟨par, e1, e2⟩
        | comment _ _ => simp [isFlatPar] at hp
        | pi _ => simp [isFlatPar] at hp
      obtain ⟨q, hq, hop1⟩ := hpar
      obtain ⟨outs, hm, hl, hinv, hopq⟩ := C02_blocks cfg num c ks (fun x hx => hk x (by simp [hx])) s1 s' i1 (NoImpl_of_openPars hop1 hni) h
      refine ⟨.par q :: outs, ?_, ?_, hinv, hopq.trans hop1⟩
      · rw [List.filter_cons]; simp only [hne, Bool.not_false, if_true]
        exact BlocksMatch.cons (BlockMatches.par hp (parFrom_of_walk cfg num c s s1 k hp hni h1 q hq)) hm
      · rw [hl, hq]; simp [blockLeaves]
    · -- a regular table
      have hne : inert k = false := regTbl_not_inert k ht
      obtain ⟨rows, hrm, hd1, hr1, hop1⟩ := C04_table cfg num c k ht s s1 hs.lo hs.hi hni h1
      obtain ⟨outs, hm, hl, hinv, hopq⟩ := C02_blocks cfg num c ks (fun x hx => hk x (by simp [hx])) s1 s' i1 (NoImpl_of_openPars hop1 hni) h
      refine ⟨.table rows :: outs, ?_, ?_, hinv, hopq.trans hop1⟩
      · rw [List.filter_cons]; simp only [hne, Bool.not_false, if_true]
        exact BlocksMatch.cons (BlockMatches.table ht hrm) hm
      · rw [hl, hr1, leafParsL_append]
        simp [blockLeaves, leafParsL, leafParsT]
    · -- nothing the walk looks at
      rw [walk_inert cfg num k hi c s] at h1
      cases h1
      obtain ⟨outs, hm, hl, hinv, hopq⟩ := C02_blocks cfg num c ks (fun x hx => hk x (by simp [hx])) s s' hs hni h
      refine ⟨outs, ?_, hl, hinv, hopq⟩
      rw [List.filter_cons]; simp only [hi, Bool.not_true, Bool.false_eq_true, if_false]; exact hm

/-! ## once, in order -/

def idsOf (ks : List Xml) : List Nat := ks.filterMap Xml.id?

/-- the source paragraphs of a regular block, in document order -/
def blockParIds (x : Xml) : List Nat :=
  if isFlatPar x then idsOf [x]
  else ((x.kids.filter regRow).flatMap fun row => (row.kids.filter goodCell).flatMap fun cell => idsOf (cell.kids.filter isFlatPar))

def elemsOf (ps : List Par) : List Nat := ps.filterMap (·.elem)

theorem elemsOf_append (a b : List Par) : elemsOf (a ++ b) = elemsOf a ++ elemsOf b := by simp [elemsOf]

theorem parsFrom_elems {cfg : PartCfg} {ks : List Xml} {Q : List Nest} (h : ParsFrom cfg ks Q) :
    elemsOf (leafParsL Q) = idsOf ks := by
  induction h with
  | nil => rfl
  | @cons k q ks Q hk _ ih =>
    simp only [leafParsL, leafParsT, List.singleton_append, elemsOf, List.filterMap_cons, idsOf, hk.1] at ih ⊢
    cases k.id? with
    | none => simpa using ih
    | some i => simpa using ih

theorem elems_padding (n : Nat) : elemsOf (leafParsL (List.replicate n (Nest.list [.par emptyPar]))) = [] := by
  induction n with
  | zero => rfl
  | succ n ih =>
    simp only [List.replicate_succ, leafParsL, leafParsT, List.singleton_append, elemsOf, List.filterMap_cons, List.append_nil] at ih ⊢
    simpa [emptyPar] using ih

theorem cells_elems {cfg : PartCfg} {xs : List Xml} {os : List CellOut} (h : CellsMatch cfg xs os) :
    elemsOf (leafParsL (os.flatMap blankCells)) = xs.flatMap fun cell => idsOf (cell.kids.filter isFlatPar) := by
  induction h with
  | nil => rfl
  | cons hc _ ih =>
    obtain ⟨pr, _, _, _, _, _, _, hfrom⟩ := hc
    simp only [List.flatMap_cons, blankCells, List.cons_append, leafParsL, leafParsT, leafParsL_append, elemsOf_append,
      parsFrom_elems hfrom, elems_padding, List.append_nil, List.nil_append, ih]

theorem rows_elems {cfg : PartCfg} {xs : List Xml} {os : List (List CellOut)} (h : RowsMatch cfg xs os) :
    elemsOf (leafParsL (os.map fun o => Nest.list (o.flatMap blankCells))) =
      xs.flatMap fun row => (row.kids.filter goodCell).flatMap fun cell => idsOf (cell.kids.filter isFlatPar) := by
  induction h with
  | nil => rfl
  | cons hc _ ih =>
    simp only [List.map_cons, leafParsL, leafParsT, elemsOf_append, cells_elems hc, List.flatMap_cons, ih]

/-- **C02, exactly once and in order** (`duplicate_merged_cells=False`): reading the source
identities off the appended records gives the source paragraphs in document order, each once. -/
theorem C02_once_in_order (cfg : PartCfg) (hd : cfg.dup = false) {ks : List Xml} {outs : List BlockOut}
    (h : BlocksMatch cfg ks outs) : elemsOf (outs.flatMap (blockLeaves cfg.dup)) = ks.flatMap blockParIds := by
  induction h with
  | nil => rfl
  | @cons x o xs os hb _ ih =>
    simp only [List.flatMap_cons, elemsOf_append, ih]
    congr 1
    cases hb with
    | @par q hp hf =>
      simp only [blockLeaves, blockParIds, hp, if_true, elemsOf, idsOf, List.filterMap_cons, List.filterMap_nil, hf.1]
    | @table rows ht hr =>
      have hnp : isFlatPar x = false := by
        cases hx : isFlatPar x with
        | false => rfl
        | true =>
          have a := flatPar_inert_excl x hx
          cases x with
          | elem i p t m a' tx tl kk =>
            simp only [isFlatPar, Bool.and_eq_true, beq_iff_eq] at hx
            simp only [regTbl, Bool.and_eq_true, beq_iff_eq] at ht
            rw [hx.1] at ht
            exact absurd ht.1.1 (by decide)
          | comment _ _ => simp [isFlatPar] at hx
          | pi _ => simp [isFlatPar] at hx
      simp only [blockLeaves, blockParIds, hnp, Bool.false_eq_true, if_false, hd, C04_blank]
      exact rows_elems hr

end D2P
