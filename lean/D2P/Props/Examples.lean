import D2P.Props.C01
import D2P.Props.C02
import D2P.Props.C05
import D2P.Props.C19
import D2P.Props.C15
import D2P.Props.C13Total
/-!
# Non-vacuity: concrete documents that satisfy the hypotheses of the property theorems

Each `example` evaluates the model in the kernel on a small but non-trivial tree, so the
hypotheses of the theorems (`walk … = .ok _`, `flatPar`, `noMerges`, …) are inhabited.
-/
namespace D2P.Ex

def W : Str := lit "http://schemas.openxmlformats.org/wordprocessingml/2006/main"
def ns : NsMap := [(some (lit "w"), W), (some (lit "r"), lit "R")]

def el (id : Nat) (name : String) (attrs : List (QName × Str)) (text : Option Str) (kids : List Xml) : Xml :=
  .elem id (some (lit "w")) ⟨some W, lit name⟩ ns attrs text none kids
def wattr (n v : String) : QName × Str := (⟨some W, lit n⟩, lit v)
def t (id : Nat) (s : String) : Xml := el id "t" [] (some (lit s)) []
def r (id : Nat) (kids : List Xml) : Xml := el id "r" [] none kids
def p (id : Nat) (kids : List Xml) : Xml := el id "p" [] none kids
def tc (id : Nat) (pr : List Xml) (kids : List Xml) : Xml := el id "tc" [] none (el (id + 1000) "tcPr" [] none pr :: kids)
def tr (id : Nat) (kids : List Xml) : Xml := el id "tr" [] none kids
def tbl (id : Nat) (kids : List Xml) : Xml := el id "tbl" [] none kids

def cfg : PartCfg := { html := false, dup := true, rels := [] }

/-- a paragraph, then a table whose first cell holds a nested table, then a paragraph -/
def nested : Xml :=
  el 0 "body" [] none [
    p 1 [r 2 [t 3 "before"]],
    tbl 4 [tr 5 [
      tc 6 [] [p 7 [r 8 [t 9 "A1"]], tbl 10 [tr 11 [tc 12 [] [p 13 [r 14 [t 15 "inner"]]]]], p 16 [r 17 [t 18 "A1-after"]]],
      tc 19 [el 20 "gridSpan" [wattr "val" "2"] none []] [p 21 [r 22 [t 23 "B1"]]]]],
    p 24 [r 25 [t 26 "after"]]]

def texts (dc : DC) : List Str := (leafParsL dc.root).map parText

/-- C01/C02/C04 are not vacuous: the walk returns, the tree is non-trivial and has the shape -/
example : (newDepthCollector cfg [] nested).map texts =
    .ok [lit "before", lit "A1", lit "inner", lit "A1-after", lit "B1", lit "B1", lit "after"] := by decide +kernel

example : (newDepthCollector cfg [] nested).map (fun dc => wfL 3 dc.root) = .ok true := by decide +kernel

/-- C05 (repaired behaviour): the paragraph after the nested table still reports the table lineage -/
example : (newDepthCollector cfg [] nested).map (fun dc => (leafParsL dc.root).map (fun q => q.lineage == tableLineage)) =
    .ok [false, true, true, true, true, true, false] := by decide +kernel

/-- the hypotheses of `C02_paragraph` -/
example : flatPar (p 1 [r 2 [t 3 "ab"], el 4 "proofErr" [] none [], r 5 [t 6 "cd", el 7 "tab" [] none []]]) = true := by decide +kernel

/-- the hypothesis of `C19_dup_irrelevant` holds for a table without merged cells … -/
example : noMerges (tbl 4 [tr 5 [tc 6 [] [p 7 []], tc 8 [] [p 9 []]]]) = true := by decide +kernel
/-- … and fails for the table above, whose second cell spans two columns -/
example : noMerges nested = false := by decide +kernel

/-- C15: a history with reads before and after `close` -/
def needs : Needs := fun cached a => if a == 0 then ⟨[.files, .root (lit "word/document.xml"), .num], [lit "word/document.xml"]⟩
  else ⟨[.files, .root (lit "word/comments.xml")], []⟩
example : (run needs [] {} [.read 0, .close, .read 0, .read 1, .close]).2 =
    [.value 0, .done true, .value 0, .valueError, .done true] := by decide +kernel

end D2P.Ex

namespace D2P.Ex

/-- the nested-table document satisfies the hypothesis of `C13_part_total` -/
example : validT nested = true := by decide +kernel

/-- a document with a list paragraph, a comment range, a note reference, a merged cell and a drop-down -/
def rich : Xml :=
  el 0 "body" [] none [
    p 1 [el 2 "pPr" [] none [el 3 "numPr" [] none [el 4 "ilvl" [wattr "val" "2"] none [], el 5 "numId" [wattr "val" "7"] none []]],
         el 6 "commentRangeStart" [wattr "id" "0"] none [], r 7 [t 8 "x", el 9 "footnoteReference" [wattr "id" "2"] none []],
         el 10 "commentRangeEnd" [wattr "id" "0"] none []],
    tbl 11 [tr 12 [tc 13 [el 14 "gridSpan" [wattr "val" "2"] none []] [p 15 [r 16 [el 17 "ddList" [] none [el 18 "listEntry" [wattr "val" "a"] none [], el 19 "result" [wattr "val" "0"] none []]]]]]]]

example : validT rich = true := by decide +kernel
example : (newDepthCollector cfg [] rich).map texts = .ok [lit "\t\t--\tx----footnote2----", lit "a", lit "a"] := by decide +kernel

/-- a note reference without id is outside the hypothesis (the schema requires `w:id`) -/
example : validT (p 1 [r 2 [el 3 "footnoteReference" [] none []]]) = false := by decide +kernel

end D2P.Ex
