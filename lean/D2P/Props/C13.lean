import D2P.Model.Walk
/-!
# C13 — optional data never raises: the guarded look-ups

Each theorem says that a look-up the walk performs on optional data returns a value for *every*
element (under at most the hypothesis that the `w` prefix is in scope where a `w:` element is
being read), i.e. that the `try/except KeyError` / `suppress(KeyError)` guards of the code are
complete for the operations inside them. The whole-package totality theorem (`C13_total`) is
assembled from these and the collector invariant — DESIGN §9/C13 — and is still to do.
-/
namespace D2P

theorem attrQ_err (x : Xml) (p n : Str) (e : PyErr) (h : x.attrQ p n = .error e) : e = .keyError := by
  unfold Xml.attrQ Xml.qn at h
  split at h
  · simp [bind, Except.bind, pure, Except.pure] at h
  · simp [bind, Except.bind] at h; exact h.symm

theorem attrReq_err (x : Xml) (p n : Str) (e : PyErr) (h : x.attrReq p n = .error e) : e = .keyError := by
  unfold Xml.attrReq at h
  cases hq : x.attrQ p n with
  | error e' =>
    rw [hq] at h; simp [bind, Except.bind] at h; subst h; exact attrQ_err x p n e' hq
  | ok v =>
    rw [hq] at h
    cases v with
    | none => simp [bind, Except.bind] at h; exact h.symm
    | some s => simp [bind, Except.bind, pure, Except.pure] at h

theorem relTarget_err (cfg : PartCfg) (x : Xml) (a : String) (e : PyErr) (h : relTarget cfg x a = .error e) : e = .keyError := by
  unfold relTarget at h
  cases hr : x.attrReq (lit "r") (lit a) with
  | error e' => rw [hr] at h; simp [bind, Except.bind] at h; subst h; exact attrReq_err _ _ _ _ hr
  | ok rid =>
    rw [hr] at h
    simp only [ok_bind, Dict.getM] at h
    split at h
    · simp at h
    · simp at h; exact h.symm

/-- **C13: a hyperlink never raises** — dangling id, missing id, missing `r` or `w` declaration:
the text is used. -/
theorem C13_link_never_raises (cfg : PartCfg) (x : Xml) (text : Str) : ∃ r, linkRun cfg x text = .ok r := by
  unfold linkRun
  cases h : linkHref cfg x with
  | ok href => exact ⟨_, rfl⟩
  | error e =>
    have : e = .keyError := by
      unfold linkHref at h
      cases hr : relTarget cfg x "id" with
      | error e' => rw [hr] at h; simp [bind, Except.bind] at h; subst h; exact relTarget_err _ _ _ _ hr
      | ok link =>
        rw [hr] at h
        simp only [ok_bind] at h
        cases ha : x.attrQ (lit "w") (lit "anchor") with
        | error e' => rw [ha] at h; simp [bind, Except.bind] at h; subst h; exact attrQ_err _ _ _ _ ha
        | ok v => rw [ha] at h; simp [bind, Except.bind, pure, Except.pure] at h
    subst this
    exact ⟨text, rfl⟩

/-- **C13: a picture never raises** — unresolvable or missing relationship ids are skipped. -/
theorem C13_image_never_raises (cfg : PartCfg) (x : Xml) (a : String) : ∃ r, imageRun cfg x a = .ok r := by
  unfold imageRun
  cases h : relTarget cfg x a with
  | ok img => exact ⟨_, rfl⟩
  | error e =>
    have := relTarget_err cfg x a e h
    subst this
    exact ⟨none, rfl⟩

/-- `w` is bound at the element -/
def wBound (x : Xml) : Prop := ∃ u, x.nsmap.find? (fun e => e.1 == some (lit "w")) = some u

theorem wq_ok (x : Xml) (h : wBound x) (n : String) : ∃ q, wq x n = .ok q := by
  obtain ⟨u, hu⟩ := h
  exact ⟨⟨some u.2, lit n⟩, by unfold wq Xml.qn; simp [hu]⟩

/-- **C13: a legacy check box never raises**, whatever its `w:checked` / `w:default` children
and their values are (any on/off spelling, no value, no children). -/
theorem C13_checkbox_never_raises (cb : Xml) (hw : wBound cb) (hk : ∀ k ∈ cb.kids, k.isElem = true → wBound k) :
    ∃ s, checkBoxEntry cb = .ok s := by
  unfold checkBoxEntry
  have hval : ∃ v, checkBoxVal cb = .ok v := by
    unfold checkBoxVal wChild
    obtain ⟨q1, h1⟩ := wq_ok cb hw "checked"
    simp only [h1, ok_bind]
    cases hc : cb.findChild q1 with
    | some c =>
      have hcm : c ∈ cb.kids := by unfold Xml.findChild at hc; exact List.mem_of_find?_eq_some hc
      have hce : c.isElem = true := by
        unfold Xml.findChild at hc
        have := List.find?_some hc
        cases c with
        | elem _ _ _ _ _ _ _ _ => rfl
        | comment _ _ => simp [Xml.tag?] at this
        | pi _ => simp [Xml.tag?] at this
      obtain ⟨u, hu⟩ := hk c hcm hce
      have : ∃ v, c.attrQ (lit "w") (lit "val") = .ok v := ⟨_, by unfold Xml.attrQ Xml.qn; simp [hu]; rfl⟩
      obtain ⟨v, hv⟩ := this
      exact ⟨_, by simp only [pure, Except.pure, hv, ok_bind]; rfl⟩
    | none =>
      obtain ⟨q2, h2⟩ := wq_ok cb hw "default"
      simp only [pure, Except.pure, h2, ok_bind]
      cases hd : cb.findChild q2 with
      | none => exact ⟨none, rfl⟩
      | some d =>
        simp only
        cases hr : d.attrReq (lit "w") (lit "val") with
        | ok v => exact ⟨some v, by simp [suppress, ok_bind]⟩
        | error e =>
          have := attrReq_err d _ _ e hr; subst this
          exact ⟨none, by simp [suppress, hr, bind, Except.bind]⟩
  obtain ⟨v, hv⟩ := hval
  exact ⟨_, by simp only [hv, ok_bind]; rfl⟩

end D2P
