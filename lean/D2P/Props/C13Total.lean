import D2P.Proofs.TotalCell
import D2P.Props.C13
import D2P.Check.C13
/-!
# C13 — every valid content part can be walked: the extraction never raises

`C13_walk_total`: for every tree satisfying `validT` — a conjunction of *local* facts that the
schema guarantees, spelled out in `validElem` — every option setting, every relationships table
and numbering table, and every collector state satisfying the invariant, the walk returns. Hence
`C13_part_total`: `new_depth_collector` returns for every valid part.

What `validElem` asks of an element (and nothing else: unknown elements, missing optional
attributes, any on/off spelling, empty drop-downs, dangling relationship ids, grid gaps, cells
without paragraphs are all allowed):
* the `w` prefix is bound in its scope (the part's root declares it);
* comment range markers and note references carry `w:id`; a note that is not a separator carries `w:id`;
* a list paragraph's `w:ilvl` is a number; a cell's `w:gridSpan` is a number;
* a drop-down's entries carry `w:val` and its `w:result`, if present with a value, is a number.
-/
namespace D2P

theorem wBound_of_b (x : Xml) (h : wBoundb x = true) : wBound x := by
  unfold wBoundb at h
  cases hf : x.nsmap.find? (fun e => e.1 == some (lit "w")) with
  | none => simp [hf] at h
  | some u => exact ⟨u, hf⟩

theorem validL_mem : ∀ (ks : List Xml), validL ks = true → ∀ k ∈ ks, validT k = true
  | [], _, k, hk => by simp at hk
  | x :: xs, h, k, hk => by
    simp only [validL, Bool.and_eq_true] at h
    rcases List.mem_cons.1 hk with rfl | hk
    · exact h.1
    · exact validL_mem xs h.2 k hk

theorem validT_elem (x : Xml) (h : validT x = true) (he : x.isElem = true) : validElem x = true ∧ validL x.kids = true := by
  cases x with
  | elem i p t m a tx tl ks => simpa [validT, Xml.kids] using h
  | comment _ _ => simp [Xml.isElem] at he
  | pi _ => simp [Xml.isElem] at he

theorem validT_wBound (x : Xml) (h : validT x = true) (he : x.isElem = true) : wBound x := by
  have := (validT_elem x h he).1
  unfold validElem at this
  simp only [Bool.and_eq_true] at this
  exact wBound_of_b x this.1

/-! ## reading properties never fails when `w` is bound -/

theorem attrQ_ok (x : Xml) (h : wBound x) (n : Str) : ∃ v, x.attrQ (lit "w") n = .ok v := by
  obtain ⟨u, hu⟩ := h
  exact ⟨_, by unfold Xml.attrQ Xml.qn; simp [hu]; rfl⟩

theorem gatherFold_ok : ∀ (ks : List Xml) (d : Dict Str (Option Str)), (∀ k ∈ ks, k.isElem = true → wBound k) →
    ∃ d', gatherFold ks d = .ok d'
  | [], d, _ => ⟨d, rfl⟩
  | k :: ks, d, h => by
    have hs : ∃ d1, gatherStep d k = .ok d1 := by
      unfold gatherStep
      by_cases he : k.isElem = true
      · obtain ⟨v, hv⟩ := attrQ_ok k (h k (by simp) he) (lit "val")
        exact ⟨_, by simp only [he, Bool.not_true, Bool.false_eq_true, if_false, hv, ok_bind]; rfl⟩
      · exact ⟨d, by simp [he]; rfl⟩
    obtain ⟨d1, h1⟩ := hs
    obtain ⟨d', hd'⟩ := gatherFold_ok ks d1 (fun q hq => h q (List.mem_cons_of_mem _ hq))
    exact ⟨d', by simp only [gatherFold, h1, ok_bind]; exact hd'⟩

theorem gatherPr_ok (x : Xml) (h : validT x = true) : ∃ pr, gatherPr x = .ok pr := by
  unfold gatherPr
  cases ht : x.tag? with
  | none => exact ⟨[], rfl⟩
  | some t =>
    simp only
    cases hf : x.findChild ⟨t.ns, t.name ++ lit "Pr"⟩ with
    | none => exact ⟨[], rfl⟩
    | some pr =>
      simp only
      have he : x.isElem = true := by cases x <;> simp [Xml.tag?] at ht ⊢ <;> rfl
      have hpm : pr ∈ x.kids := by unfold Xml.findChild at hf; exact List.mem_of_find?_eq_some hf
      have hpe : pr.isElem = true := by
        unfold Xml.findChild at hf
        have := List.find?_some hf
        cases pr with
        | elem _ _ _ _ _ _ _ _ => rfl
        | comment _ _ => simp [Xml.tag?] at this
        | pi _ => simp [Xml.tag?] at this
      have hvp := validL_mem x.kids (validT_elem x h he).2 pr hpm
      apply gatherFold_ok
      intro k hk hke
      exact validT_wBound k (validL_mem pr.kids (validT_elem pr hvp hpe).2 k hk) hke

theorem getPStyle_ok (x : Xml) (h : validT x = true) : ∃ st, getPStyle x = .ok st := by
  obtain ⟨pr, hpr⟩ := gatherPr_ok x h
  exact ⟨_, by unfold getPStyle; simp only [hpr, ok_bind]; rfl⟩

theorem parFormatting_total (html : Bool) (x : Xml) (h : validT x = true) : ∃ hs, parFormatting html x = .ok hs := by
  obtain ⟨st, hst⟩ := getPStyle_ok x h
  exact ⟨_, by unfold parFormatting; simp only [hst, ok_bind]; rfl⟩

theorem runFormatting_total (html : Bool) (x : Xml) (h : validT x = true) : ∃ hs, runFormatting html x = .ok hs := by
  obtain ⟨pr, hpr⟩ := gatherPr_ok x h
  exact ⟨_, by unfold runFormatting; simp only [hpr, ok_bind]; rfl⟩

/-! ## the handlers -/

theorem render_err (fn : Gen.NumFn) (n : Int) (e : PyErr) (h : fn.render n = .error e) : e = .valueError := by
  have hl : ∀ e, lowerLetter n = .error e → e = .valueError := by
    intro e he; unfold lowerLetter at he; split at he
    · cases he; rfl
    · cases he
  have hr : ∀ e, lowerRoman n = .error e → e = .valueError := by
    intro e he; unfold lowerRoman at he; split at he
    · cases he; rfl
    · cases he
  cases fn with
  | decimal => simp [Gen.NumFn.render, pure, Except.pure] at h
  | lowerLetter => exact hl e h
  | upperLetter =>
    simp only [Gen.NumFn.render, upperLetter] at h
    cases hx : lowerLetter n with
    | ok v => simp [hx, bind, Except.bind, pure, Except.pure] at h
    | error e' => simp [hx, bind, Except.bind] at h; subst h; exact hl _ hx
  | lowerRoman => exact hr e h
  | upperRoman =>
    simp only [Gen.NumFn.render, upperRoman] at h
    cases hx : lowerRoman n with
    | ok v => simp [hx, bind, Except.bind, pure, Except.pure] at h
    | error e' => simp [hx, bind, Except.bind] at h; subst h; exact hr _ hx
  | bullet => simp [Gen.NumFn.render, pure, Except.pure] at h

theorem formatBullet_ok (ilvl s : Str) (h : (parseInt ilvl).isSome = true) : ∃ t, formatBullet ilvl s = .ok t := by
  unfold formatBullet
  cases hp : parseInt ilvl with
  | none => simp [hp] at h
  | some k => exact ⟨_, rfl⟩

theorem getBullet_ok (b : Bullets) (p : Xml) (pid : Nat) (h : ilvlOK p = true) : ∃ r, getBullet b p pid = .ok r := by
  unfold getBullet
  unfold ilvlOK at h
  simp only []
  split
  · rename_i numId ilvl number hbf _
    have hp : (parseInt ilvl).isSome = true := by
      rw [hbf] at h; simpa using h
    split
    · exact ⟨_, rfl⟩
    · obtain ⟨t, ht⟩ := formatBullet_ok ilvl (decimalStr number) hp
      exact ⟨_, by simp only [ht, ok_bind]; rfl⟩
    · rename_i e hne heq
      exfalso
      generalize hfn : bulletFunction _ = fn at heq
      cases hr : fn.render number with
      | ok str =>
        obtain ⟨t, ht⟩ := formatBullet_ok ilvl str hp
        simp [hr, ht, bind, Except.bind] at heq
      | error e' =>
        have := render_err fn number e' hr; subst this
        simp [hr, bind, Except.bind] at heq
        exact hne heq.symm
  · exact ⟨_, rfl⟩

theorem tinv_bullets (s : DC) (h : TInv s) (b : Bullets) : TInv ({ s with bullets := b } : DC) :=
  ⟨inv2_of_same h.inv2 rfl rfl, ⟨h.sty.tree, h.sty.open_, h.sty.queued⟩⟩

theorem openParagraph_T (cfg : PartCfg) (s : DC) (h : TInv s) (x : Xml) (c : Bool) (hv : validT x = true) (hl : ilvlOK x = true) :
    ∃ s', openParagraph cfg s x c = .ok s' ∧ TInv s' := by
  obtain ⟨s1, h1, t1, _⟩ := commencePar_T cfg.html s h (some x) c
    (by intro y hy; cases hy; exact ⟨parFormatting_total cfg.html x hv, getPStyle_ok x hv⟩)
  obtain ⟨bb, hbb⟩ := getBullet_ok s1.bullets x ((x.id?).getD 0) hl
  obtain ⟨s2, h2, t2⟩ := insertNewRun_T cfg.html _ (tinv_bullets s1 t1 (listPosition bb.1 x ((x.id?).getD 0)).1) bb.2
  refine ⟨_, by unfold openParagraph; simp only [h1, hbb, h2, ok_bind]; rfl, ?_⟩
  exact modTop_T s2 t2 _ (fun p hp => hp)

theorem noteLabel_T (s : DC) (h : TInv s) (x : Xml) (k : String) (hw : wBound x) (hn : noteOK x = true) :
    ∃ s', noteLabel s x k = .ok s' ∧ TInv s' := by
  unfold noteLabel
  unfold noteOK at hn
  cases hs : isSeparatorNote x with
  | error e => simp [hs] at hn
  | ok b =>
    simp only [hs, ok_bind] at hn ⊢
    cases b with
    | true => exact ⟨s, rfl, h⟩
    | false =>
      simp only [Bool.false_or] at hn
      unfold hasId at hn
      cases hid : x.attrReq (lit "w") (lit "id") with
      | error e => simp [hid, Except.isOk] at hn
      | ok id =>
        obtain ⟨s0, h0, t0⟩ := flushImplicit_total (P := TInv) concludePar_T s (some 4) h
        exact ⟨_, by simp only [Bool.false_eq_true, if_false, ok_bind, h0]; rfl, queueRun_T s0 t0 _⟩

theorem symCode_ok (x : Xml) (hw : wBound x) : ∃ c, symCode x = .ok c := by
  unfold symCode attrStrOrNone
  obtain ⟨f, hf⟩ := attrQ_ok x hw (lit "font")
  obtain ⟨ch, hch⟩ := attrQ_ok x hw (lit "char")
  simp only [hf, hch, ok_bind, pure, Except.pure]
  by_cases he : (ch.getD (lit "None")).isEmpty = true
  · exact ⟨none, by simp [he]⟩
  · exact ⟨_, by simp only [he, Bool.false_eq_true, if_false]; rfl⟩

theorem pyIndex_catch {α : Type} (entries : List α) (i : Int) (d : α) :
    ∃ t, (match pyIndex entries i with | .ok s => (Except.ok s : M α) | .error _ => Except.ok d) = .ok t := by
  cases pyIndex entries i <;> exact ⟨_, rfl⟩

theorem ddListEntry_ok (x : Xml) (hw : wBound x) (hd : ddOK x = true) : ∃ t, ddListEntry x = .ok t := by
  unfold ddListEntry
  unfold ddOK at hd
  simp only [Bool.and_eq_true] at hd
  obtain ⟨ql, hql⟩ := wq_ok x hw "listEntry"
  have h1 := hd.1; have h2 := hd.2
  simp only [hql] at h1
  cases hr : reqVals (x.findChildren ql) with
  | error e => simp [hr, Except.isOk] at h1
  | ok entries =>
    simp only [hql, hr, ok_bind]
    cases hc : wChild x "result" with
    | error e =>
      exfalso
      unfold wChild at hc
      obtain ⟨qr, hqr⟩ := wq_ok x hw "result"
      simp [hqr, bind, Except.bind, pure, Except.pure] at hc
    | ok r =>
      simp only [hc, ok_bind] at h2 ⊢
      cases r with
      | none => simp only [ok_bind, pure, Except.pure]; cases pyIndex entries 0 <;> exact ⟨_, rfl⟩
      | some r =>
        simp only at h2 ⊢
        cases ha : r.attrReq (lit "w") (lit "val") with
        | error e =>
          have := attrReq_err r _ _ e ha; subst this
          simp only [ok_bind, pure, Except.pure]; cases pyIndex entries 0 <;> exact ⟨_, rfl⟩
        | ok v =>
          simp only [ha] at h2
          cases hp : parseInt v with
          | none => simp [hp] at h2
          | some i => simp only [hp, ok_bind, pure, Except.pure]; cases pyIndex entries i <;> exact ⟨_, rfl⟩

/-! ## `open`, `close`, the walk -/

theorem withTrue_T {X : M DC} (h : ∃ s', X = .ok s' ∧ TInv s') : ∃ s' r, withTrue X = .ok (s', r) ∧ TInv s' := by
  obtain ⟨s', hs', t⟩ := h
  exact ⟨s', true, by unfold withTrue; simp only [hs', ok_bind]; rfl, t⟩

theorem withFalse_T {X : M DC} (h : ∃ s', X = .ok s' ∧ TInv s') : ∃ s' r, withFalse X = .ok (s', r) ∧ TInv s' := by
  obtain ⟨s', hs', t⟩ := h
  exact ⟨s', false, by unfold withFalse; simp only [hs', ok_bind]; rfl, t⟩

theorem hasId_ok (x : Xml) (h : hasId x = true) : ∃ id, x.attrReq (lit "w") (lit "id") = .ok id := by
  unfold hasId at h
  cases hid : x.attrReq (lit "w") (lit "id") with
  | error e => simp [hid, Except.isOk] at h
  | ok id => exact ⟨id, rfl⟩

theorem foldIds_T (f : DC → Str → M DC) (hf : ∀ s, TInv s → ∀ id, ∃ s', f s id = .ok s' ∧ TInv s') :
    ∀ (ms : List Xml), ms.all hasId = true → ∀ (s : DC), TInv s → ∃ s', foldIds f s ms = .ok s' ∧ TInv s'
  | [], _, s, h => ⟨s, rfl, h⟩
  | m :: ms, hm, s, h => by
    simp only [List.all_cons, Bool.and_eq_true] at hm
    obtain ⟨id, hid⟩ := hasId_ok m hm.1
    obtain ⟨s1, h1, t1⟩ := hf s h id
    obtain ⟨s', h', t'⟩ := foldIds_T f hf ms hm.2 s1 t1
    exact ⟨s', by simp only [foldIds, hid, ok_bind, h1, h'], t'⟩

theorem openStep_T (cfg : PartCfg) (s : DC) (h : TInv s) (x : Xml) (c : Bool) (roots : List (List Nest))
    (hv : validT x = true) (he : x.isElem = true)
    (hroots : ∀ r ∈ roots, ∀ p ∈ leafParsL r, p.sty okStyles) :
    ∃ s' r, openStep cfg s x c roots = .ok (s', r) ∧ TInv s' := by
  have hE := (validT_elem x hv he).1
  have hK := (validT_elem x hv he).2
  have hw := validT_wBound x hv he
  unfold validElem at hE
  simp only [Bool.and_eq_true] at hE
  have hE2 := hE.2
  unfold openStep
  split
  · rename_i heq; simp only [heq] at hE2
    exact withTrue_T (openParagraph_T cfg s h x c hv hE2)
  · exact withTrue_T (commenceRun_T cfg.html s h (some x) (by intro y hy; cases hy; exact runFormatting_total cfg.html x hv))
  · rename_i heq; simp only [heq] at hE2
    obtain ⟨id, hid⟩ := hasId_ok x hE2
    exact withFalse_T (by simp only [hid, ok_bind]; exact endRange_T s h id)
  · rename_i heq; simp only [heq] at hE2
    obtain ⟨id, hid⟩ := hasId_ok x hE2
    exact withFalse_T (by simp only [hid, ok_bind]; exact startRange_T s h id)
  · exact withTrue_T (addText_T cfg.html s h _)
  · exact withTrue_T (addText_T cfg.html s h _)
  · exact withFalse_T (insertNewRun_T cfg.html s h _)
  · exact withTrue_T (addCode_T cfg.html s h _)
  · obtain ⟨cd, hcd⟩ := symCode_ok x hw
    apply withTrue_T
    simp only [hcd, ok_bind]
    cases cd with
    | none => exact ⟨s, rfl, h⟩
    | some cd => exact addCode_T cfg.html s h cd
  · rename_i heq; simp only [heq] at hE2
    exact withTrue_T (noteLabel_T s h x _ hw hE2)
  · rename_i heq; simp only [heq] at hE2
    exact withTrue_T (noteLabel_T s h x _ hw hE2)
  · rename_i heq; simp only [heq] at hE2
    obtain ⟨t, ht⟩ := rootsText_ok roots hroots
    obtain ⟨rn, hrn⟩ := C13_link_never_raises cfg x t
    obtain ⟨qs, hqs⟩ := wq_ok x hw "commentRangeStart"
    obtain ⟨qe, hqe⟩ := wq_ok x hw "commentRangeEnd"
    unfold linkMarkersOK at hE2
    simp only [hqs, hqe, Bool.and_eq_true] at hE2
    apply withFalse_T
    unfold openHyperlink
    simp only [ht, hqs, ok_bind]
    obtain ⟨s1, h1, t1⟩ := foldIds_T DC.startRange (fun a ha id => startRange_T a ha id) _ hE2.1 s h
    simp only [h1, ok_bind, hrn]
    obtain ⟨s2, h2, t2⟩ := insertNewRun_T cfg.html s1 t1 rn
    simp only [h2, ok_bind, hqe]
    exact foldIds_T DC.endRange (fun a ha id => endRange_T a ha id) _ hE2.2 s2 t2
  · have hk : ∀ k ∈ x.kids, k.isElem = true → wBound k := fun k hk hke => validT_wBound k (validL_mem x.kids hK k hk) hke
    obtain ⟨t, ht⟩ := C13_checkbox_never_raises x hw hk
    apply withTrue_T
    simp only [ht, ok_bind]
    exact insertNewRun_T cfg.html s h t
  · rename_i heq; simp only [heq] at hE2
    obtain ⟨t, ht⟩ := ddListEntry_ok x hw hE2
    apply withTrue_T
    simp only [ht, ok_bind]
    exact insertNewRun_T cfg.html s h t
  · rename_i heq; simp only [heq] at hE2
    obtain ⟨id, hid⟩ := hasId_ok x hE2
    apply withTrue_T
    simp only [hid, ok_bind]
    exact insertNewRun_T cfg.html s h _
  · rename_i heq; simp only [heq] at hE2
    obtain ⟨id, hid⟩ := hasId_ok x hE2
    apply withTrue_T
    simp only [hid, ok_bind]
    exact insertNewRun_T cfg.html s h _
  · obtain ⟨t, ht⟩ := C13_image_never_raises cfg x "embed"
    apply withTrue_T
    simp only [ht, ok_bind]
    exact insertOpt_T cfg.html s h t
  · obtain ⟨t, ht⟩ := C13_image_never_raises cfg x "id"
    apply withTrue_T
    simp only [ht, ok_bind]
    exact insertOpt_T cfg.html s h t
  · exact withTrue_T (insertOpt_T cfg.html s h _)
  · exact withTrue_T (insertNewRun_T cfg.html s h _)
  · exact ⟨s, true, rfl, h⟩

theorem closeStepCore_T (cfg : PartCfg) (s : DC) (h : TInv s) (x : Xml) (hv : validT x = true) (he : x.isElem = true) :
    ∃ s', closeStepCore cfg s x = .ok s' ∧ TInv s' := by
  unfold closeStepCore
  split
  · exact concludePar_T s h
  · exact commenceRun_T cfg.html s h none (by intro y hy; cases hy)
  · rename_i heq
    have hE := (validT_elem x hv he).1
    unfold validElem at hE
    simp only [Bool.and_eq_true, heq] at hE
    obtain ⟨pr, hpr⟩ := gatherPr_ok x hv
    have hsp : ∃ n, spanExtra pr = .ok n := by
      have := hE.2; unfold spanOK at this; rw [hpr] at this
      cases hs : spanExtra pr with
      | ok n => exact ⟨n, rfl⟩
      | error e => simp [hs, Except.isOk] at this
    exact closeTableCell_T cfg.dup s h x ⟨pr, hpr, hsp⟩
  · exact ⟨s, rfl, h⟩

theorem closeStep_T (cfg : PartCfg) (s : DC) (h : TInv s) (x : Xml) (hv : validT x = true) (he : x.isElem = true) :
    ∃ s', closeStep cfg s x = .ok s' ∧ TInv s' := by
  obtain ⟨s0, h0, t0⟩ := flushImplicit_total (P := TInv) concludePar_T s (elemDepth x) h
  obtain ⟨s', h1, t1⟩ := closeStepCore_T cfg s0 t0 x hv he
  exact ⟨s', by unfold closeStep; simp only [h0, ok_bind]; exact h1, t1⟩

theorem setCaretOpen_T (s : DC) (h : TInv s) (d : Option Nat) (hd : ∀ k, d = some k → 1 ≤ k ∧ k ≤ 4) (n : Option Str) :
    ∃ s', s.setCaretOpen d n = .ok s' ∧ TInv s' := by
  obtain ⟨s0, h0, t0⟩ := flushImplicit_total (P := TInv) concludePar_T s d h
  obtain ⟨s', h1, t1, _⟩ := setCaret_T s0 t0 d hd n
  exact ⟨s', by unfold DC.setCaretOpen; simp only [h0, ok_bind]; exact h1, t1⟩

theorem finish_T (cfg : PartCfg) (s : DC) (h : TInv s) : ∃ s', finish cfg s = .ok s' ∧ TInv s' := by
  unfold finish
  by_cases hq : s.queued.isEmpty = true
  · simp only [hq, if_true, pure, Except.pure, ok_bind]
    exact concludePar_T s h
  · simp only [hq, if_false]
    obtain ⟨s1, h1, t1, _⟩ := commencePar_T cfg.html s h none false (by intro y hy; cases hy)
    simp only [h1, ok_bind]
    exact concludePar_T s1 t1

mutual
theorem walk_T (cfg : PartCfg) (num : Dict Str (List NumAttr)) :
    (x : Xml) → validT x = true → ∀ (c : Bool) (s : DC), TInv s → ∃ s', walk cfg num c s x = .ok s' ∧ TInv s'
  | .elem i p t m a tx tl ks, hv, c, s, h => by
    have hk : validL ks = true := (validT_elem (.elem i p t m a tx tl ks) hv rfl).2
    simp only [walk]
    obtain ⟨s1, h1, t1⟩ := setCaretOpen_T s h (elemDepth (.elem i p t m a tx tl ks)) (elemDepth_range _) (some t.name)
    simp only [h1, ok_bind]
    have hroots : ∃ roots, (if (Xml.elem i p t m a tx tl ks).ptag == hyperlinkTag
        then textBelowL cfg num (c || isCellTag (.elem i p t m a tx tl ks)) ks else pure []) = .ok roots ∧
        ∀ r ∈ roots, ∀ q ∈ leafParsL r, q.sty okStyles := by
      split
      · exact textBelowL_T cfg num ks hk _
      · exact ⟨[], rfl, by simp⟩
    obtain ⟨roots, hr, hrs⟩ := hroots
    simp only [hr, ok_bind]
    obtain ⟨s2, r, h2, t2⟩ := openStep_T cfg s1 t1 (.elem i p t m a tx tl ks) c roots hv rfl hrs
    simp only [h2, ok_bind]
    have h3 : ∃ s3, (if r = true then walkL cfg num (c || isCellTag (.elem i p t m a tx tl ks)) s2 ks else pure s2) = .ok s3 ∧ TInv s3 := by
      split
      · exact walkL_T cfg num ks hk _ s2 t2
      · exact ⟨s2, rfl, t2⟩
    obtain ⟨s3, h3, t3⟩ := h3
    simp only [h3, ok_bind]
    obtain ⟨s4, h4, t4⟩ := closeStep_T cfg s3 t3 (.elem i p t m a tx tl ks) hv rfl
    simp only [h4, ok_bind]
    obtain ⟨s5, h5, t5, _⟩ := setCaret_T s4 t4 (elemDepth (.elem i p t m a tx tl ks)) (elemDepth_range _) none
    exact ⟨s5, h5, t5⟩
  | .comment _ _, _, _, s, h => ⟨s, rfl, h⟩
  | .pi _, _, _, s, h => ⟨s, rfl, h⟩
theorem walkL_T (cfg : PartCfg) (num : Dict Str (List NumAttr)) :
    (ks : List Xml) → validL ks = true → ∀ (c : Bool) (s : DC), TInv s → ∃ s', walkL cfg num c s ks = .ok s' ∧ TInv s'
  | [], _, _, s, h => ⟨s, rfl, h⟩
  | k :: ks, hv, c, s, h => by
    simp only [validL, Bool.and_eq_true] at hv
    obtain ⟨s1, h1, t1⟩ := walk_T cfg num k hv.1 c s h
    obtain ⟨s', hs', t'⟩ := walkL_T cfg num ks hv.2 c s1 t1
    exact ⟨s', by simp only [walkL, h1, ok_bind]; exact hs', t'⟩
theorem textBelowL_T (cfg : PartCfg) (num : Dict Str (List NumAttr)) :
    (ks : List Xml) → validL ks = true → ∀ (c : Bool),
      ∃ roots, textBelowL cfg num c ks = .ok roots ∧ ∀ r ∈ roots, ∀ q ∈ leafParsL r, q.sty okStyles
  | [], _, _ => ⟨[], rfl, by simp⟩
  | k :: ks, hv, c => by
    simp only [validL, Bool.and_eq_true] at hv
    obtain ⟨dc, h1, t1⟩ := walk_T cfg num k hv.1 c _ (init_T { numAttrs := num })
    obtain ⟨dc1, h2, t2⟩ := finish_T cfg dc t1
    obtain ⟨rest, h3, hr⟩ := textBelowL_T cfg num ks hv.2 c
    refine ⟨dc1.root :: rest, by simp only [textBelowL, h1, h2, h3, ok_bind]; rfl, ?_⟩
    intro r hr' q hq
    rcases List.mem_cons.1 hr' with rfl | hr'
    · exact t2.sty.tree q hq
    · exact hr r hr' q hq
end

/-- **C13: extraction of a valid content part never raises.** For every tree whose elements satisfy
the local schema facts of `validElem`, every option setting, relationships table and numbering
table, `new_depth_collector` returns a collector (which again satisfies the invariant). -/
theorem C13_part_total (cfg : PartCfg) (num : Dict Str (List NumAttr)) (root : Xml) (c : Bool) (hv : validT root = true) :
    ∃ dc, newDepthCollector cfg num root c = .ok dc ∧ TInv dc := by
  unfold newDepthCollector
  obtain ⟨s1, h1, t1⟩ := walk_T cfg num root hv c _ (init_T { numAttrs := num })
  obtain ⟨dc, h2, t2⟩ := finish_T cfg s1 t1
  exact ⟨dc, by simp only [h1, ok_bind]; exact h2, t2⟩

/-- … and every string view of it can be computed: `run_strings` of every paragraph returns. -/
theorem C13_run_strings_total (cfg : PartCfg) (num : Dict Str (List NumAttr)) (root : Xml) (c : Bool) (hv : validT root = true) :
    ∃ dc, newDepthCollector cfg num root c = .ok dc ∧ ∀ p ∈ leafParsL dc.root, ∃ ss, p.runStrings = .ok ss := by
  obtain ⟨dc, h, t⟩ := C13_part_total cfg num root c hv
  exact ⟨dc, h, fun p hp => parRunStrings_ok p (t.sty.tree p hp)⟩

end D2P
