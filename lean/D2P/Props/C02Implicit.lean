import D2P.Proofs.Paragraph
import D2P.Proofs.Elems
/-!
# C02 / C12 — inline content outside every paragraph stays in document order

Inline content that stands outside every `w:p` (a display equation directly in the body, a stray
run in a cell) is collected into an IMPLICIT paragraph, opened by `ensurePar` when nothing is open
(`ensurePar_opens_implicit`). The repair `conclude_implicit_paragraph` ends it where the next block
begins or the enclosing block ends:

* `walk_after_implicit` — walking ANY element that has a depth (a paragraph, a table, a row, a cell,
  the body, a block content control holding one) from a state whose only open paragraph is implicit
  is: conclude that paragraph, then walk the element;
* `C02_implicit_in_order` — hence the implicit paragraph's record is appended to the document order
  BEFORE anything the element produces (before the repair it was appended when the part ended, after
  every following paragraph: `known_findings.json`, C12-fixed entry; `Ex.C12_repaired_stray_inline`).
-/
namespace D2P

/-- `_open_par`: with nothing open, inline content opens a paragraph that belongs to no element -/
theorem ensurePar_opens_implicit (html : Bool) (s s' : DC) (h0 : s.openPars = []) (h : s.ensurePar html = .ok s') :
    ∃ p, s'.openPars = [p] ∧ p.elem = none := by
  unfold DC.ensurePar at h
  simp only [h0, List.isEmpty_nil, if_true] at h
  unfold DC.commencePar at h
  obtain ⟨s1, h1, h⟩ := bind_ok h
  obtain ⟨hs, _, h⟩ := bind_ok h
  obtain ⟨st, _, h⟩ := bind_ok h
  have f1 := setCaret_frame s s1 _ _ h1
  have e := pure_ok h
  rw [← e]
  refine ⟨{ elem := none, htmlStyle := hs, style := st, lineage := s1.lineage, runs := s1.queued }, ?_, rfl⟩
  simp [f1.openPars, h0]

theorem walk_after_implicit (cfg : PartCfg) (num : Dict Str (List NumAttr)) (c : Bool) (s : DC) (p : Par)
    (h1 : s.openPars = [p]) (hp : p.elem = none)
    (i : Nat) (pf : Option Str) (t : QName) (m : NsMap) (a : List (QName × Str)) (tx tl : Option Str) (ks : List Xml)
    (d : Nat) (hd : elemDepth (.elem i pf t m a tx tl ks) = some d) :
    walk cfg num c s (.elem i pf t m a tx tl ks) =
      (s.concludePar >>= fun s0 => walk cfg num c s0 (.elem i pf t m a tx tl ks)) := by
  simp only [walk, hd]
  have hf : s.flushImplicit (some d) = s.concludePar := by
    unfold DC.flushImplicit
    simp only [h1, List.getLast?_singleton, hp, Option.isNone_none, if_true]
  cases hc : s.concludePar with
  | error e =>
    simp only [DC.setCaretOpen, hf, hc]; rfl
  | ok s0 =>
    obtain ⟨_, ho, _⟩ := concludePar_spec s s0 p (by rw [h1]; rfl) hc
    have h0 : s0.openPars = [] := by rw [ho, h1]; rfl
    simp only [DC.setCaretOpen, hf, hc, ok_bind, flushImplicit_noImpl s0 _ (noImpl_of_closed h0)]

/-- **the implicit paragraph comes out where it stands**: its record is in the tree before the next
block element is walked at all -/
theorem C02_implicit_in_order (cfg : PartCfg) (num : Dict Str (List NumAttr)) (c : Bool) (s s' : DC) (p : Par)
    (h1 : s.openPars = [p]) (hp : p.elem = none)
    (i : Nat) (pf : Option Str) (t : QName) (m : NsMap) (a : List (QName × Str)) (tx tl : Option Str) (ks : List Xml)
    (d : Nat) (hd : elemDepth (.elem i pf t m a tx tl ks) = some d)
    (h : walk cfg num c s (.elem i pf t m a tx tl ks) = .ok s') :
    ∃ s0, s.concludePar = .ok s0 ∧ leafParsL s0.root = leafParsL s.root ++ [p] ∧ s0.openPars = [] ∧
      walk cfg num c s0 (.elem i pf t m a tx tl ks) = .ok s' := by
  rw [walk_after_implicit cfg num c s p h1 hp i pf t m a tx tl ks d hd] at h
  obtain ⟨s0, hc, h⟩ := bind_ok h
  obtain ⟨hl, ho, _⟩ := concludePar_spec s s0 p (by rw [h1]; rfl) hc
  exact ⟨s0, hc, hl, by rw [ho, h1]; rfl, h⟩

/-- the same for the element's END: when a block that has a depth closes (the cell or body holding
the stray content), a pending implicit paragraph is concluded before the close handler runs — a
stray run in a table cell stays in its cell -/
theorem C02_implicit_closed_with_block (cfg : PartCfg) (s s' : DC) (p : Par) (x : Xml) (d : Nat)
    (h1 : s.openPars = [p]) (hp : p.elem = none) (hd : elemDepth x = some d) (h : closeStep cfg s x = .ok s') :
    ∃ s0, s.concludePar = .ok s0 ∧ leafParsL s0.root = leafParsL s.root ++ [p] ∧ s0.openPars = [] ∧
      closeStepCore cfg s0 x = .ok s' := by
  obtain ⟨s0, h0, h⟩ := closeStep_split cfg s s' x h
  have hf : s.flushImplicit (elemDepth x) = s.concludePar := by
    rw [hd]; unfold DC.flushImplicit
    simp only [h1, List.getLast?_singleton, hp, Option.isNone_none, if_true]
  rw [hf] at h0
  obtain ⟨hl, ho, _⟩ := concludePar_spec s s0 p (by rw [h1]; rfl) h0
  exact ⟨s0, h0, hl, by rw [ho, h1]; rfl, h⟩

/-- **the same for every state the walk reaches.** `Sole` (an implicit paragraph is never open
together with another one) holds initially (`sole_init`) and is kept by walking anything
(`walk_sole`, `walkL_sole`); under it a pending implicit paragraph is the only open one, so the
hypothesis of `C02_implicit_in_order` is met: whenever an element that has a depth is walked while
an implicit paragraph is pending, that paragraph's record is placed first. -/
theorem C02_implicit_in_order_reachable (cfg : PartCfg) (num : Dict Str (List NumAttr)) (c : Bool) (s s' : DC) (p : Par)
    (hs : Sole (elems s)) (ht : s.openPars.getLast? = some p) (hp : p.elem = none)
    (i : Nat) (pf : Option Str) (t : QName) (m : NsMap) (a : List (QName × Str)) (tx tl : Option Str) (ks : List Xml)
    (d : Nat) (hd : elemDepth (.elem i pf t m a tx tl ks) = some d)
    (h : walk cfg num c s (.elem i pf t m a tx tl ks) = .ok s') :
    ∃ s0, s.concludePar = .ok s0 ∧ leafParsL s0.root = leafParsL s.root ++ [p] ∧ s0.openPars = [] ∧
      walk cfg num c s0 (.elem i pf t m a tx tl ks) = .ok s' ∧ Sole (elems s') :=
  let ⟨s0, h0, hl, ho, hw⟩ := C02_implicit_in_order cfg num c s s' p (sole_implicit_top s p hs ht hp) hp i pf t m a tx tl ks d hd h
  ⟨s0, h0, hl, ho, hw, walk_sole cfg num _ c s s' hs h⟩

/-- … and the whole part: the state in which `new_depth_collector` starts satisfies `Sole`, so every
state between two children of the body does -/
theorem C02_sole_between_blocks (cfg : PartCfg) (num : Dict Str (List NumAttr)) (c : Bool) (pre : List Xml) (s : DC)
    (h : walkL cfg num c ({ bullets := { numAttrs := num } } : DC) pre = .ok s) : Sole (elems s) :=
  walkL_sole cfg num pre c _ s (sole_init num) h


end D2P
