import D2P.Props.C02BodyStray
import D2P.Props.C10
/-!
# C02 / C10 — a notes part: every note's records in document order, its label first

A note (`w:footnote` / `w:endnote`, not a separator) whose children form an admissible sequence
(`itemsOK`): walking it from a state in which nothing but possibly one implicit paragraph is open
(the inline content a previous note ended with) concludes that paragraph, queues the label, and appends
the records of the note's items in document order (`C02_note`).  A list of such notes: the records of
all notes, note by note (`C02_notes`).
-/
namespace D2P

def ClosedOrPending (s : DC) : Prop := s.openPars = [] ∨ ∃ p, s.openPars = [p] ∧ p.elem = none

def noteKind (pt : Str) : Option String :=
  match tagMember pt with
  | some "FOOTNOTE" => some "footnote"
  | some "ENDNOTE" => some "endnote"
  | _ => none

/-- the flush of an element that HAS a depth (and of a note label) leaves nothing open -/
theorem flushImplicit_closes (s s' : DC) (d : Nat) (ho : ClosedOrPending s) (h : s.flushImplicit (some d) = .ok s') :
    leavesP s' = leavesP s ∧ s'.openPars = [] := by
  rcases ho with h0 | ⟨p, h1, hp⟩
  · have hni : NoImpl s := noImpl_of_closed h0
    rw [flushImplicit_noImpl s _ hni] at h
    cases h; exact ⟨rfl, h0⟩
  · have hf : s.flushImplicit (some d) = s.concludePar := by
      unfold DC.flushImplicit
      simp only [h1, List.getLast?_singleton, hp, Option.isNone_none, if_true]
    rw [hf] at h
    obtain ⟨hl, hop, _⟩ := concludePar_spec s s' p (by rw [h1]; rfl) h
    have h0' : s'.openPars = [] := by rw [hop, h1]; rfl
    exact ⟨by simp [leavesP, hl, h0', h1], h0'⟩

theorem walk_note (cfg : PartCfg) (num : Dict Str (List NumAttr)) (c : Bool) (s s' : DC) (kind : String)
    (i : Nat) (pf : Option Str) (t : QName) (m : NsMap) (a : List (QName × Str)) (tx tl : Option Str) (ks : List Xml)
    (hk : noteKind (Xml.elem i pf t m a tx tl ks).ptag = some kind)
    (h : walk cfg num c s (.elem i pf t m a tx tl ks) = .ok s') :
    ∃ s1 s2 s3 s4, s.setCaretOpen (elemDepth (.elem i pf t m a tx tl ks)) (some t.name) = .ok s1 ∧
      noteLabel s1 (.elem i pf t m a tx tl ks) kind = .ok s2 ∧
      walkL cfg num (c || isCellTag (.elem i pf t m a tx tl ks)) s2 ks = .ok s3 ∧
      s3.flushImplicit (elemDepth (.elem i pf t m a tx tl ks)) = .ok s4 ∧
      s4.setCaret (elemDepth (.elem i pf t m a tx tl ks)) none = .ok s' := by
  have hmem : (tagMember (Xml.elem i pf t m a tx tl ks).ptag = some "FOOTNOTE" ∧ kind = "footnote") ∨
      (tagMember (Xml.elem i pf t m a tx tl ks).ptag = some "ENDNOTE" ∧ kind = "endnote") := by
    unfold noteKind at hk
    split at hk
    · rename_i hm; exact Or.inl ⟨hm, by simpa using hk.symm⟩
    · rename_i hm; exact Or.inr ⟨hm, by simpa using hk.symm⟩
    · cases hk
  have hl : ((Xml.elem i pf t m a tx tl ks).ptag == hyperlinkTag) = false := by
    cases hb : ((Xml.elem i pf t m a tx tl ks).ptag == hyperlinkTag) with
    | false => rfl
    | true =>
      have e : (Xml.elem i pf t m a tx tl ks).ptag = hyperlinkTag := by simpa using hb
      rw [e, tagMember_hyperlink] at hmem; rcases hmem with ⟨hm, _⟩ | ⟨hm, _⟩ <;> simp at hm
  simp only [walk, hl, Bool.false_eq_true, if_false] at h
  obtain ⟨s1, h1, h⟩ := bind_ok h
  obtain ⟨roots, hr, h⟩ := bind_ok h
  have := pure_ok hr; subst this
  obtain ⟨⟨s2, rec⟩, h2, h⟩ := bind_ok h
  have hop : openStep cfg s1 (.elem i pf t m a tx tl ks) c [] = withTrue (noteLabel s1 (.elem i pf t m a tx tl ks) kind) := by
    unfold openStep
    rcases hmem with ⟨hm, rfl⟩ | ⟨hm, rfl⟩ <;> (rw [hm]; rfl)
  rw [hop] at h2
  obtain ⟨hn, hrec⟩ := withTrue_ok h2
  subst hrec
  simp only [if_true] at h
  obtain ⟨s3, h3, h⟩ := bind_ok h
  obtain ⟨s4, h4, h⟩ := bind_ok h
  obtain ⟨s0, h0, hc⟩ := closeStep_split cfg s3 s4 _ h4
  have hcore : closeStepCore cfg s0 (.elem i pf t m a tx tl ks) = .ok s0 := by
    unfold closeStepCore
    rcases hmem with ⟨hm, _⟩ | ⟨hm, _⟩ <;> (rw [hm]; rfl)
  rw [hcore] at hc; cases hc
  exact ⟨s1, s2, s3, _, h1, hn, h3, h0, h⟩

/-- **one note** -/
theorem C02_note (cfg : PartCfg) (num : Dict Str (List NumAttr)) (c : Bool) (s s' : DC) (kind : String) (id : Str)
    (i : Nat) (pf : Option Str) (t : QName) (m : NsMap) (a : List (QName × Str)) (tx tl : Option Str) (ks : List Xml)
    (hk : noteKind (Xml.elem i pf t m a tx tl ks).ptag = some kind)
    (hsep : isSeparatorNote (.elem i pf t m a tx tl ks) = .ok false)
    (hid : (Xml.elem i pf t m a tx tl ks).attrReq (lit "w") (lit "id") = .ok id)
    (hok : itemsOK ks = true) (hs : Inv s) (ho : ClosedOrPending s)
    (h : walk cfg num c s (.elem i pf t m a tx tl ks) = .ok s') :
    ∃ outs, ItemsMatch cfg (itemsOf ks) outs ∧ leavesP s' = leavesP s ++ outs.flatMap (ioLeaves cfg.dup) ∧
      Inv s' ∧ ClosedOrPending s' ∧ ((elemDepth (.elem i pf t m a tx tl ks)).isSome = true → s'.openPars = []) := by
  obtain ⟨s1, s2, s3, s4, h1, h2, h3, h4, h5⟩ := walk_note cfg num c s s' kind i pf t m a tx tl ks hk h
  -- the caret step: a pending paragraph is concluded if the note has a depth; leavesP is unchanged either way
  unfold DC.setCaretOpen at h1
  obtain ⟨sa, ha, h1⟩ := bind_ok h1
  obtain ⟨hla, hoa, _⟩ := flushImplicit_leavesP s sa _ ho ha
  have ia : Inv sa := flushImplicit_preserves concludePar_inv s sa _ hs ha
  have f1 := setCaret_frame sa s1 _ _ h1
  have i1 := setCaret_inv sa s1 _ _ ia h1
  have hl1 : leavesP s1 = leavesP s := by simp only [leavesP, f1.leaves, f1.openPars]; exact hla
  have ho1 : ClosedOrPending s1 := by unfold ClosedOrPending; rw [f1.openPars]; exact hoa
  -- the label: the pending paragraph is concluded, nothing is open afterwards
  unfold noteLabel at h2
  simp only [hsep, ok_bind, Bool.false_eq_true, if_false, hid] at h2
  obtain ⟨sb, hb, h2⟩ := bind_ok h2
  have := pure_ok h2; subst this
  obtain ⟨hlb, hob⟩ := flushImplicit_closes s1 sb 4 ho1 hb
  have ib : Inv sb := flushImplicit_preserves concludePar_inv s1 sb _ i1 hb
  have i2 : Inv (sb.queueRun (lit kind ++ id ++ lit ")\t")) := inv_of_same sb _ ib rfl rfl
  have h3' : walkL cfg num (c || isCellTag (.elem i pf t m a tx tl ks)) (sb.queueRun (lit kind ++ id ++ lit ")\t")) ((itemsOf ks).flatMap Item.src) = .ok s3 := by
    rw [itemsOf_src]; exact h3
  obtain ⟨outs, hmatch, hl3, i3, hfin3⟩ := C02_items cfg num _ (itemsOf ks) false _ s3 hok i2 (fun _ => hob) (by intro e; cases e) h3'
  obtain ⟨hl4, hfin4, _⟩ := flushImplicit_leavesP s3 s4 _ hfin3 h4
  have i4 : Inv s4 := flushImplicit_preserves concludePar_inv s3 s4 _ i3 h4
  have f5 := setCaret_frame s4 s' _ _ h5
  refine ⟨outs, hmatch, ?_, setCaret_inv s4 s' _ _ i4 h5, by unfold ClosedOrPending; rw [f5.openPars]; exact hfin4, ?_⟩
  · have hl5 : leavesP s' = leavesP s4 := by simp [leavesP, f5.leaves, f5.openPars]
    rw [hl5, hl4, hl3]
    have : leavesP (sb.queueRun (lit kind ++ id ++ lit ")\t")) = leavesP sb := rfl
    rw [this, hlb, hl1]
  · intro hd
    cases hde : elemDepth (Xml.elem i pf t m a tx tl ks) with
    | none => rw [hde] at hd; cases hd
    | some d =>
      rw [hde] at h4
      rw [f5.openPars]; exact (flushImplicit_closes s3 s4 d hfin3 h4).2

/-- a separator note (no label), walked while nothing is open -/
theorem C02_separator_note (cfg : PartCfg) (num : Dict Str (List NumAttr)) (c : Bool) (s s' : DC) (kind : String)
    (i : Nat) (pf : Option Str) (t : QName) (m : NsMap) (a : List (QName × Str)) (tx tl : Option Str) (ks : List Xml)
    (hk : noteKind (Xml.elem i pf t m a tx tl ks).ptag = some kind)
    (hsep : isSeparatorNote (.elem i pf t m a tx tl ks) = .ok true)
    (hok : itemsOK ks = true) (hs : Inv s) (h0 : s.openPars = [])
    (h : walk cfg num c s (.elem i pf t m a tx tl ks) = .ok s') :
    ∃ outs, ItemsMatch cfg (itemsOf ks) outs ∧ leavesP s' = leavesP s ++ outs.flatMap (ioLeaves cfg.dup) ∧
      Inv s' ∧ ClosedOrPending s' ∧ ((elemDepth (.elem i pf t m a tx tl ks)).isSome = true → s'.openPars = []) := by
  obtain ⟨s1, s2, s3, s4, h1, h2, h3, h4, h5⟩ := walk_note cfg num c s s' kind i pf t m a tx tl ks hk h
  rw [setCaretOpen_noImpl s _ _ (noImpl_of_closed h0)] at h1
  have f1 := setCaret_frame s s1 _ _ h1
  have i1 := setCaret_inv s s1 _ _ hs h1
  have ho1 : s1.openPars = [] := by rw [f1.openPars]; exact h0
  have hl1 : leavesP s1 = leavesP s := by simp only [leavesP, f1.leaves, f1.openPars]
  unfold noteLabel at h2
  simp only [hsep, ok_bind, if_true] at h2
  have := pure_ok h2; subst this
  have h3' : walkL cfg num (c || isCellTag (.elem i pf t m a tx tl ks)) s1 ((itemsOf ks).flatMap Item.src) = .ok s3 := by
    rw [itemsOf_src]; exact h3
  obtain ⟨outs, hmatch, hl3, i3, hfin3⟩ := C02_items cfg num _ (itemsOf ks) false _ s3 hok i1 (fun _ => ho1) (by intro e; cases e) h3'
  obtain ⟨hl4, hfin4, _⟩ := flushImplicit_leavesP s3 s4 _ hfin3 h4
  have i4 : Inv s4 := flushImplicit_preserves concludePar_inv s3 s4 _ i3 h4
  have f5 := setCaret_frame s4 s' _ _ h5
  refine ⟨outs, hmatch, ?_, setCaret_inv s4 s' _ _ i4 h5, by unfold ClosedOrPending; rw [f5.openPars]; exact hfin4, ?_⟩
  · have hl5 : leavesP s' = leavesP s4 := by simp [leavesP, f5.leaves, f5.openPars]
    rw [hl5, hl4, hl3, hl1]
  · intro hd
    cases hde : elemDepth (Xml.elem i pf t m a tx tl ks) with
    | none => rw [hde] at hd; cases hd
    | some d =>
      rw [hde] at h4
      rw [f5.openPars]; exact (flushImplicit_closes s3 s4 d hfin3 h4).2

/-- decidable: a list of notes the theorems speak about. `closed`: nothing can be pending before the note
(true at the start and after a note that has a depth); a separator note is admitted only then -/
def okNotes : Bool → List Xml → Bool
  | _, [] => true
  | closed, .elem i pf t m a tx tl ks :: rest =>
    (noteKind (Xml.elem i pf t m a tx tl ks).ptag).isSome && itemsOK ks &&
    (match isSeparatorNote (.elem i pf t m a tx tl ks) with
      | .ok true => closed
      | .ok false => (match (Xml.elem i pf t m a tx tl ks).attrReq (lit "w") (lit "id") with | .ok _ => true | .error _ => false)
      | .error _ => false) &&
    okNotes (elemDepth (.elem i pf t m a tx tl ks)).isSome rest
  | _, _ :: _ => false

/-- the items of all notes, note by note -/
def notesItems : List Xml → List Item
  | [] => []
  | x :: rest => itemsOf x.kids ++ notesItems rest

theorem ItemsMatch.append {cfg : PartCfg} {a b : List Item} {oa ob : List IOut} (ha : ItemsMatch cfg a oa) (hb : ItemsMatch cfg b ob) :
    ItemsMatch cfg (a ++ b) (oa ++ ob) := by
  induction ha with
  | nil => exact hb
  | some h _ ih => exact ItemsMatch.some h ih
  | none h _ ih => exact ItemsMatch.none h ih

/-- **a list of notes**: the records of every note's items, note by note, in document order -/
theorem C02_notes (cfg : PartCfg) (num : Dict Str (List NumAttr)) (c : Bool) :
    ∀ (xs : List Xml) (closed : Bool) (s s' : DC), okNotes closed xs = true → Inv s → ClosedOrPending s →
      (closed = true → s.openPars = []) → walkL cfg num c s xs = .ok s' →
      ∃ outs, ItemsMatch cfg (notesItems xs) outs ∧ leavesP s' = leavesP s ++ outs.flatMap (ioLeaves cfg.dup) ∧
        Inv s' ∧ ClosedOrPending s'
  | [], _, s, s', _, hs, ho, _, h => by
    simp only [walkL] at h; have := pure_ok h; subst this
    exact ⟨[], ItemsMatch.nil, by simp, hs, ho⟩
  | .elem i pf t m a tx tl ks :: rest, closed, s, s', hok, hs, ho, hc, h => by
    simp only [okNotes, Bool.and_eq_true] at hok
    obtain ⟨⟨⟨hk, hit⟩, hsepid⟩, hrest⟩ := hok
    obtain ⟨kind, hkind⟩ := Option.isSome_iff_exists.1 hk
    simp only [walkL] at h
    obtain ⟨s1, h1, h⟩ := bind_ok h
    have step : ∃ o1, ItemsMatch cfg (itemsOf ks) o1 ∧ leavesP s1 = leavesP s ++ o1.flatMap (ioLeaves cfg.dup) ∧
        Inv s1 ∧ ClosedOrPending s1 ∧ ((elemDepth (.elem i pf t m a tx tl ks)).isSome = true → s1.openPars = []) := by
      cases hsep : isSeparatorNote (.elem i pf t m a tx tl ks) with
      | error e => rw [hsep] at hsepid; simp at hsepid
      | ok b =>
        cases b with
        | true =>
          rw [hsep] at hsepid
          exact C02_separator_note cfg num c s s1 kind i pf t m a tx tl ks hkind hsep hit hs (hc (by simpa using hsepid)) h1
        | false =>
          rw [hsep] at hsepid
          cases hid : (Xml.elem i pf t m a tx tl ks).attrReq (lit "w") (lit "id") with
          | error e => rw [hid] at hsepid; simp at hsepid
          | ok id => exact C02_note cfg num c s s1 kind id i pf t m a tx tl ks hkind hsep hid hit hs ho h1
    obtain ⟨o1, m1, l1, i1, cp1, cl1⟩ := step
    obtain ⟨o2, m2, l2, i2, cp2⟩ := C02_notes cfg num c rest _ s1 s' hrest i1 cp1 cl1 h
    refine ⟨o1 ++ o2, ?_, ?_, i2, cp2⟩
    · simp only [notesItems, Xml.kids]; exact ItemsMatch.append m1 m2
    · rw [l2, l1]; simp [List.flatMap_append, List.append_assoc]
  | .comment _ _ :: _, _, _, _, hok, _, _, _, _ => by simp [okNotes] at hok
  | .pi _ :: _, _, _, _, hok, _, _, _, _ => by simp [okNotes] at hok

/-- **a notes part** (`w:footnotes` / `w:endnotes` holding admissible notes): `new_depth_collector` returns a
tree whose leaf paragraphs are exactly the records of all notes' items, note by note, in document order.
(`hq`: the label of the last note has been taken up by the note's content when the walk ends.) -/
theorem C02_notes_part (cfg : PartCfg) (num : Dict Str (List NumAttr)) (c : Bool) (dc : DC)
    (i : Nat) (pf : Option Str) (t : QName) (m : NsMap) (a : List (QName × Str)) (tx tl : Option Str) (ks : List Xml)
    (hm : wrapperTag (Xml.elem i pf t m a tx tl ks).ptag) (hok : okNotes true ks = true)
    (hq : ∀ s5, walk cfg num c ({ bullets := { numAttrs := num } } : DC) (.elem i pf t m a tx tl ks) = .ok s5 → s5.queued = [])
    (h : newDepthCollector cfg num (.elem i pf t m a tx tl ks) c = .ok dc) :
    ∃ outs, ItemsMatch cfg (notesItems ks) outs ∧ leafParsL dc.root = outs.flatMap (ioLeaves cfg.dup) := by
  unfold newDepthCollector at h
  obtain ⟨s5, hw, hf⟩ := bind_ok h
  have hq5 := hq s5 hw
  obtain ⟨s1, s3, s4, h1, h3, h4, h5⟩ := walk_wrapper cfg num c _ s5 i pf t m a tx tl ks hm hw
  have i0 : Inv ({ bullets := { numAttrs := num } } : DC) := init_inv _
  rw [setCaretOpen_noImpl _ _ _ (noImpl_of_closed rfl)] at h1
  have f1 := setCaret_frame _ s1 _ _ h1
  have i1 := setCaret_inv _ s1 _ _ i0 h1
  have ho1 : s1.openPars = [] := by rw [f1.openPars]
  have hl1 : leafParsL s1.root = [] := by rw [f1.leaves]; rfl
  obtain ⟨outs, hmatch, hl3, _, hfin3⟩ := C02_notes cfg num _ ks true s1 s3 hok i1 (Or.inl ho1) (fun _ => ho1) h3
  obtain ⟨hl4, hfin4, _⟩ := flushImplicit_leavesP s3 s4 _ hfin3 h4
  have f5 := setCaret_frame s4 s5 _ _ h5
  have hfin5 : s5.openPars = [] ∨ ∃ p, s5.openPars = [p] ∧ p.elem = none := by rw [f5.openPars]; exact hfin4
  have hl5 : leavesP s5 = leavesP s4 := by simp [leavesP, f5.leaves, f5.openPars]
  refine ⟨outs, hmatch, ?_⟩
  rw [finish_leaves cfg s5 dc hq5 hfin5 hf, hl5, hl4, hl3]
  simp [leavesP, hl1, ho1]

/-- decidable, evaluated by the driver: `C02_notes_part` speaks about this part -/
def notesPartOK (root : Xml) : Bool :=
  okNotes true root.kids && !root.kids.isEmpty &&
  (match tagMember root.ptag with | none => true | _ => false)

end D2P
