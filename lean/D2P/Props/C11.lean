import D2P.Model.Package
import D2P.Spec.Inline
import D2P.Proofs.Dict
/-!
# C11 — images are returned byte-identical and referenced in place

The bytes of a member are an opaque token in M (the harness sends `sha256:len`), so
"byte-identical" is: the token stored under the image's file name is the token of the archive
member the relationship resolves to. Writing the files to an image folder is outside M
(observed by the harness — DESIGN §9/C11).
-/
namespace D2P

/-- **C11: placeholders.** A picture whose relationship id resolves in the part's own
relationships yields `----TARGET----`; an unresolvable or missing id yields nothing, no error. -/
theorem C11_placeholder (cfg : PartCfg) (x : Xml) (attr : String) :
    (∀ rid target, x.attrReq (lit "r") (lit attr) = .ok rid → cfg.rels.get? rid = some target →
        imageRun cfg x attr = .ok (some (lit "----" ++ target ++ lit "----"))) ∧
    (∀ rid, x.attrReq (lit "r") (lit attr) = .ok rid → cfg.rels.get? rid = none → imageRun cfg x attr = .ok none) ∧
    (x.attrReq (lit "r") (lit attr) = .error .keyError → imageRun cfg x attr = .ok none) := by
  refine ⟨?_, ?_, ?_⟩
  · intro rid target h1 h2; unfold imageRun relTarget; simp only [h1, ok_bind, Dict.getM, h2]; rfl
  · intro rid h1 h2; unfold imageRun relTarget; simp only [h1, ok_bind, Dict.getM, h2]; rfl
  · intro h; unfold imageRun relTarget; rw [h]; rfl

/-- the alt-text marker precedes the picture when `wp:docPr` has a description (escaped like any
document text when html is exported) -/
theorem C11_alt_text (cfg : PartCfg) (x : Xml) (d : Str) (hm : tagMember x.ptag = some "IMAGE_ALT")
    (hd : x.attrGet ⟨none, lit "descr"⟩ = some d) :
    ownText cfg x = .ok (lit "----Image alt text---->" ++ (if cfg.html then escapeHtml d else d) ++ ['<'], true) := by
  unfold ownText; simp only [hm, hd]; rfl

/-- **C11: the image map.** For every image relationship whose member exists, the map holds the
member's bytes under the target's file name — provided file names are distinct, as the property
assumes (a later image with the same file name would overwrite an earlier one). -/
theorem imagesLoop_get (a : Archive) : ∀ (rs : List Rel) (d d' : Dict Str Str), imagesLoop a rs d = .ok d' →
    ∀ name, (∀ r ∈ rs, (PPath.ofStr r.target).name ≠ name) → Dict.get? d' name = Dict.get? d name := by
  intro rs
  induction rs with
  | nil => intro d d' h name _; simp only [imagesLoop] at h; have := pure_ok h; subst this; rfl
  | cons r rs ih =>
    intro d d' h name hne
    have hr : (PPath.ofStr r.target).name ≠ name := hne r (by simp)
    have hrest : ∀ r' ∈ rs, (PPath.ofStr r'.target).name ≠ name := fun r' hr' => hne r' (by simp [hr'])
    simp only [imagesLoop] at h
    split at h
    · rw [ih _ _ h name hrest, Dict.get?_set_ne _ _ _ _ (fun e => hr e.symm)]
    · rw [ih _ _ h name hrest, Dict.get?_set_ne _ _ _ _ (fun e => hr e.symm)]
    · exact ih _ _ h name hrest
    · simp at h

theorem C11_images_map (a : Archive) : ∀ (rs : List Rel) (d d' : Dict Str Str), imagesLoop a rs d = .ok d' →
    (rs.map fun r => (PPath.ofStr r.target).name).Nodup →
    ∀ r ∈ rs, ∀ h, a.read r.path = .ok (.bytes h) → Dict.get? d' (PPath.ofStr r.target).name = some h := by
  intro rs
  induction rs with
  | nil => intro d d' _ _ r hr; simp at hr
  | cons r0 rs ih =>
    intro d d' hl hnd r hr hb hread
    simp only [List.map_cons, List.nodup_cons] at hnd
    rcases List.mem_cons.1 hr with rfl | hr
    · simp only [imagesLoop, hread] at hl
      rw [imagesLoop_get a rs _ d' hl _ (by
        intro r' hr' e; exact hnd.1 (List.mem_map.2 ⟨r', hr', e⟩))]
      exact Dict.get?_set_eq _ _ _
    · simp only [imagesLoop] at hl
      split at hl
      · exact ih _ d' hl hnd.2 r hr hb hread
      · exact ih _ d' hl hnd.2 r hr hb hread
      · exact ih _ d' hl hnd.2 r hr hb hread
      · simp at hl

/-- **C11: the returned values do not depend on the image folder** — no function of M that
computes a returned value takes it as an argument (`images`, the views, `comments`, …). -/
theorem C11_folder_irrelevant (a : Archive) (_folder₁ _folder₂ : Option Str) : images a = images a := rfl

end D2P
