import D2P.Props.C02Post
/-!
# C02 — no record is invented, doubled or moved: EVERY tree, BOTH settings of `duplicate_merged_cells`

`C02_post_part` / `C02_post_part_dup` state that the identities of the records are exactly `post root`,
for duplication off and for parts without vertical-merge continuations.  A cell that continues a
vertical merge has its own paragraphs replaced by a copy of the cell above (the documented duplication),
so with duplication on some identities of `post root` may be missing.  What holds unconditionally — any
tree, any setting — is the other half of "exactly once, in order": the identities of the records form a
SUBLIST of `post root`: nothing invented, nothing doubled, the order of the closing tags kept.
-/
namespace D2P

/-- replacing the cells of one row by cells whose identities are a sublist of the old ones -/
theorem idsL_set_row_sub (cells' : List Nest) :
    ∀ (rows : List Nest) (ri : Nat) (cells : List Nest), rows[ri]? = some (.list cells) → (idsL cells').Sublist (idsL cells) →
      (idsL (rows.set ri (.list cells'))).Sublist (idsL rows)
  | [], _, _, h, _ => by simp at h
  | r :: rows, 0, cells, h, hc => by
    simp only [List.getElem?_cons_zero, Option.some.injEq] at h
    subst h
    simp only [List.set_cons_zero, idsL_cons, leafParsT]
    exact List.Sublist.append hc (List.Sublist.refl _)
  | r :: rows, ri+1, cells, h, hc => by
    simp only [List.getElem?_cons_succ] at h
    simp only [List.set_cons_succ, idsL_cons]
    exact List.Sublist.append (List.Sublist.refl _) (idsL_set_row_sub cells' rows ri cells h hc)

theorem idsL_setRow_sub (cells' : List Nest) :
    ∀ (root : List Nest) (ti ri : Nat) (cells : List Nest), getRow root ti ri = .ok cells → (idsL cells').Sublist (idsL cells) →
      (idsL (setRow root ti ri cells')).Sublist (idsL root)
  | [], ti, ri, cells, h, _ => by simp [getRow] at h
  | t :: root, 0, ri, cells, h, hc => by
    unfold getRow at h
    simp only [List.getElem?_cons_zero] at h
    cases t with
    | par p => simp at h
    | list rows =>
      simp only at h
      cases hr : rows[ri]? with
      | none => simp [hr] at h
      | some r =>
        cases r with
        | par p => simp [hr] at h
        | list cs =>
          simp only [hr, pure, Except.pure, Except.ok.injEq] at h
          subst h
          have e : setRow (Nest.list rows :: root) 0 ri cells' = Nest.list (rows.set ri (.list cells')) :: root := by
            simp [setRow, List.modify]
          rw [e, idsL_cons, idsL_cons, leafParsT, leafParsT]
          exact List.Sublist.append (idsL_set_row_sub cells' rows ri cs hr hc) (List.Sublist.refl _)
  | t :: root, ti+1, ri, cells, h, hc => by
    have h' : getRow root ti ri = .ok cells := by
      unfold getRow at h ⊢
      simpa only [List.getElem?_cons_succ] using h
    have e : setRow (t :: root) (ti + 1) ri cells' = t :: setRow root ti ri cells' := by
      simp [setRow, List.modify]
    rw [e, idsL_cons, idsL_cons]
    exact List.Sublist.append (List.Sublist.refl _) (idsL_setRow_sub cells' root ti ri cells h' hc)

/-- the vertical copy replaces the last cell of the row by a copy without identities: identities can only disappear -/
theorem vmergeDo_sub (ti ri : Nat) (s s' : DC) (h : vmergeDo ti ri s = .ok s') : (idsL s'.root).Sublist (idsL s.root) := by
  unfold vmergeDo at h
  obtain ⟨s1, h1, h⟩ := bind_ok h
  have f1 := (setCaret_frame s s1 _ _ h1).leaves
  have e1 : idsL s1.root = idsL s.root := by unfold idsL; rw [f1]
  obtain ⟨thisTr, hg, h⟩ := bind_ok h
  obtain ⟨prevTr, _, h⟩ := bind_ok h
  split at h
  · have := pure_ok h; subst this; rw [e1]; exact List.Sublist.refl _
  · rename_i hne
    split at h
    · have := pure_ok h; subst this; rw [e1]; exact List.Sublist.refl _
    · rename_i above _
      have := pure_ok h; subst this
      show (idsL (setRow s1.root ti ri (thisTr.dropLast ++ [markCopyT above]))).Sublist _
      rw [← e1]
      refine idsL_setRow_sub _ s1.root ti ri thisTr hg ?_
      have hne' : thisTr ≠ [] := by intro e; rw [e] at hne; simp at hne
      have hsp : thisTr = thisTr.dropLast ++ [thisTr.getLast hne'] := (List.dropLast_concat_getLast hne').symm
      conv => rhs; rw [hsp]
      rw [idsL_append, idsL_append]
      refine List.Sublist.append (List.Sublist.refl _) ?_
      have : idsL [markCopyT above] = [] := by
        rw [idsL_cons, markCopy_ids]; rfl
      rw [this]; exact List.nil_sublist _

/-- `_close_table_cell`, either setting: identities are never added -/
theorem closeTableCell_sub (dup : Bool) (s s' : DC) (tc : Xml) (h : closeTableCell dup s tc = .ok s') :
    (idsL s'.root).Sublist (idsL s.root) := by
  unfold closeTableCell at h
  split at h
  · have := pure_ok h; subst this; exact List.Sublist.refl _
  · obtain ⟨pr, _, h⟩ := bind_ok h
    obtain ⟨_, _, h⟩ := bind_ok h
    split at h
    · have := pure_ok h; subst this; exact List.Sublist.refl _
    · obtain ⟨s1, h1, h⟩ := bind_ok h
      obtain ⟨n, _, h⟩ := bind_ok h
      have k1 : (idsL s1.root).Sublist (idsL s.root) := by
        unfold vmergeStep at h1
        split at h1
        · exact vmergeDo_sub _ _ s s1 h1
        · have := pure_ok h1; subst this; exact List.Sublist.refl _
      rw [iterateM_ids (spanStep dup _ _) (fun a b hab => spanStep_ids' dup _ _ a b hab) n s1 s' h]
      exact k1

/-- closing an element other than a paragraph: no identity is added, the stack is untouched -/
theorem closeStepCore_sub (cfg : PartCfg) (s s' : DC) (x : Xml)
    (hm : tagMember x.ptag ≠ some "PARAGRAPH") (h : closeStepCore cfg s x = .ok s') :
    (idsL s'.root).Sublist (idsL s.root) ∧ stackIds s' = stackIds s := by
  unfold closeStepCore at h
  split at h
  · rename_i hm'; exact absurd hm' hm
  · have q := commenceRun_quiet cfg.html s s' none h
    exact ⟨by rw [q.closed]; exact List.Sublist.refl _, q.stack⟩
  · exact ⟨closeTableCell_sub cfg.dup s s' x h, by simp [stackIds, elems, closeTableCell_openPars cfg.dup s s' x h]⟩
  · have := pure_ok h; subst this; exact ⟨List.Sublist.refl _, rfl⟩

mutual
/-- **nothing invented, nothing doubled, order kept — any tree, either setting** -/
theorem walk_post_sub (cfg : PartCfg) (num : Dict Str (List NumAttr)) :
    (x : Xml) → (c : Bool) → (s s' : DC) → Sole (elems s) → walk cfg num c s x = .ok s' →
      (idsL s'.root).Sublist (idsL s.root ++ post x) ∧ stackIds s' = stackIds s
  | .elem i p t m a tx tl ks, c, s, s', hs, h => by
    simp only [walk] at h
    obtain ⟨s1, h1, h⟩ := bind_ok h
    unfold DC.setCaretOpen at h1
    obtain ⟨s0, h0, h1⟩ := bind_ok h1
    obtain ⟨hs0, ha0⟩ := flushImplicit_sole s s0 _ hs h0
    have f1 := setCaret_frame s0 s1 _ _ h1
    have q1 : Quiet s s1 := (flushImplicit_quiet s s0 _ h0).trans (quiet_of_frame f1)
    have e1 : elems s1 = elems s0 := by simp [elems, f1.openPars]
    obtain ⟨roots, _, h⟩ := bind_ok h
    obtain ⟨⟨s2, rec⟩, h2, h⟩ := bind_ok h
    have hrec := openStep_rec cfg s1 s2 _ c roots rec h2
    have hs2 : Sole (elems s2) := by
      rcases openStep_elems cfg s1 s2 _ c roots rec h2 with ⟨hm, e2⟩ | hsoft
      · have hpt := par_of_member _ hm
        have hdp := elemDepth_par (.elem i p t m a tx tl ks) hpt rfl
        have a1 : AllSome (elems s1) := by rw [e1]; exact ha0 (by rw [hdp]; rfl)
        refine Or.inl ?_
        rw [e2]
        intro e he
        rcases List.mem_append.1 he with he | he
        · exact a1 e he
        · simp at he; subst he; rfl
      · rcases hsoft with hsoft | hdrop
        · exact hsoft.sole (by rw [e1]; exact hs0)
        · rw [hdrop]; exact sole_dropLast (by rw [e1]; exact hs0)
    obtain ⟨s3, h3, h⟩ := bind_ok h
    have k3 : (idsL s3.root).Sublist (idsL s2.root ++ (if descends (.elem i p t m a tx tl ks) then postL ks else [])) ∧
        stackIds s3 = stackIds s2 ∧ Sole (elems s3) := by
      simp only at h3
      rw [hrec] at h3
      split at h3
      · rename_i hdsc
        obtain ⟨e, g⟩ := walkL_post_sub cfg num ks _ s2 s3 hs2 h3
        exact ⟨by rw [if_pos hdsc]; exact e, g, walkL_sole cfg num ks _ s2 s3 hs2 h3⟩
      · rename_i hdsc
        have := pure_ok h3; subst this
        exact ⟨by simp [hdsc], rfl, hs2⟩
    obtain ⟨e3, g3, hs3⟩ := k3
    obtain ⟨s4, h4, h⟩ := bind_ok h
    obtain ⟨s3', h3', h4⟩ := closeStep_split cfg s3 s4 _ h4
    have hs3' := (flushImplicit_sole s3 s3' _ hs3 h3').1
    have q3' := flushImplicit_quiet s3 s3' _ h3'
    have q5 := quiet_of_frame (setCaret_frame s4 s' _ _ h)
    by_cases hm : tagMember (Xml.elem i p t m a tx tl ks).ptag = some "PARAGRAPH"
    · obtain ⟨c2, e2⟩ := openStep_par cfg s1 s2 _ c roots rec hm h2
      have st2 : stackIds s2 = stackIds s1 ++ [i] := by simp [stackIds, e2, Xml.id?]
      have st3' : stackIds s3' = stackIds s1 ++ [i] := by rw [q3'.stack, g3, st2]
      obtain ⟨hlast, hdrop⟩ := sole_last (elems s3') _ i hs3' st3'
      have hcore : closeStepCore cfg s3' (.elem i p t m a tx tl ks) = s3'.concludePar := by unfold closeStepCore; rw [hm]; rfl
      rw [hcore] at h4
      have hl : ∃ q, s3'.openPars.getLast? = some q ∧ q.elem = some i := by
        unfold elems at hlast
        rw [List.getLast?_map] at hlast
        cases hq : s3'.openPars.getLast? with
        | none => rw [hq] at hlast; cases hlast
        | some q => rw [hq] at hlast; exact ⟨q, rfl, Option.some.inj hlast⟩
      obtain ⟨q, hq, hqe⟩ := hl
      obtain ⟨c4, e4⟩ := concludePar_top s3' s4 q hq h4
      refine ⟨?_, ?_⟩
      · rw [q5.closed, c4, q3'.closed, hqe]
        rw [c2, q1.closed] at e3
        simp only [post, hm, if_true, Option.toList]
        rw [← List.append_assoc]
        exact List.Sublist.append e3 (List.Sublist.refl _)
      · rw [q5.stack]
        unfold stackIds
        rw [e4]
        show (elems s3').dropLast.filterMap id = _
        rw [hdrop, q1.stack]; rfl
    · have q2 := openStep_quiet cfg s1 s2 _ c roots rec hm h2
      obtain ⟨c4, g4⟩ := closeStepCore_sub cfg s3' s4 _ hm h4
      refine ⟨?_, ?_⟩
      · rw [q5.closed]
        rw [q2.closed, q1.closed] at e3
        rw [← q3'.closed] at e3
        simp only [post, hm, if_false, List.append_nil]
        exact c4.trans e3
      · rw [q5.stack, g4, q3'.stack, g3, q2.stack, q1.stack]
  | .comment _ _, c, s, s', hs, h => by simp only [walk] at h; have := pure_ok h; subst this; simp [post]
  | .pi _, c, s, s', hs, h => by simp only [walk] at h; have := pure_ok h; subst this; simp [post]
theorem walkL_post_sub (cfg : PartCfg) (num : Dict Str (List NumAttr)) :
    (xs : List Xml) → (c : Bool) → (s s' : DC) → Sole (elems s) → walkL cfg num c s xs = .ok s' →
      (idsL s'.root).Sublist (idsL s.root ++ postL xs) ∧ stackIds s' = stackIds s
  | [], c, s, s', hs, h => by simp only [walkL] at h; have := pure_ok h; subst this; simp [postL]
  | k :: ks, c, s, s', hs, h => by
    simp only [walkL] at h
    obtain ⟨s1, h1, h⟩ := bind_ok h
    obtain ⟨e1, g1⟩ := walk_post_sub cfg num k c s s1 hs h1
    obtain ⟨e2, g2⟩ := walkL_post_sub cfg num ks c s1 s' (walk_sole cfg num k c s s1 hs h1) h
    refine ⟨?_, g2.trans g1⟩
    simp only [postL]
    rw [← List.append_assoc]
    exact e2.trans (List.Sublist.append e1 (List.Sublist.refl _))
end

/-- **C02 for every content part and BOTH settings of `duplicate_merged_cells`**: the identities of the records
`new_depth_collector` returns form a sublist of `post root` — every record with an identity is a source paragraph the walk
descends to, none occurs twice as often as in the source, and their order is the order of the closing tags.  (Equality:
`C02_post_part` with duplication off, `C02_post_part_dup` without vertical-merge continuations.) -/
theorem C02_post_part_any (cfg : PartCfg) (num : Dict Str (List NumAttr)) (root : Xml) (c : Bool) (dc : DC)
    (h : newDepthCollector cfg num root c = .ok dc) : (elemsOf (leafParsL dc.root)).Sublist (post root) := by
  unfold newDepthCollector at h
  obtain ⟨s5, hw, hf⟩ := bind_ok h
  obtain ⟨e, g⟩ := walk_post_sub cfg num root c _ s5 (sole_init num) hw
  have hst : stackIds s5 = [] := by rw [g]; rfl
  have := finish_closed cfg s5 dc hst hf
  unfold idsL at this e
  rw [this]
  simpa [leafParsL, elemsOf] using e

end D2P
