import D2P.Model.Replace
import D2P.Spec.Inline
/-!
# C17 — search-and-replace: what happens to one text node

`C17_node_text` (html off): the elements that replace a `w:t` hit by the needle contribute, in
order, exactly the lines of `text.replace(old, new)` with one break between consecutive lines —
so the extracted text of that stretch is the replaced text with every line separator turned
into the `"\n"` of a `w:br`. A trailing newline of the replacement is kept (repair P14).
`C17_untouched_node`: an element that is not a `w:t`, or whose text does not contain the needle,
is not rewritten itself (repair P19/P20) — only searched.
Still to do: lifting to paragraphs and parts through C02/C06/C16 (DESIGN §9/C17).
-/
namespace D2P

/-- text contributed by the replacement elements: lines joined by `"\n"` -/
def linesText (ls : List Str) : Str := sjoinSep ['\n'] ls

theorem interleave_text (cfg : PartCfg) (br : Xml) (hbr : inlineText cfg br = .ok ['\n'])
    (f : Str → Xml) (hf : ∀ s, inlineText cfg (f s) = .ok s) :
    ∀ (ls : List Str), inlineTextL cfg (interleave br (ls.map f)) = .ok (linesText ls) := by
  intro ls
  induction ls with
  | nil => rfl
  | cons t ts ih =>
    cases ts with
    | nil =>
      simp only [List.map_cons, List.map_nil, interleave, inlineTextL, hf t, ok_bind, linesText, sjoinSep]
      show (Except.ok (t ++ []) : M Str) = _
      rw [List.append_nil]
    | cons u us =>
      simp only [List.map_cons] at ih ⊢
      simp only [interleave, inlineTextL, hf t, hbr, ok_bind, ih, linesText, sjoinSep]
      show (Except.ok (t ++ (['\n'] ++ sjoinSep ['\n'] (u :: us))) : M Str) = _
      simp [List.append_assoc]

theorem tagMember_t : tagMember (lit "w:t") = some "TEXT" := by decide
theorem tagMember_br : tagMember (lit "w:br") = some "BR" := by decide

/-- **C17: one text node.** -/
theorem C17_node_text (cfg : PartCfg) (hc : cfg.html = false) (old new : Str)
    (i : Nat) (p : Option Str) (t : QName) (m : NsMap) (a : List (QName × Str)) (tx tl : Option Str)
    (hp : (Xml.elem i p t m a tx tl []).ptag = lit "w:t")
    (out : List Xml) (h : replacement old new (.elem i p t m a tx tl []) = .ok out) :
    inlineTextL cfg out = .ok (linesText (replacedLines (tx.getD []) old new)) := by
  unfold replacement at h
  obtain ⟨br, hb, h⟩ := bind_ok h
  have := pure_ok h; subst this
  -- the break element is a `w:br` without children
  have hbr : inlineText cfg br = .ok ['\n'] := by
    unfold brLike at hb
    obtain ⟨q, hq, hb⟩ := bind_ok hb
    have := pure_ok hb; subst this
    have hqn : q.name = lit "br" := by
      unfold Xml.qn at hq
      split at hq
      · cases hq; rfl
      · simp at hq
    have hm : tagMember (Xml.elem 0 (some (lit "w")) q (Xml.elem i p t m a tx tl []).nsmap [] none none []).ptag = some "BR" := by
      show tagMember (lit "w" ++ [':'] ++ q.name) = _
      rw [hqn]; exact tagMember_br
    simp only [inlineText, ownText, hm, ok_bind, if_true, inlineTextL]
    rfl
  apply interleave_text cfg br hbr
  intro s1
  have hpt : (Xml.elem i p t m a (some s1) tl []).ptag = (Xml.elem i p t m a tx tl []).ptag := by cases p <;> rfl
  have hm : tagMember (Xml.elem i p t m a (some s1) tl []).ptag = some "TEXT" := by rw [hpt, hp]; exact tagMember_t
  show inlineText cfg (Xml.elem i p t m a (some s1) tl []) = .ok s1
  simp only [inlineText, ownText, hm, hc, Bool.false_eq_true, if_false, ok_bind, if_true, inlineTextL, Xml.text?, Option.getD_some]
  show (Except.ok (s1 ++ []) : M Str) = _
  rw [List.append_nil]

/-- **C17: elements that are not hit are never rewritten themselves.** -/
theorem C17_untouched_node (old new : Str) (k : Xml) (ks : List Xml) (h : hits old k = false) :
    replaceKids old new (k :: ks) =
      ((replaceIn old new k) >>= fun k' => pure [k']) >>= fun a => (replaceKids old new ks) >>= fun b => pure (a ++ b) := by
  simp only [replaceKids, h, Bool.false_eq_true, if_false]

example : replacedLines (lit "fooX") (lit "X") (lit "a\n") = [lit "fooa", []] := by decide
example : replacedLines (lit "fooX") (lit "X") (lit "l1\r\nl2") = [lit "fool1", lit "l2"] := by decide

end D2P
