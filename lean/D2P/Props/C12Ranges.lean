import D2P.Proofs.RunsWalk
import D2P.Props.Examples
import D2P.Proofs.Dict
/-!
# C12 — the reference of a comment is exactly the run strings between its two markers

`walk_runs` (Proofs/RunsWalk.lean): in either html mode, inside one open paragraph, the collector's
runs and the recorded comment ranges evolve exactly as the run machine `runsOf` says.  On the
machine the property can be read off:

* `runs_mono`      complete strings are never changed or removed: the list only grows at its end;
* `runs_untouched` inline content that does not mention comment `id` leaves its range alone;
* `C12_between`    for siblings `pre ++ [start id] ++ mid ++ [end id] ++ post` whose two markers sit at
                   run boundaries: the range recorded for `id` is `(k + |done₁|, k + |done₂|)`, the
                   strings complete at the end marker are those complete at the start marker
                   followed by exactly the strings `mid` produced, and whatever comes after leaves
                   all of them in place — so the slice `[start, end)` of the final run strings is
                   exactly what lies between the markers.
-/
namespace D2P

/-! ## complete strings only grow -/

def Grows (a b : RS) : Prop := a.r.1 <+: b.r.1

theorem Grows.refl (a : RS) : Grows a a := List.prefix_refl _
theorem Grows.trans {a b c : RS} (x : Grows a b) (y : Grows b c) : Grows a c := List.IsPrefix.trans x y

theorem grows_r {st : RS} {r' : RState} (h : st.r.1 <+: r'.1) : Grows st { st with r := r' } := h

theorem foldMarkers_r (f : RS → Str → RS) (hf : ∀ st id, (f st id).r = st.r) :
    ∀ (ms : List Xml) (st st' : RS), foldMarkers f st ms = .ok st' → st'.r = st.r
  | [], st, st', h => by simp only [foldMarkers] at h; have := pure_ok h; subst this; rfl
  | m :: ms, st, st', h => by
    simp only [foldMarkers] at h
    obtain ⟨id, _, h⟩ := bind_ok h
    rw [foldMarkers_r f hf ms _ st' h, hf]

theorem openRuns_grows (cfg : PartCfg) (k : Nat) (x : Xml) (l : M Str) (st st' : RS) (r : Bool)
    (h : openRuns cfg k x l st = .ok (st', r)) : Grows st st' := by
  unfold openRuns at h
  split at h
  all_goals first
    | (have := pure_ok h; cases this; first | (unfold Grows; first | exact List.prefix_refl _ | (simp [RState.txt, RState.newRun, RState.ins, RState.insOpt, RS.start, RS.stop]; done)) | (split <;> (unfold Grows; first | exact List.prefix_refl _ | (simp [RState.txt, RState.newRun, RState.ins, RState.insOpt, RS.start, RS.stop]; done))))
    | (dsimp only at h; have := pure_ok h; cases this; first | (unfold Grows; first | exact List.prefix_refl _ | (simp [RState.txt, RState.newRun, RState.ins, RState.insOpt, RS.start, RS.stop]; done)) | (split <;> (unfold Grows; first | exact List.prefix_refl _ | (simp [RState.txt, RState.newRun, RState.ins, RState.insOpt, RS.start, RS.stop]; done))))
    | (obtain ⟨v, _, h⟩ := bind_ok h; have := pure_ok h; cases this
       first | (unfold Grows; first | exact List.prefix_refl _ | (simp [RState.txt, RState.newRun, RState.ins, RState.insOpt, RS.start, RS.stop]; done)) | (split <;> (unfold Grows; first | exact List.prefix_refl _ | (simp [RState.txt, RState.newRun, RState.ins, RState.insOpt, RS.start, RS.stop]; done))) | (cases v <;> (unfold Grows; first | exact List.prefix_refl _ | (simp [RState.txt, RState.newRun, RState.ins, RState.insOpt, RS.start, RS.stop]; done))))
    | skip
  -- what is left: the hyperlink
  · obtain ⟨t, _, h⟩ := bind_ok h
    obtain ⟨qs, _, h⟩ := bind_ok h
    obtain ⟨st1, h1, h⟩ := bind_ok h
    obtain ⟨rn, _, h⟩ := bind_ok h
    obtain ⟨qe, _, h⟩ := bind_ok h
    obtain ⟨st2, h2, h⟩ := bind_ok h
    have := pure_ok h; cases this
    have e1 := foldMarkers_r (fun s id => s.start k id) (fun _ _ => rfl) _ st st1 h1
    have e2 := foldMarkers_r (fun s id => s.stop k id) (fun _ _ => rfl) _ _ _ h2
    unfold Grows
    rw [e2]; simp [RState.ins, e1]
  -- … and the alt-text stand-in
  · have := pure_ok h; cases this
    unfold Grows
    cases x.attrGet ⟨none, lit "descr"⟩ <;> simp [RState.insOpt, RState.ins]

theorem closeRuns_grows (x : Xml) (st : RS) : Grows st (closeRuns x st) := by
  unfold closeRuns
  split
  · unfold Grows; simp [RState.newRun]
  · exact Grows.refl _

mutual
theorem runs_mono (cfg : PartCfg) (k : Nat) (links : Xml → M Str) :
    (x : Xml) → (st st' : RS) → runsOf cfg k links x st = .ok st' → Grows st st'
  | .elem i p t m a tx tl ks, st, st', h => by
    simp only [runsOf] at h
    obtain ⟨⟨o, d⟩, ho, h⟩ := bind_ok h
    obtain ⟨st1, h1, h⟩ := bind_ok h
    have := pure_ok h; subst this
    have g0 := openRuns_grows cfg k _ _ st o d ho
    have g1 : Grows o st1 := by
      cases d with
      | true => simp only [if_true] at h1; exact runsL_mono cfg k links ks o st1 h1
      | false => simp only [Bool.false_eq_true, if_false] at h1; have := pure_ok h1; subst this; exact Grows.refl _
    exact (g0.trans g1).trans (closeRuns_grows _ st1)
  | .comment _ _, st, st', h => by simp only [runsOf] at h; have := pure_ok h; subst this; exact Grows.refl _
  | .pi _, st, st', h => by simp only [runsOf] at h; have := pure_ok h; subst this; exact Grows.refl _
theorem runsL_mono (cfg : PartCfg) (k : Nat) (links : Xml → M Str) :
    (xs : List Xml) → (st st' : RS) → runsOfL cfg k links xs st = .ok st' → Grows st st'
  | [], st, st', h => by simp only [runsOfL] at h; have := pure_ok h; subst this; exact Grows.refl _
  | x :: xs, st, st', h => by
    simp only [runsOfL] at h
    obtain ⟨st1, h1, h⟩ := bind_ok h
    exact (runs_mono cfg k links x st st1 h1).trans (runsL_mono cfg k links xs st1 st' h)
end

theorem runsOfL_append (cfg : PartCfg) (k : Nat) (links : Xml → M Str) : ∀ (xs ys : List Xml) (st : RS),
    runsOfL cfg k links (xs ++ ys) st = (runsOfL cfg k links xs st) >>= fun st1 => runsOfL cfg k links ys st1
  | [], ys, st => rfl
  | x :: xs, ys, st => by
    simp only [List.cons_append, runsOfL]
    cases runsOf cfg k links x st with
    | error e => rfl
    | ok st1 => simp only [ok_bind]; exact runsOfL_append cfg k links xs ys st1

/-! ## ranges of other comments are left alone -/

/-- the ids of the range markers at or below `x`, as the walk reads them (also below hyperlinks) -/
def markerHere (x : Xml) : Option Str :=
  match tagMember x.ptag with
  | some "COMMENT_RANGE_START" | some "COMMENT_RANGE_END" => (match x.attrReq (lit "w") (lit "id") with | .ok id => some id | .error _ => none)
  | _ => none

def linkMarkers (x : Xml) : List Xml :=
  match tagMember x.ptag with
  | some "HYPERLINK" =>
    (match wq x "commentRangeStart" with | .ok q => descTaggedL q x.kids | .error _ => []) ++
    (match wq x "commentRangeEnd" with | .ok q => descTaggedL q x.kids | .error _ => [])
  | _ => []

def idOf (m : Xml) : Option Str := match m.attrReq (lit "w") (lit "id") with | .ok id => some id | .error _ => none

mutual
def mentions (id : Str) : Xml → Bool
  | .elem i p t m a tx tl ks =>
    markerHere (.elem i p t m a tx tl ks) == some id || (linkMarkers (.elem i p t m a tx tl ks)).any (fun m => idOf m == some id) ||
      mentionsL id ks
  | _ => false
def mentionsL (id : Str) : List Xml → Bool
  | [] => false
  | k :: ks => mentions id k || mentionsL id ks
end

theorem foldMarkers_other (f : RS → Str → RS) (id : Str)
    (hf : ∀ st id', id' ≠ id → (f st id').ranges.get? id = st.ranges.get? id) :
    ∀ (ms : List Xml) (st st' : RS), ms.any (fun m => idOf m == some id) = false → foldMarkers f st ms = .ok st' →
      st'.ranges.get? id = st.ranges.get? id
  | [], st, st', _, h => by simp only [foldMarkers] at h; have := pure_ok h; subst this; rfl
  | m :: ms, st, st', hm, h => by
    simp only [List.any_cons, Bool.or_eq_false_iff] at hm
    simp only [foldMarkers] at h
    obtain ⟨id', hid, h⟩ := bind_ok h
    have hne : id' ≠ id := by
      intro e; subst e
      have := hm.1; simp [idOf, hid] at this
    rw [foldMarkers_other f id hf ms _ st' hm.2 h, hf st id' hne]

theorem start_other (st : RS) (k : Nat) (id id' : Str) (h : id' ≠ id) : (st.start k id').ranges.get? id = st.ranges.get? id :=
  Dict.get?_set_ne _ _ _ _ (fun e => h e.symm)
theorem stop_other (st : RS) (k : Nat) (id id' : Str) (h : id' ≠ id) : (st.stop k id').ranges.get? id = st.ranges.get? id :=
  Dict.get?_set_ne _ _ _ _ (fun e => h e.symm)

theorem openRuns_untouched (cfg : PartCfg) (k : Nat) (x : Xml) (l : M Str) (st st' : RS) (r : Bool) (id : Str)
    (hm : markerHere x ≠ some id) (hl : (linkMarkers x).any (fun m => idOf m == some id) = false)
    (h : openRuns cfg k x l st = .ok (st', r)) : st'.ranges.get? id = st.ranges.get? id := by
  unfold openRuns at h
  unfold markerHere at hm
  unfold linkMarkers at hl
  split at h
  all_goals first
    | (have := pure_ok h; cases this; rfl)
    | (dsimp only at h; have := pure_ok h; cases this; rfl)
    | (obtain ⟨v, _, h⟩ := bind_ok h; have := pure_ok h; cases this; rfl)
    | skip
  · rename_i heq
    obtain ⟨id', hid, h⟩ := bind_ok h; have := pure_ok h; cases this
    simp only [heq, hid] at hm
    exact stop_other st k id id' (fun e => hm (by rw [e]))
  · rename_i heq
    obtain ⟨id', hid, h⟩ := bind_ok h; have := pure_ok h; cases this
    simp only [heq, hid] at hm
    exact start_other st k id id' (fun e => hm (by rw [e]))
  · rename_i heq
    obtain ⟨t, _, h⟩ := bind_ok h
    obtain ⟨qs, hqs, h⟩ := bind_ok h
    obtain ⟨st1, h1, h⟩ := bind_ok h
    obtain ⟨rn, _, h⟩ := bind_ok h
    obtain ⟨qe, hqe, h⟩ := bind_ok h
    obtain ⟨st2, h2, h⟩ := bind_ok h
    have := pure_ok h; cases this
    simp only [heq, hqs, hqe, List.any_append, Bool.or_eq_false_iff] at hl
    rw [foldMarkers_other (fun s id => s.stop k id) id (fun s id' hne => stop_other s k id id' hne) _ _ _ hl.2 h2]
    exact foldMarkers_other (fun s id => s.start k id) id (fun s id' hne => start_other s k id id' hne) _ st st1 hl.1 h1

theorem closeRuns_ranges (x : Xml) (st : RS) : (closeRuns x st).ranges = st.ranges := by
  unfold closeRuns; split <;> rfl

mutual
theorem runs_untouched (cfg : PartCfg) (k : Nat) (links : Xml → M Str) (id : Str) :
    (x : Xml) → (st st' : RS) → mentions id x = false → runsOf cfg k links x st = .ok st' →
      st'.ranges.get? id = st.ranges.get? id
  | .elem i p t m a tx tl ks, st, st', hm, h => by
    simp only [mentions, Bool.or_eq_false_iff, beq_eq_false_iff_ne, ne_eq] at hm
    simp only [runsOf] at h
    obtain ⟨⟨o, d⟩, ho, h⟩ := bind_ok h
    obtain ⟨st1, h1, h⟩ := bind_ok h
    have := pure_ok h; subst this
    rw [closeRuns_ranges]
    have e0 := openRuns_untouched cfg k _ _ st o d id hm.1.1 hm.1.2 ho
    cases d with
    | true => simp only [if_true] at h1; rw [runsL_untouched cfg k links id ks o st1 hm.2 h1, e0]
    | false => simp only [Bool.false_eq_true, if_false] at h1; have := pure_ok h1; subst this; exact e0
  | .comment _ _, st, st', _, h => by simp only [runsOf] at h; have := pure_ok h; subst this; rfl
  | .pi _, st, st', _, h => by simp only [runsOf] at h; have := pure_ok h; subst this; rfl
theorem runsL_untouched (cfg : PartCfg) (k : Nat) (links : Xml → M Str) (id : Str) :
    (xs : List Xml) → (st st' : RS) → mentionsL id xs = false → runsOfL cfg k links xs st = .ok st' →
      st'.ranges.get? id = st.ranges.get? id
  | [], st, st', _, h => by simp only [runsOfL] at h; have := pure_ok h; subst this; rfl
  | x :: xs, st, st', hm, h => by
    simp only [mentionsL, Bool.or_eq_false_iff] at hm
    simp only [runsOfL] at h
    obtain ⟨st1, h1, h⟩ := bind_ok h
    rw [runsL_untouched cfg k links id xs st1 st' hm.2 h, runs_untouched cfg k links id x st st1 hm.1 h1]
end

/-! ## the strings between the two markers -/

def isStart (x : Xml) (id : Str) : Prop :=
  tagMember x.ptag = some "COMMENT_RANGE_START" ∧ x.attrReq (lit "w") (lit "id") = .ok id
def isEnd (x : Xml) (id : Str) : Prop :=
  tagMember x.ptag = some "COMMENT_RANGE_END" ∧ x.attrReq (lit "w") (lit "id") = .ok id

theorem runsOf_start (cfg : PartCfg) (k : Nat) (links : Xml → M Str) (x : Xml) (id : Str) (hx : isStart x id) (st : RS) :
    runsOf cfg k links x st = .ok (st.start k id) := by
  cases x with
  | elem i p t m a tx tl ks =>
    simp only [runsOf, openRuns, hx.1, hx.2, ok_bind, pure, Except.pure, Bool.false_eq_true, if_false, closeRuns]
    rfl
  | comment _ _ => exact absurd hx.1 (by show ¬ tagMember (lit "None:FAILED-uuid") = _; decide)
  | pi _ => exact absurd hx.1 (by show ¬ tagMember (lit "None:FAILED-uuid") = _; decide)

theorem runsOf_end (cfg : PartCfg) (k : Nat) (links : Xml → M Str) (x : Xml) (id : Str) (hx : isEnd x id) (st : RS) :
    runsOf cfg k links x st = .ok (st.stop k id) := by
  cases x with
  | elem i p t m a tx tl ks =>
    simp only [runsOf, openRuns, hx.1, hx.2, ok_bind, pure, Except.pure, Bool.false_eq_true, if_false, closeRuns]
    rfl
  | comment _ _ => exact absurd hx.1 (by show ¬ tagMember (lit "None:FAILED-uuid") = _; decide)
  | pi _ => exact absurd hx.1 (by show ¬ tagMember (lit "None:FAILED-uuid") = _; decide)

/-- **C12, the strings between the markers.**  Siblings `pre ++ [start] ++ mid ++ [end] ++ post`
inside one paragraph (any inline content, also markers of other comments, nested or overlapping),
the comment's own markers occurring nowhere else in `mid` and `post`:

* the range recorded for the comment is `(k + count₁, k + count₂)`, the numbers of strings complete
  or in progress when the start and the end marker are met;
* when both markers sit at run boundaries (no string in progress), these are the numbers of
  COMPLETE strings, the complete strings at the end marker are those at the start marker followed
  by `between`, and the final list of complete strings still begins with all of them:
  so `final[start - k : end - k] = between`, exactly the strings produced between the markers. -/
theorem C12_between (cfg : PartCfg) (k : Nat) (links : Xml → M Str) (pre mid post : List Xml) (ms me : Xml) (id : Str)
    (hms : isStart ms id) (hme : isEnd me id)
    (hmid : mentionsL id mid = false) (hpost : mentionsL id post = false)
    (st0 st : RS) (h : runsOfL cfg k links (pre ++ [ms] ++ mid ++ [me] ++ post) st0 = .ok st) :
    ∃ st1 st2, runsOfL cfg k links pre st0 = .ok st1 ∧ runsOfL cfg k links mid (st1.start k id) = .ok st2 ∧
      st.ranges.get? id = some (k + st1.r.count, k + st2.r.count) ∧
      (st1.r.2.text = [] → st2.r.2.text = [] →
        st1.r.count = st1.r.1.length ∧ st2.r.count = st2.r.1.length ∧
        ∃ between, st2.r.1 = st1.r.1 ++ between ∧ st2.r.1 <+: st.r.1) := by
  simp only [runsOfL_append, List.append_assoc] at h
  obtain ⟨st1, h1, h⟩ := bind_ok h
  obtain ⟨sa, ha, h⟩ := bind_ok h
  simp only [runsOfL, runsOf_start cfg k links ms id hms, ok_bind, pure, Except.pure] at ha
  cases ha
  obtain ⟨st2, h2, h⟩ := bind_ok h
  obtain ⟨sb, hb, h⟩ := bind_ok h
  simp only [runsOfL, runsOf_end cfg k links me id hme, ok_bind, pure, Except.pure] at hb
  cases hb
  refine ⟨st1, st2, h1, h2, ?_, ?_⟩
  · -- the range: set by the start marker, kept by `mid`, completed by the end marker, kept by `post`
    rw [runsL_untouched cfg k links id post _ st hpost h]
    have hkeep := runsL_untouched cfg k links id mid _ st2 hmid h2
    simp only [RS.stop, RS.start] at hkeep ⊢
    rw [Dict.get?_set_eq] at hkeep
    rw [Dict.get?_set_eq, hkeep]
    rfl
  · intro c1 c2
    have g12 : Grows (st1.start k id) st2 := runsL_mono cfg k links mid _ st2 h2
    have g2 : Grows (st2.stop k id) st := runsL_mono cfg k links post _ st h
    obtain ⟨between, hb⟩ := g12
    exact ⟨by simp [RState.count, c1, keep], by simp [RState.count, c2, keep], between, hb.symm, g2⟩

/-- **C12 on the collector** (both html modes): the same, for the real walk.  Inside one open paragraph
whose predecessors hold `k` run strings, after walking `pre ++ [start] ++ mid ++ [end] ++ post` the
collector's `comment_ranges[id]` is `(k + count₁, k + count₂)`, and — markers at run boundaries —
the open paragraph's complete run strings begin with those complete at the end marker, which are
those complete at the start marker followed by the strings produced in between. -/
theorem C12_ranges_partial (cfg : PartCfg) (num : Dict Str (List NumAttr)) (k0 : Nat) (tag : Bool) (c : Bool)
    (pre mid post : List Xml) (ms me : Xml) (id : Str) (hms : isStart ms id) (hme : isEnd me id)
    (hmid : mentionsL id mid = false) (hpost : mentionsL id post = false)
    (hs : simpleL (pre ++ [ms] ++ mid ++ [me] ++ post) = true)
    (s s' : DC) (p : Par) (hin : In s k0 tag p) (h : walkL cfg num c s (pre ++ [ms] ++ mid ++ [me] ++ post) = .ok s') :
    ∃ p' st1 st2, In s' k0 tag p' ∧ s'.root = s.root ∧
      runsOfL cfg (k0 + tagOff tag) (linksOf cfg num c) pre (absS s p) = .ok st1 ∧
      runsOfL cfg (k0 + tagOff tag) (linksOf cfg num c) mid (st1.start (k0 + tagOff tag) id) = .ok st2 ∧
      s'.ranges.get? id = some (k0 + tagOff tag + st1.r.count, k0 + tagOff tag + st2.r.count) ∧
      (st1.r.2.text = [] → st2.r.2.text = [] →
        ∃ between, st2.r.1 = st1.r.1 ++ between ∧ st2.r.1 <+: kept p'.runs.dropLast) := by
  obtain ⟨p', i', r', o'⟩ := walkL_runs cfg num k0 tag c _ s s' p hs hin h
  obtain ⟨st1, st2, h1, h2, hr, hb⟩ := C12_between cfg (k0 + tagOff tag) (linksOf cfg num c) pre mid post ms me id hms hme hmid hpost _ _ o'
  refine ⟨p', st1, st2, i', r', h1, h2, hr, ?_⟩
  intro c1 c2
  obtain ⟨_, _, between, e, g⟩ := hb c1 c2
  exact ⟨between, e, g⟩

namespace Ex
/-- non-vacuity: "a [b c] d" with the comment on the two middle runs, a tab inside -/
def commented : List Xml :=
  [r 2 [t 3 "a"], el 4 "commentRangeStart" [wattr "id" "7"] none [], r 5 [t 6 "b"], r 7 [el 8 "tab" [] none [], t 9 "c"],
   el 10 "commentRangeEnd" [wattr "id" "7"] none [], r 11 [t 12 "d"]]

example : (runsOfL cfg 10 (fun _ => pure []) commented ⟨RState.init, []⟩).map (fun st => (st.r.runs.map (·.text), st.ranges)) =
    .ok ([lit "a", lit "b", lit "\t", lit "c", lit "d"], [(lit "7", (11, 14))]) := by decide +kernel
/-- with html on, a bold run keeps its tag and only its tag -/
example : (runsOfL { html := true, dup := true, rels := [] } 0 (fun _ => pure [])
      [r 1 [el 2 "rPr" [] none [el 3 "b" [] none []], t 4 "x<y"], r 5 [t 6 "z"]] ⟨RState.init, []⟩).map (fun st => st.r.runs) =
    .ok [{ style := [lit "b"], text := lit "x&lt;y" }, { style := [], text := lit "z" }] := by decide +kernel
end Ex

end D2P
