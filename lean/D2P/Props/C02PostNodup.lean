import D2P.Props.C02PostAny
/-!
# C02 — "exactly once", literally

The identities are the numbers the parser gives the elements of a part; they are pairwise distinct
(`uniqueIds`, decidable, evaluated by the driver on every input).  `post x` lists each `w:p` the walk
descends to once, so it has no duplicates, and with `C02_post_part` / `C02_post_part_any` neither have the
identities of the records: no source paragraph is recorded twice (copies for merged cells carry no identity).
-/
namespace D2P

mutual
/-- the identities of all elements, document order -/
def allIds : Xml → List Nat
  | .elem i _ _ _ _ _ _ ks => i :: allIdsL ks
  | _ => []
def allIdsL : List Xml → List Nat
  | [] => []
  | k :: ks => allIds k ++ allIdsL ks
end

def uniqueIds (x : Xml) : Bool := decide (allIds x).Nodup

mutual
theorem post_count (n : Nat) : (x : Xml) → (post x).count n ≤ (allIds x).count n
  | .elem i p t m a tx tl ks => by
    have ih := postL_count n ks
    have h1 : (if descends (.elem i p t m a tx tl ks) then postL ks else []).count n ≤ (allIdsL ks).count n := by
      split
      · exact ih
      · simp
    have h2 : (if tagMember (Xml.elem i p t m a tx tl ks).ptag = some "PARAGRAPH" then [i] else []).count n ≤ (if i == n then 1 else 0) := by
      split
      · simp [List.count_cons]
      · simp
    simp only [post, allIds, List.count_append, List.count_cons, List.count_nil]
    omega
  | .comment _ _ => by simp [post]
  | .pi _ => by simp [post]
theorem postL_count (n : Nat) : (xs : List Xml) → (postL xs).count n ≤ (allIdsL xs).count n
  | [] => by simp [postL]
  | k :: ks => by
    have h1 := post_count n k
    have h2 := postL_count n ks
    simp only [postL, allIdsL, List.count_append]
    omega
end

/-- every paragraph occurs once in the closing order -/
theorem post_nodup (x : Xml) (h : uniqueIds x = true) : (post x).Nodup := by
  have hu : (allIds x).Nodup := by simpa [uniqueIds] using h
  rw [List.nodup_iff_count] at hu ⊢
  intro n
  exact Nat.le_trans (post_count n x) (hu n)

/-- **C02, exactly once**: in a part whose elements have pairwise distinct identities no source paragraph is recorded twice —
any tree, either setting of `duplicate_merged_cells` -/
theorem C02_post_nodup (cfg : PartCfg) (num : Dict Str (List NumAttr)) (root : Xml) (c : Bool) (dc : DC)
    (hu : uniqueIds root = true) (h : newDepthCollector cfg num root c = .ok dc) : (elemsOf (leafParsL dc.root)).Nodup :=
  (C02_post_part_any cfg num root c dc h).nodup (post_nodup root hu)

end D2P
