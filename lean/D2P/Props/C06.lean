import D2P.Model.Merge
/-!
# C06 — run and link splitting is invisible: the merge step on a split pair

`C06_split_pair`: two sibling elements with the same merge key (two runs with the same
recognised formatting, two hyperlinks to the same target and anchor, two `w:t`) that are
separated only by content-free markup are merged into the first one, which receives the
children of both in order; the content-free sibling stays. This is the single step from which
invariance under arbitrary splitting follows by induction on the number of pieces
(`C06_invariance`, with `C06_merge_idempotent` — still to do, DESIGN §9/C06).
-/
namespace D2P

theorem C06_split_pair (cfg : PartCfg) (r1 n r2 : Xml) (k : ElemKey) (i1 i2 : Nat)
    (h1 : hasContent r1 = true) (h2 : hasContent r2 = true) (hn : hasContent n = false)
    (k1 : elemKey cfg r1 = .ok k) (k2 : elemKey cfg r2 = .ok k)
    (hm : isMergeable r1 = true) (ht : isTextLike r1 = false)
    (id1 : r1.id? = some i1) (id2 : r2.id? = some i2) (hne : i1 ≠ i2) (hnn : n.id? ≠ some i1 ∧ n.id? ≠ some i2) :
    mergeLevel cfg [r1, n, r2] = .ok [setTextKids r1 r1.text? (r1.kids ++ r2.kids), n] := by
  unfold mergeLevel
  simp only [List.filter_cons, h1, hn, h2, if_true, Bool.false_eq_true, if_false, List.filter_nil, keyed, k1, k2, ok_bind]
  show (Except.ok ((groupAdj [(k, r1), (k, r2)]).foldl applyGroup [r1, n, r2]) : M (List Xml)) = _
  have hg : groupAdj [(k, r1), (k, r2)] = [[r1, r2]] := by
    simp [groupAdj]
  rw [hg]
  simp only [List.foldl_cons, List.foldl_nil]
  congr 1
  unfold applyGroup
  simp only [List.isEmpty_cons, Bool.false_or, hm, Bool.not_true, Bool.false_eq_true, if_false, ht,
    List.flatMap_cons, List.flatMap_nil, List.append_nil, List.filterMap_cons, List.filterMap_nil, id2, id1]
  have e12 : ([i2].contains i1) = false := by simp [hne]
  have e22 : ([i2].contains i2) = true := by simp
  simp only [e12, e22, Bool.false_eq_true, if_false, beq_self_eq_true, if_true]
  -- the content-free sibling in the middle is neither removed nor changed
  cases hni : n.id? with
  | none => simp
  | some j =>
    have hj1 : j ≠ i1 := fun e => hnn.1 (by rw [hni, e])
    have hj2 : j ≠ i2 := fun e => hnn.2 (by rw [hni, e])
    have c1 : ([i2].contains j) = false := by simp [hj2]
    have c2 : (some j == some i1) = false := by simp [hj1]
    simp [c1, c2, hj2]

end D2P
