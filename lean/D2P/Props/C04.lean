import D2P.Proofs.ShapeWalk
/-!
# C04 — tables come out n×m: what closing a spanning cell does to its row

`C04_span_cells`: when a cell with `gridSpan = g` closes with the caret in its row, the row
receives exactly `g − 1` further cells: copies of the cell's paragraphs when
`duplicate_merged_cells` is on, cells holding a single empty paragraph when it is off — so a
cell occupies one position per grid column it spans; everything else in the tree is unchanged.
The assembly into the full n×m statement (`C04_grid`: rows, vertical continuation, induction
over the table) is still to do — DESIGN §9/C04.
-/
namespace D2P

theorem setCaret3_root (s s' : DC) (h3 : 3 ≤ s.depth) (h4 : s.depth ≤ 4) (h : s.setCaret (some 3) none = .ok s') :
    s'.root = s.root ∧ s'.depth = 3 := by
  unfold DC.setCaret at h
  have hd : s.depth = 3 ∨ s.depth = 4 := by omega
  rcases hd with hd | hd
  · simp only [DC.setCaretAux, hd, beq_self_eq_true, if_true] at h
    have := pure_ok h; subst this; exact ⟨rfl, rfl⟩
  · have e1 : (s.depth == 3) = false := by simp [hd]
    have e2 : ¬ s.depth < 3 := by omega
    simp only [DC.setCaretAux, e1, Bool.false_eq_true, if_false, e2] at h
    obtain ⟨s1, h1, h⟩ := bind_ok h
    unfold DC.raise at h1
    have e3 : (({ s with lineage := s.lineage.set 3 none } : DC).depth == 1) = false := by simp [hd]
    simp only [e3, Bool.false_eq_true, if_false] at h1
    have := pure_ok h1; subst this
    simp only [hd, Nat.add_one_sub_one, beq_self_eq_true, if_true] at h
    have := pure_ok h; subst this
    exact ⟨rfl, by simp [hd]⟩

theorem getRow_setRow (root : List Nest) (ti ri : Nat) (cells cells' : List Nest) (h : getRow root ti ri = .ok cells) :
    getRow (setRow root ti ri cells') ti ri = .ok cells' := by
  unfold getRow at h ⊢
  unfold setRow
  split at h
  · rename_i rows ht
    split at h
    · rename_i cs hr
      have hti : ti < root.length := by
        rcases Nat.lt_or_ge ti root.length with hlt | hge
        · exact hlt
        · simp [List.getElem?_eq_none hge] at ht
      have hri : ri < rows.length := by
        rcases Nat.lt_or_ge ri rows.length with hlt | hge
        · exact hlt
        · simp [List.getElem?_eq_none hge] at hr
      simp only [List.getElem?_modify, ht, Option.map_some, if_true]
      simp only [Option.map_eq_map, Option.map_some, List.getElem?_set, hri, if_true]
      rfl
    · simp at h
  · simp at h

theorem setRow_setRow (root : List Nest) (ti ri : Nat) (c1 c2 : List Nest) :
    setRow (setRow root ti ri c1) ti ri c2 = setRow root ti ri c2 := by
  unfold setRow
  rw [List.modify_modify_eq]
  congr 1
  funext x
  cases x with
  | par p => rfl
  | list rows => simp [Function.comp, List.set_set]

mutual
theorem markCopy_idem : (x : Nest) → markCopyT (markCopyT x) = markCopyT x
  | .par p => by simp [markCopyT]
  | .list xs => by simp only [markCopyT]; rw [markCopyL_idem xs]
theorem markCopyL_idem : (xs : List Nest) → markCopyL (markCopyL xs) = markCopyL xs
  | [] => rfl
  | x :: xs => by simp only [markCopyL]; rw [markCopy_idem x, markCopyL_idem xs]
end

/-- the cell added for one further grid column -/
def spanCell (dup : Bool) (last : Nest) : Nest := if dup then markCopyT last else .list [.par emptyPar]

theorem newCell_append (dup : Bool) (cells : List Nest) (last : Nest) (k : Nat) (hl : cells.getLast? = some last) :
    newCell dup (cells ++ List.replicate k (spanCell dup last)) = spanCell dup last := by
  unfold newCell spanCell
  cases dup with
  | false => rfl
  | true =>
    cases k with
    | zero => simp [hl]
    | succ k =>
      have : (cells ++ List.replicate (k + 1) (markCopyT last)).getLast? = some (markCopyT last) := by
        rw [List.replicate_succ']; simp [← List.append_assoc]
      simp only [if_true, this, markCopy_idem]

/-- **C04: a cell spanning `n + 1` grid columns.** -/
theorem C04_span_cells (dup : Bool) (ti ri : Nat) (cells : List Nest) (last : Nest) (hl : cells.getLast? = some last) :
    ∀ (n : Nat) (k : Nat) (s s' : DC), 3 ≤ s.depth → s.depth ≤ 4 →
      getRow s.root ti ri = .ok (cells ++ List.replicate k (spanCell dup last)) →
      iterateM (spanStep dup ti ri) n s = .ok s' →
      s'.root = setRow s.root ti ri (cells ++ List.replicate (k + n) (spanCell dup last)) := by
  intro n
  induction n with
  | zero =>
    intro k s s' _ _ hg h
    simp only [iterateM] at h; have := pure_ok h; subst this
    simp only [Nat.add_zero]
    -- setting the row to what it already is
    unfold getRow at hg
    unfold setRow
    split at hg
    · rename_i rows ht
      split at hg
      · rename_i cs hr
        have := pure_ok hg; subst this
        have hti : ti < s.root.length := by
          rcases Nat.lt_or_ge ti s.root.length with hlt | hge
          · exact hlt
          · simp [List.getElem?_eq_none hge] at ht
        apply List.ext_getElem?
        intro j
        simp only [List.getElem?_modify]
        by_cases hj : ti = j
        · subst hj
          simp only [ht, Option.map_some, if_true]
          congr 2
          apply List.ext_getElem?
          intro j2
          simp only [List.getElem?_set]
          by_cases hj2 : ri = j2
          · subst hj2
            have : ri < rows.length := by
              rcases Nat.lt_or_ge ri rows.length with hlt | hge
              · exact hlt
              · simp [List.getElem?_eq_none hge] at hr
            simp only [this, if_true]
            exact hr
          · simp [hj2]
        · simp [hj]
      · simp at hg
    · simp at hg
  | succ n ih =>
    intro k s s' h3 h4 hg h
    simp only [iterateM] at h
    obtain ⟨s1, h1, h⟩ := bind_ok h
    unfold spanStep at h1
    obtain ⟨s0, h0, h1⟩ := bind_ok h1
    obtain ⟨hr0, hd0⟩ := setCaret3_root s s0 h3 h4 h0
    obtain ⟨thisTr, hg0, h1⟩ := bind_ok h1
    have := pure_ok h1; subst this
    rw [hr0, hg] at hg0
    have := (Except.ok.inj hg0).symm; subst this
    rw [newCell_append dup cells last k hl] at h
    have hg1 : getRow (setRow s0.root ti ri (cells ++ List.replicate k (spanCell dup last) ++ [spanCell dup last])) ti ri
        = .ok (cells ++ List.replicate (k + 1) (spanCell dup last)) := by
      rw [getRow_setRow _ _ _ _ _ (by rw [hr0]; exact hg)]
      rw [List.append_assoc, ← List.replicate_succ']
    have := ih (k + 1) _ s' (by simp [hd0]) (by simp [hd0]) hg1 h
    rw [this, setRow_setRow, hr0]
    have : k + 1 + n = k + (n + 1) := by omega
    rw [this]

end D2P
