import D2P.Props.C05Post
import D2P.Props.C02PostAny
/-!
# C05 — element, style and table lineage of every record: every tree, BOTH settings

`C05_post_part` needs duplication off or a part without vertical-merge continuations (it also states the
identities are exactly `post root`).  The record-wise half needs neither: a vertical copy only REMOVES
records with an identity (`vmergeDo_subM`), so for every tree and either setting every record with an
identity is still the record of a source paragraph the walk descends to, with that paragraph's style id
and — below a cell — the table lineage: `C05_post_part_any`.  (C05's checker runs with duplication on.)
-/
namespace D2P

theorem metaL_set_row_sub (cells' : List Nest) :
    ∀ (rows : List Nest) (ri : Nat) (cells : List Nest), rows[ri]? = some (.list cells) → (metaL cells').Sublist (metaL cells) →
      (metaL (rows.set ri (.list cells'))).Sublist (metaL rows)
  | [], _, _, h, _ => by simp at h
  | r :: rows, 0, cells, h, hc => by
    simp only [List.getElem?_cons_zero, Option.some.injEq] at h
    subst h
    simp only [List.set_cons_zero, metaL_cons, leafParsT]
    exact List.Sublist.append hc (List.Sublist.refl _)
  | r :: rows, ri+1, cells, h, hc => by
    simp only [List.getElem?_cons_succ] at h
    simp only [List.set_cons_succ, metaL_cons]
    exact List.Sublist.append (List.Sublist.refl _) (metaL_set_row_sub cells' rows ri cells h hc)

theorem metaL_setRow_sub (cells' : List Nest) :
    ∀ (root : List Nest) (ti ri : Nat) (cells : List Nest), getRow root ti ri = .ok cells → (metaL cells').Sublist (metaL cells) →
      (metaL (setRow root ti ri cells')).Sublist (metaL root)
  | [], ti, ri, cells, h, _ => by simp [getRow] at h
  | t :: root, 0, ri, cells, h, hc => by
    unfold getRow at h
    simp only [List.getElem?_cons_zero] at h
    cases t with
    | par p => simp at h
    | list rows =>
      simp only at h
      cases hr : rows[ri]? with
      | none => simp [hr] at h
      | some r =>
        cases r with
        | par p => simp [hr] at h
        | list cs =>
          simp only [hr, pure, Except.pure, Except.ok.injEq] at h
          subst h
          have e : setRow (Nest.list rows :: root) 0 ri cells' = Nest.list (rows.set ri (.list cells')) :: root := by
            simp [setRow, List.modify]
          rw [e, metaL_cons, metaL_cons, leafParsT, leafParsT]
          exact List.Sublist.append (metaL_set_row_sub cells' rows ri cs hr hc) (List.Sublist.refl _)
  | t :: root, ti+1, ri, cells, h, hc => by
    have h' : getRow root ti ri = .ok cells := by
      unfold getRow at h ⊢
      simpa only [List.getElem?_cons_succ] using h
    have e : setRow (t :: root) (ti + 1) ri cells' = t :: setRow root ti ri cells' := by
      simp [setRow, List.modify]
    rw [e, metaL_cons, metaL_cons]
    exact List.Sublist.append (List.Sublist.refl _) (metaL_setRow_sub cells' root ti ri cells h' hc)

theorem vmergeDo_subM (ti ri : Nat) (s s' : DC) (h : vmergeDo ti ri s = .ok s') : (metaL s'.root).Sublist (metaL s.root) := by
  unfold vmergeDo at h
  obtain ⟨s1, h1, h⟩ := bind_ok h
  have f1 := (setCaret_frame s s1 _ _ h1).leaves
  have e1 : metaL s1.root = metaL s.root := by unfold metaL; rw [f1]
  obtain ⟨thisTr, hg, h⟩ := bind_ok h
  obtain ⟨prevTr, _, h⟩ := bind_ok h
  split at h
  · have := pure_ok h; subst this; rw [e1]; exact List.Sublist.refl _
  · rename_i hne
    split at h
    · have := pure_ok h; subst this; rw [e1]; exact List.Sublist.refl _
    · rename_i above _
      have := pure_ok h; subst this
      show (metaL (setRow s1.root ti ri (thisTr.dropLast ++ [markCopyT above]))).Sublist _
      rw [← e1]
      refine metaL_setRow_sub _ s1.root ti ri thisTr hg ?_
      have hne' : thisTr ≠ [] := by intro e; rw [e] at hne; simp at hne
      have hsp : thisTr = thisTr.dropLast ++ [thisTr.getLast hne'] := (List.dropLast_concat_getLast hne').symm
      conv => rhs; rw [hsp]
      rw [metaL_append, metaL_append]
      refine List.Sublist.append (List.Sublist.refl _) ?_
      have : metaL [markCopyT above] = [] := by
        rw [metaL_cons, markCopy_meta]; rfl
      rw [this]; exact List.nil_sublist _

theorem closeTableCell_subM (dup : Bool) (s s' : DC) (tc : Xml) (h : closeTableCell dup s tc = .ok s') :
    (metaL s'.root).Sublist (metaL s.root) := by
  unfold closeTableCell at h
  split at h
  · have := pure_ok h; subst this; exact List.Sublist.refl _
  · obtain ⟨pr, _, h⟩ := bind_ok h
    obtain ⟨_, _, h⟩ := bind_ok h
    split at h
    · have := pure_ok h; subst this; exact List.Sublist.refl _
    · obtain ⟨s1, h1, h⟩ := bind_ok h
      obtain ⟨n, _, h⟩ := bind_ok h
      have k1 : (metaL s1.root).Sublist (metaL s.root) := by
        unfold vmergeStep at h1
        split at h1
        · exact vmergeDo_subM _ _ s s1 h1
        · have := pure_ok h1; subst this; exact List.Sublist.refl _
      rw [iterateM_metaL (spanStep dup _ _) (fun a b hab => spanStep_metaL dup _ _ a b hab) n s1 s' h]
      exact k1

theorem closeStepCore_subM (cfg : PartCfg) (s s' : DC) (x : Xml)
    (hm : tagMember x.ptag ≠ some "PARAGRAPH") (h : closeStepCore cfg s x = .ok s') :
    (metaL s'.root).Sublist (metaL s.root) ∧ stackM s' = stackM s := by
  unfold closeStepCore at h
  split at h
  · rename_i hm'; exact absurd hm' hm
  · have q := commenceRun_quietM cfg.html s s' none h
    exact ⟨by rw [q.closed]; exact List.Sublist.refl _, q.stack⟩
  · exact ⟨closeTableCell_subM cfg.dup s s' x h, by unfold stackM; rw [closeTableCell_openPars cfg.dup s s' x h]⟩
  · have := pure_ok h; subst this; exact ⟨List.Sublist.refl _, rfl⟩

mutual
/-- **element, style and table lineage of every record: any tree, either setting** -/
theorem walk_postM_sub (cfg : PartCfg) (num : Dict Str (List NumAttr)) :
    (x : Xml) → (c : Bool) → (s s' : DC) → Sole (elems s) → walk cfg num c s x = .ok s' →
      ∃ ms, (metaL s'.root).Sublist (metaL s.root ++ ms) ∧ AllRec ms (postX c x) ∧ stackM s' = stackM s
  | .elem i p t m a tx tl ks, c, s, s', hs, h => by
    simp only [walk] at h
    obtain ⟨s1, h1, h⟩ := bind_ok h
    unfold DC.setCaretOpen at h1
    obtain ⟨s0, h0, h1⟩ := bind_ok h1
    obtain ⟨hs0, ha0⟩ := flushImplicit_sole s s0 _ hs h0
    have f1 := setCaret_frame s0 s1 _ _ h1
    have q1 : QuietM s s1 := (flushImplicit_quietM s s0 _ h0).trans (quietM_of_frame f1)
    have q1i : Quiet s s1 := (flushImplicit_quiet s s0 _ h0).trans (quiet_of_frame f1)
    have e1 : elems s1 = elems s0 := by simp [elems, f1.openPars]
    obtain ⟨roots, _, h⟩ := bind_ok h
    obtain ⟨⟨s2, rec⟩, h2, h⟩ := bind_ok h
    have hrec := openStep_rec cfg s1 s2 _ c roots rec h2
    have hs2 : Sole (elems s2) := by
      rcases openStep_elems cfg s1 s2 _ c roots rec h2 with ⟨hm, e2⟩ | hsoft
      · have hpt := par_of_member _ hm
        have hdp := elemDepth_par (.elem i p t m a tx tl ks) hpt rfl
        have a1 : AllSome (elems s1) := by rw [e1]; exact ha0 (by rw [hdp]; rfl)
        refine Or.inl ?_
        rw [e2]
        intro e he
        rcases List.mem_append.1 he with he | he
        · exact a1 e he
        · simp at he; subst he; rfl
      · rcases hsoft with hsoft | hdrop
        · exact hsoft.sole (by rw [e1]; exact hs0)
        · rw [hdrop]; exact sole_dropLast (by rw [e1]; exact hs0)
    obtain ⟨s3, h3, h⟩ := bind_ok h
    have k3 : ∃ ms, (metaL s3.root).Sublist (metaL s2.root ++ ms) ∧
        AllRec ms (if descends (.elem i p t m a tx tl ks) then postXL (c || isCellTag (.elem i p t m a tx tl ks)) ks else []) ∧
        stackM s3 = stackM s2 ∧ stackIds s3 = stackIds s2 ∧ Sole (elems s3) := by
      simp only at h3
      rw [hrec] at h3
      split at h3
      · rename_i hdsc
        obtain ⟨ms, e, ar, g⟩ := walkL_postM_sub cfg num ks _ s2 s3 hs2 h3
        exact ⟨ms, e, by rw [if_pos hdsc]; exact ar, g, (walkL_post_sub cfg num ks _ s2 s3 hs2 h3).2, walkL_sole cfg num ks _ s2 s3 hs2 h3⟩
      · have := pure_ok h3; subst this
        exact ⟨[], by simp, AllRec.nil _, rfl, rfl, hs2⟩
    obtain ⟨ms3, e3, ar3, g3, g3i, hs3⟩ := k3
    obtain ⟨s4, h4, h⟩ := bind_ok h
    obtain ⟨s3', h3', h4⟩ := closeStep_split cfg s3 s4 _ h4
    have hs3' := (flushImplicit_sole s3 s3' _ hs3 h3').1
    have q3' := flushImplicit_quietM s3 s3' _ h3'
    have q3'i := flushImplicit_quiet s3 s3' _ h3'
    have q5 := quietM_of_frame (setCaret_frame s4 s' _ _ h)
    by_cases hm : tagMember (Xml.elem i p t m a tx tl ks).ptag = some "PARAGRAPH"
    · have e : openStep cfg s1 (.elem i p t m a tx tl ks) c roots = withTrue (openParagraph cfg s1 (.elem i p t m a tx tl ks) c) := by
        unfold openStep; rw [hm]; rfl
      rw [e] at h2
      have h2' := (withTrue_ok h2).1
      obtain ⟨c2, st, lin, hst2, hgs, hlin⟩ := openParagraph_meta cfg s1 s2 _ c i rfl h2'
      have e2 := openParagraph_elems cfg s1 s2 _ c h2'
      have st2 : stackIds s2 = stackIds s1 ++ [i] := by simp [stackIds, e2, Xml.id?]
      have st3' : stackIds s3' = stackIds s1 ++ [i] := by rw [q3'i.stack, g3i, st2]
      obtain ⟨hlast, _⟩ := sole_last (elems s3') _ i hs3' st3'
      have hcore : closeStepCore cfg s3' (.elem i p t m a tx tl ks) = s3'.concludePar := by unfold closeStepCore; rw [hm]; rfl
      rw [hcore] at h4
      have hl : ∃ q, s3'.openPars.getLast? = some q ∧ q.elem = some i := by
        unfold elems at hlast
        rw [List.getLast?_map] at hlast
        cases hq : s3'.openPars.getLast? with
        | none => rw [hq] at hlast; cases hlast
        | some q => rw [hq] at hlast; exact ⟨q, rfl, Option.some.inj hlast⟩
      obtain ⟨q, hq, hqe⟩ := hl
      obtain ⟨c4, o4⟩ := concludePar_meta s3' s4 q hq h4
      -- the meta of the record on top of the stack is the one pushed when the paragraph was opened
      have hstk : stackM s3' = stackM s1 ++ [(i, st, lin)] := by rw [q3'.stack, g3, hst2]
      have hsplit : stackM s3' = metaPs s3'.openPars.dropLast ++ [(i, q.style, q.lineage)] := by
        unfold stackM
        conv => lhs; rw [last_split s3'.openPars q hq]
        rw [metaPs_append]
        simp [metaPs, metaOf, hqe]
      have hinj := List.append_inj' (hstk.symm.trans hsplit) rfl
      have hmq : metaOf q = some (i, st, lin) := by
        have := hinj.2
        simp only [List.cons.injEq, and_true] at this
        simp [metaOf, hqe, ← this]
      refine ⟨ms3 ++ [(i, st, lin)], ?_, ?_, ?_⟩
      · rw [q5.closed, c4, q3'.closed, hmq]
        rw [c2, q1.closed] at e3
        simp only [Option.toList]
        rw [← List.append_assoc]
        exact List.Sublist.append e3 (List.Sublist.refl _)
      · simp only [postX, hm, if_true]
        exact AllRec.append ar3 (by
          intro m' hm'
          simp only [List.mem_singleton] at hm'
          subst hm'
          exact ⟨(.elem i p t m a tx tl ks, c), by simp, rfl, hgs, hlin⟩)
      · rw [q5.stack]
        unfold stackM
        rw [o4]
        show metaPs s3'.openPars.dropLast = _
        rw [← hinj.1, q1.stack]; rfl
    · have q2 := openStep_quietM cfg s1 s2 _ c roots rec hm h2
      obtain ⟨c4, g4⟩ := closeStepCore_subM cfg s3' s4 _ hm h4
      refine ⟨ms3, ?_, ?_, ?_⟩
      · rw [q5.closed]
        rw [q2.closed, q1.closed] at e3
        rw [← q3'.closed] at e3
        exact c4.trans e3
      · simp only [postX, hm, if_false, List.append_nil]; exact ar3
      · rw [q5.stack, g4, q3'.stack, g3, q2.stack, q1.stack]
  | .comment _ _, c, s, s', hs, h => by
    simp only [walk] at h; have := pure_ok h; subst this; exact ⟨[], by simp, AllRec.nil _, rfl⟩
  | .pi _, c, s, s', hs, h => by
    simp only [walk] at h; have := pure_ok h; subst this; exact ⟨[], by simp, AllRec.nil _, rfl⟩
theorem walkL_postM_sub (cfg : PartCfg) (num : Dict Str (List NumAttr)) :
    (xs : List Xml) → (c : Bool) → (s s' : DC) → Sole (elems s) → walkL cfg num c s xs = .ok s' →
      ∃ ms, (metaL s'.root).Sublist (metaL s.root ++ ms) ∧ AllRec ms (postXL c xs) ∧ stackM s' = stackM s
  | [], c, s, s', hs, h => by
    simp only [walkL] at h; have := pure_ok h; subst this; exact ⟨[], by simp, AllRec.nil _, rfl⟩
  | k :: ks, c, s, s', hs, h => by
    simp only [walkL] at h
    obtain ⟨s1, h1, h⟩ := bind_ok h
    obtain ⟨m1, e1, a1, g1⟩ := walk_postM_sub cfg num k c s s1 hs h1
    obtain ⟨m2, e2, a2, g2⟩ := walkL_postM_sub cfg num ks c s1 s' (walk_sole cfg num k c s s1 hs h1) h
    refine ⟨m1 ++ m2, ?_, by simp only [postXL]; exact AllRec.append a1 a2, g2.trans g1⟩
    rw [← List.append_assoc]
    exact e2.trans (List.Sublist.append e1 (List.Sublist.refl _))
end

/-- **C05 for every content part and BOTH settings**: every record `new_depth_collector` returns that has an identity is the
record of a `w:p` element `y` of the part the walk descends to: it points at `y`, reports `y`'s paragraph style id and — if `y`
stands below a `w:tc` — the lineage ("document", "tbl", "tr", "tc", "p") -/
theorem C05_post_part_any (cfg : PartCfg) (num : Dict Str (List NumAttr)) (root : Xml) (c : Bool) (dc : DC)
    (h : newDepthCollector cfg num root c = .ok dc) : AllRec (metaL dc.root) (postX c root) := by
  unfold newDepthCollector at h
  obtain ⟨s5, hw, hf⟩ := bind_ok h
  obtain ⟨ms, e, ar, _⟩ := walk_postM_sub cfg num root c _ s5 (sole_init num) hw
  have hst : stackIds s5 = [] := by rw [(walk_post_sub cfg num root c _ s5 (sole_init num) hw).2]; rfl
  have hfin := finish_metaL cfg s5 dc hst hf
  have e' : (metaL s5.root).Sublist ms := by simpa [metaL, metaPs, leafParsL] using e
  intro m hm
  rw [hfin] at hm
  exact ar m (e'.subset hm)

end D2P
