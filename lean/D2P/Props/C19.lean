import D2P.Model.Walk
/-!
# C19 — options change only what they document: `duplicate_merged_cells`

`duplicate_merged_cells` is read in exactly one place, when a table cell closes, and there only
if the cell spans several grid columns or continues a vertical merge. Hence:

* `C19_cell_unmerged`: closing a cell that neither spans (`gridSpan` ≤ 1) nor continues a
  vertical merge does the same under both settings;
* `C19_dup_irrelevant`: for a part in which no cell is merged, the whole walk — every
  record, the comment ranges, the counters — is identical under both settings.
(That switching `html` leaves the nesting skeleton, lineage, styles and list positions
unchanged, and the locality statement for merged tables, are still to do — DESIGN §9/C19.)
-/
namespace D2P

/-- the cell has no horizontal span and does not continue a vertical merge -/
def cellUnmerged (tc : Xml) : Bool :=
  match gatherPr tc with
  | .ok pr => !isContinuation pr && (match spanExtra pr with | .ok 0 => true | _ => false)
  | .error _ => true      -- `gather_Pr` raises before the option is looked at

theorem C19_cell_unmerged (s : DC) (tc : Xml) (h : cellUnmerged tc = true) :
    closeTableCell true s tc = closeTableCell false s tc := by
  unfold closeTableCell
  unfold cellUnmerged at h
  split
  · rfl
  cases hp : gatherPr tc with
  | error e => rfl
  | ok pr =>
    simp only [hp, Bool.and_eq_true, Bool.not_eq_true'] at h
    simp only [ok_bind]
    cases hc : captureRow s.root with
    | error e => rfl
    | ok cap =>
      simp only [ok_bind]
      cases cap with
      | none => rfl
      | some t =>
        obtain ⟨ti, ri, n⟩ := t
        simp only [vmergeStep, h.1, Bool.and_false, Bool.false_and, Bool.false_eq_true, if_false, ok_bind]
        cases hs : spanExtra pr with
        | error e => rfl
        | ok k =>
          have : k = 0 := by
            rw [hs] at h
            cases k with
            | zero => rfl
            | succ k => simp at h
          subst this
          simp only [ok_bind, iterateM]

def withDup (cfg : PartCfg) (d : Bool) : PartCfg := { cfg with dup := d }

mutual
/-- no table cell at or below the element is merged -/
def noMerges : Xml → Bool
  | .elem i p t m a tx tl ks =>
    (if (Xml.elem i p t m a tx tl ks).ptag == lit "w:tc" then cellUnmerged (.elem i p t m a tx tl ks) else true) && noMergesL ks
  | _ => true
def noMergesL : List Xml → Bool
  | [] => true
  | k :: ks => noMerges k && noMergesL ks
end

theorem tagMember_tc : tagMember (lit "w:tc") = some "TABLE_CELL" := by decide

theorem tc_of_member (x : Xml) (h : tagMember x.ptag = some "TABLE_CELL") : x.ptag = lit "w:tc" := by
  unfold tagMember at h
  have : ∀ e ∈ tagTable, e.2 = "TABLE_CELL" → e.1 = lit "w:tc" := by decide
  cases hf : tagTable.find? (fun e => e.1 == x.ptag) with
  | none => simp [hf] at h
  | some e =>
    simp only [hf, Option.map_some, Option.some.injEq] at h
    have hm := List.mem_of_find?_eq_some hf
    have he := List.find?_some hf
    have : e.1 = x.ptag := by simpa using he
    rw [← this]; exact ‹∀ e ∈ tagTable, e.2 = "TABLE_CELL" → e.1 = lit "w:tc"› e hm h

theorem closeStepCore_dup (cfg : PartCfg) (s : DC) (x : Xml) (h : noMerges x = true) :
    closeStepCore (withDup cfg true) s x = closeStepCore (withDup cfg false) s x := by
  unfold closeStepCore
  split
  · rfl
  · rfl
  · rename_i hm
    have hx := tc_of_member x hm
    cases x with
    | elem i p t m a tx tl ks =>
      simp only [noMerges, hx, beq_self_eq_true, if_true, Bool.and_eq_true] at h
      exact C19_cell_unmerged s _ h.1
    | comment _ _ => rfl
    | pi _ => rfl
  · rfl

theorem closeStep_dup (cfg : PartCfg) (s : DC) (x : Xml) (h : noMerges x = true) :
    closeStep (withDup cfg true) s x = closeStep (withDup cfg false) s x := by
  unfold closeStep
  congr 1; funext s0
  exact closeStepCore_dup cfg s0 x h

theorem openStep_dup (cfg : PartCfg) (s : DC) (x : Xml) (c : Bool) (roots : List (List Nest)) :
    openStep (withDup cfg true) s x c roots = openStep (withDup cfg false) s x c roots := rfl

theorem finish_dup (cfg : PartCfg) (s : DC) : finish (withDup cfg true) s = finish (withDup cfg false) s := rfl

mutual
theorem walk_dup (cfg : PartCfg) (num : Dict Str (List NumAttr)) :
    (x : Xml) → (c : Bool) → (s : DC) → noMerges x = true →
      walk (withDup cfg true) num c s x = walk (withDup cfg false) num c s x
  | .elem i p t m a tx tl ks, c, s, h => by
    have hk : noMergesL ks = true := by simp only [noMerges, Bool.and_eq_true] at h; exact h.2
    simp only [walk]
    congr 1; funext s1
    rw [textBelowL_dup cfg num ks _ hk]
    congr 1; funext roots
    rw [openStep_dup]
    congr 1; funext r
    have e3 : (if r.2 = true then walkL (withDup cfg true) num (c || isCellTag (.elem i p t m a tx tl ks)) r.1 ks else pure r.1)
        = (if r.2 = true then walkL (withDup cfg false) num (c || isCellTag (.elem i p t m a tx tl ks)) r.1 ks else pure r.1) := by
      split
      · exact walkL_dup cfg num ks _ r.1 hk
      · rfl
    rw [e3]
    congr 1; funext s3
    rw [closeStep_dup cfg s3 _ h]
  | .comment _ _, c, s, h => rfl
  | .pi _, c, s, h => rfl
theorem walkL_dup (cfg : PartCfg) (num : Dict Str (List NumAttr)) :
    (xs : List Xml) → (c : Bool) → (s : DC) → noMergesL xs = true →
      walkL (withDup cfg true) num c s xs = walkL (withDup cfg false) num c s xs
  | [], c, s, h => rfl
  | k :: ks, c, s, h => by
    simp only [noMergesL, Bool.and_eq_true] at h
    simp only [walkL]
    rw [walk_dup cfg num k c s h.1]
    congr 1; funext s1
    exact walkL_dup cfg num ks c s1 h.2
theorem textBelowL_dup (cfg : PartCfg) (num : Dict Str (List NumAttr)) :
    (xs : List Xml) → (c : Bool) → noMergesL xs = true →
      textBelowL (withDup cfg true) num c xs = textBelowL (withDup cfg false) num c xs
  | [], c, h => rfl
  | k :: ks, c, h => by
    simp only [noMergesL, Bool.and_eq_true] at h
    simp only [textBelowL]
    rw [walk_dup cfg num k c _ h.1]
    congr 1; funext dc
    rw [finish_dup]
    congr 1; funext dc1
    rw [textBelowL_dup cfg num ks c h.2]
end

/-- **C19: `duplicate_merged_cells` changes nothing where no cell is merged.** -/
theorem C19_dup_irrelevant (cfg : PartCfg) (num : Dict Str (List NumAttr)) (root : Xml) (c : Bool)
    (h : noMerges root = true) :
    newDepthCollector (withDup cfg true) num root c = newDepthCollector (withDup cfg false) num root c := by
  unfold newDepthCollector
  rw [walk_dup cfg num root c _ h]
  congr 1

end D2P
