import D2P.Props.C16
import D2P.Proofs.MergeTree
/-!
# C16 — the saved content parts are stable under reading and merging again

`DocxReader.save` writes, for every content part, the merged element tree the reader exposes.
Reading that member back from the saved archive returns that tree (`C16_read_back_target`), and
`merge_elems` returns it unchanged (`mergeElems_idem`): opening the saved file exposes the same
element tree for the part, so extraction from it walks the same tree, and saving it again writes
the same tree. The hypothesis `goodTree` (distinct identities, one prefix per namespace,
content-free property children) is evaluated by the driver on every generated part.
-/
namespace D2P

/-- the tree exposed for a content part is a fixed point of `merge_elems` under the part's configuration -/
theorem C16_exposed_tree_fixed (o : Opts) (a : Archive) (files : List Rel) (r : Rel) (root : Xml) (cr : PartCfg × Xml)
    (hct : contentTypes.contains r.type = true) (hroot : a.readXml r.path = .ok root) (hg : goodTree root = true)
    (h : rootElement o a files r = .ok cr) : mergeElems cr.1 cr.2 = .ok cr.2 := by
  unfold rootElement at h
  rw [hroot] at h
  simp only [ok_bind, hct, if_true] at h
  obtain ⟨rels, _, h⟩ := bind_ok h
  obtain ⟨m, hm, h⟩ := bind_ok h
  have := pure_ok h; subst this
  exact mergeElems_idem_checked _ root m hg hm

/-- **C16: saving the saved file reproduces its content parts.** For every content part `p` of the
input: the saved archive holds under `p` the exposed tree `y`; reading `p` back gives `y`; and
merging `y` again (what opening the saved file does before extracting or saving) gives `y`. -/
theorem C16_saved_part_stable (o : Opts) (a out : Archive) (files : List Rel) (hf : a.files = .ok files)
    (h : save o a = .ok out) (p : Str) (r : Rel) (hp : (p, r) ∈ saveTargets a files)
    (hct : contentTypes.contains r.type = true) (root : Xml) (hroot : a.readXml r.path = .ok root)
    (hg : goodTree root = true) :
    ∃ cr, rootElement o a files r = .ok cr ∧ out.readXml p = .ok cr.2 ∧ mergeElems cr.1 cr.2 = .ok cr.2 := by
  obtain ⟨cr, hcr, hrd⟩ := C16_read_back_target o a out files hf h p r hp
  refine ⟨cr, hcr, ?_, C16_exposed_tree_fixed o a files r root cr hct hroot hg hcr⟩
  unfold Archive.readXml
  rw [hrd]
  rfl

end D2P
