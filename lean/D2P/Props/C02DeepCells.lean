import D2P.Props.C02Deep
/-!
# C02 — tables of ANY shape, with `duplicate_merged_cells = False`

`regTbl` (C04) is the regular table whose cells hold flat paragraphs.  For the identities of the records
the shape does not matter: a `w:tbl` and a `w:tr` have no handler (they are `pureWrap` blocks), and a `w:tc`
with a depth is a wrapper whose close handler `_close_table_cell`, with duplication off, only pads the row
with empty paragraphs that carry no identity (`closeTableCell_ids`).  So cells may hold anything `deep`:
paragraphs with links, content controls, nested tables — `stepCell`, and `deepC` / `C02_deepC_once_in_order`.
-/
namespace D2P

def idsL (l : List Nest) : List Nat := elemsOf (leafParsL l)

theorem idsL_append (a b : List Nest) : idsL (a ++ b) = idsL a ++ idsL b := by
  simp [idsL, leafParsL_append, elemsOf_append]

theorem idsL_cons (x : Nest) (l : List Nest) : idsL (x :: l) = elemsOf (leafParsT x) ++ idsL l := by
  simp [idsL, leafParsL, elemsOf_append]

/-- appending a cell without identities to one row of a table changes no identity -/
theorem idsL_set_row (c : Nest) (hc : elemsOf (leafParsT c) = []) :
    ∀ (rows : List Nest) (ri : Nat) (cells : List Nest), rows[ri]? = some (.list cells) →
      idsL (rows.set ri (.list (cells ++ [c]))) = idsL rows
  | [], _, _, h => by simp at h
  | r :: rows, 0, cells, h => by
    simp only [List.getElem?_cons_zero, Option.some.injEq] at h
    subst h
    simp only [List.set_cons_zero, idsL_cons, leafParsT, leafParsL_append, elemsOf_append]
    simp [leafParsL, hc]
  | r :: rows, ri+1, cells, h => by
    simp only [List.getElem?_cons_succ] at h
    simp only [List.set_cons_succ, idsL_cons, idsL_set_row c hc rows ri cells h]

theorem idsL_setRow (c : Nest) (hc : elemsOf (leafParsT c) = []) :
    ∀ (root : List Nest) (ti ri : Nat) (cells : List Nest), getRow root ti ri = .ok cells →
      idsL (setRow root ti ri (cells ++ [c])) = idsL root
  | [], ti, ri, cells, h => by simp [getRow] at h
  | t :: root, 0, ri, cells, h => by
    unfold getRow at h
    simp only [List.getElem?_cons_zero] at h
    cases t with
    | par p => simp at h
    | list rows =>
      simp only at h
      cases hr : rows[ri]? with
      | none => simp [hr] at h
      | some r =>
        cases r with
        | par p => simp [hr] at h
        | list cs =>
          simp only [hr, pure, Except.pure, Except.ok.injEq] at h
          subst h
          have e : setRow (Nest.list rows :: root) 0 ri (cs ++ [c]) = Nest.list (rows.set ri (.list (cs ++ [c]))) :: root := by
            simp [setRow, List.modify]
          rw [e, idsL_cons, idsL_cons, leafParsT, leafParsT]
          have := idsL_set_row c hc rows ri cs hr
          unfold idsL at this; rw [this]
  | t :: root, ti+1, ri, cells, h => by
    have h' : getRow root ti ri = .ok cells := by
      unfold getRow at h ⊢
      simpa only [List.getElem?_cons_succ] using h
    have e : setRow (t :: root) (ti + 1) ri (cells ++ [c]) = t :: setRow root ti ri (cells ++ [c]) := by
      simp [setRow, List.modify]
    rw [e, idsL_cons, idsL_cons, idsL_setRow c hc root ti ri cells h']

theorem spanStep_ids (ti ri : Nat) (s s' : DC) (h : spanStep false ti ri s = .ok s') : idsL s'.root = idsL s.root := by
  unfold spanStep at h
  obtain ⟨s1, h1, h⟩ := bind_ok h
  have f1 := (setCaret_frame s s1 _ _ h1).leaves
  obtain ⟨thisTr, hg, h⟩ := bind_ok h
  have := pure_ok h; subst this
  show idsL (setRow s1.root ti ri (thisTr ++ [newCell false thisTr])) = _
  have hc : elemsOf (leafParsT (newCell false thisTr)) = [] := by
    simp [newCell, leafParsT, leafParsL, elemsOf, emptyPar]
  rw [idsL_setRow _ hc s1.root ti ri thisTr hg]
  unfold idsL; rw [f1]

theorem iterateM_ids (f : DC → M DC) (hf : ∀ a b, f a = .ok b → idsL b.root = idsL a.root) :
    ∀ (n : Nat) (s s' : DC), iterateM f n s = .ok s' → idsL s'.root = idsL s.root
  | 0, s, s', h => by simp only [iterateM] at h; have := pure_ok h; subst this; rfl
  | n+1, s, s', h => by
    simp only [iterateM] at h
    obtain ⟨s1, h1, h⟩ := bind_ok h
    exact (iterateM_ids f hf n s1 s' h).trans (hf s s1 h1)

/-- with duplication off `_close_table_cell` adds no identity and removes none -/
theorem closeTableCell_ids (s s' : DC) (tc : Xml) (h : closeTableCell false s tc = .ok s') : idsL s'.root = idsL s.root := by
  unfold closeTableCell at h
  split at h
  · have := pure_ok h; subst this; rfl
  · obtain ⟨_, _, h⟩ := bind_ok h
    obtain ⟨_, _, h⟩ := bind_ok h
    split at h
    · have := pure_ok h; subst this; rfl
    · obtain ⟨s1, h1, h⟩ := bind_ok h
      obtain ⟨n, _, h⟩ := bind_ok h
      have e1 : s1 = s := by
        unfold vmergeStep at h1
        simp only [Bool.false_and, Bool.false_eq_true, if_false] at h1
        exact (pure_ok h1).symm
      rw [e1] at h
      exact iterateM_ids (spanStep false _ _) (fun a b hab => spanStep_ids _ _ a b hab) n s s' h

def cellWrap (x : Xml) : Bool :=
  match x with
  | .elem _ _ _ _ _ _ _ _ => (tagMember x.ptag == some "TABLE_CELL") && (elemDepth x).isSome
  | _ => false

/-- a table cell with a depth around an admissible sequence (duplication off) -/
theorem stepCell (cfg : PartCfg) (hdup : cfg.dup = false) (num : Dict Str (List NumAttr)) (B : Xml → Bool) (I : Xml → List Nat)
    (hB : ∀ x, B x = true → Step cfg num x (I x)) (x : Xml) (hw : cellWrap x = true) (hk : seqOK B false x.kids = true) :
    Step cfg num x (x.kids.flatMap (fun k => if B k then I k else [])) := by
  cases x with
  | comment _ _ => simp [cellWrap] at hw
  | pi _ => simp [cellWrap] at hw
  | elem i pf t m a tx tl ks =>
    simp only [cellWrap, Bool.and_eq_true, beq_iff_eq] at hw
    obtain ⟨d, hd⟩ := Option.isSome_iff_exists.1 hw.2
    have hm := hw.1
    intro c s s' hs ho hq hsty h
    have hl : ((Xml.elem i pf t m a tx tl ks).ptag == hyperlinkTag) = false := by
      cases hb : ((Xml.elem i pf t m a tx tl ks).ptag == hyperlinkTag) with
      | false => rfl
      | true =>
        have e : (Xml.elem i pf t m a tx tl ks).ptag = hyperlinkTag := by simpa using hb
        rw [e, tagMember_hyperlink] at hm; simp at hm
    simp only [walk, hl, Bool.false_eq_true, if_false, hd] at h
    obtain ⟨s1, h1, h⟩ := bind_ok h
    obtain ⟨roots, hr, h⟩ := bind_ok h
    have := pure_ok hr; subst this
    have hop : openStep cfg s1 (.elem i pf t m a tx tl ks) c [] = .ok (s1, true) := by unfold openStep; rw [hm]; rfl
    rw [hop] at h
    simp only [ok_bind, if_true] at h
    obtain ⟨s3, h3, h⟩ := bind_ok h
    obtain ⟨s4, h4, h5⟩ := bind_ok h
    obtain ⟨s0, h0, hc⟩ := closeStep_split cfg s3 s4 _ h4
    rw [hd] at h0
    have hcore : closeStepCore cfg s0 (.elem i pf t m a tx tl ks) = closeTableCell false s0 (.elem i pf t m a tx tl ks) := by
      unfold closeStepCore; rw [hm, hdup]; rfl
    rw [hcore] at hc
    -- the caret step
    unfold DC.setCaretOpen at h1
    obtain ⟨sa, ha, h1⟩ := bind_ok h1
    obtain ⟨hla, hoa⟩ := flushImplicit_closes s sa d ho ha
    have ia : Inv sa := flushImplicit_preserves concludePar_inv s sa _ hs ha
    have f1 := setCaret_frame sa s1 _ _ h1
    have i1 := setCaret_inv sa s1 _ _ ia h1
    have ho1 : s1.openPars = [] := by rw [f1.openPars]; exact hoa
    have hl1 : leavesP s1 = leavesP s := by simp only [leavesP, f1.leaves, f1.openPars]; exact hla
    have qa : NoQ sa := by unfold NoQ; rw [(flushImplicit_keeps s sa _ ha).1]; exact hq
    have sta : Sty okStyles sa := flushImplicit_preserves (P := Sty okStyles) concludePar_sty s sa _ hsty ha
    have q1 : NoQ s1 := setCaret_noq sa s1 _ _ qa h1
    have st1 : Sty okStyles s1 := sty_of_frame sa s1 f1 sta
    -- the children
    obtain ⟨e3, i3, cp3, q3, st3⟩ := seq_ids cfg num B I hB ks false _ s1 s3 hk i1 (fun _ => ho1) (by intro e; cases e) q1 st1 h3
    -- the flush, then `_close_table_cell`
    obtain ⟨hl0, ho0⟩ := flushImplicit_closes s3 s0 d cp3 h0
    have i0 : Inv s0 := flushImplicit_preserves concludePar_inv s3 s0 _ i3 h0
    have q0 : NoQ s0 := by unfold NoQ; rw [(flushImplicit_keeps s3 s0 _ h0).1]; exact q3
    have st0 : Sty okStyles s0 := flushImplicit_preserves (P := Sty okStyles) concludePar_sty s3 s0 _ st3 h0
    have hids4 := closeTableCell_ids s0 s4 _ hc
    have ho4 : s4.openPars = [] := by rw [closeTableCell_openPars false s0 s4 _ hc]; exact ho0
    have i4 : Inv s4 := closeTableCell_inv false s0 s4 _ i0 hc
    have q4 : NoQ s4 := closeTableCell_noq false s0 s4 _ q0 hc
    have st4 : Sty okStyles s4 := closeTableCell_sty (okSpec cfg.html).nil false s0 s4 _ st0 hc
    have f5 := setCaret_frame s4 s' _ _ h5
    have ho5 : s'.openPars = [] := by rw [f5.openPars]; exact ho4
    refine ⟨?_, setCaret_inv s4 s' _ _ i4 h5, ho5, setCaret_noq s4 s' _ _ q4 h5, sty_of_frame s4 s' f5 st4⟩
    have e5 : idsP s' = idsL s4.root := by rw [idsP_closed s' ho5, f5.leaves]; rfl
    have e0 : idsP s0 = idsL s0.root := by rw [idsP_closed s0 ho0]; rfl
    rw [e5, hids4, ← e0, idsP_of_leavesP hl0, e3, idsP_of_leavesP hl1]; rfl

/-- `deep` with table cells as wrappers -/
def deepC : Nat → Xml → Bool
  | 0, x => (isFlatPar x || regTbl x || isSimplePar x) && noNotes x
  | n+1, x => deepC n x || ((pureWrap x || cellWrap x) && seqOK (deepC n) false x.kids)

def outC : Nat → Xml → List Nat
  | 0, x => if isFlatPar x || regTbl x then blockParIds x else idsOf [x]
  | n+1, x => if deepC n x then outC n x else if pureWrap x || cellWrap x then x.kids.flatMap (fun k => if deepC n k then outC n k else []) else []

theorem deepC_step (cfg : PartCfg) (hd : cfg.dup = false) (num : Dict Str (List NumAttr)) :
    ∀ (n : Nat) (x : Xml), deepC n x = true → Step cfg num x (outC n x)
  | 0, x, hx => step0 cfg hd num x hx
  | n+1, x, hx => by
    by_cases h0 : deepC n x = true
    · have : outC (n+1) x = outC n x := by simp [outC, h0]
      rw [this]; exact deepC_step cfg hd num n x h0
    · have h0f : deepC n x = false := by simpa using h0
      simp only [deepC, h0f, Bool.false_or, Bool.and_eq_true, Bool.or_eq_true] at hx
      have : outC (n+1) x = x.kids.flatMap (fun k => if deepC n k then outC n k else []) := by
        rcases hx.1 with hw | hw <;> simp [outC, h0f, hw]
      rw [this]
      rcases hx.1 with hw | hw
      · exact stepWrap cfg num (deepC n) (outC n) (fun k hk => deepC_step cfg hd num n k hk) x hw hx.2
      · exact stepCell cfg hd num (deepC n) (outC n) (fun k hk => deepC_step cfg hd num n k hk) x hw hx.2

/-- **C02, exactly once and in document order, through nested block wrappers, tables of any shape and stray inline content**
(`duplicate_merged_cells = False`): for a part whose root is a wrapper (header, footer, body …) and whose
children are, in sequence, `deep n` blocks, ignored markup and groups of inline content outside
paragraphs, the identities read off the leaf paragraphs `new_depth_collector` returns are exactly the
identities of the source paragraphs in document order, each once. -/
theorem C02_deepC_once_in_order (cfg : PartCfg) (hd : cfg.dup = false) (num : Dict Str (List NumAttr)) (c : Bool) (dc : DC) (n : Nat)
    (i : Nat) (pf : Option Str) (t : QName) (m : NsMap) (a : List (QName × Str)) (tx tl : Option Str) (ks : List Xml)
    (hm : wrapperTag (Xml.elem i pf t m a tx tl ks).ptag) (hok : seqOK (deepC n) false ks = true)
    (hn : noNotes (.elem i pf t m a tx tl ks) = true)
    (h : newDepthCollector cfg num (.elem i pf t m a tx tl ks) c = .ok dc) :
    elemsOf (leafParsL dc.root) = ks.flatMap (fun k => if deepC n k then outC n k else []) := by
  unfold newDepthCollector at h
  obtain ⟨s5, hw, hf⟩ := bind_ok h
  have hq5 : s5.queued = [] := walk_noq cfg num _ hn c _ s5 (show NoQ ({ bullets := { numAttrs := num } } : DC) from rfl) hw
  obtain ⟨s1, s3, s4, h1, h3, h4, h5⟩ := walk_wrapper cfg num c _ s5 i pf t m a tx tl ks hm hw
  have i0 : Inv ({ bullets := { numAttrs := num } } : DC) := init_inv _
  rw [setCaretOpen_noImpl _ _ _ (noImpl_of_closed rfl)] at h1
  have f1 := setCaret_frame _ s1 _ _ h1
  have i1 := setCaret_inv _ s1 _ _ i0 h1
  have ho1 : s1.openPars = [] := by rw [f1.openPars]
  have hl1 : leafParsL s1.root = [] := by rw [f1.leaves]; rfl
  have st0 : Sty okStyles ({ bullets := { numAttrs := num } } : DC) := ⟨by intro p hp; simp [leafParsL] at hp, by simp, by simp⟩
  have q1 : NoQ s1 := setCaret_noq _ s1 _ _ (show NoQ ({ bullets := { numAttrs := num } } : DC) from rfl) h1
  have st1 : Sty okStyles s1 := sty_of_frame _ s1 f1 st0
  obtain ⟨e3, _, cp3, _, _⟩ := seq_ids cfg num (deepC n) (outC n) (fun k hk => deepC_step cfg hd num n k hk) ks false _ s1 s3 hok i1 (fun _ => ho1) (by intro e; cases e) q1 st1 h3
  obtain ⟨hl4, hfin4, _⟩ := flushImplicit_leavesP s3 s4 _ cp3 h4
  have f5 := setCaret_frame s4 s5 _ _ h5
  have hfin5 : s5.openPars = [] ∨ ∃ p, s5.openPars = [p] ∧ p.elem = none := by rw [f5.openPars]; exact hfin4
  have hl5 : leavesP s5 = leavesP s4 := by simp [leavesP, f5.leaves, f5.openPars]
  rw [finish_leaves cfg s5 dc hq5 hfin5 hf]
  have : elemsOf (leavesP s5) = idsP s3 := by rw [hl5, hl4]; rfl
  rw [this, e3]
  simp [idsP, leavesP, hl1, ho1, elemsOf]

/-- the same for the main document part: `w:document` holding one `w:body` -/
theorem C02_deepC_document (cfg : PartCfg) (hd : cfg.dup = false) (num : Dict Str (List NumAttr)) (c : Bool) (dc : DC) (n : Nat)
    (i : Nat) (pf : Option Str) (t : QName) (m : NsMap) (a : List (QName × Str)) (tx tl : Option Str)
    (i' : Nat) (pf' : Option Str) (t' : QName) (m' : NsMap) (a' : List (QName × Str)) (tx' tl' : Option Str) (ks : List Xml)
    (hdoc : (Xml.elem i pf t m a tx tl [.elem i' pf' t' m' a' tx' tl' ks]).ptag = documentTag)
    (hb : (Xml.elem i' pf' t' m' a' tx' tl' ks).ptag = bodyTag) (hok : seqOK (deepC n) false ks = true)
    (hn : noNotes (.elem i pf t m a tx tl [.elem i' pf' t' m' a' tx' tl' ks]) = true)
    (h : newDepthCollector cfg num (.elem i pf t m a tx tl [.elem i' pf' t' m' a' tx' tl' ks]) c = .ok dc) :
    elemsOf (leafParsL dc.root) = ks.flatMap (fun k => if deepC n k then outC n k else []) := by
  have tmd : tagMember documentTag = some "DOCUMENT" := by decide
  have tmb : tagMember bodyTag = some "BODY" := by decide
  have wd : wrapperTag (Xml.elem i pf t m a tx tl [.elem i' pf' t' m' a' tx' tl' ks]).ptag := by rw [hdoc]; exact Or.inr (Or.inr tmd)
  have wb : wrapperTag (Xml.elem i' pf' t' m' a' tx' tl' ks).ptag := by rw [hb]; exact Or.inr (Or.inl tmb)
  have edd : elemDepth (.elem i pf t m a tx tl [.elem i' pf' t' m' a' tx' tl' ks]) = none := by
    unfold elemDepth; rw [hdoc]; simp
  have edb : elemDepth (.elem i' pf' t' m' a' tx' tl' ks) = none := by
    unfold elemDepth; rw [hb]; simp
  unfold newDepthCollector at h
  obtain ⟨s5, hw, hf⟩ := bind_ok h
  have hq5 : s5.queued = [] := walk_noq cfg num _ hn c _ s5 (show NoQ ({ bullets := { numAttrs := num } } : DC) from rfl) hw
  obtain ⟨s1, s3, s4, h1, h3, h4, h5⟩ := walk_wrapper cfg num c _ s5 i pf t m a tx tl _ wd hw
  rw [edd] at h1 h4 h5
  have e1 := Except.ok.inj ((setCaretOpen_none _ _).symm.trans h1)
  have e4 := Except.ok.inj ((flushImplicit_none s3).symm.trans h4)
  have e5 : s4 = s5 := Except.ok.inj (by rw [← h5]; rfl)
  subst e1; subst e4; subst e5
  simp only [walkL] at h3
  obtain ⟨sb, hwb, h3⟩ := bind_ok h3
  have := pure_ok h3; subst this
  obtain ⟨b1, b3, b4, g1, g3, g4, g5⟩ := walk_wrapper cfg num (c || isCellTag (.elem i pf t m a tx tl [.elem i' pf' t' m' a' tx' tl' ks])) _ sb i' pf' t' m' a' tx' tl' ks wb hwb
  rw [edb] at g1 g4 g5
  have f1 := Except.ok.inj ((setCaretOpen_none _ _).symm.trans g1)
  have f4 := Except.ok.inj ((flushImplicit_none b3).symm.trans g4)
  have f5 : b4 = sb := Except.ok.inj (by rw [← g5]; rfl)
  subst f1; subst f4; subst f5
  have st0 : Sty okStyles ({ bullets := { numAttrs := num } } : DC) := ⟨by intro p hp; simp [leafParsL] at hp, by simp, by simp⟩
  obtain ⟨e3, _, cp3, _, _⟩ := seq_ids cfg num (deepC n) (outC n) (fun k hk => deepC_step cfg hd num n k hk) ks false _ _ b3 hok (init_inv _) (fun _ => rfl) (by intro e; cases e) rfl st0 g3
  rw [finish_leaves cfg b3 dc hq5 cp3 hf]
  show idsP b3 = _
  rw [e3]
  simp [idsP, leavesP, leafParsL, elemsOf]

/-- decidable, evaluated by the driver (with `n` = 8 levels of wrappers: table > row > cell counts three) -/
def deepCPartOK (root : Xml) : Bool :=
  seqOK (deepC 8) false (bodyKids root) && noNotes root &&
  (match tagMember root.ptag with | none => true | some "BODY" => true | some "DOCUMENT" => true | _ => false)


end D2P
