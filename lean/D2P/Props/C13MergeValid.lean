import D2P.Props.C13Merge
import D2P.Props.C13Views
import D2P.Check.C13Src
import D2P.Props.C16Extract
/-!
# C13 — `merge_elems` keeps a valid part valid

`C13_part_total` speaks about the tree that is walked, which is the MERGED tree. Here: if the source
tree satisfies `validT`, passes `goodTree`, and resolves the prefix `w` to one namespace throughout
(`sameW`), then the merged tree satisfies `validT` — so the hypotheses of the totality theorems can be
stated on the part as it is stored.

What has to be shown is that the local facts of `validElem` survive: they look at the element's own
attributes and namespace map (untouched by the merge), at property children found by tag
(`w:pPr`, `w:tcPr`, `w:numPr` … : not mergeable, so they stay where they are, and nothing below them
changes), at the entries of a drop-down (not mergeable: they stay, with their attributes), and — for
a hyperlink — at the range markers anywhere below it, which the merge moves but never creates.
-/
namespace D2P

/-- the part of an element that the merge never touches -/
def ShellEq (y x : Xml) : Prop := y.attrs = x.attrs ∧ y.nsmap = x.nsmap ∧ y.tag? = x.tag? ∧ y.ptag = x.ptag ∧ y.isElem = x.isElem

theorem shellEq_refl (x : Xml) : ShellEq x x := ⟨rfl, rfl, rfl, rfl, rfl⟩

theorem mergeFuel_shell (cfg : PartCfg) (f : Nat) (x y : Xml) (h : mergeFuel cfg f x = .ok y) : ShellEq y x := by
  cases f with
  | zero => simp [mergeFuel] at h
  | succ f =>
    cases x with
    | comment _ _ => simp only [mergeFuel] at h; have := pure_ok h; subst this; exact shellEq_refl _
    | pi _ => simp only [mergeFuel] at h; have := pure_ok h; subst this; exact shellEq_refl _
    | elem i p t m a tx tl ks =>
      simp only [mergeFuel] at h
      obtain ⟨ks1, _, h⟩ := bind_ok h
      obtain ⟨ks2, _, h⟩ := bind_ok h
      have := pure_ok h; subst this
      exact ⟨rfl, rfl, rfl, by cases p <;> rfl, rfl⟩

theorem mergedOf_shell (a : Xml) (t : List Xml) (he : a.isElem = true) : ShellEq (mergedOf (a :: t)) a := by
  cases a with
  | comment _ _ => simp [Xml.isElem] at he
  | pi _ => simp [Xml.isElem] at he
  | elem i p tg m at' tx tl ks => exact ⟨rfl, rfl, rfl, by cases p <;> rfl, rfl⟩

/-! ## facts that only read the shell -/

theorem qn_shell (y x : Xml) (h : ShellEq y x) (p n : Str) : y.qn p n = x.qn p n := by
  unfold Xml.qn; rw [h.2.1]

theorem attrReq_shell (y x : Xml) (h : ShellEq y x) (p n : Str) : y.attrReq p n = x.attrReq p n := by
  unfold Xml.attrReq Xml.attrQ Xml.attrGet; rw [qn_shell y x h, h.1]

theorem attrQ_shell (y x : Xml) (h : ShellEq y x) (p n : Str) : y.attrQ p n = x.attrQ p n := by
  unfold Xml.attrQ Xml.attrGet; rw [qn_shell y x h, h.1]

theorem wq_shell (y x : Xml) (h : ShellEq y x) (n : String) : wq y n = wq x n := qn_shell y x h _ _

theorem hasId_shell (y x : Xml) (h : ShellEq y x) : hasId y = hasId x := by
  unfold hasId; rw [attrReq_shell y x h]

theorem wBoundb_shell (y x : Xml) (h : ShellEq y x) : wBoundb y = wBoundb x := by
  unfold wBoundb; rw [h.2.1]

theorem noteOK_shell (y x : Xml) (h : ShellEq y x) : noteOK y = noteOK x := by
  unfold noteOK isSeparatorNote; rw [attrQ_shell y x h, hasId_shell y x h]

/-! ## the children after a merge, as far as validity looks at them -/

/-- everything the validity argument needs to know about one step of `mergeFuel` on an element -/
theorem merge_kids (cfg : PartCfg) (f : Nat) (i : Nat) (p : Option Str) (t : QName) (m : NsMap) (a : List (QName × Str))
    (tx tl : Option Str) (ks : List Xml) (y : Xml) (g : G [Xml.elem i p t m a tx tl ks])
    (h : mergeFuel cfg (f + 1) (Xml.elem i p t m a tx tl ks) = .ok y) :
    ∃ (ks1 : List Xml) (M' : Xml → Xml), mergeLevel cfg ks = .ok ks1 ∧ y = Xml.elem i p t m a tx tl (ks1.map M') ∧
      (∀ k1 ∈ ks1, mergeFuel cfg f k1 = .ok (M' k1) ∧ G [k1] ∧
        (k1 ∈ ks ∨ ∃ a0 t0, (a0 :: t0).Sublist ks ∧ (∀ x ∈ a0 :: t0, hasContent x = true) ∧ merges (a0 :: t0) = true ∧
          (∀ r ∈ t0, r.tag? = a0.tag?) ∧ k1 = mergedOf (a0 :: t0))) ∧
      (∀ P : Xml → Bool, TagOnly P → (∀ x ∈ ks, P x = true → isMergeable x = false) → ks1.filter P = ks.filter P) := by
  simp only [mergeFuel] at h
  obtain ⟨ks1, h1, h⟩ := bind_ok h
  obtain ⟨ks2, h2, h⟩ := bind_ok h
  have := pure_ok h; subst this
  have gk : G ks := G_kids _ g
  have hn := G_nodup_kids ks gk
  have hpc := G_prefix ks gk
  obtain ⟨gs, hr, hf, hall, _, _, f3, f4, _, _⟩ := merged_level cfg ks ks1 hn hpc h1
  have hsub : ∀ g0 ∈ gs, ∀ x ∈ g0, x ∈ ks ∧ hasContent x = true := by
    intro g0 hg0 x hx
    have : x ∈ ks.filter hasContent := by rw [← hf]; exact List.mem_flatten.2 ⟨g0, hg0, hx⟩
    exact List.mem_filter.1 this
  obtain ⟨e2, hM⟩ := mapM'_ok (mergeFuel cfg f) ks1 ks2 h2
  subst e2
  refine ⟨ks1, getOr (mergeFuel cfg f), h1, rfl, ?_, f4⟩
  intro k1 hk1
  refine ⟨hM k1 hk1, (merged_children cfg ks ks1 gk h1 k1 hk1).1, ?_⟩
  rcases f3 k1 hk1 with hin | ⟨g0, hg0, hmg, e⟩
  · exact Or.inl hin
  · right
    obtain ⟨a0, t0, rfl, hom⟩ := runs_homog _ _ hr g0 hg0
    have hsl : (a0 :: t0).Sublist ks := by
      have h1' : (a0 :: t0).Sublist gs.flatten := List.sublist_flatten_of_mem hg0
      rw [hf] at h1'
      exact h1'.trans List.filter_sublist
    refine ⟨a0, t0, hsl, fun x hx => (hsub _ hg0 x hx).2, hmg, ?_, e⟩
    intro r hr'
    have ka := hall a0 (List.mem_filter.2 (hsub _ hg0 a0 (by simp)))
    have kr := hall r (List.mem_filter.2 (hsub _ hg0 r (by simp [hr'])))
    rw [hom r hr'] at kr
    exact key_tag_eq cfg r a0 _ kr ka (hasContent_isElem r (hsub _ hg0 r (by simp [hr'])).2) (hasContent_isElem a0 (hsub _ hg0 a0 (by simp)).2)

theorem shellEq_trans {z y x : Xml} (h1 : ShellEq z y) (h2 : ShellEq y x) : ShellEq z x :=
  ⟨h1.1.trans h2.1, h1.2.1.trans h2.2.1, h1.2.2.1.trans h2.2.2.1, h1.2.2.2.1.trans h2.2.2.2.1, h1.2.2.2.2.trans h2.2.2.2.2⟩

/-! ## elements found by qualified name anywhere below: the merge moves them, never creates one -/

theorem mem_descTaggedL (q : QName) : ∀ (l : List Xml) (d : Xml), d ∈ descTaggedL q l ↔ ∃ k ∈ l, d ∈ descTagged q k
  | [], d => by simp [descTaggedL]
  | x :: l, d => by
    simp only [descTaggedL, List.mem_append, mem_descTaggedL q l d, List.mem_cons]
    constructor
    · rintro (h | ⟨k, hk, h⟩)
      · exact ⟨x, Or.inl rfl, h⟩
      · exact ⟨k, Or.inr hk, h⟩
    · rintro ⟨k, rfl | hk, h⟩
      · exact Or.inl h
      · exact Or.inr ⟨k, hk, h⟩

theorem descTagged_kids (q : QName) (x d : Xml) (h : d ∈ descTaggedL q x.kids) : d ∈ descTagged q x := by
  cases x with
  | elem i p t m a tx tl ks => simp only [descTagged, List.mem_append]; exact Or.inr h
  | comment _ _ => simp [Xml.kids, descTaggedL] at h
  | pi _ => simp [Xml.kids, descTaggedL] at h

theorem descTagged_self_or_kids (q : QName) (x d : Xml) (h : d ∈ descTagged q x) : d = x ∨ d ∈ descTaggedL q x.kids := by
  cases x with
  | elem i p t m a tx tl ks =>
    simp only [descTagged, List.mem_append] at h
    rcases h with h | h
    · split at h
      · left; simpa using h
      · simp at h
    · exact Or.inr h
  | comment _ _ => simp [descTagged] at h
  | pi _ => simp [descTagged] at h

mutual
theorem tagged_tag (q : QName) : ∀ (z w : Xml), w ∈ descTagged q z → w.tag? = some q
  | .elem i p t m a tx tl ks, w, hw => by
    simp only [descTagged, List.mem_append] at hw
    rcases hw with hw | hw
    · split at hw
      · rename_i hq
        have : w = Xml.elem i p t m a tx tl ks := by simpa using hw
        rw [this]; simp only [Xml.tag?]; rw [beq_iff_eq.1 hq]
      · simp at hw
    · exact taggedL_tag q ks w hw
  | .comment _ _, w, hw => by simp [descTagged] at hw
  | .pi _, w, hw => by simp [descTagged] at hw
theorem taggedL_tag (q : QName) : ∀ (l : List Xml) (w : Xml), w ∈ descTaggedL q l → w.tag? = some q
  | [], w, hw => by simp [descTaggedL] at hw
  | z :: l, w, hw => by
    simp only [descTaggedL, List.mem_append] at hw
    rcases hw with hw | hw
    · exact tagged_tag q z w hw
    · exact taggedL_tag q l w hw
end

theorem self_tagged (q : QName) (x : Xml) (h : x.tag? = some q) : x ∈ descTagged q x := by
  cases x with
  | elem i p t m a tx tl ks =>
    simp only [Xml.tag?, Option.some.injEq] at h
    subst h
    simp [descTagged]
  | comment _ _ => simp [Xml.tag?] at h
  | pi _ => simp [Xml.tag?] at h

/-- a tagged element in the merged-first element of a group comes from the group -/
theorem descTagged_merged (q : QName) (a0 : Xml) (t0 : List Xml) (he : a0.isElem = true) (d : Xml)
    (h : d ∈ descTagged q (mergedOf (a0 :: t0))) :
    (d = mergedOf (a0 :: t0) ∧ a0 ∈ descTagged q a0) ∨ ∃ k ∈ a0 :: t0, d ∈ descTagged q k := by
  cases a0 with
  | comment _ _ => simp [Xml.isElem] at he
  | pi _ => simp [Xml.isElem] at he
  | elem i p tg m at' tx tl ks =>
    have hmg : mergedOf (Xml.elem i p tg m at' tx tl ks :: t0) =
        Xml.elem i p tg m at' (newTextOf (Xml.elem i p tg m at' tx tl ks :: t0)) tl (ks ++ t0.flatMap Xml.kids) := rfl
    rw [hmg] at h ⊢
    simp only [descTagged, List.mem_append] at h
    rcases h with h | h
    · split at h
      · rename_i htq
        left
        refine ⟨by simpa using h, ?_⟩
        simp only [descTagged, htq, if_true, List.mem_append]
        exact Or.inl (by simp)
      · simp at h
    · right
      obtain ⟨k, hk, hdk⟩ := (mem_descTaggedL q _ d).1 h
      rcases List.mem_append.1 hk with hk | hk
      · refine ⟨_, List.mem_cons_self .., ?_⟩
        exact descTagged_kids q _ d ((mem_descTaggedL q _ d).2 ⟨k, hk, hdk⟩)
      · obtain ⟨r, hr, hkr⟩ := List.mem_flatMap.1 hk
        exact ⟨r, List.mem_cons_of_mem _ hr, descTagged_kids q r d ((mem_descTaggedL q _ d).2 ⟨k, hkr, hdk⟩)⟩

theorem merge_descTagged (cfg : PartCfg) (q : QName) : ∀ (f : Nat) (x y : Xml), G [x] → mergeFuel cfg f x = .ok y →
    ∀ d' ∈ descTaggedL q y.kids, ∃ d ∈ descTaggedL q x.kids, ShellEq d' d := by
  intro f
  induction f with
  | zero => intro x y _ h; simp [mergeFuel] at h
  | succ f ih =>
    intro x y g h
    cases x with
    | comment _ _ => simp only [mergeFuel] at h; have := pure_ok h; subst this; intro d' hd'; exact ⟨d', hd', shellEq_refl _⟩
    | pi _ => simp only [mergeFuel] at h; have := pure_ok h; subst this; intro d' hd'; exact ⟨d', hd', shellEq_refl _⟩
    | elem i p t m a tx tl ks =>
      obtain ⟨ks1, M', _, rfl, hk1, _⟩ := merge_kids cfg f i p t m a tx tl ks y g h
      intro d' hd'
      simp only [Xml.kids] at hd' ⊢
      obtain ⟨k2, hk2, hd2⟩ := (mem_descTaggedL q _ d').1 hd'
      obtain ⟨k1, hk1m, rfl⟩ := List.mem_map.1 hk2
      obtain ⟨hmf, gk1, horig⟩ := hk1 k1 hk1m
      -- a tagged element of `k1` (itself, or below it) …
      have hstep : ∃ d1 ∈ descTagged q k1, ShellEq d' d1 := by
        rcases descTagged_self_or_kids q _ d' hd2 with e | hb
        · have hsh := mergeFuel_shell cfg f k1 _ hmf
          have ht : d'.tag? = some q := tagged_tag q _ d' hd2
          rw [e, hsh.2.2.1] at ht
          exact ⟨k1, self_tagged q k1 ht, by rw [e]; exact hsh⟩
        · obtain ⟨d1, hd1, hs1⟩ := ih k1 _ gk1 hmf d' hb
          exact ⟨d1, descTagged_kids q k1 d1 hd1, hs1⟩
      obtain ⟨d1, hd1, hs1⟩ := hstep
      -- … comes from the original children
      rcases horig with hin | ⟨a0, t0, hsl, hcont, _, _, e⟩
      · exact ⟨d1, (mem_descTaggedL q _ d1).2 ⟨k1, hin, hd1⟩, hs1⟩
      · subst e
        have hea : a0.isElem = true := hasContent_isElem a0 (hcont a0 (by simp))
        rcases descTagged_merged q a0 t0 hea d1 hd1 with ⟨e1, ha0⟩ | ⟨k, hk, hdk⟩
        · exact ⟨a0, (mem_descTaggedL q _ a0).2 ⟨a0, hsl.subset (by simp), ha0⟩,
            shellEq_trans hs1 (by rw [e1]; exact mergedOf_shell a0 t0 hea)⟩
        · exact ⟨d1, (mem_descTaggedL q _ d1).2 ⟨k, hsl.subset hk, hdk⟩, hs1⟩

/-! ## mergeable elements: their register member and their local name -/

theorem mergeable_ptag (x : Xml) (h : isMergeable x = true) :
    x.ptag = lit "w:hyperlink" ∨ x.ptag = lit "w:r" ∨ x.ptag = lit "w:t" ∨ x.ptag = lit "m:t" := by
  unfold isMergeable mergeableTagsL at h
  simpa [Gen.mergeableTags] using h

theorem tagMember_mergeable (x : Xml) (h : isMergeable x = true) :
    tagMember x.ptag = some "HYPERLINK" ∨ tagMember x.ptag = some "RUN" ∨ tagMember x.ptag = some "TEXT" ∨
    tagMember x.ptag = some "TEXT_MATH" := by
  rcases mergeable_ptag x h with e | e | e | e <;> rw [e]
  · exact Or.inl (by decide)
  · exact Or.inr (Or.inl (by decide))
  · exact Or.inr (Or.inr (Or.inl (by decide)))
  · exact Or.inr (Or.inr (Or.inr (by decide)))

theorem split_colon (p name rest : Str) (c : Char) (hc : c ≠ ':') (hr : ':' ∉ rest)
    (h : p ++ ':' :: name = c :: ':' :: rest) : name = rest := by
  cases p with
  | nil => simp only [List.nil_append, List.cons.injEq] at h; exact absurd h.1.symm hc
  | cons c1 p' =>
    simp only [List.cons_append, List.cons.injEq] at h
    cases p' with
    | nil => simp only [List.nil_append, List.cons.injEq, true_and] at h; exact h.2
    | cons c2 p'' =>
      simp only [List.cons_append, List.cons.injEq] at h
      exfalso; apply hr
      rw [← h.2.2]; simp

/-- a mergeable element is called `hyperlink`, `r` or `t` -/
theorem mergeable_localname (x : Xml) (h : isMergeable x = true) :
    x.localname = lit "hyperlink" ∨ x.localname = lit "r" ∨ x.localname = lit "t" := by
  cases x with
  | comment _ _ => rcases mergeable_ptag _ h with e | e | e | e <;> simp [Xml.ptag, lit] at e
  | pi _ => rcases mergeable_ptag _ h with e | e | e | e <;> simp [Xml.ptag, lit] at e
  | elem i p t m a tx tl ks =>
    cases p with
    | none =>
      rcases mergeable_ptag _ h with e | e | e | e <;> simp [Xml.ptag, lit] at e
    | some pf =>
      have hp : (Xml.elem i (some pf) t m a tx tl ks).ptag = pf ++ ':' :: t.name := by simp [Xml.ptag]
      simp only [Xml.localname]
      rcases mergeable_ptag _ h with e | e | e | e <;> rw [hp] at e
      · exact Or.inl (split_colon pf t.name _ 'w' (by decide) (by decide) e)
      · exact Or.inr (Or.inl (split_colon pf t.name _ 'w' (by decide) (by decide) e))
      · exact Or.inr (Or.inr (split_colon pf t.name _ 'w' (by decide) (by decide) e))
      · exact Or.inr (Or.inr (split_colon pf t.name _ 'm' (by decide) (by decide) e))

theorem not_mergeable_of_name (x : Xml) (n : Str) (hn : x.localname = n)
    (h1 : n ≠ lit "hyperlink") (h2 : n ≠ lit "r") (h3 : n ≠ lit "t") : isMergeable x = false := by
  cases hm : isMergeable x with
  | false => rfl
  | true =>
    rcases mergeable_localname x hm with e | e | e <;> rw [hn] at e
    · exact absurd e h1
    · exact absurd e h2
    · exact absurd e h3

/-! ## the merged first element of a group of valid elements is valid -/

theorem validElem_wBound (x : Xml) (h : validElem x = true) : wBoundb x = true := by
  unfold validElem at h; simp only [Bool.and_eq_true] at h; exact h.1

theorem validElem_link (x : Xml) (h : validElem x = true) (hm : tagMember x.ptag = some "HYPERLINK") : linkMarkersOK x = true := by
  unfold validElem at h
  rw [hm] at h
  simp only [Bool.and_eq_true] at h
  exact h.2

theorem validElem_of_link (x : Xml) (hw : wBoundb x = true) (hm : tagMember x.ptag = some "HYPERLINK") (hl : linkMarkersOK x = true) :
    validElem x = true := by
  unfold validElem
  rw [hm, hw, hl]; rfl

theorem validElem_simple (x : Xml) (hw : wBoundb x = true)
    (hm : tagMember x.ptag = some "RUN" ∨ tagMember x.ptag = some "TEXT" ∨ tagMember x.ptag = some "TEXT_MATH") : validElem x = true := by
  unfold validElem
  rcases hm with e | e | e <;> (rw [e, hw]; rfl)

theorem linkMarkers_all (x : Xml) (n : String) (q : QName) (hq : wq x n = .ok q) (hn : n = "commentRangeStart" ∨ n = "commentRangeEnd")
    (h : linkMarkersOK x = true) : ∀ d ∈ descTaggedL q x.kids, hasId d = true := by
  unfold linkMarkersOK at h
  simp only [Bool.and_eq_true] at h
  rcases hn with rfl | rfl
  · have := h.1; rw [hq] at this; exact List.all_eq_true.1 this
  · have := h.2; rw [hq] at this; exact List.all_eq_true.1 this

theorem linkMarkers_of_all (x : Xml)
    (h : ∀ n, (n = "commentRangeStart" ∨ n = "commentRangeEnd") → ∀ q, wq x n = .ok q → ∀ d ∈ descTaggedL q x.kids, hasId d = true) :
    linkMarkersOK x = true := by
  unfold linkMarkersOK
  simp only [Bool.and_eq_true]
  constructor
  · cases hq : wq x "commentRangeStart" with
    | error e => rfl
    | ok q => exact List.all_eq_true.2 (h _ (Or.inl rfl) q hq)
  · cases hq : wq x "commentRangeEnd" with
    | error e => rfl
    | ok q => exact List.all_eq_true.2 (h _ (Or.inr rfl) q hq)

/-- the prefix `w` resolves alike in the two elements -/
def SameWq (a b : Xml) : Prop := ∀ n : String, wq a n = wq b n

theorem validElem_merged (a0 : Xml) (t0 : List Xml) (he : a0.isElem = true) (hm : isMergeable a0 = true)
    (hva : validElem a0 = true) (hvt : ∀ r ∈ t0, validElem r = true ∨ r.isElem = false)
    (hpt : ∀ r ∈ t0, r.isElem = true → r.ptag = a0.ptag) (hw : ∀ r ∈ t0, SameWq r a0) :
    validElem (mergedOf (a0 :: t0)) = true := by
  have hsh := mergedOf_shell a0 t0 he
  have hwb : wBoundb (mergedOf (a0 :: t0)) = true := by rw [wBoundb_shell _ _ hsh]; exact validElem_wBound a0 hva
  have hpm : tagMember (mergedOf (a0 :: t0)).ptag = tagMember a0.ptag := by rw [hsh.2.2.2.1]
  rcases tagMember_mergeable a0 hm with e | e
  · -- a hyperlink: the markers below it come from the members of the group
    apply validElem_of_link _ hwb (by rw [hpm]; exact e)
    apply linkMarkers_of_all
    intro n hn q hq
    rw [wq_shell _ _ hsh] at hq
    intro d hd
    have hkids : (mergedOf (a0 :: t0)).kids = a0.kids ++ t0.flatMap Xml.kids := by
      cases a0 with
      | elem _ _ _ _ _ _ _ _ => rfl
      | comment _ _ => simp [Xml.isElem] at he
      | pi _ => simp [Xml.isElem] at he
    rw [hkids] at hd
    obtain ⟨k, hk, hdk⟩ := (mem_descTaggedL q _ d).1 hd
    rcases List.mem_append.1 hk with hk | hk
    · exact linkMarkers_all a0 n q hq hn (validElem_link a0 hva e) d ((mem_descTaggedL q _ d).2 ⟨k, hk, hdk⟩)
    · obtain ⟨r, hr, hkr⟩ := List.mem_flatMap.1 hk
      have her : r.isElem = true := by cases r <;> simp_all [Xml.isElem, Xml.kids]
      have hvr : validElem r = true := by
        rcases hvt r hr with h | h
        · exact h
        · rw [her] at h; cases h
      have hmr : tagMember r.ptag = some "HYPERLINK" := by rw [hpt r hr her]; exact e
      exact linkMarkers_all r n q (by rw [hw r hr n]; exact hq) hn (validElem_link r hvr hmr) d ((mem_descTaggedL q _ d).2 ⟨k, hkr, hdk⟩)
  · exact validElem_simple _ hwb (by rw [hpm]; exact e)

/-! ## an element whose children were merged and recursed into is still valid -/

/-- `validElem` with its ingredients named -/
def velem (tm : Option String) (wb hid nok ilv spn ddk lnk : Bool) : Bool :=
  wb &&
  match tm with
  | some "COMMENT_RANGE_START" => hid
  | some "COMMENT_RANGE_END" => hid
  | some "FOOTNOTE_REFERENCE" => hid
  | some "ENDNOTE_REFERENCE" => hid
  | some "FOOTNOTE" => nok
  | some "ENDNOTE" => nok
  | some "PARAGRAPH" => ilv
  | some "TABLE_CELL" => spn
  | some "FORM_DDLIST" => ddk
  | some "HYPERLINK" => lnk
  | _ => true

theorem validElem_velem (x : Xml) :
    validElem x = velem (tagMember x.ptag) (wBoundb x) (hasId x) (noteOK x) (ilvlOK x) (spanOK x) (ddOK x) (linkMarkersOK x) := rfl

theorem velem_mono (tm : Option String) (wb hid nok ilv spn ddk lnk lnk' : Bool) (hl : lnk = true → lnk' = true)
    (h : velem tm wb hid nok ilv spn ddk lnk = true) : velem tm wb hid nok ilv spn ddk lnk' = true := by
  unfold velem at h ⊢
  simp only [Bool.and_eq_true] at h ⊢
  refine ⟨h.1, ?_⟩
  have h2 := h.2
  split <;> first
    | (split at h2 <;> simp_all; done)
    | simp_all

theorem qn_name (x : Xml) (p n : Str) (q : QName) (h : x.qn p n = .ok q) : q.name = n := by
  unfold Xml.qn at h
  split at h
  · cases h; rfl
  · cases h

theorem reqVals_map (M' : Xml → Xml) : ∀ (l : List Xml), (∀ c ∈ l, (M' c).attrReq (lit "w") (lit "val") = c.attrReq (lit "w") (lit "val")) →
    reqVals (l.map M') = reqVals l
  | [], _ => rfl
  | c :: l, h => by
    simp only [List.map_cons, reqVals, h c (by simp), reqVals_map M' l (fun x hx => h x (by simp [hx]))]

theorem validElem_image (cfg : PartCfg) (f : Nat) (i : Nat) (p : Option Str) (t : QName) (m : NsMap) (a : List (QName × Str))
    (tx tl : Option Str) (ks ks1 : List Xml) (M' : Xml → Xml) (g : G [Xml.elem i p t m a tx tl ks])
    (hk1 : ∀ k1 ∈ ks1, mergeFuel cfg f k1 = .ok (M' k1) ∧ G [k1])
    (hfil : ∀ P : Xml → Bool, TagOnly P → (∀ x ∈ ks, P x = true → isMergeable x = false) → ks1.filter P = ks.filter P)
    (hdesc : ∀ q, ∀ d' ∈ descTaggedL q (ks1.map M'), ∃ d ∈ descTaggedL q ks, ShellEq d' d)
    (hv : validElem (Xml.elem i p t m a tx tl ks) = true) :
    validElem (Xml.elem i p t m a tx tl (ks1.map M')) = true := by
  have hsh : ShellEq (Xml.elem i p t m a tx tl (ks1.map M')) (Xml.elem i p t m a tx tl ks) :=
    ⟨rfl, rfl, rfl, by cases p <;> rfl, rfl⟩
  have hshk : ∀ c ∈ ks1, ShellEq (M' c) c := fun c hc => mergeFuel_shell cfg f c _ (hk1 c hc).1
  have hfix : ∀ c ∈ ks1, noMergeT c = true → M' c = c := fun c hc hn =>
    (mergeFuel_fp cfg f c (M' c) (hk1 c hc).2 (hk1 c hc).1).2.fix hn
  -- children found by tag: the non-mergeable ones are still there, in order, each recursed into
  have hview : ∀ q : QName, (∀ c ∈ ks, c.tag? = some q → isMergeable c = false) →
      (ks1.map M').filter (fun k => k.tag? == some q) = (ks.filter (fun k => k.tag? == some q)).map M' ∧
      ∀ c ∈ ks.filter (fun k => k.tag? == some q), c ∈ ks1 := by
    intro q hnm
    have hP : TagOnly (fun k : Xml => k.tag? == some q) := fun x y hxy => by simp only [hxy]
    have e1 := hfil _ hP (fun c hc hPc => hnm c hc (by simpa using hPc))
    refine ⟨?_, fun c hc => by rw [← e1] at hc; exact (List.mem_filter.1 hc).1⟩
    rw [List.filter_map, ← e1]
    congr 1
    apply List.filter_congr
    intro c hc
    simp only [Function.comp, (hshk c hc).2.2.1]
  have hfind : ∀ q : QName, (∀ c ∈ ks, c.tag? = some q → isMergeable c = false) →
      (Xml.elem i p t m a tx tl (ks1.map M')).findChild q = ((Xml.elem i p t m a tx tl ks).findChild q).map M' := by
    intro q hnm
    simp only [Xml.findChild, Xml.kids]
    rw [← List.head?_filter, ← List.head?_filter, (hview q hnm).1, List.head?_map]
  have hpr : ∀ c ∈ ks, endsPr c.localname = true → noMergeT c = true := by
    intro c hc he
    have hme : Xml.elem i p t m a tx tl ks ∈ descL [Xml.elem i p t m a tx tl ks] := by simp [descL, descT]
    exact g.2.2 _ hme c hc he
  have hfindPr : ∀ q : QName, endsPr q.name = true →
      (Xml.elem i p t m a tx tl (ks1.map M')).findChild q = (Xml.elem i p t m a tx tl ks).findChild q := by
    intro q hq
    have hnm : ∀ c ∈ ks, c.tag? = some q → isMergeable c = false := by
      intro c hc ht
      exact noMergeT_self c (hpr c hc (by rw [localname_of_tag c q ht]; exact hq))
    rw [hfind q hnm]
    cases hfc : (Xml.elem i p t m a tx tl ks).findChild q with
    | none => rfl
    | some c =>
      simp only [Xml.findChild, Xml.kids] at hfc
      have hcm : c ∈ ks.filter (fun k => k.tag? == some q) := by
        have := List.mem_of_find?_eq_some hfc
        have hq' : (c.tag? == some q) = true := List.find?_some (p := fun k : Xml => k.tag? == some q) hfc
        exact List.mem_filter.2 ⟨this, hq'⟩
      have hc1 := (hview q hnm).2 c hcm
      have hct : c.tag? = some q := by simpa using (List.mem_filter.1 hcm).2
      have := hfix c hc1 (hpr c (List.mem_filter.1 hcm).1 (by rw [localname_of_tag c q hct]; exact hq))
      simp only [Option.map_some, this]
  -- the ingredients of `validElem`
  have e_hid := hasId_shell _ _ hsh
  have e_nok := noteOK_shell _ _ hsh
  have e_gpr : gatherPr (Xml.elem i p t m a tx tl (ks1.map M')) = gatherPr (Xml.elem i p t m a tx tl ks) := by
    unfold gatherPr
    simp only [Xml.tag?]
    rw [hfindPr _ (endsPr_append t.name)]
  have e_spn : spanOK (Xml.elem i p t m a tx tl (ks1.map M')) = spanOK (Xml.elem i p t m a tx tl ks) := by
    unfold spanOK; rw [e_gpr]
  have e_ilv : ilvlOK (Xml.elem i p t m a tx tl (ks1.map M')) = ilvlOK (Xml.elem i p t m a tx tl ks) := by
    unfold ilvlOK bulletFmt
    rw [wq_shell _ _ hsh]
    cases hq : wq (Xml.elem i p t m a tx tl ks) "pPr" with
    | error e => rfl
    | ok qp =>
      have : endsPr qp.name = true := by rw [qn_name _ _ _ _ hq]; decide
      simp only
      rw [hfindPr qp this]
  have e_ddk : ddOK (Xml.elem i p t m a tx tl (ks1.map M')) = ddOK (Xml.elem i p t m a tx tl ks) := by
    unfold ddOK wChild
    rw [wq_shell _ _ hsh, wq_shell _ _ hsh]
    congr 1
    · cases hq : wq (Xml.elem i p t m a tx tl ks) "listEntry" with
      | error e => rfl
      | ok q =>
        have hnm : ∀ c ∈ ks, c.tag? = some q → isMergeable c = false := by
          intro c _ ht
          exact not_mergeable_of_name c _ (by rw [localname_of_tag c q ht, qn_name _ _ _ _ hq]) (by decide) (by decide) (by decide)
        simp only [Xml.findChildren, Xml.kids]
        rw [(hview q hnm).1, reqVals_map]
        intro c hc
        exact attrReq_shell _ _ (hshk c ((hview q hnm).2 c hc)) _ _
    · cases hq : wq (Xml.elem i p t m a tx tl ks) "result" with
      | error e => rfl
      | ok q =>
        have hnm : ∀ c ∈ ks, c.tag? = some q → isMergeable c = false := by
          intro c _ ht
          exact not_mergeable_of_name c _ (by rw [localname_of_tag c q ht, qn_name _ _ _ _ hq]) (by decide) (by decide) (by decide)
        simp only [ok_bind, pure, Except.pure]
        rw [hfind q hnm]
        cases hfc : (Xml.elem i p t m a tx tl ks).findChild q with
        | none => rfl
        | some r =>
          simp only [Option.map_some]
          simp only [Xml.findChild, Xml.kids] at hfc
          have hq' : (r.tag? == some q) = true := List.find?_some (p := fun k : Xml => k.tag? == some q) hfc
          have hrm : r ∈ ks.filter (fun k => k.tag? == some q) :=
            List.mem_filter.2 ⟨List.mem_of_find?_eq_some hfc, hq'⟩
          rw [attrReq_shell _ _ (hshk r ((hview q hnm).2 r hrm))]
  have e_lnk : linkMarkersOK (Xml.elem i p t m a tx tl ks) = true → linkMarkersOK (Xml.elem i p t m a tx tl (ks1.map M')) = true := by
    intro hl
    apply linkMarkers_of_all
    intro n hn q hq
    rw [wq_shell _ _ hsh] at hq
    intro d' hd'
    obtain ⟨d, hd, hs⟩ := hdesc q d' hd'
    rw [hasId_shell _ _ hs]
    exact linkMarkers_all _ n q hq hn hl d hd
  rw [validElem_velem] at hv ⊢
  rw [hsh.2.2.2.1, wBoundb_shell _ _ hsh, e_hid, e_nok, e_ilv, e_spn, e_ddk]
  exact velem_mono _ _ _ _ _ _ _ _ _ e_lnk hv

/-! ## the recursion -/

/-- the prefix `w` resolves alike in all elements of the trees -/
def SameW (l : List Xml) : Prop := ∀ a ∈ descL l, ∀ b ∈ descL l, SameWq a b

theorem sameW_sublist {l' l : List Xml} (h : l'.Sublist l) (s : SameW l) : SameW l' :=
  fun a ha b hb => s a ((descL_sublist h).subset ha) b ((descL_sublist h).subset hb)

theorem sameW_kids (x : Xml) (s : SameW [x]) : SameW x.kids := by
  cases he : x.isElem with
  | true =>
    have hs : (descL x.kids).Sublist (descL [x]) := by
      simp only [descL, descT_of_elem x he, List.append_nil]; exact List.sublist_cons_self _ _
    exact fun a ha b hb => s a (hs.subset ha) b (hs.subset hb)
  | false =>
    have : x.kids = [] := by cases x <;> simp_all [Xml.isElem, Xml.kids]
    rw [this]; intro a ha; simp [descL] at ha

theorem sameWq_shell {y x : Xml} (h : ShellEq y x) : SameWq y x := fun n => wq_shell y x h n

theorem sameW_merged (a0 : Xml) (t0 : List Xml) (he : a0.isElem = true) (s : SameW (a0 :: t0)) : SameW [mergedOf (a0 :: t0)] := by
  -- every node of the merged tree has the namespace map of a node of the group
  have key : ∀ e ∈ descL [mergedOf (a0 :: t0)], ∃ e0 ∈ descL (a0 :: t0), SameWq e e0 := by
    intro e hemem
    cases a0 with
    | comment _ _ => simp [Xml.isElem] at he
    | pi _ => simp [Xml.isElem] at he
    | elem i p tg m at' tx tl ks =>
      have hmg : mergedOf (Xml.elem i p tg m at' tx tl ks :: t0) =
          Xml.elem i p tg m at' (newTextOf (Xml.elem i p tg m at' tx tl ks :: t0)) tl (ks ++ t0.flatMap Xml.kids) := rfl
      rw [hmg] at hemem
      simp only [descL, descT, List.append_nil, List.mem_cons, descL_append, List.mem_append] at hemem
      rcases hemem with rfl | hk | hk
      · exact ⟨Xml.elem i p tg m at' tx tl ks, by simp [descL, descT], fun n => rfl⟩
      · exact ⟨e, by simp [descL, descT, hk], fun n => rfl⟩
      · exact ⟨e, by simp only [descL, descT, List.mem_cons, List.mem_append]; first | exact Or.inr (Or.inr ((desc_kids_sublist t0).subset hk)) | exact Or.inr ((desc_kids_sublist t0).subset hk) | exact Or.inl (Or.inr (Or.inr ((desc_kids_sublist t0).subset hk))), fun n => rfl⟩
  intro a ha b hb n
  obtain ⟨a1, ha1, sa⟩ := key a ha
  obtain ⟨b1, hb1, sb⟩ := key b hb
  rw [sa n, sb n]; exact s a1 ha1 b1 hb1 n

theorem validL_of_mem : ∀ (l : List Xml), (∀ k ∈ l, validT k = true) → validL l = true
  | [], _ => rfl
  | k :: l, h => by
    simp only [validL, Bool.and_eq_true]
    exact ⟨h k (by simp), validL_of_mem l (fun x hx => h x (by simp [hx]))⟩

theorem validT_validElem (x : Xml) (h : validT x = true) (he : x.isElem = true) : validElem x = true :=
  (validT_elem x h he).1

/-- **`merge_elems` keeps a valid tree valid** -/
theorem mergeFuel_valid (cfg : PartCfg) : ∀ (f : Nat) (x y : Xml), G [x] → SameW [x] → validT x = true →
    mergeFuel cfg f x = .ok y → validT y = true := by
  intro f
  induction f with
  | zero => intro x y _ _ _ h; simp [mergeFuel] at h
  | succ f ih =>
    intro x y g sw hv h
    cases x with
    | comment _ _ => simp only [mergeFuel] at h; have := pure_ok h; subst this; exact hv
    | pi _ => simp only [mergeFuel] at h; have := pure_ok h; subst this; exact hv
    | elem i p t m a tx tl ks =>
      have hdesc := fun q => merge_descTagged cfg q (f + 1) _ y g h
      obtain ⟨ks1, M', h1, rfl, hk1, hfil⟩ := merge_kids cfg f i p t m a tx tl ks y g h
      have gk : G ks := G_kids _ g
      have swk : SameW ks := sameW_kids _ sw
      have hve : validElem (Xml.elem i p t m a tx tl ks) = true ∧ validL ks = true := by
        simpa [validT] using hv
      -- the children that are recursed into are valid
      have hvk1 : ∀ k1 ∈ ks1, validT k1 = true ∧ SameW [k1] := by
        intro k1 hk1m
        obtain ⟨_, _, horig⟩ := hk1 k1 hk1m
        rcases horig with hin | ⟨a0, t0, hsl, hcont, hmg, htag, e⟩
        · exact ⟨validL_mem ks hve.2 k1 hin, sameW_sublist (List.singleton_sublist.2 hin) swk⟩
        · subst e
          have hea : a0.isElem = true := hasContent_isElem a0 (hcont a0 (by simp))
          have hma : isMergeable a0 = true := by
            unfold merges at hmg; simp only [Bool.and_eq_true] at hmg; exact hmg.2
          have hva0 : validT a0 = true := validL_mem ks hve.2 a0 (hsl.subset (by simp))
          have hvr : ∀ r ∈ t0, validT r = true := fun r hr => validL_mem ks hve.2 r (hsl.subset (by simp [hr]))
          have hpcg := G_prefix ks gk
          refine ⟨?_, sameW_merged a0 t0 hea (sameW_sublist hsl swk)⟩
          have hve_m : validElem (mergedOf (a0 :: t0)) = true := by
            apply validElem_merged a0 t0 hea hma (validT_validElem a0 hva0 hea)
            · intro r hr
              cases her : r.isElem with
              | true => exact Or.inl (validT_validElem r (hvr r hr) her)
              | false => exact Or.inr rfl
            · intro r hr _
              exact hpcg r (hsl.subset (by simp [hr])) a0 (hsl.subset (by simp)) (htag r hr)
            · intro r hr
              have hr1 : r.isElem = true := hasContent_isElem r (hcont r (by simp [hr]))
              exact swk r (mem_descL_self ks r (hsl.subset (by simp [hr])) hr1) a0 (mem_descL_self ks a0 (hsl.subset (by simp)) hea)
          have hvl_m : validL (mergedOf (a0 :: t0)).kids = true :=
            (merged_children cfg ks ks1 gk h1 _ hk1m).2.2 (fun k hk => validL_kids_of_validT k (validL_mem ks hve.2 k hk))
          cases hmm : mergedOf (a0 :: t0) with
          | elem i' p' t' m' a' tx' tl' ks' =>
            rw [hmm] at hve_m hvl_m
            simp only [validT, Bool.and_eq_true]
            exact ⟨hve_m, hvl_m⟩
          | comment _ _ => rfl
          | pi _ => rfl
      -- the node itself
      simp only [validT, Bool.and_eq_true]
      constructor
      · exact validElem_image cfg f i p t m a tx tl ks ks1 M' g (fun k1 hk => ⟨(hk1 k1 hk).1, (hk1 k1 hk).2.1⟩) hfil
          (fun q => by simpa [Xml.kids] using hdesc q) hve.1
      · apply validL_of_mem
        intro k2 hk2
        obtain ⟨k1, hk1m, rfl⟩ := List.mem_map.1 hk2
        exact ih k1 _ (hk1 k1 hk1m).2.1 (hvk1 k1 hk1m).2 (hvk1 k1 hk1m).1 (hk1 k1 hk1m).1

theorem sameW_of_b (x : Xml) (h : sameWb x = true) : SameW [x] := by
  unfold sameWb at h
  intro a ha b hb n
  have ea := List.all_eq_true.1 h a ha
  have eb := List.all_eq_true.1 h b hb
  rw [beq_iff_eq] at ea eb
  unfold wq Xml.qn
  rw [ea, eb]

/-- **C13: a valid part is still valid after `merge_elems`**, so `C13_part_total` applies to what
`File.root_element` exposes whenever the stored part is valid (and passes `goodTree`, `sameWb`) -/
theorem C13_merge_valid (cfg : PartCfg) (x y : Xml) (hg : goodTree x = true) (hw : sameWb x = true) (hv : validT x = true)
    (h : mergeElems cfg x = .ok y) : validT y = true := by
  unfold mergeElems at h
  exact mergeFuel_valid cfg _ x y (good_of_goodTree x hg) (sameW_of_b x hw) hv h

/-- **C13, from the stored part to the collected paragraphs**: a part that is valid as stored
(`validT`, `goodTree`, `sameWb` — all three evaluated by the driver on every generated part) is merged
without an exception, and the merged tree is walked without an exception, for every option setting,
relationships table and numbering table -/
theorem C13_source_part_total (cfg cfg' : PartCfg) (num : Dict Str (List NumAttr)) (root : Xml) (c : Bool)
    (hg : goodTree root = true) (hw : sameWb root = true) (hv : validT root = true) :
    ∃ y dc, mergeElems cfg root = .ok y ∧ newDepthCollector cfg' num y c = .ok dc ∧ TInv dc := by
  obtain ⟨y, hy⟩ := C13_merge_total cfg root hg hv
  obtain ⟨dc, hdc, t⟩ := C13_part_total cfg' num y c (C13_merge_valid cfg root y hg hw hv hy)
  exact ⟨y, dc, hy, hdc, t⟩

/-! ## the package, as stored -/

theorem partOK_of_src (o : Opts) (a : Archive) (files : List Rel) (r : Rel) (hct : contentTypes.contains r.type = true)
    (h : srcPartOK a files r = true) : partOK o a files r = true := by
  unfold srcPartOK at h
  cases hr : a.readXml r.path with
  | error e => simp [hr] at h
  | ok root =>
    cases hp : partRels a files r with
    | error e => simp [hr, hp] at h
    | ok rels =>
      simp only [hr, hp, Bool.and_eq_true] at h
      obtain ⟨⟨hv, hg⟩, hw⟩ := h
      obtain ⟨y, hy⟩ := C13_merge_total { html := o.html, dup := o.dup, rels := rels } root hg hv
      have hvy := C13_merge_valid _ root y hg hw hv hy
      unfold partOK rootElement
      simp only [hr, ok_bind, hct, if_true, hp, hy]
      exact hvy

/-- **C13, the package as stored**: relationships listed, numbering readable, every content part readable
and valid AS STORED ⇒ `validPkg`, hence every view of every attribute and `text` return (`C13_package_total`) -/
theorem C13_source_package_total (o : Opts) (a : Archive) (h : validSrcPkg a = true) :
    (∀ part ∈ viewParts, (∃ r, viewPars o a part = .ok r) ∧ (∃ r, viewRuns o a part = .ok r) ∧ (∃ r, viewPlain o a part = .ok r)) ∧
    (∃ s, docText o a = .ok s) := by
  apply C13_package_total
  unfold validSrcPkg at h
  unfold validPkg
  cases hf : a.files with
  | error e => simp [hf] at h
  | ok files =>
    cases hn : numId2Attrs a with
    | error e => simp [hf, hn] at h
    | ok num =>
      simp only [hf, hn] at h ⊢
      apply List.all_eq_true.2
      intro t ht
      have h1 := List.all_eq_true.1 h t ht
      apply List.all_eq_true.2
      intro r hr
      have h2 := List.all_eq_true.1 h1 r hr
      obtain ⟨_, hty⟩ := mem_filesOfType files _ r hr
      have hct : contentTypes.contains r.type = true := by
        have : r.type = lit t := by simpa using hty
        rw [this]; exact partTypes_content t ht
      exact partOK_of_src o a files r hct h2

end D2P
