import D2P.Props.C16Resave
import D2P.Props.C09Select
import D2P.Check.C16
/-!
# C16 — extracting the saved file gives what extracting the original gives

`C16_reextract`: if `save` returns `out`, the saved archive lists the same relationships
(`out.files = a.files`, which the driver evaluates: the relationships parts are rewritten from their
parsed trees and re-read), the content parts' source trees pass `goodTree`, and no content part is
stored under a name that is also read as the numbering part or as a relationships part
(`saveSane`), then for every option setting every `*_pars`, `*_runs` and plain view of every
attribute, and `text`, are EQUAL for `out` and for `a`.

The proof is about reads: a name that is not a content part reads from `out` as it reads from `a`
(`read_same`); a content part reads as its exposed tree, which `merge_elems` leaves as it is
(`mergeElems_idem`), or — when the same name is also listed as a relationships part first — as its
source tree, which merges to the exposed tree again; so `File.root_element` and `File.rels` agree
for every content `File` of the two archives (`rootElement_same`).
-/
namespace D2P

theorem read_absent (a : Archive) (n : Str) (h : n ∉ a.namelist) : a.read n = .error .keyError := by
  unfold Archive.read
  cases hf : a.members.reverse.find? (fun m => m.1 == n) with
  | none => rfl
  | some m =>
    have hm := List.mem_reverse.1 (List.mem_of_find?_eq_some hf)
    have hn : m.1 = n := by simpa using List.find?_some hf
    exact absurd (List.mem_map.2 ⟨m, hm, hn⟩) h

/-- what `saveTargets` records: a `File` of the list, under its own path, of a type that is rewritten -/
theorem addFirst_mem (d : Dict Str Rel) (f : Rel) (x : Str × Rel) (h : x ∈ addFirst d f) : x ∈ d ∨ x = (f.path, f) := by
  unfold addFirst at h
  split at h
  · exact Or.inl h
  · rcases List.mem_append.1 h with h | h
    · exact Or.inl h
    · exact Or.inr (by simpa using h)

theorem foldl_addFirst_mem (fs : List Rel) : ∀ (d : Dict Str Rel) (x : Str × Rel), x ∈ fs.foldl addFirst d →
    x ∈ d ∨ (x.2 ∈ fs ∧ x.1 = x.2.path) := by
  induction fs with
  | nil => intro d x h; exact Or.inl h
  | cons f fs ih =>
    intro d x h
    rcases ih _ x h with h1 | h1
    · rcases addFirst_mem d f x h1 with h2 | h2
      · exact Or.inl h2
      · subst h2; exact Or.inr ⟨by simp, rfl⟩
    · exact Or.inr ⟨by simp [h1.1], h1.2⟩

theorem saveTargets_mem (a : Archive) (files : List Rel) (p : Str) (r : Rel) (h : (p, r) ∈ saveTargets a files) :
    r ∈ files ∧ p = r.path := by
  unfold saveTargets at h
  rcases foldl_addFirst_mem _ [] (p, r) h with h | h
  · simp at h
  · exact ⟨(List.mem_filter.1 h.1).1, h.2⟩

theorem keys_pair {β : Type} (d : Dict Str β) (k : Str) (h : k ∈ d.keys) : ∃ v, (k, v) ∈ d := by
  unfold Dict.keys at h
  obtain ⟨x, hx, rfl⟩ := List.mem_map.1 h
  exact ⟨x.2, hx⟩

/-- **a name that is not a content part reads from the saved archive as it reads from the input** -/
theorem read_same_member (o : Opts) (a out : Archive) (files : List Rel) (hf : a.files = .ok files) (h : save o a = .ok out)
    (n : Str) (hn : n ∉ contentPaths files) : out.read n = a.read n := by
  by_cases hin : n ∈ a.namelist
  · by_cases hk : n ∈ (saveTargets a files).keys
    · obtain ⟨r0, hr0⟩ := keys_pair _ n hk
      obtain ⟨cr, hcr, hrd⟩ := C16_read_back_target o a out files hf h n r0 hr0
      obtain ⟨hr0f, hp⟩ := saveTargets_mem a files n r0 hr0
      have hnc : contentTypes.contains r0.type = false := by
        cases hc : contentTypes.contains r0.type with
        | false => rfl
        | true =>
          exfalso; apply hn
          unfold contentPaths
          exact List.mem_map.2 ⟨r0, List.mem_filter.2 ⟨hr0f, hc⟩, hp.symm⟩
      unfold rootElement at hcr
      rw [← hp] at hcr
      unfold Archive.readXml at hcr
      rw [hrd]
      cases hra : a.read n with
      | error e => rw [hra] at hcr; simp [bind, Except.bind] at hcr
      | ok mb =>
        rw [hra] at hcr
        simp only [ok_bind] at hcr
        cases mb with
        | bytes _ => simp [bind, Except.bind] at hcr
        | xml root =>
          simp only [ok_bind, hnc, Bool.false_eq_true, if_false] at hcr
          have := pure_ok hcr
          rw [← this]
    · exact C16_read_back_other o a out files hf h n hin hk
  · have hout : n ∉ out.namelist := fun hc => hin ((C16_names o a out h n).1 hc)
    rw [read_absent a n hin, read_absent out n hout]

theorem read_same (o : Opts) (a out : Archive) (files : List Rel) (hf : a.files = .ok files) (h : save o a = .ok out)
    (n : Str) (hn : n ∉ contentPaths files) : out.readXml n = a.readXml n := by
  unfold Archive.readXml
  rw [read_same_member o a out files hf h n hn]

theorem relsPath_congr (r r' : Rel) (h : r.path = r'.path) : r.relsPath = r'.relsPath := by
  unfold Rel.relsPath; rw [h]

/-- `File.rels` is the same for the two archives -/
theorem partRels_same (o : Opts) (a out : Archive) (files : List Rel) (hf : a.files = .ok files) (h : save o a = .ok out)
    (hs : saveSane files = true) (r : Rel) (hr : r ∈ files) : partRels out files r = partRels a files r := by
  unfold partRels relsElement
  unfold saveSane at hs
  simp only [Bool.and_eq_true] at hs
  have h2 := List.all_eq_true.1 hs.2 r hr
  cases hfl : files.filter (fun f => f.target == r.relsPath) with
  | nil => rfl
  | cons f rest =>
    cases rest with
    | cons _ _ => rfl
    | nil =>
      have hfm : f ∈ files.filter (fun f => f.target == r.relsPath) := by rw [hfl]; simp
      have := List.all_eq_true.1 h2 f hfm
      have hnc : f.path ∉ contentPaths files := by
        intro hc
        have : (contentPaths files).contains f.path = true := List.contains_iff_mem.2 hc
        simp_all
      simp only
      rw [read_same o a out files hf h f.path hnc]

/-- `File.root_element` of a content `File` is the same for the two archives -/
theorem rootElement_same (o : Opts) (a out : Archive) (files : List Rel) (hf : a.files = .ok files) (h : save o a = .ok out)
    (hs : saveSane files = true)
    (hg : ∀ r ∈ files, contentTypes.contains r.type = true → ∀ root, a.readXml r.path = .ok root → goodTree root = true)
    (r : Rel) (hr : r ∈ files) (hct : contentTypes.contains r.type = true) :
    rootElement o out files r = rootElement o a files r := by
  have hpr := partRels_same o a out files hf h hs r hr
  by_cases hin : r.path ∈ a.namelist
  · -- the part is rewritten: under its name the saved archive holds the tree of the FIRST `File` with that path
    have hk : r.path ∈ (saveTargets a files).keys := by
      unfold saveTargets
      rw [foldl_set_keys]
      right
      apply List.mem_map.2
      refine ⟨r, List.mem_filter.2 ⟨hr, ?_⟩, rfl⟩
      simp only [Bool.and_eq_true]
      refine ⟨?_, List.contains_iff_mem.2 hin⟩
      unfold overwriteTypes
      rw [List.contains_iff_mem]
      exact List.mem_append_left _ (List.contains_iff_mem.1 hct)
    obtain ⟨r0, hr0⟩ := keys_pair _ r.path hk
    obtain ⟨cr0, hcr0, hrd⟩ := C16_read_back_target o a out files hf h r.path r0 hr0
    obtain ⟨hr0f, hp⟩ := saveTargets_mem a files r.path r0 hr0
    have hox : out.readXml r.path = .ok cr0.2 := by unfold Archive.readXml; rw [hrd]; rfl
    -- what the first `File` exposes, in terms of the source tree
    cases hra : a.readXml r.path with
    | error e =>
      unfold rootElement at hcr0
      rw [← hp, hra] at hcr0
      simp [bind, Except.bind] at hcr0
    | ok root =>
      have hgr := hg r hr hct root hra
      unfold rootElement
      rw [hox, hra, hpr]
      simp only [ok_bind, hct, if_true]
      cases hrels : partRels a files r with
      | error e => rfl
      | ok rels =>
        simp only [ok_bind]
        unfold rootElement at hcr0
        rw [← hp, hra] at hcr0
        simp only [ok_bind] at hcr0
        have hrp : partRels a files r0 = partRels a files r := by
          unfold partRels relsElement
          rw [relsPath_congr r0 r hp.symm]
        by_cases hc0 : contentTypes.contains r0.type = true
        · -- exposed tree written: merging it again gives it back
          rw [hrp, hrels] at hcr0
          simp only [hc0, if_true, ok_bind] at hcr0
          obtain ⟨m, hm, hcr0⟩ := bind_ok hcr0
          have e := pure_ok hcr0
          rw [← e]
          simp only
          rw [hm, mergeElems_idem_checked _ root m hgr hm]
        · -- source tree written (the name is listed as a relationships part first): it merges as it did
          have hc0' : contentTypes.contains r0.type = false := by simpa using hc0
          simp only [hc0', Bool.false_eq_true, if_false] at hcr0
          have e := pure_ok hcr0
          rw [← e]
  · have hout : r.path ∉ out.namelist := fun hc => hin ((C16_names o a out h r.path).1 hc)
    unfold rootElement Archive.readXml
    rw [read_absent a _ hin, read_absent out _ hout]
    rfl

/-! ## from the parts to the attributes -/

theorem partCollector_same (o : Opts) (a out : Archive) (files : List Rel) (numM : M NumTable) (r : Rel)
    (h1 : rootElement o out files r = rootElement o a files r) (h2 : partRels out files r = partRels a files r) :
    partCollector o out files numM r = partCollector o a files numM r := by
  unfold partCollector; rw [h1, h2]

theorem partsContent_same (o : Opts) (a out : Archive) (files : List Rel) (numM : M NumTable) :
    ∀ (rs : List Rel), (∀ r ∈ rs, rootElement o out files r = rootElement o a files r ∧ partRels out files r = partRels a files r) →
    partsContent o out files numM rs = partsContent o a files numM rs
  | [], _ => rfl
  | r :: rs, h => by
    simp only [partsContent]
    rw [partCollector_same o a out files numM r (h r (by simp)).1 (h r (by simp)).2,
        partsContent_same o a out files numM rs (fun x hx => h x (by simp [hx]))]

theorem partTypes_content : ∀ t ∈ partTypes, contentTypes.contains (lit t) = true := by decide +kernel

theorem mem_filesOfType (files : List Rel) (ts : List Str) (r : Rel) (h : r ∈ filesOfType files ts) :
    r ∈ files ∧ ts.contains r.type = true := by
  unfold filesOfType at h
  have := (mem_sortRels r _).1 h
  exact List.mem_filter.1 this

/-- **C16: `_get_pars` of every kind of part is the same for the saved archive** -/
theorem getPars_same (o : Opts) (a out : Archive) (files : List Rel) (hf : a.files = .ok files) (hfo : out.files = .ok files)
    (h : save o a = .ok out) (hs : saveSane files = true)
    (hg : ∀ r ∈ files, contentTypes.contains r.type = true → ∀ root, a.readXml r.path = .ok root → goodTree root = true)
    (t : String) (ht : t ∈ partTypes) : getPars o out t = getPars o a t := by
  unfold getPars
  rw [hf, hfo]
  simp only [ok_bind]
  unfold getParsF
  have hnum : numId2Attrs out = numId2Attrs a := by
    unfold numId2Attrs
    have : lit "word/numbering.xml" ∉ contentPaths files := by
      unfold saveSane at hs
      simp only [Bool.and_eq_true, Bool.not_eq_true'] at hs
      intro hc
      have := List.contains_iff_mem.2 hc
      rw [hs.1] at this; cases this
    rw [read_same o a out files hf h _ this]
  rw [hnum]
  apply partsContent_same
  intro r hr
  obtain ⟨hrf, hty⟩ := mem_filesOfType files _ r hr
  have hct : contentTypes.contains r.type = true := by
    have : r.type = lit t := by simpa using hty
    rw [this]; exact partTypes_content t ht
  exact ⟨rootElement_same o a out files hf h hs hg r hrf hct, partRels_same o a out files hf h hs r hrf⟩

/-- every attribute is computed from the five `_get_pars` results -/
theorem views_congr (g g' : ParsOf) (h : ∀ t ∈ partTypes, g t = g' t) (part : String)
    (hp : part ∈ ["header", "footer", "body", "footnotes", "endnotes", "document"]) :
    viewParsFrom g part = viewParsFrom g' part ∧ viewRunsFrom g part = viewRunsFrom g' part ∧
    viewPlainFrom g part = viewPlainFrom g' part := by
  have h1 := h "header" (by decide)
  have h2 := h "officeDocument" (by decide)
  have h3 := h "footer" (by decide)
  have h4 := h "footnotes" (by decide)
  have h5 := h "endnotes" (by decide)
  have hv : ∀ q ∈ ["header", "footer", "body", "footnotes", "endnotes", "document"], viewParsFrom g q = viewParsFrom g' q := by
    intro q hq
    simp only [List.mem_cons, List.mem_nil_iff, or_false] at hq
    rcases hq with rfl | rfl | rfl | rfl | rfl | rfl <;> simp [viewParsFrom, h1, h2, h3, h4, h5]
  have hr1 : ∀ q ∈ ["header", "footer", "body", "footnotes", "endnotes", "document"], runsOne g q = runsOne g' q := by
    intro q hq; unfold runsOne; rw [hv q hq]
  have hr : ∀ q ∈ ["header", "footer", "body", "footnotes", "endnotes", "document"], viewRunsFrom g q = viewRunsFrom g' q := by
    intro q hq
    unfold viewRunsFrom
    rw [hr1 "header" (by decide), hr1 "body" (by decide), hr1 "footer" (by decide), hr1 "footnotes" (by decide),
        hr1 "endnotes" (by decide), hr1 q hq]
  have hp1 : ∀ q ∈ ["header", "footer", "body", "footnotes", "endnotes", "document"], plainOne g q = plainOne g' q := by
    intro q hq; unfold plainOne; rw [hr q hq]
  refine ⟨hv part hp, hr part hp, ?_⟩
  unfold viewPlainFrom
  rw [hp1 "header" (by decide), hp1 "body" (by decide), hp1 "footer" (by decide), hp1 "footnotes" (by decide),
      hp1 "endnotes" (by decide), hp1 part hp]

/-- **C16: extracting the saved file gives what extracting the original gives** — every `*_pars`,
`*_runs` and plain view of every attribute, and `text`, for every option setting -/
theorem C16_reextract (o : Opts) (a out : Archive) (files : List Rel) (hf : a.files = .ok files) (hfo : out.files = .ok files)
    (h : save o a = .ok out) (hs : saveSane files = true)
    (hg : ∀ r ∈ files, contentTypes.contains r.type = true → ∀ root, a.readXml r.path = .ok root → goodTree root = true) :
    (∀ part ∈ ["header", "footer", "body", "footnotes", "endnotes", "document"],
      viewPars o out part = viewPars o a part ∧ viewRuns o out part = viewRuns o a part ∧ viewPlain o out part = viewPlain o a part) ∧
    docText o out = docText o a := by
  have hgp : ∀ t ∈ partTypes, parsOf o out t = parsOf o a t := fun t ht => getPars_same o a out files hf hfo h hs hg t ht
  refine ⟨fun part hp => views_congr _ _ hgp part hp, ?_⟩
  unfold docText docTextFrom
  rw [(views_congr _ _ hgp "document" (by decide)).2.1]

/-! ## images and core properties of the saved archive -/

theorem imagesLoop_same (a out : Archive) : ∀ (rs : List Rel) (d : Dict Str Str), (∀ r ∈ rs, out.read r.path = a.read r.path) →
    imagesLoop out rs d = imagesLoop a rs d
  | [], _, _ => rfl
  | r :: rs, d, h => by
    simp only [imagesLoop, h r (by simp)]
    have ih := fun d' => imagesLoop_same a out rs d' (fun x hx => h x (by simp [hx]))
    cases a.read r.path with
    | error e => cases e <;> simp only [ih]
    | ok mb => cases mb <;> simp only [ih]

/-- **C16: `images` and `core_properties` of the saved archive** are those of the input, when no image
part and no core-properties part is at the same time a content part -/
theorem C16_images_core_same (o : Opts) (a out : Archive) (files : List Rel) (hf : a.files = .ok files) (hfo : out.files = .ok files)
    (h : save o a = .ok out)
    (hi : ∀ r ∈ files, (r.type = lit "image" ∨ r.type = lit "core-properties") → r.path ∉ contentPaths files) :
    images out = images a ∧ coreProperties out = coreProperties a := by
  constructor
  · unfold images
    rw [hf, hfo]
    simp only [ok_bind]
    apply imagesLoop_same
    intro r hr
    obtain ⟨hrf, hty⟩ := mem_filesOfType files _ r hr
    exact read_same_member o a out files hf h r.path (hi r hrf (Or.inl (by simpa using hty)))
  · unfold coreProperties
    rw [hf, hfo]
    simp only [ok_bind]
    cases hfl : filesOfType files [lit "core-properties"] with
    | nil => rfl
    | cons r rest =>
      have hr : r ∈ filesOfType files [lit "core-properties"] := by rw [hfl]; simp
      obtain ⟨hrf, hty⟩ := mem_filesOfType files _ r hr
      simp only
      rw [read_same o a out files hf h r.path (hi r hrf (Or.inr (by simpa using hty)))]

end D2P
