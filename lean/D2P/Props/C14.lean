import D2P.Model.Numbering
import D2P.Proofs.Dict
import D2P.Props.C15
/-!
# C14 — extraction is a pure function: the stateful piece (list counters)

`BulletGenerator` is the only state that *advances* while a part is read. Paragraph numbers
are memoised per paragraph element, so asking again — which is what re-reading a paragraph's
bullet or `list_position` does — returns the same number and leaves the counters untouched.
(The caches of `File`/`DocxReader` are covered by the lifecycle machine of C15; freshness of
returned lists and immutability of the input bytes are observed by the harness, see DESIGN.)
-/
namespace D2P

/-- **C14/C08: list numbering does not advance on re-reading.** -/
theorem C14_par_number_memo (b : Bullets) (p : Xml) (pid : Nat) :
    parNumber (parNumber b p pid).1 p pid = ((parNumber b p pid).1, (parNumber b p pid).2) := by
  cases hm : b.memo.get? pid with
  | some n =>
    have h1 : parNumber b p pid = (b, n) := by unfold parNumber; simp [hm]
    rw [h1]; unfold parNumber; simp [hm]
  | none =>
    -- the first call stores the number under `pid`; the second call finds it
    have key : ∀ (b' : Bullets) (n : Option Int), b'.memo.get? pid = some n → parNumber b' p pid = (b', n) := by
      intro b' n h; unfold parNumber; simp [h]
    have h1 : ∃ b' n, parNumber b p pid = (b', n) ∧ b'.memo.get? pid = some n := by
      unfold parNumber
      simp only [hm]
      split
      · exact ⟨_, _, rfl, by simp only [Dict.get?_set_eq]⟩
      · exact ⟨_, _, rfl, by simp only [Dict.get?_set_eq]⟩
    obtain ⟨b', n, h1, h2⟩ := h1
    rw [h1]
    exact key b' n h2

/-- the counters after asking twice are the counters after asking once -/
theorem C14_counters_stable (b : Bullets) (p : Xml) (pid : Nat) :
    (parNumber (parNumber b p pid).1 p pid).1.counts = (parNumber b p pid).1.counts := by
  rw [C14_par_number_memo]

/-! ## Read histories over the cache machine

`Res.value a` is "the value a fresh object returns for attribute `a`"; that the value served
from the caches *is* that value is what the correspondence observes. What the machine adds is
the quantifier: every history, of any length, in any order, over any cache state. -/

def isRead : Op → Bool | .read _ => true | _ => false

def expected : Op → Res | .read a => .value a | .save => .saved | _ => .done true

theorem read_keeps_open (needs : Needs) (allRaw : List UnitKey) (s : LState) (a : Nat)
    (h : s.closed = false) : (step needs allRaw s (.read a)).1.closed = false := by
  simp only [step]
  split
  · rename_i s' hf; simp only; rw [(fetch_closed s s' _ hf).1]; exact h
  · exact h

/-- **C14: repeated reads, in any order, from any cache state of an unclosed reader, all return
the value a fresh object returns** — every read history, no bound on its length. -/
theorem C14_read_histories (needs : Needs) (allRaw : List UnitKey) :
    ∀ (ops : List Op) (s : LState), s.closed = false → ops.all isRead = true →
      (run needs allRaw s ops).2 = ops.map expected := by
  intro ops
  induction ops with
  | nil => intro s _ _; rfl
  | cons op ops ih =>
    intro s hc hall
    simp only [List.all_cons, Bool.and_eq_true] at hall
    cases op with
    | read a =>
      simp only [run, List.map_cons, expected]
      rw [C15_before_close needs allRaw s a hc, ih _ (read_keeps_open needs allRaw s a hc) hall.2]
    | save => simp [isRead] at hall
    | close => simp [isRead] at hall
    | withExit b => simp [isRead] at hall

/-- two histories that read the same attribute anywhere agree on it, whatever else was read
before: the value of a read does not depend on the prefix -/
theorem C14_prefix_independent (needs : Needs) (allRaw : List UnitKey) (pre₁ pre₂ : List Op)
    (s₁ s₂ : LState) (a : Nat) (h₁ : s₁.closed = false) (h₂ : s₂.closed = false)
    (r₁ : pre₁.all isRead = true) (r₂ : pre₂.all isRead = true) :
    (run needs allRaw s₁ (pre₁ ++ [.read a])).2.getLast? =
      (run needs allRaw s₂ (pre₂ ++ [.read a])).2.getLast? := by
  rw [C14_read_histories needs allRaw _ s₁ h₁ (by simp [r₁, isRead]),
      C14_read_histories needs allRaw _ s₂ h₂ (by simp [r₂, isRead])]
  simp [expected]

example : (run (fun _ a => ⟨[.files, .root (lit "word/document.xml")], [lit "word/document.xml"]⟩) []
    {} [.read 3, .read 1, .read 3]).2 = [.value 3, .value 1, .value 3] := by decide

end D2P
