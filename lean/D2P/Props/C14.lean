import D2P.Model.Numbering
import D2P.Proofs.Dict
/-!
# C14 — extraction is a pure function: the stateful piece (list counters)

`BulletGenerator` is the only state that *advances* while a part is read. Paragraph numbers
are memoised per paragraph element, so asking again — which is what re-reading a paragraph's
bullet or `list_position` does — returns the same number and leaves the counters untouched.
(The caches of `File`/`DocxReader` are covered by the lifecycle machine of C15; freshness of
returned lists and immutability of the input bytes are observed by the harness, see DESIGN.)
-/
namespace D2P

/-- **C14/C08: list numbering does not advance on re-reading.** -/
theorem C14_par_number_memo (b : Bullets) (p : Xml) (pid : Nat) :
    parNumber (parNumber b p pid).1 p pid = ((parNumber b p pid).1, (parNumber b p pid).2) := by
  cases hm : b.memo.get? pid with
  | some n =>
    have h1 : parNumber b p pid = (b, n) := by unfold parNumber; simp [hm]
    rw [h1]; unfold parNumber; simp [hm]
  | none =>
    -- the first call stores the number under `pid`; the second call finds it
    have key : ∀ (b' : Bullets) (n : Option Int), b'.memo.get? pid = some n → parNumber b' p pid = (b', n) := by
      intro b' n h; unfold parNumber; simp [h]
    have h1 : ∃ b' n, parNumber b p pid = (b', n) ∧ b'.memo.get? pid = some n := by
      unfold parNumber
      simp only [hm]
      split
      · exact ⟨_, _, rfl, by simp only [Dict.get?_set_eq]⟩
      · exact ⟨_, _, rfl, by simp only [Dict.get?_set_eq]⟩
    obtain ⟨b', n, h1, h2⟩ := h1
    rw [h1]
    exact key b' n h2

/-- the counters after asking twice are the counters after asking once -/
theorem C14_counters_stable (b : Bullets) (p : Xml) (pid : Nat) :
    (parNumber (parNumber b p pid).1 p pid).1.counts = (parNumber b p pid).1.counts := by
  rw [C14_par_number_memo]

end D2P
