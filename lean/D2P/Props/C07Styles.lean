import D2P.Proofs.StyleOK
import D2P.Props.C07Balance
/-!
# C07 — the style strings the formatter produces are well-formed tag contents

`C07_run_string` / `C07_paragraph_string` assume `GoodStyle` of every style string.  This file
discharges that hypothesis for everything `_format_Pr_into_html` can return: `formatPr_good` — for
every property dict whose VALUES (the `w:val` attributes of the document) contain no angle bracket,
every style string starts with its tag name and contains no angle bracket.  The parts that do not
come from the document come from the formatter table regenerated from `/repo`; the `decide`s below
re-check the table on every run.
-/
namespace D2P

def cleanB (s : Str) : Bool := !s.contains '<' && !s.contains '>'

theorem noAngle_of_cleanB (s : Str) (h : cleanB s = true) : NoAngle s := by
  unfold cleanB at h
  simp only [Bool.and_eq_true, Bool.not_eq_true', List.contains_eq_mem, decide_eq_false_iff_not] at h
  exact h

theorem noAngle_append {a b : Str} (ha : NoAngle a) (hb : NoAngle b) : NoAngle (a ++ b) := by
  unfold NoAngle at *
  simp only [List.mem_append, not_or]
  exact ⟨⟨ha.1, hb.1⟩, ⟨ha.2, hb.2⟩⟩

theorem noAngle_nil : NoAngle [] := ⟨by simp, by simp⟩

theorem noAngle_sub {a b : Str} (hb : NoAngle b) (hs : ∀ c ∈ a, c ∈ b) : NoAngle a :=
  ⟨fun h => hb.1 (hs _ h), fun h => hb.2 (hs _ h)⟩

theorem noAngle_sjoinSep (sep : Str) (hs : NoAngle sep) : ∀ (xs : List Str), (∀ x ∈ xs, NoAngle x) → NoAngle (sjoinSep sep xs)
  | [], _ => noAngle_nil
  | [x], h => by simpa [sjoinSep] using h x (by simp)
  | x :: y :: xs, h => by
    simp only [sjoinSep]
    exact noAngle_append (noAngle_append (h x (by simp)) hs) (noAngle_sjoinSep sep hs (y :: xs) (fun z hz => h z (by simp [hz])))

/-- the values of the property dict come from the document: no angle bracket in them -/
def CleanPr (pr : Dict Str (Option Str)) : Prop := ∀ kv ∈ pr, ∀ v, kv.2 = some v → NoAngle v

/-- starts with a character that is neither blank nor `/` -/
def headGoodb : Str → Bool
  | ch :: _ => !isPyWs ch && ch != '/'
  | [] => false

theorem headGoodb_append (a b : Str) (h : headGoodb a = true) : headGoodb (a ++ b) = true := by
  cases a with
  | nil => simp [headGoodb] at h
  | cons c cs => simpa [headGoodb] using h

theorem good_of (st : Str) (hn : NoAngle st) (hh : headGoodb st = true) : GoodStyle st := by
  cases st with
  | nil => simp [headGoodb] at hh
  | cons c cs =>
    simp only [headGoodb, Bool.and_eq_true, Bool.not_eq_true', bne_iff_ne, ne_eq] at hh
    exact ⟨hn, c, cs, rfl, hh.2, hh.1⟩

/-! ## the table -/

def kindClean : Gen.FmtKind → Bool
  | .const s => cleanB (lit s)
  | .wrapVal pre post => cleanB (lit pre) && cleanB (lit post)
  | _ => true

def rowClean (f : Gen.Formatter) : Bool :=
  cleanB (lit f.key) && kindClean f.kind &&
  (match f.container with | some c => cleanB (lit c) && headGoodb (lit c) | none => true) &&
  (match f.property with | some p => cleanB (lit p) | none => true)

def plainGood (f : Gen.Formatter) : Bool :=
  f.container.isSome || f.property.isSome ||
  match f.kind with
  | .tagItself => headGoodb (lit f.key)
  | .const s => headGoodb (lit s)
  | .valPrefix3 => f.key == "vertAlign"
  | .wrapVal pre _ => headGoodb (lit pre)
  | .headingLevel => true

theorem table_clean : Gen.formatters.all rowClean = true := by decide
theorem table_plain_good : Gen.formatters.all plainGood = true := by decide

/-! ## rendered values -/

theorem lastChar_sub (s : Str) : ∀ c ∈ lastChar s, c ∈ s := by
  intro c hc
  unfold lastChar at hc
  cases hl : s.getLast? with
  | none => simp [hl] at hc
  | some l =>
    simp only [hl, List.mem_singleton] at hc
    subst hc
    exact List.mem_of_getLast? hl

theorem rendered_clean (pr : Dict Str (Option Str)) (hp : CleanPr pr) (h : Gen.Formatter × Str) (hm : h ∈ renderedProps pr) :
    NoAngle h.2 ∧ h.1 ∈ Gen.formatters := by
  obtain ⟨kv, hkv, hl, _, hv⟩ := mem_renderedProps pr h hm
  obtain ⟨hmem, hkey⟩ := lookupFormatter_mem kv.1 h.1 hl
  have hrow := List.all_eq_true.1 table_clean h.1 hmem
  simp only [rowClean, Bool.and_eq_true] at hrow
  obtain ⟨⟨⟨hk, hkind⟩, _⟩, _⟩ := hrow
  have hval : NoAngle (kv.2.getD []) := by
    cases hv2 : kv.2 with
    | none => exact noAngle_nil
    | some v => exact hp kv hkv v hv2
  have htag : NoAngle kv.1 := by rw [← hkey]; exact noAngle_of_cleanB _ hk
  refine ⟨?_, hmem⟩
  rw [hv]
  cases hkd : h.1.kind with
  | tagItself => exact htag
  | const s => simp only [hkd, kindClean] at hkind; exact noAngle_of_cleanB _ hkind
  | valPrefix3 => exact noAngle_sub hval (fun c hc => (List.take_prefix 3 _).subset hc)
  | wrapVal pre post =>
    simp only [hkd, kindClean, Bool.and_eq_true] at hkind
    exact noAngle_append (noAngle_append (noAngle_of_cleanB _ hkind.1) hval) (noAngle_of_cleanB _ hkind.2)
  | headingLevel =>
    simp only [Gen.FmtKind.apply]
    refine ⟨?_, ?_⟩
    · simp only [List.mem_cons, not_or]; exact ⟨by decide, fun h1 => htag.1 (lastChar_sub _ _ h1)⟩
    · simp only [List.mem_cons, not_or]; exact ⟨by decide, fun h1 => htag.2 (lastChar_sub _ _ h1)⟩

/-- every group key is the (container, property) pair of one of the hits -/
theorem mem_groupKeys (hits : List (Gen.Formatter × Str)) (k : Str × Str) (hk : k ∈ groupKeys hits) :
    ∃ h ∈ hits, ∃ cc pp, h.1.container = some cc ∧ h.1.property = some pp ∧ k = (lit cc, lit pp) := by
  unfold groupKeys at hk
  have key : ∀ (ks acc : List (Str × Str)) (z : Str × Str),
      z ∈ ks.foldr (fun x acc => (acc.takeWhile (fun y => strLt y.1 x.1 || (y.1 == x.1 && strLt y.2 x.2))) ++ [x] ++ (acc.dropWhile (fun y => strLt y.1 x.1 || (y.1 == x.1 && strLt y.2 x.2)))) acc →
      z ∈ ks ∨ z ∈ acc := by
    intro ks
    induction ks with
    | nil => intro acc z hz; exact Or.inr hz
    | cons x xs ih =>
      intro acc z hz
      simp only [List.foldr_cons] at hz
      rcases List.mem_append.1 hz with hz | hz
      · rcases List.mem_append.1 hz with hz | hz
        · rcases ih acc z ((List.takeWhile_prefix _).subset hz) with h | h
          · exact Or.inl (List.mem_cons_of_mem _ h)
          · exact Or.inr h
        · simp at hz; exact Or.inl (by simp [hz])
      · rcases ih acc z ((List.dropWhile_suffix _).subset hz) with h | h
        · exact Or.inl (List.mem_cons_of_mem _ h)
        · exact Or.inr h
  rcases key _ [] k hk with h | h
  · have h := List.mem_eraseDups.1 h
    obtain ⟨hh, hhm, he⟩ := List.mem_filterMap.1 h
    cases hcn : hh.1.container with
    | none => simp [hcn] at he
    | some cc =>
      cases hpp : hh.1.property with
      | none => simp [hcn, hpp] at he
      | some pp =>
        simp only [hcn, hpp, Option.some.injEq] at he
        exact ⟨hh, hhm, cc, pp, hcn, hpp, he.symm⟩
  · simp at h

/-- **every style string of the formatter is a well-formed tag content** -/
theorem formatPr_good (html : Bool) (pr : Dict Str (Option Str)) (hp : CleanPr pr) : ∀ st ∈ formatPr html pr, GoodStyle st := by
  unfold formatPr
  cases html with
  | false => intro st hst; simp at hst
  | true =>
    simp only [Bool.not_true, Bool.false_eq_true, if_false]
    intro st hst
    rcases List.mem_append.1 hst with hst | hst
    · -- a span: `container property="v1;v2" …`
      obtain ⟨c, hc, rfl⟩ := List.mem_map.1 hst
      have hc1 : c ∈ ((groupKeys (renderedProps pr)).map (·.1)) := List.mem_eraseDups.1 hc
      obtain ⟨k, hk, rfl⟩ := List.mem_map.1 hc1
      obtain ⟨h, hh, cc, pp, hcn, _, rfl⟩ := mem_groupKeys _ k hk
      have hrow := List.all_eq_true.1 table_clean h.1 (rendered_clean pr hp h hh).2
      simp only [rowClean, hcn, Bool.and_eq_true] at hrow
      obtain ⟨⟨_, hcc⟩, _⟩ := hrow
      apply good_of
      · refine noAngle_append (noAngle_append (noAngle_of_cleanB _ hcc.1) ⟨by decide, by decide⟩) ?_
        apply noAngle_sjoinSep _ ⟨by decide, by decide⟩
        intro p hpm
        obtain ⟨k2, hk2, rfl⟩ := List.mem_map.1 hpm
        have hk2' := (List.mem_filter.1 hk2).1
        obtain ⟨h2, hh2, cc2, pp2, _, hpp2, rfl⟩ := mem_groupKeys _ k2 hk2'
        have hrow2 := List.all_eq_true.1 table_clean h2.1 (rendered_clean pr hp h2 hh2).2
        simp only [rowClean, hpp2, Bool.and_eq_true] at hrow2
        refine noAngle_append (noAngle_append (noAngle_append (noAngle_of_cleanB _ hrow2.2) ⟨by decide, by decide⟩) ?_) ⟨by decide, by decide⟩
        apply noAngle_sjoinSep _ ⟨by decide, by decide⟩
        intro v hvm
        have hvm := mem_sortStrs v _ hvm
        obtain ⟨h3, hh3, he3⟩ := List.mem_filterMap.1 hvm
        split at he3
        · cases he3; exact (rendered_clean pr hp h3 hh3).1
        · cases he3
      · rw [List.append_assoc]; exact headGoodb_append _ _ hcc.2
    · -- a plain tag
      have hst := mem_sortStrs st _ hst
      obtain ⟨h, hh, he⟩ := List.mem_filterMap.1 hst
      by_cases hcp : (h.1.container.isNone && h.1.property.isNone) = true
      · simp only [hcp, if_true, Option.some.injEq] at he
        subst he
        apply good_of _ (rendered_clean pr hp h hh).1
        obtain ⟨kv, _, hl, hoff, hv⟩ := mem_renderedProps pr h hh
        obtain ⟨hmem, hkey⟩ := lookupFormatter_mem kv.1 h.1 hl
        have hpg := List.all_eq_true.1 table_plain_good h.1 hmem
        simp only [Bool.and_eq_true, Option.isNone_iff_eq_none] at hcp
        simp only [plainGood, hcp.1, hcp.2, Option.isSome_none, Bool.false_or] at hpg
        rw [hv]
        cases hk : h.1.kind with
        | tagItself => simp only [hk] at hpg; simp only [Gen.FmtKind.apply]; rw [← hkey]; exact hpg
        | const s => simp only [hk] at hpg; simpa only [Gen.FmtKind.apply] using hpg
        | valPrefix3 =>
          simp only [hk, beq_iff_eq] at hpg
          have hkv : kv.1 = lit "vertAlign" := by rw [← hkey, hpg]
          unfold isSwitchedOff at hoff
          rw [hkv] at hoff
          simp only [vertAlign_not_toggle, Bool.false_eq_true, if_false] at hoff
          have hu : (lit "vertAlign" == lit "u") = false := by decide
          simp only [hu, Bool.false_eq_true, if_false, beq_self_eq_true, if_true, Bool.not_eq_false',
            Bool.or_eq_true, beq_iff_eq] at hoff
          simp only [Gen.FmtKind.apply]
          rcases hoff with hoff | hoff <;> rw [hoff] <;> decide
        | wrapVal pre post =>
          simp only [hk] at hpg
          simp only [Gen.FmtKind.apply]
          rw [List.append_assoc]; exact headGoodb_append _ _ hpg
        | headingLevel => simp [Gen.FmtKind.apply, headGoodb, isPyWs]
      · simp [hcp] at he

/-- the paragraph tags (heading level): always well formed — the style name is only compared with the table -/
theorem parFormatting_good (html : Bool) (p : Xml) (st : List Str) (h : parFormatting html p = .ok st) : ∀ x ∈ st, GoodStyle x := by
  unfold parFormatting at h
  obtain ⟨d, _, h⟩ := bind_ok h
  have := pure_ok h; subst this
  exact formatPr_good html _ (by intro kv hkv v hv; simp at hkv; subst hkv; simp at hv)

/-- the run tags: well formed whenever the run's property values carry no angle bracket -/
theorem runFormatting_good (html : Bool) (r : Xml) (st : List Str) (pr : Dict Str (Option Str))
    (hg : gatherPr r = .ok pr) (hc : CleanPr pr) (h : runFormatting html r = .ok st) : ∀ x ∈ st, GoodStyle x := by
  unfold runFormatting at h
  rw [hg] at h
  have := pure_ok h; subst this
  exact formatPr_good html pr hc

example : CleanPr [(lit "b", none), (lit "color", some (lit "FF0000")), (lit "sz", some (lit "24"))] := by
  intro kv hkv v hv
  simp only [List.mem_cons, List.mem_nil_iff, or_false] at hkv
  rcases hkv with rfl | rfl | rfl
  · simp at hv
  · simp only [Option.some.injEq] at hv; subst hv; exact ⟨by decide, by decide⟩
  · simp only [Option.some.injEq] at hv; subst hv; exact ⟨by decide, by decide⟩

end D2P
