import D2P.Props.C02
/-!
# C05 — table paragraphs are identifiable: lineage, element and style

For a paragraph that encloses no other paragraph (the `C02_paragraph` setting):
* `C05_cell_lineage`: if the paragraph has a `w:tc` ancestor — `inCell`, the flag the walk
  carries down from every `w:tc` it enters, including through nested tables, text boxes,
  content controls and hyperlink sub-walks — its record reports
  `("document", "tbl", "tr", "tc", "p")` (this is the repaired behaviour, finding P12);
* `C05_elem_style`: the record points at that very element and reports its
  `w:pPr/w:pStyle/@w:val`, or `""`;
* `C05_predicates`: `is_tbl`, `is_tr`, `is_tc` are true on a list whose first paragraph has the
  table lineage, and copies made for merged cells keep the lineage of their original.
Still to do: `C05_free_lineage` (a paragraph outside every table never reports `tbl`), which
needs the register invariant of DESIGN §9/C05.
-/
namespace D2P

/-- **C05: lineage of a paragraph inside a table cell.** -/
theorem C05_cell_lineage (cfg : PartCfg) (num : Dict Str (List NumAttr)) (s s' : DC)
    (i : Nat) (p : Option Str) (t : QName) (m : NsMap) (a : List (QName × Str)) (tx tl : Option Str) (ks : List Xml)
    (hx : (Xml.elem i p t m a tx tl ks).ptag = paragraphTag) (hk : flatInlineL ks = true) (hni : NoImpl s)
    (h : walk cfg num true s (.elem i p t m a tx tl ks) = .ok s') :
    ∃ par, leafParsL s'.root = leafParsL s.root ++ [par] ∧ par.elem = some i ∧ par.lineage = tableLineage := by
  obtain ⟨par, body, bb, h1, _, _, _, h5, _, _, _, _, hl, _⟩ := walk_paragraph cfg num true s s' i p t m a tx tl ks hx hk hni h
  exact ⟨par, h1, h5, hl rfl⟩

/-- **C05: element and style.** -/
theorem C05_elem_style (cfg : PartCfg) (num : Dict Str (List NumAttr)) (c : Bool) (s s' : DC)
    (i : Nat) (p : Option Str) (t : QName) (m : NsMap) (a : List (QName × Str)) (tx tl : Option Str) (ks : List Xml)
    (hx : (Xml.elem i p t m a tx tl ks).ptag = paragraphTag) (hk : flatInlineL ks = true) (hni : NoImpl s)
    (h : walk cfg num c s (.elem i p t m a tx tl ks) = .ok s') :
    ∃ par, leafParsL s'.root = leafParsL s.root ++ [par] ∧ par.elem = some i ∧
      getPStyle (.elem i p t m a tx tl ks) = .ok par.style := by
  obtain ⟨par, body, bb, h1, _, _, _, h5, _, _, _, _, _, hs⟩ := walk_paragraph cfg num c s s' i p t m a tx tl ks hx hk hni h
  exact ⟨par, h1, h5, hs.1⟩

/-- the walk hands `inCell = true` to everything below a `w:tc` -/
theorem C05_flag_set_below_cell (x : Xml) (c : Bool) (h : isCellTag x = true) : (c || isCellTag x) = true := by simp [h]

/-! ## the predicates of `iterators.py` -/

/-- `first_par.lineage[k] == name` on the first paragraph found `d` levels down -/
def firstLeaf : Nest → Option Par
  | .par p => some p
  | .list [] => none
  | .list (x :: _) => firstLeaf x

def isTbl (tbl : Nest) : Bool := match firstLeaf tbl with | some p => p.lineage[1]? == some (some (lit "tbl")) | none => false
def isTr (row : Nest) : Bool := match firstLeaf row with | some p => p.lineage[2]? == some (some (lit "tr")) | none => false
def isTc (cell : Nest) : Bool := match firstLeaf cell with | some p => p.lineage[3]? == some (some (lit "tc")) | none => false

/-- **C05: predicates.** A table / row / cell whose first paragraph has the table lineage is
recognised by all three predicates. -/
theorem C05_predicates (n : Nest) (p : Par) (h : firstLeaf n = some p) (hl : p.lineage = tableLineage) :
    isTbl n = true ∧ isTr n = true ∧ isTc n = true := by
  unfold isTbl isTr isTc
  simp only [h, hl]
  decide

mutual
/-- copies made for merged cells keep the lineage of the paragraphs they copy -/
theorem markCopy_lineage : (x : Nest) → (leafParsT (markCopyT x)).map (·.lineage) = (leafParsT x).map (·.lineage)
  | .par q => by simp [markCopyT, leafParsT]
  | .list xs => by simp only [markCopyT, leafParsT]; exact markCopyL_lineage xs
theorem markCopyL_lineage : (xs : List Nest) → (leafParsL (markCopyL xs)).map (·.lineage) = (leafParsL xs).map (·.lineage)
  | [] => rfl
  | x :: xs => by simp only [markCopyL, leafParsL, List.map_append, markCopy_lineage x, markCopyL_lineage xs]
end

end D2P
