import D2P.Proofs.Paragraph
import D2P.Proofs.UnstyledWalk
/-!
# C02 — text is extracted completely, exactly once, and in document order

Full statement (`properties.jsonl`): the string of every extracted paragraph is exactly its
visible inline content in document order, preceded only by the note label and list marker;
hence no character is lost, doubled, invented or moved, and leaf paragraphs keep their order.

Proved here, for every tree, option setting, collector state and numbering table:

* `C02_flat_inline` — walking inline content (no paragraph, cell, hyperlink, note or comment
  marker inside) appends exactly `inlineText` to the open paragraph and changes nothing else;
* `C02_paragraph` — a paragraph that encloses no other paragraph, opened while no implicit
  paragraph (stray inline content outside every `w:p`) is pending — `NoImpl`; a pending one is
  concluded first, which `Props/Findings` exhibits — adds exactly one record, **at
  the end of the document order**, whose run texts concatenate to
  `queued note label ++ list marker ++ inlineText(children)`; everything collected before, the
  open paragraphs around it and the comment ranges are untouched;
* `C02_paragraph_sequence_partial` — consecutive such paragraphs come out one record each, in
  document order, with exactly those texts (the list counters being threaded through).

Still to be proved for the full statement (named in DESIGN §9/C02): hyperlinks and nested
paragraphs inside the paragraph, block containers between paragraphs, and the identification
of the run-string concatenation with these run texts when html is off (all style lists empty).
-/
namespace D2P

/-- **C02, inline content.** -/
theorem C02_flat_inline (cfg : PartCfg) (num : Dict Str (List NumAttr)) (x : Xml) (c : Bool) (s s' : DC)
    (hf : flatInline x = true) (ht : HasTop s) (h : walk cfg num c s x = .ok s') :
    ∃ t, inlineText cfg x = .ok t ∧ Grow s s' t := walk_flat cfg num x c s s' hf ht h

/-- a paragraph element whose children are flat inline content -/
def flatPar : Xml → Bool
  | .elem i p t m a tx tl ks => (Xml.elem i p t m a tx tl ks).ptag == paragraphTag && flatInlineL ks
  | _ => false

/-- the text the property prescribes for a flat paragraph, and the counter state afterwards -/
def parSpec (cfg : PartCfg) (b : Bullets) (prefix_ : Str) : Xml → M (Str × Bullets)
  | .elem i p t m a tx tl ks =>
    (getBullet b (.elem i p t m a tx tl ks) i) >>= fun bb =>
    (inlineTextL cfg ks) >>= fun body =>
    pure (prefix_ ++ bb.2 ++ body, (listPosition bb.1 (.elem i p t m a tx tl ks) i).1)
  | _ => .error .modelLimit

/-- **C02, one paragraph.** -/
theorem C02_paragraph (cfg : PartCfg) (num : Dict Str (List NumAttr)) (c : Bool) (s s' : DC) (x : Xml)
    (hx : flatPar x = true) (hni : NoImpl s) (h : walk cfg num c s x = .ok s') :
    ∃ par, leafParsL s'.root = leafParsL s.root ++ [par] ∧ s'.openPars = s.openPars ∧ s'.queued = [] ∧
      s'.ranges = s.ranges ∧ par.elem = x.id? ∧
      parSpec cfg s.bullets (sjoin (s.queued.map (·.text))) x = .ok (parText par, s'.bullets) := by
  cases x with
  | elem i p t m a tx tl ks =>
    simp only [flatPar, Bool.and_eq_true, beq_iff_eq] at hx
    obtain ⟨par, body, bb, h1, h2, h3, h4, h5, h6, h7, h8, h9, _, _⟩ :=
      walk_paragraph cfg num c s s' i p t m a tx tl ks hx.1 hx.2 hni h
    refine ⟨par, h1, h2, h3, h4, by simpa [Xml.id?] using h5, ?_⟩
    simp only [parSpec, h7, h6, ok_bind, h8, h9]
    rfl
  | comment _ _ => simp [flatPar] at hx
  | pi _ => simp [flatPar] at hx

/-- the texts prescribed for a sequence of flat paragraphs: the queued label goes to the first -/
def seqSpec (cfg : PartCfg) : Bullets → Str → List Xml → M (List Str × Bullets)
  | b, _, [] => pure ([], b)
  | b, pre, x :: xs =>
    (parSpec cfg b pre x) >>= fun r =>
    (seqSpec cfg r.2 [] xs) >>= fun rest => pure (r.1 :: rest.1, rest.2)

/-- **C02, consecutive paragraphs** (partial: siblings that are all flat paragraphs). One record
per source paragraph, appended in document order, texts as prescribed, identities preserved. -/
theorem C02_paragraph_sequence_partial (cfg : PartCfg) (num : Dict Str (List NumAttr)) (c : Bool) :
    ∀ (xs : List Xml) (s s' : DC), (∀ x ∈ xs, flatPar x = true) → NoImpl s → walkL cfg num c s xs = .ok s' →
    ∃ pars, leafParsL s'.root = leafParsL s.root ++ pars ∧ pars.map (·.elem) = xs.map Xml.id? ∧
      s'.openPars = s.openPars ∧ s'.ranges = s.ranges ∧
      seqSpec cfg s.bullets (sjoin (s.queued.map (·.text))) xs = .ok (pars.map parText, s'.bullets) := by
  intro xs
  induction xs with
  | nil =>
    intro s s' _ _ h
    simp only [walkL] at h; have := pure_ok h; subst this
    exact ⟨[], by simp, rfl, rfl, rfl, rfl⟩
  | cons x xs ih =>
    intro s s' hall hni h
    simp only [walkL] at h
    obtain ⟨s1, h1, h⟩ := bind_ok h
    obtain ⟨par, a1, a2, a3, a4, a5, a6⟩ := C02_paragraph cfg num c s s1 x (hall x (by simp)) hni h1
    obtain ⟨pars, b1, b2, b3, b4, b5⟩ := ih s1 s' (fun y hy => hall y (by simp [hy])) (NoImpl_of_openPars a2 hni) h
    refine ⟨par :: pars, by rw [b1, a1]; simp, by simp [a5, b2], b3.trans a2, b4.trans a4, ?_⟩
    simp only [seqSpec, a6, ok_bind]
    rw [a3] at b5
    simp only [List.map_nil, sjoin] at b5
    simp only [b5, ok_bind]
    rfl

end D2P

namespace D2P

/-- **C02, html off: the paragraph string is the concatenation of the run texts.** Every record
of a collector built with html off has an empty tag list on itself and on each of its runs, so
`"".join(par.run_strings)` — the string the caller sees — is exactly the text the theorems above
speak about. -/
theorem C02_plain_is_run_texts (cfg : PartCfg) (hc : cfg.html = false) (num : Dict Str (List NumAttr))
    (root : Xml) (c : Bool) (dc : DC) (h : newDepthCollector cfg num root c = .ok dc) :
    ∀ p ∈ leafParsL dc.root, ∃ ss, p.runStrings = .ok ss ∧ sjoin ss = parText p :=
  plain_strings cfg hc num root c dc h

end D2P
