import D2P.Model.Numbering
import D2P.Proofs.Dict
/-!
# C08 — list markers: Word's counting rule

`countSince` is the specification: the number of earlier items of the same list at level `l`
since the latest item of that list whose level is shallower than `l`. The theorems say that
after **any** history the counter dictionary of `_increment_list_counter` holds exactly these
numbers (and no entry where the number is zero), so the ordinal of the next item at level `l`
is `countSince history l + 1` (plus the level's start value minus one).

Levels are compared by the code **as strings**; for the canonical spellings of levels 0–8
(`isLevel`) this is the numeric order (`level_order`), which is the hypothesis under which
the specification reads as Word's rule.
-/
namespace D2P

/-- history, most recent item first; `countSince h l` = items at level `l` before the first
item shallower than `l` -/
def countSince : List Str → Str → Nat
  | [], _ => 0
  | m :: rest, l => if strLt m l then 0 else (if m == l then 1 else 0) + countSince rest l

/-- the counter after a history (most recent first) -/
def counterAfter : List Str → Counter
  | [] => []
  | l :: rest => (incrementListCounter (counterAfter rest) l).1

theorem strLt_irrefl (a : Str) : strLt a a = false := by
  induction a with
  | nil => rfl
  | cons c cs ih => simp [strLt, ih]

/-- **C08 (counting), invariant.** After any history the dictionary holds, for every level,
the number of items since the latest shallower item — absent when that number is zero. -/
theorem C08_counter_invariant (h : List Str) (k : Str) :
    (counterAfter h).get? k = if countSince h k = 0 then none else some (countSince h k) := by
  induction h generalizing k with
  | nil => simp [counterAfter, countSince, Dict.get?]
  | cons l rest ih =>
    simp only [counterAfter, incrementListCounter, countSince]
    rw [Dict.get?_delWhere]
    by_cases hgt : strGt k l
    · -- a deeper level: deleted
      have : strLt l k = true := hgt
      simp [hgt, this]
    · have hlt : strLt l k = false := by simpa [strGt] using hgt
      simp only [hgt, Bool.false_eq_true, if_false, hlt]
      by_cases hkl : k = l
      · subst hkl
        rw [Dict.get?_set_eq]
        simp only [beq_self_eq_true, if_true]
        rw [ih k]
        by_cases hz : countSince rest k = 0
        · simp [hz]
        · simp [hz]; omega
      · rw [Dict.get?_set_ne _ _ _ _ hkl, ih k]
        have : ¬ (l == k) = true := by simpa using fun e => hkl e.symm
        simp [this]

/-- **C08 (counting).** The ordinal handed to an item at level `l` after history `h` is the
number of earlier items at that level since the latest shallower item, plus one. -/
theorem C08_next_ordinal (h : List Str) (l : Str) :
    (incrementListCounter (counterAfter h) l).2 = countSince h l + 1 := by
  simp only [incrementListCounter]
  rw [C08_counter_invariant h l]
  by_cases hz : countSince h l = 0 <;> simp [hz]

def levelDigits : List Str := ["0", "1", "2", "3", "4", "5", "6", "7", "8"].map lit
def isLevel (l : Str) : Bool := levelDigits.contains l
def levelNum (l : Str) : Nat := match l with | [c] => c.toNat - 48 | _ => 0

/-- on the canonical spellings of levels 0–8 the string order is the numeric order -/
theorem level_order : ∀ a ∈ levelDigits, ∀ b ∈ levelDigits, strLt a b = decide (levelNum a < levelNum b) := by
  decide

example : countSince [lit "1", lit "1", lit "0", lit "1"] (lit "1") = 2 := by decide
example : (counterAfter [lit "0", lit "2", lit "1", lit "0"]).keys = [lit "0"] := by decide

/-! ## definitions: a dangling reference concerns its own list only -/

/-- **C08: a `w:num` that refers to a definition that does not exist leaves every other list's
definition as it is** — the table is the one read without that entry (its own list id stays
undefined, hence `--`). -/
theorem C08_dangling_num_isolated (abs d : Dict Str (List NumAttr)) (n : Xml) (ns : List Xml)
    (numId v : Str) (qa : QName) (a : Xml)
    (h1 : n.attrReq (lit "w") (lit "numId") = .ok numId) (h2 : wq n "abstractNumId" = .ok qa)
    (h3 : n.findChild qa = some a) (h4 : a.attrReq (lit "w") (lit "val") = .ok v) (h5 : abs.get? v = none) :
    numEntries abs (n :: ns) d = numEntries abs ns d := by
  simp only [numEntries, h1, ok_bind, h2, h3, h4, h5]

/-- and a `w:num` whose definition exists is recorded under its list id -/
theorem C08_defined_num_recorded (abs d : Dict Str (List NumAttr)) (n : Xml) (ns : List Xml)
    (numId v : Str) (qa : QName) (a : Xml) (ls : List NumAttr)
    (h1 : n.attrReq (lit "w") (lit "numId") = .ok numId) (h2 : wq n "abstractNumId" = .ok qa)
    (h3 : n.findChild qa = some a) (h4 : a.attrReq (lit "w") (lit "val") = .ok v) (h5 : abs.get? v = some ls) :
    numEntries abs (n :: ns) d = numEntries abs ns (d.set numId ls) := by
  simp only [numEntries, h1, ok_bind, h2, h3, h4, h5]

end D2P
