import D2P.Proofs.Flush
import D2P.Model.Merge
/-!
# C06 — content-free markup is invisible to the walk

`hasContent x = false` is the code's own notion of "non-content markup" (`has_content`): an element
that is not in `_CONTENT_TAGS` and has no such descendant — proofing marks, bookmarks, revision
marks, property elements, unknown elements, with anything content-free below them.

* `walk_contentless`: walking such a subtree returns the collector unchanged, whatever the state,
  the options, the numbering table and the position (in a cell or not);
* `C06_noise_invisible`: hence a children list walks the same with and without such siblings,
  wherever they are inserted, any number of them.
-/
namespace D2P

def inertMembers : List String := ["PAR_PROPERTIES", "RUN_PROPERTIES", "SDT_PROPERTIES"]

/-- every tag of the register is a content tag, except the three property tags (which have no handler) -/
theorem tagTable_content : ∀ e ∈ tagTable, (contentTagsL.contains e.1 || inertMembers.contains e.2) = true := by
  decide +kernel

theorem tagMember_contentless (pt : Str) (m : String) (h : tagMember pt = some m) (hc : contentTagsL.contains pt = false) :
    m ∈ inertMembers := by
  unfold tagMember at h
  cases hf : tagTable.find? (fun e => e.1 == pt) with
  | none => rw [hf] at h; cases h
  | some e =>
    rw [hf] at h
    simp only [Option.map_some, Option.some.injEq] at h
    have hm := List.mem_of_find?_eq_some hf
    have hp : e.1 = pt := by simpa using List.find?_some hf
    have := tagTable_content e hm
    rw [hp, hc, Bool.false_or] at this
    rw [← h]
    exact List.contains_iff_mem.1 this

theorem openStep_inert (cfg : PartCfg) (s : DC) (x : Xml) (c : Bool) (roots : List (List Nest))
    (hc : isContentTag x = false) : openStep cfg s x c roots = .ok (s, true) := by
  unfold isContentTag at hc
  cases hm : tagMember x.ptag with
  | none => unfold openStep; rw [hm]; rfl
  | some m =>
    have := tagMember_contentless _ m hm hc
    simp only [inertMembers, List.mem_cons, List.mem_nil_iff, or_false] at this
    rcases this with rfl | rfl | rfl <;> (unfold openStep; rw [hm]; rfl)

theorem closeStep_inert (cfg : PartCfg) (s : DC) (x : Xml) (hc : isContentTag x = false) (hd : elemDepth x = none) :
    closeStep cfg s x = .ok s := by
  rw [closeStep_depth_none cfg s x hd]
  unfold isContentTag at hc
  cases hm : tagMember x.ptag with
  | none => unfold closeStepCore; rw [hm]; rfl
  | some m =>
    have := tagMember_contentless _ m hm hc
    simp only [inertMembers, List.mem_cons, List.mem_nil_iff, or_false] at this
    rcases this with rfl | rfl | rfl <;> (unfold closeStepCore; rw [hm]; rfl)

theorem paragraph_is_content : contentTagsL.contains paragraphTag = true := by decide +kernel
theorem hyperlink_is_content : contentTagsL.contains hyperlinkTag = true := by decide +kernel

mutual
theorem nearestPar_contentless : ∀ (x : Xml), hasContent x = false → nearestPar x = none
  | .elem i p t m a tx tl ks, h => by
    simp only [hasContent, Bool.or_eq_false_iff] at h
    have hp : ((Xml.elem i p t m a tx tl ks).ptag == paragraphTag) = false := by
      cases hb : ((Xml.elem i p t m a tx tl ks).ptag == paragraphTag) with
      | false => rfl
      | true =>
        have e := beq_iff_eq.1 hb
        have := h.1; unfold isContentTag at this; rw [e, paragraph_is_content] at this; cases this
    simp only [nearestPar, hp, Bool.false_eq_true, if_false, nearestParL_contentless ks h.2, Option.map_none]
  | .comment _ _, _ => rfl
  | .pi _, _ => rfl
theorem nearestParL_contentless : ∀ (ks : List Xml), hasContentL ks = false → nearestParL ks = none
  | [], _ => rfl
  | k :: ks, h => by
    simp only [hasContentL, Bool.or_eq_false_iff] at h
    simp only [nearestParL, nearestPar_contentless k h.1, nearestParL_contentless ks h.2, optMin]
end

theorem elemDepth_contentless (x : Xml) (h : hasContent x = false) : elemDepth x = none := by
  unfold elemDepth
  split
  · rfl
  · rw [nearestPar_contentless x h]; rfl

mutual
/-- **content-free markup is invisible to the walk** -/
theorem walk_contentless (cfg : PartCfg) (num : Dict Str (List NumAttr)) :
    ∀ (x : Xml), hasContent x = false → ∀ (c : Bool) (s : DC), walk cfg num c s x = .ok s
  | .elem i p t m a tx tl ks, h, c, s => by
    have hd := elemDepth_contentless _ h
    simp only [hasContent, Bool.or_eq_false_iff] at h
    have hl : ((Xml.elem i p t m a tx tl ks).ptag == hyperlinkTag) = false := by
      cases hb : ((Xml.elem i p t m a tx tl ks).ptag == hyperlinkTag) with
      | false => rfl
      | true =>
        have e := beq_iff_eq.1 hb
        have := h.1; unfold isContentTag at this; rw [e, hyperlink_is_content] at this; cases this
    have hd0 := hd
    simp only [walk, hd, setCaretOpen_none, DC.setCaret, pure, Except.pure, ok_bind, hl, Bool.false_eq_true, if_false]
    rw [openStep_inert cfg s _ c [] h.1]
    simp only [ok_bind, if_true]
    rw [walkL_contentless cfg num ks h.2]
    simp only [ok_bind]
    rw [closeStep_inert cfg s _ h.1 hd0]
    rfl
  | .comment _ _, _, _, _ => rfl
  | .pi _, _, _, _ => rfl
theorem walkL_contentless (cfg : PartCfg) (num : Dict Str (List NumAttr)) :
    ∀ (ks : List Xml), hasContentL ks = false → ∀ (c : Bool) (s : DC), walkL cfg num c s ks = .ok s
  | [], _, _, _ => rfl
  | k :: ks, h, c, s => by
    simp only [hasContentL, Bool.or_eq_false_iff] at h
    simp only [walkL, walk_contentless cfg num k h.1, ok_bind, walkL_contentless cfg num ks h.2]
end

theorem walkL_append (cfg : PartCfg) (num : Dict Str (List NumAttr)) (c : Bool) : ∀ (a b : List Xml) (s : DC),
    walkL cfg num c s (a ++ b) = (walkL cfg num c s a >>= fun s1 => walkL cfg num c s1 b)
  | [], b, s => rfl
  | x :: a, b, s => by
    simp only [List.cons_append, walkL]
    cases walk cfg num c s x with
    | error e => rfl
    | ok s1 => simp only [ok_bind]; exact walkL_append cfg num c a b s1

/-- interleavings: `ys` is `xs` with content-free siblings inserted anywhere -/
inductive Sprinkled : List Xml → List Xml → Prop
  | nil : Sprinkled [] []
  | keep (x : Xml) {xs ys : List Xml} : Sprinkled xs ys → Sprinkled (x :: xs) (x :: ys)
  | noise (n : Xml) {xs ys : List Xml} : hasContent n = false → Sprinkled xs ys → Sprinkled xs (n :: ys)

/-- **C06: non-content markup between siblings is invisible** — the children list with any number of
content-free siblings inserted anywhere walks exactly as the list without them -/
theorem C06_noise_invisible (cfg : PartCfg) (num : Dict Str (List NumAttr)) (c : Bool) (xs ys : List Xml)
    (h : Sprinkled xs ys) : ∀ (s : DC), walkL cfg num c s ys = walkL cfg num c s xs := by
  induction h with
  | nil => intro s; rfl
  | keep x _ ih =>
    intro s
    simp only [walkL]
    cases walk cfg num c s x with
    | error e => rfl
    | ok s1 => simp only [ok_bind]; exact ih s1
  | noise n hn _ ih =>
    intro s
    simp only [walkL, walk_contentless cfg num n hn, ok_bind]
    exact ih s

/-! ## inside a hyperlink: every child gets its own collector -/

theorem finish_fresh (cfg : PartCfg) (num : Dict Str (List NumAttr)) :
    finish cfg ({ bullets := { numAttrs := num } } : DC) = .ok ({ bullets := { numAttrs := num } } : DC) := by
  simp [finish, DC.concludePar, pure, Except.pure, bind, Except.bind]

theorem rootsText_nil_cons (rest : List (List Nest)) : rootsText ([] :: rest) = rootsText rest := by
  simp only [rootsText, leafParsL, rootsText.parsText, pure, Except.pure, ok_bind]
  cases rootsText rest with
  | error e => rfl
  | ok b => simp [bind, Except.bind]

/-- `ry` is `rx` with empty collectors inserted -/
inductive PadNil : List (List Nest) → List (List Nest) → Prop
  | nil : PadNil [] []
  | keep (r : List Nest) {rx ry : List (List Nest)} : PadNil rx ry → PadNil (r :: rx) (r :: ry)
  | pad {rx ry : List (List Nest)} : PadNil rx ry → PadNil rx ([] :: ry)

theorem rootsText_pad (rx ry : List (List Nest)) (h : PadNil rx ry) : rootsText ry = rootsText rx := by
  induction h with
  | nil => rfl
  | keep r _ ih => simp only [rootsText, ih]
  | pad _ ih => rw [rootsText_nil_cons, ih]

theorem textBelowL_sprinkled (cfg : PartCfg) (num : Dict Str (List NumAttr)) (c : Bool) (xs ys : List Xml)
    (h : Sprinkled xs ys) :
    (∃ e, textBelowL cfg num c xs = .error e ∧ textBelowL cfg num c ys = .error e) ∨
    (∃ rx ry, textBelowL cfg num c xs = .ok rx ∧ textBelowL cfg num c ys = .ok ry ∧ PadNil rx ry) := by
  induction h with
  | nil => exact Or.inr ⟨[], [], rfl, rfl, PadNil.nil⟩
  | keep x _ ih =>
    simp only [textBelowL]
    cases walk cfg num c { bullets := { numAttrs := num } } x with
    | error e => exact Or.inl ⟨e, rfl, rfl⟩
    | ok dc =>
      simp only [ok_bind]
      cases finish cfg dc with
      | error e => exact Or.inl ⟨e, rfl, rfl⟩
      | ok dc1 =>
        simp only [ok_bind]
        rcases ih with ⟨e, h1, h2⟩ | ⟨rx, ry, h1, h2, hp⟩
        · rw [h1, h2]; exact Or.inl ⟨e, rfl, rfl⟩
        · rw [h1, h2]; exact Or.inr ⟨dc1.root :: rx, dc1.root :: ry, rfl, rfl, PadNil.keep _ hp⟩
  | noise n hn _ ih =>
    simp only [textBelowL, walk_contentless cfg num n hn, ok_bind, finish_fresh]
    rcases ih with ⟨e, h1, h2⟩ | ⟨rx, ry, h1, h2, hp⟩
    · rw [h2]; exact Or.inl ⟨e, h1, rfl⟩
    · rw [h2]; exact Or.inr ⟨rx, [] :: ry, h1, rfl, PadNil.pad hp⟩

/-- the text a hyperlink renders is assembled from its children's collectors: content-free children add nothing -/
theorem C06_noise_in_link (cfg : PartCfg) (num : Dict Str (List NumAttr)) (c : Bool) (xs ys : List Xml)
    (h : Sprinkled xs ys) :
    (textBelowL cfg num c ys >>= rootsText) = (textBelowL cfg num c xs >>= rootsText) := by
  rcases textBelowL_sprinkled cfg num c xs ys h with ⟨e, h1, h2⟩ | ⟨rx, ry, h1, h2, hp⟩
  · rw [h1, h2]
  · rw [h1, h2]; simp only [ok_bind]; exact rootsText_pad rx ry hp

end D2P
