import D2P.Props.C02DeepCells
/-!
# C02 — every paragraph exactly once, for EVERY tree (`duplicate_merged_cells = False`)

`C02_deep…` state "exactly once, in document order" for trees of an admissible SHAPE.  This file drops
the shape: for ANY element — text boxes (paragraphs nested in runs of paragraphs), tables in text
boxes, inline content anywhere — the identities read off the closed records after the walk are those
before it followed by `post x`: the identities of the `w:p` elements the walk descends to, in the order
of their CLOSING tags, each exactly once.  For paragraphs that do not enclose other paragraphs the
order of the closing tags is the document order (the property's clause); a paragraph that encloses
others follows them.

The walk does not descend below hyperlinks, equations and comment markers (`descends`); a paragraph
below a hyperlink contributes its text to the link's run and no record.

Only hypothesis: the `Sole` invariant of the state (an implicit paragraph is never open together with
another one), which the initial state satisfies and the walk keeps (`walk_sole`).
-/
namespace D2P

/-- the elements below which `branches` recurses (`do_descend`) -/
def descends (x : Xml) : Bool :=
  match tagMember x.ptag with
  | some "COMMENT_RANGE_END" => false
  | some "COMMENT_RANGE_START" => false
  | some "MATH" => false
  | some "HYPERLINK" => false
  | _ => true

mutual
/-- the identities of the paragraphs the walk descends to, in the order of their closing tags -/
def post : Xml → List Nat
  | .elem i p t m a tx tl ks =>
    (if descends (.elem i p t m a tx tl ks) then postL ks else []) ++
      (if tagMember (Xml.elem i p t m a tx tl ks).ptag = some "PARAGRAPH" then [i] else [])
  | _ => []
def postL : List Xml → List Nat
  | [] => []
  | k :: ks => post k ++ postL ks
end

/-- the identities of the open paragraphs, bottom to top (implicit paragraphs have none) -/
def stackIds (s : DC) : List Nat := (elems s).filterMap id

/-- an operation that neither closes nor opens a paragraph with an identity -/
structure Quiet (s s' : DC) : Prop where
  closed : idsL s'.root = idsL s.root
  stack : stackIds s' = stackIds s

theorem Quiet.refl (s : DC) : Quiet s s := ⟨rfl, rfl⟩
theorem Quiet.trans {a b c : DC} (x : Quiet a b) (y : Quiet b c) : Quiet a c :=
  ⟨y.closed.trans x.closed, y.stack.trans x.stack⟩

theorem stack_of_soft {s s' : DC} (h : Soft s s') : stackIds s' = stackIds s := by
  rcases h with h | ⟨h0, h1⟩
  · simp [stackIds, h]
  · simp [stackIds, h0, h1]

theorem quiet_of_frame {s s' : DC} (f : Frame s s') : Quiet s s' :=
  ⟨by unfold idsL; rw [f.leaves], by simp [stackIds, elems, f.openPars]⟩

/-! ## the primitives: the closed records -/

theorem commencePar_closed (html : Bool) (s s' : DC) (e : Option Xml) (c : Bool) (h : s.commencePar html e c = .ok s') :
    idsL s'.root = idsL s.root := by
  unfold DC.commencePar at h
  obtain ⟨s1, h1, h⟩ := bind_ok h
  obtain ⟨_, _, h⟩ := bind_ok h
  obtain ⟨_, _, h⟩ := bind_ok h
  have := pure_ok h; subst this
  show idsL s1.root = _
  unfold idsL; rw [(setCaret_frame s s1 _ _ h1).leaves]

theorem ensurePar_closed (html : Bool) (s s' : DC) (h : s.ensurePar html = .ok s') : idsL s'.root = idsL s.root := by
  unfold DC.ensurePar at h
  split at h
  · exact commencePar_closed html s s' none false h
  · have := pure_ok h; subst this; rfl

theorem commenceRun_closed (html : Bool) (s s' : DC) (e : Option Xml) (h : s.commenceRun html e = .ok s') :
    idsL s'.root = idsL s.root := by
  unfold DC.commenceRun at h
  obtain ⟨_, _, h⟩ := bind_ok h
  obtain ⟨s1, h1, h⟩ := bind_ok h
  have := pure_ok h; subst this
  rw [(modTop_same s1 _).1]; exact ensurePar_closed html s s1 h1

theorem ensureRun_closed (html : Bool) (s s' : DC) (h : s.ensureRun html = .ok s') : idsL s'.root = idsL s.root := by
  unfold DC.ensureRun at h
  obtain ⟨s1, h1, h⟩ := bind_ok h
  have := pure_ok h; subst this
  rw [(modTop_same s1 _).1]; exact ensurePar_closed html s s1 h1

theorem addCode_closed (html : Bool) (s s' : DC) (t : Str) (h : s.addCode html t = .ok s') : idsL s'.root = idsL s.root := by
  unfold DC.addCode at h
  obtain ⟨s1, h1, h⟩ := bind_ok h
  have := pure_ok h; subst this
  rw [(modTop_same s1 _).1]; exact ensureRun_closed html s s1 h1

theorem insertNewRun_closed (html : Bool) (s s' : DC) (t : Str) (h : s.insertNewRun html t = .ok s') :
    idsL s'.root = idsL s.root := by
  unfold DC.insertNewRun at h
  obtain ⟨s1, h1, h⟩ := bind_ok h
  have := pure_ok h; subst this
  rw [(modTop_same s1 _).1]; exact ensureRun_closed html s s1 h1

theorem commenceRun_quiet (html : Bool) (s s' : DC) (e : Option Xml) (h : s.commenceRun html e = .ok s') : Quiet s s' :=
  ⟨commenceRun_closed html s s' e h, stack_of_soft (commenceRun_soft html s s' e h)⟩

theorem addCode_quiet (html : Bool) (s s' : DC) (t : Str) (h : s.addCode html t = .ok s') : Quiet s s' :=
  ⟨addCode_closed html s s' t h, stack_of_soft (addCode_soft html s s' t h)⟩

theorem insertNewRun_quiet (html : Bool) (s s' : DC) (t : Str) (h : s.insertNewRun html t = .ok s') : Quiet s s' :=
  ⟨insertNewRun_closed html s s' t h, stack_of_soft (insertNewRun_soft html s s' t h)⟩

theorem insertOpt_quiet (html : Bool) (s s' : DC) (t : Option Str) (h : insertOpt html s t = .ok s') : Quiet s s' := by
  unfold insertOpt at h
  split at h
  · exact insertNewRun_quiet html s s' _ h
  · have := pure_ok h; subst this; exact Quiet.refl s

theorem startRange_quiet (s s' : DC) (id : Str) (h : s.startRange id = .ok s') : Quiet s s' := by
  unfold DC.startRange at h
  obtain ⟨_, _, h⟩ := bind_ok h
  have := pure_ok h; subst this; exact ⟨rfl, rfl⟩

theorem endRange_quiet (s s' : DC) (id : Str) (h : s.endRange id = .ok s') : Quiet s s' := by
  unfold DC.endRange at h
  obtain ⟨_, _, h⟩ := bind_ok h
  have := pure_ok h; subst this; exact ⟨rfl, rfl⟩

theorem last_split {α : Type} (l : List α) (x : α) (h : l.getLast? = some x) : l = l.dropLast ++ [x] := by
  have hne : l ≠ [] := by intro e; rw [e] at h; cases h
  have hq : l.getLast hne = x := by
    rw [List.getLast?_eq_some_getLast hne] at h; exact Option.some.inj h
  conv => lhs; rw [← List.dropLast_concat_getLast hne]
  rw [hq]

/-- concluding the innermost open paragraph: its identity (if it has one) moves from the stack to the closed records -/
theorem concludePar_top (s s' : DC) (p : Par) (hl : s.openPars.getLast? = some p) (h : s.concludePar = .ok s') :
    idsL s'.root = idsL s.root ++ p.elem.toList ∧ elems s' = (elems s).dropLast := by
  obtain ⟨hlv, _, _⟩ := concludePar_spec s s' p hl h
  refine ⟨?_, concludePar_elems s s' h⟩
  unfold idsL; rw [hlv, elemsOf_append]
  cases he : p.elem <;> simp [elemsOf, he]

/-- `conclude_implicit_paragraph` concludes only a paragraph without an identity -/
theorem flushImplicit_quiet (s s' : DC) (d : Option Nat) (h : s.flushImplicit d = .ok s') : Quiet s s' := by
  unfold DC.flushImplicit at h
  cases d with
  | none => have := pure_ok h; subst this; exact Quiet.refl s
  | some d =>
    simp only at h
    cases hl : s.openPars.getLast? with
    | none => rw [hl] at h; have := pure_ok h; subst this; exact Quiet.refl s
    | some p =>
      rw [hl] at h
      simp only at h
      split at h
      · rename_i hn
        have hpn : p.elem = none := Option.isNone_iff_eq_none.1 hn
        obtain ⟨hc, he⟩ := concludePar_top s s' p hl h
        refine ⟨by rw [hc, hpn]; simp, ?_⟩
        have hsp := last_split s.openPars p hl
        have : elems s = (elems s).dropLast ++ [none] := by
          unfold elems
          conv => lhs; rw [hsp]
          simp [List.map_dropLast, hpn]
        unfold stackIds
        rw [he]
        conv => rhs; rw [this]
        simp
      · have := pure_ok h; subst this; exact Quiet.refl s

theorem noteLabel_quiet (s s' : DC) (x : Xml) (k : String) (h : noteLabel s x k = .ok s') : Quiet s s' := by
  unfold noteLabel at h
  obtain ⟨_, _, h⟩ := bind_ok h
  split at h
  · have := pure_ok h; subst this; exact Quiet.refl s
  · obtain ⟨_, _, h⟩ := bind_ok h
    obtain ⟨s0, h0, h⟩ := bind_ok h
    have := pure_ok h; subst this
    exact (flushImplicit_quiet s s0 _ h0).trans ⟨rfl, rfl⟩

theorem openParagraph_closed (cfg : PartCfg) (s s' : DC) (x : Xml) (c : Bool) (h : openParagraph cfg s x c = .ok s') :
    idsL s'.root = idsL s.root := by
  unfold openParagraph at h
  obtain ⟨s1, h1, h⟩ := bind_ok h
  obtain ⟨bb, _, h⟩ := bind_ok h
  obtain ⟨s2, h2, h⟩ := bind_ok h
  have := pure_ok h; subst this
  rw [(modTop_same s2 _).1, insertNewRun_closed cfg.html _ s2 _ h2]
  exact commencePar_closed cfg.html s s1 _ c h1

/-! ## cells, with either setting of `duplicate_merged_cells` -/

mutual
/-- the copies of a merged cell carry no identity of a source paragraph -/
theorem markCopy_ids : (x : Nest) → elemsOf (leafParsT (markCopyT x)) = []
  | .par p => by simp [markCopyT, leafParsT, elemsOf]
  | .list xs => by simp only [markCopyT, leafParsT]; exact markCopyL_ids xs
theorem markCopyL_ids : (xs : List Nest) → elemsOf (leafParsL (markCopyL xs)) = []
  | [] => by simp [markCopyL, leafParsL, elemsOf]
  | x :: xs => by
    simp only [markCopyL, leafParsL, elemsOf_append]
    rw [markCopy_ids x, markCopyL_ids xs]; rfl
end

theorem newCell_ids (dup : Bool) (thisTr : List Nest) : elemsOf (leafParsT (newCell dup thisTr)) = [] := by
  unfold newCell
  split
  · exact markCopy_ids _
  · simp [leafParsT, leafParsL, elemsOf, emptyPar]

theorem spanStep_ids' (dup : Bool) (ti ri : Nat) (s s' : DC) (h : spanStep dup ti ri s = .ok s') : idsL s'.root = idsL s.root := by
  unfold spanStep at h
  obtain ⟨s1, h1, h⟩ := bind_ok h
  have f1 := (setCaret_frame s s1 _ _ h1).leaves
  obtain ⟨thisTr, hg, h⟩ := bind_ok h
  have := pure_ok h; subst this
  show idsL (setRow s1.root ti ri (thisTr ++ [newCell dup thisTr])) = _
  rw [idsL_setRow _ (newCell_ids dup thisTr) s1.root ti ri thisTr hg]
  unfold idsL; rw [f1]

/-- the cell is not the continuation of a vertical merge (`vMerge` absent, or `restart`) -/
def cellOK (x : Xml) : Bool :=
  match gatherPr x with
  | .ok pr => !isContinuation pr
  | .error _ => true

/-- `_close_table_cell` of a cell that does not continue a vertical merge adds no identity and removes none, with
either setting: horizontal copies carry no identity -/
theorem closeTableCell_ids' (dup : Bool) (s s' : DC) (tc : Xml) (hc : dup = false ∨ cellOK tc = true)
    (h : closeTableCell dup s tc = .ok s') : idsL s'.root = idsL s.root := by
  unfold closeTableCell at h
  split at h
  · have := pure_ok h; subst this; rfl
  · obtain ⟨pr, hpr, h⟩ := bind_ok h
    obtain ⟨_, _, h⟩ := bind_ok h
    split at h
    · have := pure_ok h; subst this; rfl
    · obtain ⟨s1, h1, h⟩ := bind_ok h
      obtain ⟨n, _, h⟩ := bind_ok h
      have e1 : s1 = s := by
        unfold vmergeStep at h1
        rcases hc with hc | hc
        · subst hc
          simp only [Bool.false_and, Bool.false_eq_true, if_false] at h1
          exact (pure_ok h1).symm
        · have hcont : isContinuation pr = false := by
            unfold cellOK at hc; rw [hpr] at hc; simpa using hc
          simp only [hcont, Bool.and_false, Bool.false_and, Bool.false_eq_true, if_false] at h1
          exact (pure_ok h1).symm
      rw [e1] at h
      exact iterateM_ids (spanStep dup _ _) (fun a b hab => spanStep_ids' dup _ _ a b hab) n s s' h

mutual
/-- no table cell below continues a vertical merge -/
def vfree : Xml → Bool
  | .elem i p t m a tx tl ks =>
    ((tagMember (Xml.elem i p t m a tx tl ks).ptag != some "TABLE_CELL") || cellOK (.elem i p t m a tx tl ks)) && vfreeL ks
  | _ => true
def vfreeL : List Xml → Bool
  | [] => true
  | k :: ks => vfree k && vfreeL ks
end

/-! ## the steps -/

/-- whether the walk goes on below the element depends on its tag only -/
theorem openStep_rec (cfg : PartCfg) (s s' : DC) (x : Xml) (c : Bool) (roots : List (List Nest)) (r : Bool)
    (h : openStep cfg s x c roots = .ok (s', r)) : r = descends x := by
  unfold openStep at h
  unfold descends
  split at h
  all_goals first
    | (rename_i hm; rw [hm]; first | exact (withTrue_ok h).2 | exact (withFalse_ok h).2)
    | skip
  have := pure_ok h; cases this
  split <;> first | rfl | (rename_i heq; simp_all)

/-- opening an element other than a paragraph is quiet -/
theorem openStep_quiet (cfg : PartCfg) (s s' : DC) (x : Xml) (c : Bool) (roots : List (List Nest)) (r : Bool)
    (hm : tagMember x.ptag ≠ some "PARAGRAPH") (h : openStep cfg s x c roots = .ok (s', r)) : Quiet s s' := by
  unfold openStep at h
  have wt : ∀ (X : M DC), (∀ t, X = .ok t → Quiet s t) → ∀ r, withTrue X = .ok (s', r) → Quiet s s' :=
    fun X hX r hr => hX s' (withTrue_ok hr).1
  have wf : ∀ (X : M DC), (∀ t, X = .ok t → Quiet s t) → ∀ r, withFalse X = .ok (s', r) → Quiet s s' :=
    fun X hX r hr => hX s' (withFalse_ok hr).1
  split at h
  · rename_i hm'; exact absurd hm' hm
  · exact wt _ (fun t ht => commenceRun_quiet cfg.html s t _ ht) r h
  · exact wf _ (fun t ht => by obtain ⟨id, _, ht⟩ := bind_ok ht; exact endRange_quiet s t id ht) r h
  · exact wf _ (fun t ht => by obtain ⟨id, _, ht⟩ := bind_ok ht; exact startRange_quiet s t id ht) r h
  · exact wt _ (fun t ht => addCode_quiet cfg.html s t _ ht) r h
  · exact wt _ (fun t ht => addCode_quiet cfg.html s t _ ht) r h
  · exact wf _ (fun t ht => insertNewRun_quiet cfg.html s t _ ht) r h
  · exact wt _ (fun t ht => addCode_quiet cfg.html s t _ ht) r h
  · exact wt _ (fun t ht => by
      obtain ⟨cde, _, ht⟩ := bind_ok ht
      split at ht
      · exact addCode_quiet cfg.html s t _ ht
      · have := pure_ok ht; subst this; exact Quiet.refl s) r h
  · exact wt _ (fun t ht => noteLabel_quiet s t x _ ht) r h
  · exact wt _ (fun t ht => noteLabel_quiet s t x _ ht) r h
  · exact wf _ (fun t ht => openHyperlink_preserves (P := fun a => Quiet s a) cfg
      (fun a id b ha hb => ha.trans (startRange_quiet a b id hb)) (fun a tx b ha hb => ha.trans (insertNewRun_quiet cfg.html a b tx hb))
      (fun a id b ha hb => ha.trans (endRange_quiet a b id hb)) s t x roots (Quiet.refl s) ht) r h
  · exact wt _ (fun t ht => by obtain ⟨tx, _, ht⟩ := bind_ok ht; exact insertNewRun_quiet cfg.html s t _ ht) r h
  · exact wt _ (fun t ht => by obtain ⟨tx, _, ht⟩ := bind_ok ht; exact insertNewRun_quiet cfg.html s t _ ht) r h
  · exact wt _ (fun t ht => by obtain ⟨tx, _, ht⟩ := bind_ok ht; exact insertNewRun_quiet cfg.html s t _ ht) r h
  · exact wt _ (fun t ht => by obtain ⟨tx, _, ht⟩ := bind_ok ht; exact insertNewRun_quiet cfg.html s t _ ht) r h
  · exact wt _ (fun t ht => by obtain ⟨tx, _, ht⟩ := bind_ok ht; exact insertOpt_quiet cfg.html s t _ ht) r h
  · exact wt _ (fun t ht => by obtain ⟨tx, _, ht⟩ := bind_ok ht; exact insertOpt_quiet cfg.html s t _ ht) r h
  · exact wt _ (fun t ht => insertOpt_quiet cfg.html s t _ ht) r h
  · exact wt _ (fun t ht => insertNewRun_quiet cfg.html s t _ ht) r h
  · have := pure_ok h; cases this; exact Quiet.refl s

/-- opening a paragraph: nothing is closed, its identity goes on the stack -/
theorem openStep_par (cfg : PartCfg) (s s' : DC) (x : Xml) (c : Bool) (roots : List (List Nest)) (r : Bool)
    (hm : tagMember x.ptag = some "PARAGRAPH") (h : openStep cfg s x c roots = .ok (s', r)) :
    idsL s'.root = idsL s.root ∧ elems s' = elems s ++ [x.id?] := by
  have e : openStep cfg s x c roots = withTrue (openParagraph cfg s x c) := by unfold openStep; rw [hm]; rfl
  rw [e] at h
  have h' := (withTrue_ok h).1
  exact ⟨openParagraph_closed cfg s s' x c h', openParagraph_elems cfg s s' x c h'⟩

/-- closing an element other than a paragraph is quiet (`duplicate_merged_cells = False`, or the element is not a cell that
continues a vertical merge) -/
theorem closeStepCore_quiet (cfg : PartCfg) (s s' : DC) (x : Xml)
    (hd : cfg.dup = false ∨ (tagMember x.ptag = some "TABLE_CELL" → cellOK x = true))
    (hm : tagMember x.ptag ≠ some "PARAGRAPH") (h : closeStepCore cfg s x = .ok s') : Quiet s s' := by
  unfold closeStepCore at h
  split at h
  · rename_i hm'; exact absurd hm' hm
  · exact commenceRun_quiet cfg.html s s' none h
  · rename_i hm'
    have hc : cfg.dup = false ∨ cellOK x = true := hd.imp id (fun f => f hm')
    exact ⟨closeTableCell_ids' cfg.dup s s' x hc h, by simp [stackIds, elems, closeTableCell_openPars cfg.dup s s' x h]⟩
  · have := pure_ok h; subst this; exact Quiet.refl s

theorem allSome_map (l : List (Option Nat)) (h : AllSome l) : l = (l.filterMap id).map some := by
  induction l with
  | nil => rfl
  | cons a l ih =>
    have ha := h a (by simp)
    obtain ⟨v, hv⟩ := Option.isSome_iff_exists.1 ha
    subst hv
    have := ih (fun e he => h e (by simp [he]))
    simp only [List.filterMap_cons, id, List.map_cons]
    rw [← this]

/-- under `Sole`, the top of a stack whose identities end with `i` is the paragraph `i` -/
theorem sole_last (l : List (Option Nat)) (a : List Nat) (i : Nat) (hs : Sole l) (h : l.filterMap id = a ++ [i]) :
    l.getLast? = some (some i) ∧ l.dropLast.filterMap id = a := by
  rcases hs with hs | hs
  · have := allSome_map l hs
    rw [h] at this
    rw [this]
    simp [List.dropLast_append_of_ne_nil, List.filterMap_map]
  · subst hs; simp at h

/-! ## the walk -/

mutual
/-- **every paragraph the walk descends to is recorded exactly once, where its closing tag stands**
(any tree; `duplicate_merged_cells = False`) -/
theorem walk_post (cfg : PartCfg) (num : Dict Str (List NumAttr)) :
    (x : Xml) → (c : Bool) → (s s' : DC) → (cfg.dup = false ∨ vfree x = true) → Sole (elems s) → walk cfg num c s x = .ok s' →
      idsL s'.root = idsL s.root ++ post x ∧ stackIds s' = stackIds s
  | .elem i p t m a tx tl ks, c, s, s', hv, hs, h => by
    have hvk : cfg.dup = false ∨ vfreeL ks = true :=
      hv.imp id (fun f => by simp only [vfree, Bool.and_eq_true] at f; exact f.2)
    have hvc : cfg.dup = false ∨ (tagMember (Xml.elem i p t m a tx tl ks).ptag = some "TABLE_CELL" → cellOK (.elem i p t m a tx tl ks) = true) :=
      hv.imp id (fun f hm' => by
        simp only [vfree, Bool.and_eq_true, Bool.or_eq_true, bne_iff_ne, ne_eq] at f
        rcases f.1 with f1 | f1
        · exact absurd hm' f1
        · exact f1)
    simp only [walk] at h
    obtain ⟨s1, h1, h⟩ := bind_ok h
    unfold DC.setCaretOpen at h1
    obtain ⟨s0, h0, h1⟩ := bind_ok h1
    obtain ⟨hs0, ha0⟩ := flushImplicit_sole s s0 _ hs h0
    have f1 := setCaret_frame s0 s1 _ _ h1
    have q1 : Quiet s s1 := (flushImplicit_quiet s s0 _ h0).trans (quiet_of_frame f1)
    have e1 : elems s1 = elems s0 := by simp [elems, f1.openPars]
    obtain ⟨roots, _, h⟩ := bind_ok h
    obtain ⟨⟨s2, rec⟩, h2, h⟩ := bind_ok h
    have hrec := openStep_rec cfg s1 s2 _ c roots rec h2
    have hs2 : Sole (elems s2) := by
      rcases openStep_elems cfg s1 s2 _ c roots rec h2 with ⟨hm, e2⟩ | hsoft
      · have hpt := par_of_member _ hm
        have hdp := elemDepth_par (.elem i p t m a tx tl ks) hpt rfl
        have a1 : AllSome (elems s1) := by rw [e1]; exact ha0 (by rw [hdp]; rfl)
        refine Or.inl ?_
        rw [e2]
        intro e he
        rcases List.mem_append.1 he with he | he
        · exact a1 e he
        · simp at he; subst he; rfl
      · rcases hsoft with hsoft | hdrop
        · exact hsoft.sole (by rw [e1]; exact hs0)
        · rw [hdrop]; exact sole_dropLast (by rw [e1]; exact hs0)
    obtain ⟨s3, h3, h⟩ := bind_ok h
    have k3 : idsL s3.root = idsL s2.root ++ (if descends (.elem i p t m a tx tl ks) then postL ks else []) ∧
        stackIds s3 = stackIds s2 ∧ Sole (elems s3) := by
      simp only at h3
      rw [hrec] at h3
      split at h3
      · rename_i hdsc
        obtain ⟨e, g⟩ := walkL_post cfg num ks _ s2 s3 hvk hs2 h3
        exact ⟨by rw [e, if_pos hdsc], g, walkL_sole cfg num ks _ s2 s3 hs2 h3⟩
      · rename_i hdsc
        have := pure_ok h3; subst this
        exact ⟨by simp [hdsc], rfl, hs2⟩
    obtain ⟨e3, g3, hs3⟩ := k3
    obtain ⟨s4, h4, h⟩ := bind_ok h
    obtain ⟨s3', h3', h4⟩ := closeStep_split cfg s3 s4 _ h4
    have hs3' := (flushImplicit_sole s3 s3' _ hs3 h3').1
    have q3' := flushImplicit_quiet s3 s3' _ h3'
    have q5 := quiet_of_frame (setCaret_frame s4 s' _ _ h)
    by_cases hm : tagMember (Xml.elem i p t m a tx tl ks).ptag = some "PARAGRAPH"
    · obtain ⟨c2, e2⟩ := openStep_par cfg s1 s2 _ c roots rec hm h2
      have st2 : stackIds s2 = stackIds s1 ++ [i] := by simp [stackIds, e2, Xml.id?]
      have st3' : stackIds s3' = stackIds s1 ++ [i] := by rw [q3'.stack, g3, st2]
      obtain ⟨hlast, hdrop⟩ := sole_last (elems s3') _ i hs3' st3'
      have hcore : closeStepCore cfg s3' (.elem i p t m a tx tl ks) = s3'.concludePar := by unfold closeStepCore; rw [hm]; rfl
      rw [hcore] at h4
      have hl : ∃ q, s3'.openPars.getLast? = some q ∧ q.elem = some i := by
        unfold elems at hlast
        rw [List.getLast?_map] at hlast
        cases hq : s3'.openPars.getLast? with
        | none => rw [hq] at hlast; cases hlast
        | some q => rw [hq] at hlast; exact ⟨q, rfl, Option.some.inj hlast⟩
      obtain ⟨q, hq, hqe⟩ := hl
      obtain ⟨c4, e4⟩ := concludePar_top s3' s4 q hq h4
      refine ⟨?_, ?_⟩
      · rw [q5.closed, c4, q3'.closed, e3, c2, q1.closed, hqe]
        simp [post, hm, List.append_assoc]
      · rw [q5.stack]
        unfold stackIds
        rw [e4]
        show (elems s3').dropLast.filterMap id = _
        rw [hdrop, q1.stack]; rfl
    · have q2 := openStep_quiet cfg s1 s2 _ c roots rec hm h2
      have q4 := closeStepCore_quiet cfg s3' s4 _ hvc hm h4
      refine ⟨?_, ?_⟩
      · rw [q5.closed, q4.closed, q3'.closed, e3, q2.closed, q1.closed]
        simp [post, hm]
      · rw [q5.stack, q4.stack, q3'.stack, g3, q2.stack, q1.stack]
  | .comment _ _, c, s, s', _, hs, h => by simp only [walk] at h; have := pure_ok h; subst this; simp [post]
  | .pi _, c, s, s', _, hs, h => by simp only [walk] at h; have := pure_ok h; subst this; simp [post]
theorem walkL_post (cfg : PartCfg) (num : Dict Str (List NumAttr)) :
    (xs : List Xml) → (c : Bool) → (s s' : DC) → (cfg.dup = false ∨ vfreeL xs = true) → Sole (elems s) → walkL cfg num c s xs = .ok s' →
      idsL s'.root = idsL s.root ++ postL xs ∧ stackIds s' = stackIds s
  | [], c, s, s', _, hs, h => by simp only [walkL] at h; have := pure_ok h; subst this; simp [postL]
  | k :: ks, c, s, s', hv, hs, h => by
    have hv1 : cfg.dup = false ∨ vfree k = true := hv.imp id (fun f => by simp only [vfreeL, Bool.and_eq_true] at f; exact f.1)
    have hv2 : cfg.dup = false ∨ vfreeL ks = true := hv.imp id (fun f => by simp only [vfreeL, Bool.and_eq_true] at f; exact f.2)
    simp only [walkL] at h
    obtain ⟨s1, h1, h⟩ := bind_ok h
    obtain ⟨e1, g1⟩ := walk_post cfg num k c s s1 hv1 hs h1
    obtain ⟨e2, g2⟩ := walkL_post cfg num ks c s1 s' hv2 (walk_sole cfg num k c s s1 hs h1) h
    exact ⟨by rw [e2, e1]; simp [postL, List.append_assoc], g2.trans g1⟩
end

/-! ## whole parts -/

theorem none_of_stack_nil (l : List (Option Nat)) (h : l.filterMap id = []) : ∀ e ∈ l, e = none := by
  intro e he
  cases e with
  | none => rfl
  | some v =>
    have : v ∈ l.filterMap id := List.mem_filterMap.2 ⟨some v, he, rfl⟩
    rw [h] at this; cases this

/-- the tail of `new_depth_collector` concludes only paragraphs without an identity when none with one is open -/
theorem finish_closed (cfg : PartCfg) (s dc : DC) (hst : stackIds s = []) (h : finish cfg s = .ok dc) :
    idsL dc.root = idsL s.root := by
  unfold finish at h
  obtain ⟨s1, h1, h⟩ := bind_ok h
  have k1 : idsL s1.root = idsL s.root ∧ stackIds s1 = [] := by
    split at h1
    · have := pure_ok h1; subst this; exact ⟨rfl, hst⟩
    · refine ⟨commencePar_closed cfg.html s s1 none false h1, ?_⟩
      have := commencePar_elems cfg.html s s1 none false h1
      unfold stackIds at hst ⊢
      rw [this]; simp [hst]
  cases hl : s1.openPars.getLast? with
  | none =>
    unfold DC.concludePar at h; simp only [hl] at h; have := pure_ok h; subst this; exact k1.1
  | some q =>
    obtain ⟨c4, _⟩ := concludePar_top s1 dc q hl h
    have hq : q.elem = none :=
      none_of_stack_nil (elems s1) k1.2 q.elem (List.mem_map.2 ⟨q, List.mem_of_getLast? hl, rfl⟩)
    rw [c4, hq, k1.1]; simp

/-- **C02, exactly once, for every content part** (`duplicate_merged_cells = False`): whatever the tree —
text boxes, tables in text boxes, inline content outside paragraphs, unknown wrappers — the identities read
off the leaf paragraphs `new_depth_collector` returns are exactly `post root`: every `w:p` the walk descends
to, once, in the order of the closing tags. -/
theorem C02_post_part_gen (cfg : PartCfg) (num : Dict Str (List NumAttr)) (root : Xml) (c : Bool) (dc : DC)
    (hd : cfg.dup = false ∨ vfree root = true)
    (h : newDepthCollector cfg num root c = .ok dc) : elemsOf (leafParsL dc.root) = post root := by
  unfold newDepthCollector at h
  obtain ⟨s5, hw, hf⟩ := bind_ok h
  obtain ⟨e, g⟩ := walk_post cfg num root c _ s5 hd (sole_init num) hw
  have hst : stackIds s5 = [] := by rw [g]; rfl
  have := finish_closed cfg s5 dc hst hf
  unfold idsL at this e
  rw [this, e]; simp [leafParsL, elemsOf]

theorem C02_post_part (cfg : PartCfg) (hd : cfg.dup = false) (num : Dict Str (List NumAttr)) (root : Xml) (c : Bool) (dc : DC)
    (h : newDepthCollector cfg num root c = .ok dc) : elemsOf (leafParsL dc.root) = post root :=
  C02_post_part_gen cfg num root c dc (Or.inl hd) h

/-- **the same with `duplicate_merged_cells = True`** (the default) for a part in which no cell continues a vertical merge
(`vfree`, decidable, evaluated by the driver): the copies that fill horizontally merged cells carry no identity, so the
records WITH an identity are again exactly `post root`.  (The paragraphs of a cell that continues a vertical merge are
replaced by a copy of the cell above — the documented duplication — and are not recorded.) -/
theorem C02_post_part_dup (cfg : PartCfg) (num : Dict Str (List NumAttr)) (root : Xml) (c : Bool) (dc : DC)
    (hv : vfree root = true) (h : newDepthCollector cfg num root c = .ok dc) : elemsOf (leafParsL dc.root) = post root :=
  C02_post_part_gen cfg num root c dc (Or.inr hv) h

/-! ## document order -/

mutual
/-- the same paragraphs in the order of their OPENING tags (document order) -/
def pre : Xml → List Nat
  | .elem i p t m a tx tl ks =>
    (if tagMember (Xml.elem i p t m a tx tl ks).ptag = some "PARAGRAPH" then [i] else []) ++
      (if descends (.elem i p t m a tx tl ks) then preL ks else [])
  | _ => []
def preL : List Xml → List Nat
  | [] => []
  | k :: ks => pre k ++ preL ks
end

mutual
/-- the paragraphs that do not enclose other paragraphs, in document order -/
def leafIds : Xml → List Nat
  | .elem i p t m a tx tl ks =>
    if tagMember (Xml.elem i p t m a tx tl ks).ptag = some "PARAGRAPH" ∧ postL ks = [] then [i]
    else if descends (.elem i p t m a tx tl ks) then leafIdsL ks else []
  | _ => []
def leafIdsL : List Xml → List Nat
  | [] => []
  | k :: ks => leafIds k ++ leafIdsL ks
end

mutual
theorem leaf_sublist_post : (x : Xml) → (leafIds x).Sublist (post x)
  | .elem i p t m a tx tl ks => by
    simp only [leafIds, post]
    split
    · rename_i hc
      simp only [hc.1, if_true]
      exact List.sublist_append_right _ _
    · split
      · exact (leafL_sublist_post ks).trans (List.sublist_append_left _ _)
      · exact List.nil_sublist _
  | .comment _ _ => by simp [leafIds]
  | .pi _ => by simp [leafIds]
theorem leafL_sublist_post : (xs : List Xml) → (leafIdsL xs).Sublist (postL xs)
  | [] => by simp [leafIdsL]
  | k :: ks => by
    simp only [leafIdsL, postL]
    exact (leaf_sublist_post k).append (leafL_sublist_post ks)
end

mutual
theorem leaf_sublist_pre : (x : Xml) → (leafIds x).Sublist (pre x)
  | .elem i p t m a tx tl ks => by
    simp only [leafIds, pre]
    split
    · rename_i hc
      simp only [hc.1, if_true]
      exact List.sublist_append_left _ _
    · split
      · exact (leafL_sublist_pre ks).trans (List.sublist_append_right _ _)
      · exact List.nil_sublist _
  | .comment _ _ => by simp [leafIds]
  | .pi _ => by simp [leafIds]
theorem leafL_sublist_pre : (xs : List Xml) → (leafIdsL xs).Sublist (preL xs)
  | [] => by simp [leafIdsL]
  | k :: ks => by
    simp only [leafIdsL, preL]
    exact (leaf_sublist_pre k).append (leafL_sublist_pre ks)
end

/-- **paragraphs that do not enclose other paragraphs keep their document order**: they occur among the
records of the part in the order in which they occur in the source (`leaf_sublist_pre`), whatever encloses them -/
theorem C02_post_leaves_in_order (cfg : PartCfg) (hd : cfg.dup = false) (num : Dict Str (List NumAttr)) (root : Xml) (c : Bool) (dc : DC)
    (h : newDepthCollector cfg num root c = .ok dc) :
    (leafIds root).Sublist (elemsOf (leafParsL dc.root)) ∧ (leafIds root).Sublist (pre root) := by
  rw [C02_post_part cfg hd num root c dc h]
  exact ⟨leaf_sublist_post root, leaf_sublist_pre root⟩

mutual
/-- where no paragraph encloses another one, the order of the closing tags IS the document order -/
theorem post_eq_pre : (x : Xml) → leafIds x = pre x → post x = pre x
  | .elem i p t m a tx tl ks => by
    intro h
    simp only [leafIds, pre, post] at h ⊢
    by_cases hm : tagMember (Xml.elem i p t m a tx tl ks).ptag = some "PARAGRAPH"
    · simp only [hm, true_and, if_true] at h ⊢
      by_cases hp : postL ks = []
      · simp only [hp, if_true] at h
        have : (if descends (.elem i p t m a tx tl ks) then preL ks else []) = [] := by
          simpa using h
        rw [this]
        split <;> simp [hp]
      · exfalso
        simp only [hp, if_false] at h
        -- a leaf list is a sublist of the closing order, which would be shorter than itself
        have hl : (leafIds (.elem i p t m a tx tl ks)).length ≤ (pre (.elem i p t m a tx tl ks)).length := (leaf_sublist_pre _).length_le
        split at h
        · rename_i hdsc
          have h1 := (leafL_sublist_pre ks).length_le
          have := congrArg List.length h
          simp at this
          omega
        · have := congrArg List.length h
          simp at this
    · simp only [hm, false_and, if_false, List.nil_append, List.append_nil] at h ⊢
      split
      · rename_i hdsc
        simp only [hdsc, if_true] at h
        exact postL_eq_preL ks h
      · rfl
  | .comment _ _ => by intro _; simp [post, pre]
  | .pi _ => by intro _; simp [post, pre]
theorem postL_eq_preL : (xs : List Xml) → leafIdsL xs = preL xs → postL xs = preL xs
  | [] => by intro _; simp [postL, preL]
  | k :: ks => by
    intro h
    simp only [leafIdsL, preL, postL] at h ⊢
    have l1 := (leaf_sublist_pre k).length_le
    have l2 := (leafL_sublist_pre ks).length_le
    have hlen := congrArg List.length h
    simp only [List.length_append] at hlen
    have e1 : leafIds k = pre k := (leaf_sublist_pre k).eq_of_length (by omega)
    have e2 : leafIdsL ks = preL ks := (leafL_sublist_pre ks).eq_of_length (by omega)
    rw [post_eq_pre k e1, postL_eq_preL ks e2]
end

/-- **document order** for a part in which no paragraph encloses another one (every part without text boxes) -/
theorem C02_post_document_order (cfg : PartCfg) (hd : cfg.dup = false) (num : Dict Str (List NumAttr)) (root : Xml) (c : Bool) (dc : DC)
    (hflat : leafIds root = pre root) (h : newDepthCollector cfg num root c = .ok dc) :
    elemsOf (leafParsL dc.root) = pre root := by
  rw [C02_post_part cfg hd num root c dc h, post_eq_pre root hflat]

end D2P
