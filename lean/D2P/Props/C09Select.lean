import D2P.Props.C09
/-!
# C09 — selection of parts by relationship type, in path order; a part's own relationships

* `C09_selection`: `files_of_type(t)` returns exactly the relationships (`File`s) whose type's last
  segment is `t` — wherever they are declared, whatever the part is called;
* `C09_sorted`: in ascending path order (code-point order, as Python sorts `str`);
* `C09_no_rels_file`: a part without a relationships file of its own has no relationships;
* `C09_missing_core`: no core-properties relationship ⇒ `{}`.
-/
namespace D2P

theorem strLt_asymm : ∀ (a b : Str), strLt a b = true → strLt b a = false
  | [], [], h => by simp [strLt] at h
  | [], _ :: _, _ => by simp [strLt]
  | _ :: _, [], h => by simp [strLt] at h
  | a :: as, b :: bs, h => by
    simp only [strLt] at h ⊢
    by_cases h1 : a.toNat < b.toNat
    · have : ¬ b.toNat < a.toNat := by omega
      simp [this, h1]
    · simp only [h1, if_false] at h
      by_cases h2 : a.toNat > b.toNat
      · simp [h2] at h
      · simp only [h2, if_false] at h
        have e : ¬ b.toNat < a.toNat := by omega
        have e' : ¬ b.toNat > a.toNat := by omega
        simp only [e, e', if_false]
        exact strLt_asymm as bs h

theorem strLt_trans : ∀ (a b c : Str), strLt a b = true → strLt b c = true → strLt a c = true
  | [], _, [], _, h2 => by cases ‹Str› <;> simp [strLt] at h2
  | [], _, _ :: _, _, _ => by simp [strLt]
  | _ :: _, [], _, h1, _ => by simp [strLt] at h1
  | _ :: _, _ :: _, [], _, h2 => by simp [strLt] at h2
  | a :: as, b :: bs, c :: cs, h1, h2 => by
    simp only [strLt] at h1 h2 ⊢
    by_cases ab : a.toNat < b.toNat
    · by_cases bc : b.toNat < c.toNat
      · have : a.toNat < c.toNat := by omega
        simp [this]
      · simp only [bc, if_false] at h2
        by_cases bc' : b.toNat > c.toNat
        · simp [bc'] at h2
        · have : a.toNat < c.toNat := by omega
          simp [this]
    · simp only [ab, if_false] at h1
      by_cases ab' : a.toNat > b.toNat
      · simp [ab'] at h1
      · simp only [ab', if_false] at h1
        have eab : a.toNat = b.toNat := by omega
        by_cases bc : b.toNat < c.toNat
        · have : a.toNat < c.toNat := by omega
          simp [this]
        · simp only [bc, if_false] at h2
          by_cases bc' : b.toNat > c.toNat
          · simp [bc'] at h2
          · simp only [bc', if_false] at h2
            have e1 : ¬ a.toNat < c.toNat := by omega
            have e2 : ¬ a.toNat > c.toNat := by omega
            simp only [e1, e2, if_false]
            exact strLt_trans as bs cs h1 h2

theorem mem_insertRel (x y : Rel) : ∀ l : List Rel, y ∈ insertRel x l ↔ y = x ∨ y ∈ l
  | [] => by simp [insertRel]
  | z :: zs => by
    simp only [insertRel]
    split
    · simp
    · simp only [List.mem_cons, mem_insertRel x y zs]
      constructor
      · rintro (h | h | h)
        · exact Or.inr (Or.inl h)
        · exact Or.inl h
        · exact Or.inr (Or.inr h)
      · rintro (h | h | h)
        · exact Or.inr (Or.inl h)
        · exact Or.inl h
        · exact Or.inr (Or.inr h)

theorem mem_foldl_insertRel (y : Rel) : ∀ (l acc : List Rel), y ∈ l.foldl (fun acc x => insertRel x acc) acc ↔ y ∈ l ∨ y ∈ acc
  | [], acc => by simp
  | x :: xs, acc => by
    simp only [List.foldl_cons, mem_foldl_insertRel y xs, mem_insertRel, List.mem_cons]
    constructor
    · rintro (h | h | h)
      · exact Or.inl (Or.inr h)
      · exact Or.inl (Or.inl h)
      · exact Or.inr h
    · rintro ((h | h) | h)
      · exact Or.inr (Or.inl h)
      · exact Or.inl h
      · exact Or.inr (Or.inr h)

theorem mem_sortRels (y : Rel) (l : List Rel) : y ∈ sortRels l ↔ y ∈ l := by
  unfold sortRels
  rw [mem_foldl_insertRel]; simp

/-- non-decreasing in path order -/
def SortedByPath (l : List Rel) : Prop := l.Pairwise (fun a b => strLt b.path a.path = false)

theorem sorted_insertRel (x : Rel) : ∀ l : List Rel, SortedByPath l → SortedByPath (insertRel x l)
  | [], _ => by simp [insertRel, SortedByPath]
  | z :: zs, h => by
    unfold SortedByPath at h ⊢
    simp only [insertRel]
    have hz := (List.pairwise_cons.1 h)
    split
    · rename_i hlt
      refine List.pairwise_cons.2 ⟨?_, h⟩
      intro w hw
      rcases List.mem_cons.1 hw with rfl | hw
      · exact strLt_asymm _ _ hlt
      · -- w comes after z: not w < z; and x < z: so not w < x
        have h1 := hz.1 w hw
        cases hwx : strLt w.path x.path with
        | false => rfl
        | true => rw [strLt_trans _ _ _ hwx hlt] at h1; exact absurd h1 (by simp)
    · rename_i hnl
      refine List.pairwise_cons.2 ⟨?_, sorted_insertRel x zs hz.2⟩
      intro w hw
      rcases (mem_insertRel x w zs).1 hw with rfl | hw
      · simpa using hnl
      · exact hz.1 w hw

theorem sorted_foldl (l : List Rel) : ∀ acc, SortedByPath acc → SortedByPath (l.foldl (fun acc x => insertRel x acc) acc) := by
  induction l with
  | nil => intro acc h; exact h
  | cons x xs ih => intro acc h; exact ih _ (sorted_insertRel x acc h)

/-- **C09: selection by relationship type.** -/
theorem C09_selection (files : List Rel) (types : List Str) (f : Rel) :
    f ∈ filesOfType files types ↔ f ∈ files ∧ types.contains f.type = true := by
  unfold filesOfType
  rw [mem_sortRels]; simp [List.mem_filter]

/-- **C09: several parts of one kind come in path order.** -/
theorem C09_sorted (files : List Rel) (types : List Str) : SortedByPath (filesOfType files types) := by
  unfold filesOfType sortRels
  exact sorted_foldl _ [] (by simp [SortedByPath])

/-- **C09: a part without a relationships file has no relationships.** -/
theorem C09_no_rels_file (a : Archive) (files : List Rel) (r : Rel)
    (h : files.filter (fun f => f.target == r.relsPath) = []) : partRels a files r = .ok [] := by
  unfold partRels relsElement
  simp [h, pure, Except.pure, bind, Except.bind]

/-- **C09: ids are resolved against the part's own relationships file**: what `File.rels` returns
is computed from the member found at the part's own `_rels` path and from nothing else. -/
theorem C09_own_rels (a : Archive) (files : List Rel) (r f : Rel) (root : Xml)
    (h : files.filter (fun f => f.target == r.relsPath) = [f]) (hr : a.readXml f.path = .ok root) :
    partRels a files r = idTargets root.kids [] := by
  unfold partRels relsElement
  simp [h, hr, pure, Except.pure, bind, Except.bind]

/-- **C09: no core-properties relationship ⇒ empty dict.** -/
theorem C09_missing_core (a : Archive) (files : List Rel) (hf : a.files = .ok files)
    (h : ∀ f ∈ files, f.type ≠ lit "core-properties") : coreProperties a = .ok [] := by
  unfold coreProperties
  simp only [hf, ok_bind]
  have : filesOfType files [lit "core-properties"] = [] := by
    apply List.eq_nil_iff_forall_not_mem.2
    intro f hm
    have := (C09_selection files _ f).1 hm
    simp at this
    exact h f this.1 this.2
  rw [this]; rfl

end D2P
