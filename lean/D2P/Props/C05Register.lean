import D2P.Proofs.Hyperlink
import D2P.Props.C05
/-!
# C05 — the lineage register: slot 1 says "tbl" only inside a table

`set_caret(d, elem)` writes slot `d` of the register and no other slot (`setCaret_slot`). Hence
slot 1 is written only when an element of derived depth 1 opens (with its local name) and when
it closes (cleared). `C05_slot1_after_element`: after walking ANY element, slot 1 is what it was
before or has been cleared — whatever tables were nested inside. `C05_free_paragraph_lineage`: a
paragraph that is not inside a cell takes its lineage from the register, whose slot 1 is the one
found when the paragraph opens. Together: a paragraph reports "tbl" in slot 1 only if it is opened
while an element named `tbl` of depth 1 is open, i.e. inside a table.
-/
namespace D2P

/-- slot `k` untouched, length kept -/
def Keep (k : Nat) (s s' : DC) : Prop := s'.lineage[k]? = s.lineage[k]? ∧ s'.lineage.length = s.lineage.length

theorem Keep.refl (k : Nat) (s : DC) : Keep k s s := ⟨rfl, rfl⟩
theorem Keep.trans {k : Nat} {a b c : DC} (x : Keep k a b) (y : Keep k b c) : Keep k a c :=
  ⟨y.1.trans x.1, y.2.trans x.2⟩
theorem keep_of_lineage {k : Nat} {s s' : DC} (h : s'.lineage = s.lineage) : Keep k s s' := ⟨by rw [h], by rw [h]⟩

theorem drop_lineage (s s' : DC) (h : s.drop = .ok s') : s'.lineage = s.lineage := by
  unfold DC.drop at h
  split at h
  · simp at h
  · obtain ⟨s1, h1, h⟩ := bind_ok h
    have := pure_ok h; subst this
    unfold DC.appendAtCaret at h1
    obtain ⟨r, _, h1⟩ := bind_ok h1
    have := pure_ok h1; subst this; rfl

theorem raise_lineage (s s' : DC) (h : s.raise = .ok s') : s'.lineage = s.lineage := by
  unfold DC.raise at h
  split at h
  · simp at h
  · have := pure_ok h; subst this; rfl

theorem setCaretAux_slot (k : Nat) (f : Nat) (s s' : DC) (d : Nat) (n : Option Str) (hk : k ≠ d)
    (h : DC.setCaretAux f s d n = .ok s') : Keep k s s' := by
  induction f generalizing s with
  | zero => simp [DC.setCaretAux] at h
  | succ f ih =>
    simp only [DC.setCaretAux] at h
    split at h
    · have := pure_ok h; subst this
      exact ⟨by simp [List.getElem?_set, Ne.symm hk], by simp⟩
    · split at h
      · obtain ⟨s1, h1, h⟩ := bind_ok h
        exact (keep_of_lineage (drop_lineage s s1 h1)).trans (ih s1 h)
      · obtain ⟨s1, h1, h⟩ := bind_ok h
        have hl := raise_lineage _ s1 h1
        have k1 : Keep k s s1 := ⟨by rw [hl]; simp [List.getElem?_set, Ne.symm hk], by rw [hl]; simp⟩
        exact k1.trans (ih s1 h)

/-- **`set_caret(d)` writes slot `d` only.** -/
theorem setCaret_slot (k : Nat) (s s' : DC) (d : Option Nat) (n : Option Str) (hk : d ≠ some k)
    (h : s.setCaret d n = .ok s') : Keep k s s' := by
  unfold DC.setCaret at h
  cases d with
  | none => have := pure_ok h; subst this; exact Keep.refl k s
  | some d => exact setCaretAux_slot k 8 s s' d n (by intro e; subst e; exact hk rfl) h

/-- at depth `d` the register slot `d` holds exactly what `set_caret(d, elem)` was given -/
theorem setCaretAux_writes (f : Nat) (s s' : DC) (d : Nat) (n : Option Str) (hl : d < s.lineage.length)
    (h : DC.setCaretAux f s d n = .ok s') : s'.lineage[d]? = some n ∧ s'.lineage.length = s.lineage.length := by
  induction f generalizing s with
  | zero => simp [DC.setCaretAux] at h
  | succ f ih =>
    simp only [DC.setCaretAux] at h
    split at h
    · have := pure_ok h; subst this; simp [List.getElem?_set, hl]
    · split at h
      · obtain ⟨s1, h1, h⟩ := bind_ok h
        have e := drop_lineage s s1 h1
        have := ih s1 (by rw [e]; exact hl) h
        rw [e] at this; exact this
      · obtain ⟨s1, h1, h⟩ := bind_ok h
        have e := raise_lineage _ s1 h1
        have := ih s1 (by rw [e]; simpa using hl) h
        rw [e] at this; simpa using this

theorem modTop_lineage (s : DC) (f : Par → Par) : (s.modTop f).lineage = s.lineage := by
  unfold DC.modTop; split <;> rfl

/-! ## every collector operation other than `set_caret(1)` keeps slot 1 -/

theorem commencePar_keep1 (html : Bool) (s s' : DC) (e : Option Xml) (c : Bool) (h : s.commencePar html e c = .ok s') : Keep 1 s s' := by
  unfold DC.commencePar at h
  obtain ⟨s1, h1, h⟩ := bind_ok h
  obtain ⟨_, _, h⟩ := bind_ok h
  obtain ⟨_, _, h⟩ := bind_ok h
  have := pure_ok h; subst this
  exact (setCaret_slot 1 s s1 _ _ (by simp) h1).trans (keep_of_lineage rfl)

theorem appendAtCaret_lineage (s s' : DC) (x : Nest) (h : s.appendAtCaret x = .ok s') : s'.lineage = s.lineage := by
  unfold DC.appendAtCaret at h
  obtain ⟨r, _, h⟩ := bind_ok h
  have := pure_ok h; subst this; rfl

theorem concludePar_keep1 (s s' : DC) (h : s.concludePar = .ok s') : Keep 1 s s' := by
  unfold DC.concludePar at h
  split at h
  · have := pure_ok h; subst this; exact Keep.refl 1 s
  · obtain ⟨s1, h1, h⟩ := bind_ok h
    have k1 : Keep 1 s s1 := (keep_of_lineage (s' := { s with openPars := s.openPars.dropLast }) rfl).trans (setCaret_slot 1 _ s1 _ _ (by simp) h1)
    exact k1.trans (keep_of_lineage (appendAtCaret_lineage s1 s' _ h))

theorem ensurePar_keep1 (html : Bool) (s s' : DC) (h : s.ensurePar html = .ok s') : Keep 1 s s' := by
  unfold DC.ensurePar at h
  split at h
  · exact commencePar_keep1 html s s' none false h
  · have := pure_ok h; subst this; exact Keep.refl 1 s

theorem commenceRun_keep1 (html : Bool) (s s' : DC) (e : Option Xml) (h : s.commenceRun html e = .ok s') : Keep 1 s s' := by
  unfold DC.commenceRun at h
  obtain ⟨_, _, h⟩ := bind_ok h
  obtain ⟨s1, h1, h⟩ := bind_ok h
  have := pure_ok h; subst this
  exact (ensurePar_keep1 html s s1 h1).trans (keep_of_lineage (modTop_lineage _ _))

theorem ensureRun_keep1 (html : Bool) (s s' : DC) (h : s.ensureRun html = .ok s') : Keep 1 s s' := by
  unfold DC.ensureRun at h
  obtain ⟨s1, h1, h⟩ := bind_ok h
  have := pure_ok h; subst this
  exact (ensurePar_keep1 html s s1 h1).trans (keep_of_lineage (modTop_lineage _ _))

theorem addCode_keep1 (html : Bool) (s s' : DC) (t : Str) (h : s.addCode html t = .ok s') : Keep 1 s s' := by
  unfold DC.addCode at h
  obtain ⟨s1, h1, h⟩ := bind_ok h
  have := pure_ok h; subst this
  exact (ensureRun_keep1 html s s1 h1).trans (keep_of_lineage (modTop_lineage _ _))

theorem insertNewRun_keep1 (html : Bool) (s s' : DC) (t : Str) (h : s.insertNewRun html t = .ok s') : Keep 1 s s' := by
  unfold DC.insertNewRun at h
  obtain ⟨s1, h1, h⟩ := bind_ok h
  have := pure_ok h; subst this
  exact (ensureRun_keep1 html s s1 h1).trans (keep_of_lineage (modTop_lineage _ _))

theorem insertOpt_keep1 (html : Bool) (s s' : DC) (t : Option Str) (h : insertOpt html s t = .ok s') : Keep 1 s s' := by
  unfold insertOpt at h
  split at h
  · exact insertNewRun_keep1 html s s' _ h
  · have := pure_ok h; subst this; exact Keep.refl 1 s

theorem startRange_keep1 (s s' : DC) (id : Str) (h : s.startRange id = .ok s') : Keep 1 s s' := by
  unfold DC.startRange at h
  obtain ⟨_, _, h⟩ := bind_ok h
  have := pure_ok h; subst this; exact keep_of_lineage rfl

theorem endRange_keep1 (s s' : DC) (id : Str) (h : s.endRange id = .ok s') : Keep 1 s s' := by
  unfold DC.endRange at h
  obtain ⟨_, _, h⟩ := bind_ok h
  have := pure_ok h; subst this; exact keep_of_lineage rfl

theorem noteLabel_keep1 (s s' : DC) (x : Xml) (k : String) (h : noteLabel s x k = .ok s') : Keep 1 s s' := by
  unfold noteLabel at h
  obtain ⟨_, _, h⟩ := bind_ok h
  split at h
  · have := pure_ok h; subst this; exact Keep.refl 1 s
  · obtain ⟨_, _, h⟩ := bind_ok h
    obtain ⟨s0, h0, h⟩ := bind_ok h
    have := pure_ok h; subst this
    have k0 : Keep 1 s s0 := by
      rcases flushImplicit_cases s s0 _ h0 with e | e
      · subst e; exact Keep.refl 1 _
      · exact concludePar_keep1 s s0 e
    exact k0.trans (keep_of_lineage rfl)

theorem openParagraph_keep1 (cfg : PartCfg) (s s' : DC) (x : Xml) (c : Bool) (h : openParagraph cfg s x c = .ok s') : Keep 1 s s' := by
  unfold openParagraph at h
  obtain ⟨s1, h1, h⟩ := bind_ok h
  obtain ⟨bb, _, h⟩ := bind_ok h
  obtain ⟨s2, h2, h⟩ := bind_ok h
  have := pure_ok h; subst this
  have k2 := insertNewRun_keep1 cfg.html _ s2 _ h2
  exact ((commencePar_keep1 cfg.html s s1 _ c h1).trans ((keep_of_lineage (s' := { s1 with bullets := (listPosition bb.1 x (x.id?.getD 0)).1 }) rfl).trans k2)).trans
    (keep_of_lineage (modTop_lineage _ _))

theorem vmergeDo_keep1 (ti ri : Nat) (s s' : DC) (h : vmergeDo ti ri s = .ok s') : Keep 1 s s' := by
  unfold vmergeDo at h
  obtain ⟨s1, h1, h⟩ := bind_ok h
  have k1 := setCaret_slot 1 s s1 _ _ (by simp) h1
  obtain ⟨_, _, h⟩ := bind_ok h
  obtain ⟨_, _, h⟩ := bind_ok h
  split at h
  · have := pure_ok h; subst this; exact k1
  · split at h
    · have := pure_ok h; subst this; exact k1
    · have := pure_ok h; subst this; exact k1.trans (keep_of_lineage rfl)

theorem spanStep_keep1 (dup : Bool) (ti ri : Nat) (s s' : DC) (h : spanStep dup ti ri s = .ok s') : Keep 1 s s' := by
  unfold spanStep at h
  obtain ⟨s1, h1, h⟩ := bind_ok h
  obtain ⟨_, _, h⟩ := bind_ok h
  have := pure_ok h; subst this
  exact (setCaret_slot 1 s s1 _ _ (by simp) h1).trans (keep_of_lineage rfl)

theorem iterateM_keep1 (f : DC → M DC) (hf : ∀ a b, f a = .ok b → Keep 1 a b) : ∀ (n : Nat) (s s' : DC), iterateM f n s = .ok s' → Keep 1 s s'
  | 0, s, s', h => by simp only [iterateM] at h; have := pure_ok h; subst this; exact Keep.refl 1 s
  | n+1, s, s', h => by
    simp only [iterateM] at h
    obtain ⟨s1, h1, h⟩ := bind_ok h
    exact (hf s s1 h1).trans (iterateM_keep1 f hf n s1 s' h)

theorem closeTableCell_keep1 (dup : Bool) (s s' : DC) (tc : Xml) (h : closeTableCell dup s tc = .ok s') : Keep 1 s s' := by
  unfold closeTableCell at h
  split at h
  · have := pure_ok h; subst this; exact Keep.refl 1 s
  obtain ⟨_, _, h⟩ := bind_ok h
  obtain ⟨_, _, h⟩ := bind_ok h
  split at h
  · have := pure_ok h; subst this; exact Keep.refl 1 s
  · obtain ⟨s1, h1, h⟩ := bind_ok h
    have k1 : Keep 1 s s1 := by
      unfold vmergeStep at h1
      split at h1
      · exact vmergeDo_keep1 _ _ s s1 h1
      · have := pure_ok h1; subst this; exact Keep.refl 1 s
    obtain ⟨n, _, h⟩ := bind_ok h
    exact k1.trans (iterateM_keep1 _ (fun a b hab => spanStep_keep1 dup _ _ a b hab) n s1 s' h)

theorem openStep_keep1 (cfg : PartCfg) (s s' : DC) (x : Xml) (c : Bool) (roots : List (List Nest)) (r : Bool)
    (h : openStep cfg s x c roots = .ok (s', r)) : Keep 1 s s' := by
  unfold openStep at h
  have wt : ∀ (X : M DC), (∀ t, X = .ok t → Keep 1 s t) → ∀ r, withTrue X = .ok (s', r) → Keep 1 s s' :=
    fun X hX r hr => hX s' (withTrue_ok hr).1
  have wf : ∀ (X : M DC), (∀ t, X = .ok t → Keep 1 s t) → ∀ r, withFalse X = .ok (s', r) → Keep 1 s s' :=
    fun X hX r hr => hX s' (withFalse_ok hr).1
  split at h
  · exact wt _ (fun t ht => openParagraph_keep1 cfg s t x c ht) r h
  · exact wt _ (fun t ht => commenceRun_keep1 cfg.html s t _ ht) r h
  · exact wf _ (fun t ht => by obtain ⟨id, _, ht⟩ := bind_ok ht; exact endRange_keep1 s t id ht) r h
  · exact wf _ (fun t ht => by obtain ⟨id, _, ht⟩ := bind_ok ht; exact startRange_keep1 s t id ht) r h
  · exact wt _ (fun t ht => addCode_keep1 cfg.html s t _ ht) r h
  · exact wt _ (fun t ht => addCode_keep1 cfg.html s t _ ht) r h
  · exact wf _ (fun t ht => insertNewRun_keep1 cfg.html s t _ ht) r h
  · exact wt _ (fun t ht => addCode_keep1 cfg.html s t _ ht) r h
  · exact wt _ (fun t ht => by
      obtain ⟨cde, _, ht⟩ := bind_ok ht
      split at ht
      · exact addCode_keep1 cfg.html s t _ ht
      · have := pure_ok ht; subst this; exact Keep.refl 1 s) r h
  · exact wt _ (fun t ht => noteLabel_keep1 s t x _ ht) r h
  · exact wt _ (fun t ht => noteLabel_keep1 s t x _ ht) r h
  · exact wf _ (fun t ht => openHyperlink_preserves (P := fun a => Keep 1 s a) cfg
      (fun a id b ha hb => ha.trans (startRange_keep1 a b id hb)) (fun a tx b ha hb => ha.trans (insertNewRun_keep1 cfg.html a b tx hb))
      (fun a id b ha hb => ha.trans (endRange_keep1 a b id hb)) s t x roots (Keep.refl 1 s) ht) r h
  · exact wt _ (fun t ht => by obtain ⟨tx, _, ht⟩ := bind_ok ht; exact insertNewRun_keep1 cfg.html s t _ ht) r h
  · exact wt _ (fun t ht => by obtain ⟨tx, _, ht⟩ := bind_ok ht; exact insertNewRun_keep1 cfg.html s t _ ht) r h
  · exact wt _ (fun t ht => by obtain ⟨tx, _, ht⟩ := bind_ok ht; exact insertNewRun_keep1 cfg.html s t _ ht) r h
  · exact wt _ (fun t ht => by obtain ⟨tx, _, ht⟩ := bind_ok ht; exact insertNewRun_keep1 cfg.html s t _ ht) r h
  · exact wt _ (fun t ht => by obtain ⟨tx, _, ht⟩ := bind_ok ht; exact insertOpt_keep1 cfg.html s t _ ht) r h
  · exact wt _ (fun t ht => by obtain ⟨tx, _, ht⟩ := bind_ok ht; exact insertOpt_keep1 cfg.html s t _ ht) r h
  · exact wt _ (fun t ht => insertOpt_keep1 cfg.html s t _ ht) r h
  · exact wt _ (fun t ht => insertNewRun_keep1 cfg.html s t _ ht) r h
  · have := pure_ok h; cases this; exact Keep.refl 1 s

theorem flushImplicit_keep1 (s s' : DC) (d : Option Nat) (h : s.flushImplicit d = .ok s') : Keep 1 s s' := by
  rcases flushImplicit_cases s s' d h with e | e
  · subst e; exact Keep.refl 1 _
  · exact concludePar_keep1 s s' e

theorem closeStepCore_keep1 (cfg : PartCfg) (s s' : DC) (x : Xml) (h : closeStepCore cfg s x = .ok s') : Keep 1 s s' := by
  unfold closeStepCore at h
  split at h
  · exact concludePar_keep1 s s' h
  · exact commenceRun_keep1 cfg.html s s' none h
  · exact closeTableCell_keep1 cfg.dup s s' x h
  · have := pure_ok h; subst this; exact Keep.refl 1 s

theorem closeStep_keep1 (cfg : PartCfg) (s s' : DC) (x : Xml) (h : closeStep cfg s x = .ok s') : Keep 1 s s' := by
  obtain ⟨s0, h0, h⟩ := closeStep_split cfg s s' x h
  exact (flushImplicit_keep1 s s0 _ h0).trans (closeStepCore_keep1 cfg s0 s' x h)

/-! ## the walk -/

/-- slot 1 after = slot 1 before, or cleared -/
def Slot1Rel (s s' : DC) : Prop :=
  s'.lineage.length = s.lineage.length ∧ (s'.lineage[1]? = s.lineage[1]? ∨ s'.lineage[1]? = some none)

theorem Slot1Rel.refl (s : DC) : Slot1Rel s s := ⟨rfl, Or.inl rfl⟩
theorem Slot1Rel.trans {a b c : DC} (x : Slot1Rel a b) (y : Slot1Rel b c) : Slot1Rel a c := by
  refine ⟨y.1.trans x.1, ?_⟩
  rcases y.2 with h | h
  · rcases x.2 with h' | h'
    · exact Or.inl (h.trans h')
    · exact Or.inr (h.trans h')
  · exact Or.inr h
theorem Slot1Rel.of_keep {s s' : DC} (h : Keep 1 s s') : Slot1Rel s s' := ⟨h.2, Or.inl h.1⟩

mutual
/-- **C05: after walking any element, register slot 1 is unchanged or cleared.** -/
theorem walk_slot1 (cfg : PartCfg) (num : Dict Str (List NumAttr)) :
    (x : Xml) → (c : Bool) → (s s' : DC) → 1 < s.lineage.length → walk cfg num c s x = .ok s' → Slot1Rel s s'
  | .elem i p t m a tx tl ks, c, s, s', hl, h => by
    simp only [walk] at h
    obtain ⟨s1, h1, h⟩ := bind_ok h
    unfold DC.setCaretOpen at h1
    obtain ⟨s0, h0, h1⟩ := bind_ok h1
    have k0 := flushImplicit_keep1 s s0 _ h0
    obtain ⟨roots, _, h⟩ := bind_ok h
    obtain ⟨⟨s2, rec⟩, h2, h⟩ := bind_ok h
    obtain ⟨s3, h3, h⟩ := bind_ok h
    obtain ⟨s4, h4, h5⟩ := bind_ok h
    have k2 := openStep_keep1 cfg s1 s2 _ c roots rec h2
    have k4 := closeStep_keep1 cfg s3 s4 _ h4
    by_cases hd : elemDepth (.elem i p t m a tx tl ks) = some 1
    · -- an element of depth 1: whatever happened inside, closing it clears slot 1
      rw [hd] at h1 h5
      unfold DC.setCaret at h1 h5
      have l1 := ((setCaretAux_writes 8 s0 s1 1 _ (by rw [k0.2]; exact hl) h1).2).trans k0.2
      have l3 : s3.lineage.length = s2.lineage.length := by
        simp only at h3
        split at h3
        · exact (walkL_slot1 cfg num ks _ s2 s3 (by rw [k2.2, l1]; exact hl) h3).1
        · have := pure_ok h3; subst this; rfl
      have hl4 : 1 < s4.lineage.length := by rw [k4.2, l3, k2.2, l1]; exact hl
      have w := setCaretAux_writes 8 s4 s' 1 none hl4 h5
      exact ⟨by rw [w.2, k4.2, l3, k2.2, l1], Or.inr w.1⟩
    · have r1 : Slot1Rel s s1 := Slot1Rel.of_keep (k0.trans (setCaret_slot 1 s0 s1 _ _ hd h1))
      have hl2 : 1 < s2.lineage.length := by rw [k2.2, r1.1]; exact hl
      have r3 : Slot1Rel s2 s3 := by
        simp only at h3
        split at h3
        · exact walkL_slot1 cfg num ks _ s2 s3 hl2 h3
        · have := pure_ok h3; subst this; exact Slot1Rel.refl _
      have r5 : Slot1Rel s4 s' := Slot1Rel.of_keep (setCaret_slot 1 s4 s' _ _ hd h5)
      exact ((((r1.trans (Slot1Rel.of_keep k2)).trans r3).trans (Slot1Rel.of_keep k4)).trans r5)
  | .comment _ _, c, s, s', hl, h => by simp only [walk] at h; have := pure_ok h; subst this; exact Slot1Rel.refl s
  | .pi _, c, s, s', hl, h => by simp only [walk] at h; have := pure_ok h; subst this; exact Slot1Rel.refl s
theorem walkL_slot1 (cfg : PartCfg) (num : Dict Str (List NumAttr)) :
    (xs : List Xml) → (c : Bool) → (s s' : DC) → 1 < s.lineage.length → walkL cfg num c s xs = .ok s' → Slot1Rel s s'
  | [], c, s, s', hl, h => by simp only [walkL] at h; have := pure_ok h; subst this; exact Slot1Rel.refl s
  | k :: ks, c, s, s', hl, h => by
    simp only [walkL] at h
    obtain ⟨s1, h1, h⟩ := bind_ok h
    have r1 := walk_slot1 cfg num k c s s1 hl h1
    exact r1.trans (walkL_slot1 cfg num ks c s1 s' (by rw [r1.1]; exact hl) h)
end

/-- **C05: a free paragraph's lineage is the register.** A paragraph that is not inside a cell
gets as slot 1 of its lineage exactly slot 1 of the register at the moment it opens. -/
theorem C05_free_paragraph_lineage (html : Bool) (s s' : DC) (x : Xml) (h : s.commencePar html (some x) false = .ok s') :
    ∃ p, s'.openPars.getLast? = some p ∧ p.lineage[1]? = s.lineage[1]? := by
  unfold DC.commencePar at h
  obtain ⟨s1, h1, h⟩ := bind_ok h
  obtain ⟨hs, _, h⟩ := bind_ok h
  obtain ⟨st, _, h⟩ := bind_ok h
  have := pure_ok h; subst this
  have k := setCaret_slot 1 s s1 _ _ (by simp) h1
  refine ⟨{ elem := x.id?, htmlStyle := hs, style := st, lineage := s1.lineage, runs := s1.queued }, by simp, k.1⟩

/-- … so a free paragraph opened while slot 1 is not "tbl" does not report "tbl". -/
theorem C05_free_lineage_step (html : Bool) (s s' : DC) (x : Xml) (hs : s.lineage[1]? ≠ some (some (lit "tbl")))
    (h : s.commencePar html (some x) false = .ok s') :
    ∃ p, s'.openPars.getLast? = some p ∧ p.lineage[1]? ≠ some (some (lit "tbl")) := by
  obtain ⟨p, hp, hl⟩ := C05_free_paragraph_lineage html s s' x h
  exact ⟨p, hp, by rw [hl]; exact hs⟩

end D2P

namespace D2P

/-- **C05 over a whole body**: walk ANY list of elements `pre` (paragraphs, tables — nested to any
depth, merged in any way —, content controls, anything), then a paragraph that is not in a cell and
encloses no other paragraph.  If the register's table slot was clear before `pre`, the record of
that paragraph does not say "tbl": a paragraph outside every table never reports a table lineage,
whatever tables precede it. (`s0` is `s1` after a pending implicit paragraph — stray inline content
at the end of `pre` — has been concluded, which opening the paragraph does first.) -/
theorem C05_free_lineage_body (cfg : PartCfg) (num : Dict Str (List NumAttr)) (pre : List Xml)
    (i : Nat) (p : Option Str) (t : QName) (m : NsMap) (a : List (QName × Str)) (tx tl : Option Str) (ks : List Xml)
    (hx : (Xml.elem i p t m a tx tl ks).ptag = paragraphTag) (hk : flatInlineL ks = true)
    (s s1 s' : DC) (hl : 1 < s.lineage.length) (hs : s.lineage[1]? = some none)
    (h1 : walkL cfg num false s pre = .ok s1) (h2 : walk cfg num false s1 (.elem i p t m a tx tl ks) = .ok s') :
    ∃ s0 par, s1.flushImplicit (some 4) = .ok s0 ∧
      leafParsL s'.root = leafParsL s0.root ++ [par] ∧ par.elem = some i ∧ par.lineage[1]? = some none := by
  -- after `pre` the table slot is what it was, or cleared: clear in both cases
  obtain ⟨hlen, hrel⟩ := walkL_slot1 cfg num pre false s s1 hl h1
  have hs1 : s1.lineage[1]? = some none := by
    rcases hrel with h | h
    · rw [h]; exact hs
    · exact h
  obtain ⟨s0, h0, par, _, _, e1, _, _, _, e5, _, _, _, _, _, _, hfree⟩ := walk_paragraph_gen cfg num false s1 s' i p t m a tx tl ks hx hk h2
  have k0 := flushImplicit_keep1 s1 s0 _ h0
  obtain ⟨sa, sb, ha, hb, hlin⟩ := hfree rfl
  have ka := setCaret_slot 1 s0 sa (some 4) _ (by simp) ha
  have kb := setCaret_slot 1 sa sb (some 4) _ (by simp) hb
  exact ⟨s0, par, h0, e1, e5, by rw [hlin, kb.1, ka.1, k0.1]; exact hs1⟩

end D2P
