import D2P.Props.C01
import D2P.Props.C13Total
/-!
# C13 — from "every part can be walked" to "every string view can be read"

`C13_part_total` gives a collector for every valid part.  This file carries totality up through the
view functions: for record trees of the four-level shape whose paragraphs can be rendered
(`Renderable`), `get_par_strings`, `_join_runs`, `flatten_text` and the leaves for the comments all
return (`getParStrings_total`, `joinRuns_total`, `flattenText_total`, `allLeaves_total`), hence
every `*_pars`, `*_runs`, plain view and `text` (`C13_views_total`), and — with `C13_part_total` — the
same for a whole package whose parts can be read and are schema-valid after merging
(`validPkg`, evaluated by the driver on every generated package; `C13_package_total`).
-/
namespace D2P

/-- every paragraph record of the tree can be rendered -/
def Renderable (root : List Nest) : Prop := ∀ p ∈ leafParsL root, ∃ ss, p.runStrings = .ok ss

theorem renderable_append {a b : List Nest} (ha : Renderable a) (hb : Renderable b) : Renderable (a ++ b) := by
  intro p hp
  rw [leafParsL_append] at hp
  rcases List.mem_append.1 hp with h | h
  · exact ha p h
  · exact hb p h

theorem wfL_app (n : Nat) (a b : List Nest) (ha : wfL n a = true) (hb : wfL n b = true) : wfL n (a ++ b) = true := by
  rw [wfL_append, ha, hb]; rfl

theorem tshapeL_append (n : Nat) : ∀ (a b : List Tree), tshapeL n a = true → tshapeL n b = true → tshapeL n (a ++ b) = true
  | [], b, _, hb => hb
  | x :: a, b, ha, hb => by
    simp only [tshapeL, Bool.and_eq_true] at ha
    simp only [List.cons_append, tshapeL, ha.1, tshapeL_append n a b ha.2 hb, Bool.and_self]

/-! ## `get_par_strings` -/

theorem runsLevel_total : ∀ (n : Nat) (x : Nest), wf n x = true → (∀ p ∈ leafParsT x, ∃ ss, p.runStrings = .ok ss) →
    ∃ t, runsLevel n x = .ok t := by
  intro n
  induction n with
  | zero =>
    intro x hw hr
    cases x with
    | par p =>
      obtain ⟨ss, hs⟩ := hr p (by simp [leafParsT])
      exact ⟨_, by simp only [runsLevel, hs, ok_bind]; rfl⟩
    | list xs => simp [wf] at hw
  | succ n ih =>
    intro x hw hr
    cases x with
    | par p => simp [wf] at hw
    | list xs =>
      simp only [wf] at hw
      have key : ∀ (ys : List Nest), wfL n ys = true → (∀ p ∈ leafParsL ys, ∃ ss, p.runStrings = .ok ss) →
          ∃ us, runsLevel.go n ys = .ok us := by
        intro ys
        induction ys with
        | nil => intro _ _; exact ⟨[], rfl⟩
        | cons y ys ihy =>
          intro hwy hry
          simp only [wfL, Bool.and_eq_true] at hwy
          obtain ⟨t1, h1⟩ := ih y hwy.1 (fun p hp => hry p (by simp [leafParsL, hp]))
          obtain ⟨t2, h2⟩ := ihy hwy.2 (fun p hp => hry p (by simp [leafParsL, hp]))
          exact ⟨t1 :: t2, by simp only [runsLevel.go, h1, ok_bind, h2]; rfl⟩
      obtain ⟨us, hu⟩ := key xs hw (fun p hp => hr p (by simpa [leafParsT] using hp))
      exact ⟨.node us, by simp only [runsLevel, hu, ok_bind]; rfl⟩

theorem getParStrings_total : ∀ (root : List Nest), wfL 3 root = true → Renderable root → ∃ ts, getParStrings root = .ok ts := by
  intro root
  unfold getParStrings
  induction root with
  | nil => intro _ _; exact ⟨[], rfl⟩
  | cons y ys ih =>
    intro hw hr
    simp only [wfL, Bool.and_eq_true] at hw
    obtain ⟨t1, h1⟩ := runsLevel_total 3 y hw.1 (fun p hp => hr p (by simp [leafParsL, hp]))
    obtain ⟨t2, h2⟩ := ih hw.2 (fun p hp => hr p (by simp [leafParsL, hp]))
    exact ⟨t1 :: t2, by simp only [mapLevel, h1, ok_bind, h2]; rfl⟩

/-! ## `_join_runs` -/

theorem joinLeaves_total : ∀ (rs : List Tree), tshapeL 0 rs = true → ∃ s, joinLeaves rs = .ok s
  | [], _ => ⟨[], rfl⟩
  | .leaf s :: ts, h => by
    simp only [tshapeL, Bool.and_eq_true] at h
    obtain ⟨r, hr⟩ := joinLeaves_total ts h.2
    exact ⟨s ++ r, by simp only [joinLeaves, hr, ok_bind]; rfl⟩
  | .node _ :: _, h => by simp [tshapeL, tshape] at h

theorem joinLevel_total : ∀ (n : Nat) (t : Tree), tshape (n + 1) t = true → ∃ u, joinLevel n t = .ok u := by
  intro n
  induction n with
  | zero =>
    intro t ht
    cases t with
    | leaf s => simp [tshape] at ht
    | node rs =>
      simp only [tshape] at ht
      obtain ⟨s, hs⟩ := joinLeaves_total rs ht
      exact ⟨.leaf s, by simp only [joinLevel, hs, ok_bind]; rfl⟩
  | succ n ih =>
    intro t ht
    cases t with
    | leaf s => simp [tshape] at ht
    | node xs =>
      simp only [tshape] at ht
      have key : ∀ (ys : List Tree), tshapeL (n + 1) ys = true → ∃ us, joinLevel.go n ys = .ok us := by
        intro ys
        induction ys with
        | nil => intro _; exact ⟨[], rfl⟩
        | cons y ys ihy =>
          intro hy
          simp only [tshapeL, Bool.and_eq_true] at hy
          obtain ⟨t1, h1⟩ := ih y hy.1
          obtain ⟨t2, h2⟩ := ihy hy.2
          exact ⟨t1 :: t2, by simp only [joinLevel.go, h1, ok_bind, h2]; rfl⟩
      obtain ⟨us, hu⟩ := key xs ht
      exact ⟨.node us, by simp only [joinLevel, hu, ok_bind]; rfl⟩

theorem joinRuns_total : ∀ (ts : List Tree), tshapeL 4 ts = true → ∃ us, joinRuns ts = .ok us := by
  intro ts
  unfold joinRuns
  induction ts with
  | nil => intro _; exact ⟨[], rfl⟩
  | cons y ys ih =>
    intro hy
    simp only [tshapeL, Bool.and_eq_true] at hy
    obtain ⟨t1, h1⟩ := joinLevel_total 3 y hy.1
    obtain ⟨t2, h2⟩ := ih hy.2
    exact ⟨t1 :: t2, by simp only [joinRuns.go, h1, ok_bind, h2]; rfl⟩

/-! ## `flatten_text` and the leaves used for comments -/

theorem itemsAt_total : ∀ (d n : Nat) (ts : List Tree), tshapeL (n + d) ts = true → ∃ us, itemsAt d ts = .ok us ∧ tshapeL n us = true := by
  intro d
  induction d with
  | zero => intro n ts h; exact ⟨ts, by simp [itemsAt, pure, Except.pure], by simpa using h⟩
  | succ d ih =>
    intro n ts h
    have key : ∀ (ys : List Tree), tshapeL (n + (d + 1)) ys = true → ∃ us, itemsAt.go d ys = .ok us ∧ tshapeL n us = true := by
      intro ys
      induction ys with
      | nil => intro _; exact ⟨[], by simp [itemsAt.go, pure, Except.pure], rfl⟩
      | cons y ys ihy =>
        intro hy
        simp only [tshapeL, Bool.and_eq_true] at hy
        cases y with
        | leaf s => have := hy.1; rw [show n + (d + 1) = (n + d) + 1 by omega] at this; simp [tshape] at this
        | node xs =>
          have h1 := hy.1
          rw [show n + (d + 1) = (n + d) + 1 by omega] at h1
          simp only [tshape] at h1
          obtain ⟨a, ha, sa⟩ := ih n xs h1
          obtain ⟨b, hb, sb⟩ := ihy hy.2
          exact ⟨a ++ b, by simp only [itemsAt.go, ha, ok_bind, hb]; rfl, tshapeL_append n a b sa sb⟩
    obtain ⟨us, hu, su⟩ := key ts h
    exact ⟨us, by simp only [itemsAt]; exact hu, su⟩

theorem parTexts_total : ∀ (ps : List Tree), tshapeL 1 ps = true → ∃ ss, parTexts ps = .ok ss
  | [], _ => ⟨[], rfl⟩
  | .node rs :: ts, h => by
    simp only [tshapeL, tshape, Bool.and_eq_true] at h
    obtain ⟨s, hs⟩ := joinLeaves_total rs h.1
    obtain ⟨r, hr⟩ := parTexts_total ts h.2
    exact ⟨s :: r, by simp only [parTexts, hs, ok_bind, hr]; rfl⟩
  | .leaf s :: ts, h => by simp [tshapeL, tshape] at h

theorem flattenText_total (runs : List Tree) (h : tshapeL 4 runs = true) : ∃ s, flattenText runs = .ok s := by
  unfold flattenText
  obtain ⟨ps, hp, sp⟩ := itemsAt_total 3 1 runs h
  obtain ⟨ss, hs⟩ := parTexts_total ps sp
  exact ⟨_, by simp only [hp, ok_bind, hs]; rfl⟩

theorem allLeaves_total (runs : List Tree) (h : tshapeL 4 runs = true) : ∃ ls, allLeaves runs = .ok ls := by
  unfold allLeaves
  obtain ⟨ps, hp, sp⟩ := itemsAt_total 4 0 runs (by simpa using h)
  have key : ∀ (ys : List Tree), tshapeL 0 ys = true → ∃ ls, allLeaves.go ys = .ok ls := by
    intro ys
    induction ys with
    | nil => intro _; exact ⟨[], rfl⟩
    | cons y ys ihy =>
      intro hy
      simp only [tshapeL, Bool.and_eq_true] at hy
      cases y with
      | leaf s =>
        obtain ⟨r, hr⟩ := ihy hy.2
        exact ⟨s :: r, by simp only [allLeaves.go, hr, ok_bind]; rfl⟩
      | node _ => simp [tshape] at hy
  obtain ⟨ls, hl⟩ := key ps sp
  exact ⟨ls, by simp only [hp, ok_bind]; exact hl⟩

/-! ## all views from the five record trees -/

/-- the five `_get_pars` results exist, have the shape and can be rendered -/
def GoodPars (g : ParsOf) : Prop :=
  ∀ t ∈ partTypes, ∃ root, g t = .ok root ∧ wfL 3 root = true ∧ Renderable root

def viewParts : List String := ["header", "footer", "body", "footnotes", "endnotes", "document"]

theorem viewPars_good (g : ParsOf) (hg : GoodPars g) : ∀ part ∈ viewParts,
    ∃ root, viewParsFrom g part = .ok root ∧ wfL 3 root = true ∧ Renderable root := by
  obtain ⟨rh, gh, wh, nh⟩ := hg "header" (by decide)
  obtain ⟨rb, gb, wb, nb⟩ := hg "officeDocument" (by decide)
  obtain ⟨rf, gf, wf_, nf⟩ := hg "footer" (by decide)
  obtain ⟨rn, gn, wn, nn⟩ := hg "footnotes" (by decide)
  obtain ⟨re, ge, we, ne⟩ := hg "endnotes" (by decide)
  intro part hp
  simp only [viewParts, List.mem_cons, List.mem_nil_iff, or_false] at hp
  rcases hp with rfl | rfl | rfl | rfl | rfl | rfl
  · exact ⟨rh, by simp [viewParsFrom, gh], wh, nh⟩
  · exact ⟨rf, by simp [viewParsFrom, gf], wf_, nf⟩
  · exact ⟨rb, by simp [viewParsFrom, gb], wb, nb⟩
  · exact ⟨rn, by simp [viewParsFrom, gn], wn, nn⟩
  · exact ⟨re, by simp [viewParsFrom, ge], we, ne⟩
  · refine ⟨rh ++ rb ++ rf ++ rn ++ re, by simp [viewParsFrom, gh, gb, gf, gn, ge, pure, Except.pure, bind, Except.bind], ?_, ?_⟩
    · exact wfL_app 3 _ _ (wfL_app 3 _ _ (wfL_app 3 _ _ (wfL_app 3 _ _ wh wb) wf_) wn) we
    · exact renderable_append (renderable_append (renderable_append (renderable_append nh nb) nf) nn) ne

theorem runsOne_good (g : ParsOf) (hg : GoodPars g) (part : String) (hp : part ∈ viewParts) :
    ∃ ts, runsOne g part = .ok ts ∧ tshapeL 4 ts = true := by
  obtain ⟨root, hr, hw, hn⟩ := viewPars_good g hg part hp
  obtain ⟨ts, ht⟩ := getParStrings_total root hw hn
  exact ⟨ts, by simp only [runsOne, hr, ok_bind, ht], (getParStrings_spec root ts hw ht).1⟩

theorem viewRuns_good (g : ParsOf) (hg : GoodPars g) : ∀ part ∈ viewParts,
    ∃ ts, viewRunsFrom g part = .ok ts ∧ tshapeL 4 ts = true := by
  intro part hp
  by_cases hd : part = "document"
  · subst hd
    obtain ⟨a, ha, sa⟩ := runsOne_good g hg "header" (by decide)
    obtain ⟨b, hb, sb⟩ := runsOne_good g hg "body" (by decide)
    obtain ⟨c, hc, sc⟩ := runsOne_good g hg "footer" (by decide)
    obtain ⟨d, hd', sd⟩ := runsOne_good g hg "footnotes" (by decide)
    obtain ⟨e, he, se⟩ := runsOne_good g hg "endnotes" (by decide)
    exact ⟨a ++ b ++ c ++ d ++ e, by simp [viewRunsFrom, ha, hb, hc, hd', he, pure, Except.pure, bind, Except.bind],
      tshapeL_append 4 _ _ (tshapeL_append 4 _ _ (tshapeL_append 4 _ _ (tshapeL_append 4 _ _ sa sb) sc) sd) se⟩
  · obtain ⟨ts, ht, st⟩ := runsOne_good g hg part hp
    exact ⟨ts, by simp [viewRunsFrom, hd, ht], st⟩

theorem plainOne_good (g : ParsOf) (hg : GoodPars g) (part : String) (hp : part ∈ viewParts) :
    ∃ ts, plainOne g part = .ok ts := by
  obtain ⟨rs, hr, sr⟩ := viewRuns_good g hg part hp
  obtain ⟨us, hu⟩ := joinRuns_total rs sr
  exact ⟨us, by simp only [plainOne, hr, ok_bind, hu]⟩

/-- **every view returns** -/
theorem C13_views_total (g : ParsOf) (hg : GoodPars g) :
    (∀ part ∈ viewParts, (∃ r, viewParsFrom g part = .ok r) ∧ (∃ r, viewRunsFrom g part = .ok r) ∧ (∃ r, viewPlainFrom g part = .ok r)) ∧
    (∃ s, docTextFrom g = .ok s) := by
  refine ⟨?_, ?_⟩
  · intro part hp
    obtain ⟨r1, h1, _, _⟩ := viewPars_good g hg part hp
    obtain ⟨r2, h2, _⟩ := viewRuns_good g hg part hp
    refine ⟨⟨r1, h1⟩, ⟨r2, h2⟩, ?_⟩
    by_cases hd : part = "document"
    · subst hd
      obtain ⟨a, ha⟩ := plainOne_good g hg "header" (by decide)
      obtain ⟨b, hb⟩ := plainOne_good g hg "body" (by decide)
      obtain ⟨c, hc⟩ := plainOne_good g hg "footer" (by decide)
      obtain ⟨d, hd'⟩ := plainOne_good g hg "footnotes" (by decide)
      obtain ⟨e, he⟩ := plainOne_good g hg "endnotes" (by decide)
      exact ⟨a ++ b ++ c ++ d ++ e, by simp [viewPlainFrom, ha, hb, hc, hd', he, pure, Except.pure, bind, Except.bind]⟩
    · obtain ⟨ts, ht⟩ := plainOne_good g hg part hp
      exact ⟨ts, by simp [viewPlainFrom, hd, ht]⟩
  · obtain ⟨rs, hr, sr⟩ := viewRuns_good g hg "document" (by decide)
    obtain ⟨s, hs⟩ := flattenText_total rs sr
    exact ⟨s, by simp only [docTextFrom, hr, ok_bind, hs]⟩

/-! ## a whole package -/

theorem partCollector_good (o : Opts) (a : Archive) (files : List Rel) (num : NumTable) (r : Rel)
    (h : partOK o a files r = true) :
    ∃ dc, partCollector o a files (.ok num) r = .ok dc ∧ wfL 3 dc.root = true ∧ Renderable dc.root := by
  unfold partOK at h
  cases hre : rootElement o a files r with
  | error e => simp [hre] at h
  | ok cr =>
    cases hpr : partRels a files r with
    | error e => simp [hre, hpr] at h
    | ok rels =>
      simp only [hre, hpr] at h
      obtain ⟨dc, hdc, t⟩ := C13_part_total { cr.1 with rels := rels } num cr.2 false h
      refine ⟨dc, ?_, t.inv2.inv.shape, fun p hp => parRunStrings_ok p (t.sty.tree p hp)⟩
      unfold partCollector
      simp only [hre, ok_bind, hpr]
      exact hdc

theorem partsContent_good (o : Opts) (a : Archive) (files : List Rel) (num : NumTable) :
    ∀ (rs : List Rel), rs.all (partOK o a files) = true →
      ∃ root, partsContent o a files (.ok num) rs = .ok root ∧ wfL 3 root = true ∧ Renderable root
  | [], _ => ⟨[], rfl, rfl, by intro p hp; simp [leafParsL] at hp⟩
  | r :: rs, h => by
    simp only [List.all_cons, Bool.and_eq_true] at h
    obtain ⟨dc, hdc, wd, nd⟩ := partCollector_good o a files num r h.1
    obtain ⟨rest, hr, wr, nr⟩ := partsContent_good o a files num rs h.2
    exact ⟨dc.root ++ rest, by simp only [partsContent, hdc, ok_bind, hr]; rfl, wfL_app 3 _ _ wd wr, renderable_append nd nr⟩

/-- **C13, the package.** If the relationships can be listed, the numbering part read, and every
content part can be read and is schema-valid after merging (`validPkg`, a decidable predicate the
driver evaluates on every generated package), then every `*_pars`, `*_runs` and plain view of
every part, and `text`, return — for every option setting. -/
theorem C13_package_total (o : Opts) (a : Archive) (h : validPkg o a = true) :
    (∀ part ∈ viewParts, (∃ r, viewPars o a part = .ok r) ∧ (∃ r, viewRuns o a part = .ok r) ∧ (∃ r, viewPlain o a part = .ok r)) ∧
    (∃ s, docText o a = .ok s) := by
  unfold validPkg at h
  cases hf : a.files with
  | error e => simp [hf] at h
  | ok files =>
    cases hn : numId2Attrs a with
    | error e => simp [hf, hn] at h
    | ok num =>
      simp only [hf, hn] at h
      have hg : GoodPars (parsOf o a) := by
        intro t ht
        have := List.all_eq_true.1 h t ht
        obtain ⟨root, hr, hw, hrn⟩ := partsContent_good o a files num _ this
        refine ⟨root, ?_, hw, hrn⟩
        simp only [parsOf, getPars, hf, ok_bind, getParsF, hn]
        exact hr
      exact C13_views_total (parsOf o a) hg

/-! ## comments -/

theorem attrReq_ok_qn (x : Xml) (p n v : Str) (h : x.attrReq p n = .ok v) : ∃ q, x.qn p n = .ok q := by
  unfold Xml.attrReq Xml.attrQ at h
  cases hq : x.qn p n with
  | error e => simp [hq, bind, Except.bind] at h
  | ok q => exact ⟨q, rfl⟩

theorem qn_other (x : Xml) (p n n' : Str) (h : ∃ q, x.qn p n = .ok q) : ∃ q', x.qn p n' = .ok q' := by
  obtain ⟨q, hq⟩ := h
  unfold Xml.qn at hq ⊢
  split at hq
  · rename_i e he; exact ⟨_, rfl⟩
  · simp at hq

theorem suppress_attrReq (x : Xml) (p n dflt : Str) (h : ∃ q, x.qn p n = .ok q) :
    ∃ d, suppress .keyError dflt (x.attrReq p n) = .ok d := by
  obtain ⟨q, hq⟩ := h
  unfold Xml.attrReq Xml.attrQ
  simp only [hq, ok_bind, pure, Except.pure]
  cases x.attrGet q with
  | none => exact ⟨dflt, by simp [suppress]⟩
  | some v => exact ⟨v, rfl⟩

theorem oneComment_total (o : Opts) (num : Dict Str (List NumAttr)) (rels : Dict Str Str) (ranges : Dict Str (Nat × Nat))
    (allRuns : List Str) (c : Xml) (hc : commentOK c = true) : ∃ r, oneComment o num rels ranges allRuns c = .ok r := by
  unfold commentOK at hc
  simp only [Bool.and_eq_true] at hc
  obtain ⟨⟨hid, hau⟩, hv⟩ := hc
  obtain ⟨id, hid⟩ := hasId_ok c hid
  cases hauth : c.attrReq (lit "w") (lit "author") with
  | error e => simp [hauth, Except.isOk] at hau
  | ok author =>
    obtain ⟨dc, hdc, t⟩ := C13_part_total { html := o.html, dup := o.dup, rels := rels } num c false hv
    obtain ⟨ts, hts⟩ := getParStrings_total dc.root t.inv2.inv.shape (fun p hp => parRunStrings_ok p (t.sty.tree p hp))
    obtain ⟨text, htext⟩ := flattenText_total ts (getParStrings_spec dc.root ts t.inv2.inv.shape hts).1
    unfold oneComment
    simp only [hid, hauth, ok_bind]
    obtain ⟨date, hd⟩ := suppress_attrReq c (lit "w") (lit "date") [] (qn_other c (lit "w") (lit "id") (lit "date") (attrReq_ok_qn c _ _ id hid))
    simp only [hd, ok_bind, hdc, hts, htext]
    cases ranges.get? id with
    | none => exact ⟨none, rfl⟩
    | some be => exact ⟨some _, rfl⟩

theorem commentsLoop_total (o : Opts) (num : Dict Str (List NumAttr)) (rels : Dict Str Str) (ranges : Dict Str (Nat × Nat))
    (allRuns : List Str) : ∀ (cs : List Xml), cs.all commentOK = true → ∃ r, commentsLoop o num rels ranges allRuns cs = .ok r
  | [], _ => ⟨some [], rfl⟩
  | c :: cs, h => by
    simp only [List.all_cons, Bool.and_eq_true] at h
    obtain ⟨r, hr⟩ := oneComment_total o num rels ranges allRuns c h.1
    obtain ⟨rest, hrest⟩ := commentsLoop_total o num rels ranges allRuns cs h.2
    cases r with
    | none => exact ⟨none, by simp only [commentsLoop, hr, ok_bind]; rfl⟩
    | some x => exact ⟨rest.map (x :: ·), by simp only [commentsLoop, hr, ok_bind, hrest]; rfl⟩

/-- **C13, comments**: for a valid package whose comment entries are valid, `comments` returns -/
theorem C13_comments_total (o : Opts) (a : Archive) (h : validPkg o a = true) (hc : commentsOK a = true) :
    ∃ cs, comments o a = .ok cs := by
  unfold validPkg at h
  unfold commentsOK at hc
  cases hf : a.files with
  | error e => simp [hf] at h
  | ok files =>
    cases hn : numId2Attrs a with
    | error e => simp [hf, hn] at h
    | ok num =>
      simp only [hf, hn] at h
      simp only [hf, Bool.and_eq_true, Bool.not_eq_true', List.isEmpty_eq_false_iff] at hc
      unfold comments
      simp only [hf, ok_bind]
      cases hdoc : filesOfType files [lit "officeDocument"] with
      | nil => exact absurd hdoc hc.1
      | cons doc rest =>
        simp only
        have hmain := List.all_eq_true.1 h "officeDocument" (by decide)
        rw [hdoc] at hmain
        simp only [List.all_cons, Bool.and_eq_true] at hmain
        obtain ⟨dc, hdc, wd, nd⟩ := partCollector_good o a files num doc hmain.1
        simp only [hn, hdc, ok_bind]
        cases hcm : filesOfType files [lit "comments"] with
        | nil =>
          show ∃ cs, (if (dc.ranges.length != ([] : List Xml).length) = true then pure [] else
            if ([] : List Xml).isEmpty = true then pure [] else _) = Except.ok cs
          split
          · exact ⟨[], rfl⟩
          · exact ⟨[], rfl⟩
        | cons cf crest =>
          have hcc := hc.2
          rw [hcm] at hcc
          simp only at hcc
          cases hroot : a.readXml cf.path with
          | error e => simp [hroot] at hcc
          | ok root =>
            cases hrels : partRels a files cf with
            | error e => simp [hroot, hrels] at hcc
            | ok rels =>
              simp only [hroot, hrels] at hcc
              simp only [hroot, ok_bind, pure, Except.pure]
              split
              · exact ⟨[], rfl⟩
              · split
                · exact ⟨[], rfl⟩
                · obtain ⟨runs, hruns⟩ := getParStrings_total dc.root wd nd
                  obtain ⟨leaves, hleaves⟩ := allLeaves_total runs (getParStrings_spec dc.root runs wd hruns).1
                  obtain ⟨r, hr⟩ := commentsLoop_total o num rels dc.ranges leaves _ hcc
                  exact ⟨r.getD [], by simp only [hruns, ok_bind, hleaves, hrels, hn, hr]⟩

end D2P
