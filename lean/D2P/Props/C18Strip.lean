import D2P.Model.Walk
/-!
# C18 — XML comments and processing instructions inside a part are invisible to the walk

`stripX` removes every non-element node (comment, processing instruction) of a tree.
`C18_strip_walk`: for every collector state and every tree whose non-element nodes carry no tail
text, walking the stripped tree gives exactly the result of walking the tree itself — for both
option settings, any relationships, any numbering table. (Tails of comments are never read by the
walk except inside equations, where `itertext` concatenates all text below `m:oMath`; the
hypothesis `NoTails` excludes exactly that, as the statement does: "outside text and equation
content".)
-/
namespace D2P

mutual
def stripX : Xml → Xml
  | .elem i p t m a tx tl ks => .elem i p t m a tx tl (stripL ks)
  | x => x
def stripL : List Xml → List Xml
  | [] => []
  | k :: ks => if k.isElem then stripX k :: stripL ks else stripL ks
end

mutual
/-- non-element nodes carry no tail text -/
def noTails : Xml → Bool
  | .elem _ _ _ _ _ _ _ ks => noTailsL ks
  | x => x.tail?.isNone
def noTailsL : List Xml → Bool
  | [] => true
  | k :: ks => noTails k && noTailsL ks
end

/-! ## what `stripX` does not touch -/

@[simp] theorem stripX_isElem (x : Xml) : (stripX x).isElem = x.isElem := by cases x <;> rfl
@[simp] theorem stripX_nsmap (x : Xml) : (stripX x).nsmap = x.nsmap := by cases x <;> simp [stripX, Xml.nsmap]
@[simp] theorem stripX_attrs (x : Xml) : (stripX x).attrs = x.attrs := by cases x <;> simp [stripX, Xml.attrs]
@[simp] theorem stripX_text (x : Xml) : (stripX x).text? = x.text? := by cases x <;> simp [stripX, Xml.text?]
@[simp] theorem stripX_tail (x : Xml) : (stripX x).tail? = x.tail? := by cases x <;> simp [stripX, Xml.tail?]
@[simp] theorem stripX_tag (x : Xml) : (stripX x).tag? = x.tag? := by cases x <;> simp [stripX, Xml.tag?]
@[simp] theorem stripX_id (x : Xml) : (stripX x).id? = x.id? := by cases x <;> simp [stripX, Xml.id?]
@[simp] theorem stripX_localname (x : Xml) : (stripX x).localname = x.localname := by cases x <;> simp [stripX, Xml.localname]
@[simp] theorem stripX_ptag (x : Xml) : (stripX x).ptag = x.ptag := by
  cases x with
  | elem i p t m a tx tl ks => cases p <;> simp [stripX, Xml.ptag]
  | comment _ _ => rfl
  | pi _ => rfl
@[simp] theorem stripX_kids (x : Xml) : (stripX x).kids = stripL x.kids := by
  cases x <;> simp [stripX, Xml.kids, stripL]

@[simp] theorem stripX_qn (x : Xml) (p n : Str) : (stripX x).qn p n = x.qn p n := by simp [Xml.qn]
@[simp] theorem stripX_attrGet (x : Xml) (q : QName) : (stripX x).attrGet q = x.attrGet q := by simp [Xml.attrGet]
@[simp] theorem stripX_attrQ (x : Xml) (p n : Str) : (stripX x).attrQ p n = x.attrQ p n := by simp [Xml.attrQ]
@[simp] theorem stripX_attrReq (x : Xml) (p n : Str) : (stripX x).attrReq p n = x.attrReq p n := by simp [Xml.attrReq]
@[simp] theorem stripX_wq (x : Xml) (n : String) : wq (stripX x) n = wq x n := by simp [wq]

theorem find_stripL (q : QName) : ∀ ks : List Xml,
    (stripL ks).find? (fun k => k.tag? == some q) = (ks.find? (fun k => k.tag? == some q)).map stripX
  | [] => by simp [stripL]
  | k :: ks => by
    cases k with
    | elem i p t m a tx tl kk =>
      simp only [stripL, Xml.isElem, if_true, List.find?_cons, stripX_tag]
      split
      · simp
      · exact find_stripL q ks
    | comment c tl =>
      have h : ((Xml.comment c tl).tag? == some q) = false := rfl
      simp only [stripL, Xml.isElem, Bool.false_eq_true, if_false, List.find?_cons, h]
      exact find_stripL q ks
    | pi tl =>
      have h : ((Xml.pi tl).tag? == some q) = false := rfl
      simp only [stripL, Xml.isElem, Bool.false_eq_true, if_false, List.find?_cons, h]
      exact find_stripL q ks

theorem filter_stripL (q : QName) : ∀ ks : List Xml,
    (stripL ks).filter (fun k => k.tag? == some q) = (ks.filter (fun k => k.tag? == some q)).map stripX
  | [] => by simp [stripL]
  | k :: ks => by
    cases k with
    | elem i p t m a tx tl kk =>
      simp only [stripL, Xml.isElem, if_true, List.filter_cons, stripX_tag]
      split
      · simp [filter_stripL q ks]
      · exact filter_stripL q ks
    | comment c tl =>
      have h : ((Xml.comment c tl).tag? == some q) = false := rfl
      simp only [stripL, Xml.isElem, Bool.false_eq_true, if_false, List.filter_cons, h]
      exact filter_stripL q ks
    | pi tl =>
      have h : ((Xml.pi tl).tag? == some q) = false := rfl
      simp only [stripL, Xml.isElem, Bool.false_eq_true, if_false, List.filter_cons, h]
      exact filter_stripL q ks

@[simp] theorem stripX_findChild (x : Xml) (q : QName) : (stripX x).findChild q = (x.findChild q).map stripX := by
  simp [Xml.findChild, find_stripL]
@[simp] theorem stripX_findChildren (x : Xml) (q : QName) : (stripX x).findChildren q = (x.findChildren q).map stripX := by
  simp [Xml.findChildren, filter_stripL]

/-! ## formatting and numbering read the same from a stripped element -/

theorem gatherStep_strip (d : Dict Str (Option Str)) (k : Xml) : gatherStep d (stripX k) = gatherStep d k := by
  simp [gatherStep]

theorem gatherFold_stripL : ∀ (ks : List Xml) (d : Dict Str (Option Str)), gatherFold (stripL ks) d = gatherFold ks d
  | [], d => by simp [stripL]
  | k :: ks, d => by
    by_cases h : k.isElem = true
    · simp only [stripL, h, if_true, gatherFold, gatherStep_strip]
      cases gatherStep d k with
      | error e => rfl
      | ok d' => simp only [ok_bind]; exact gatherFold_stripL ks d'
    · have h' : k.isElem = false := by simpa using h
      simp only [stripL, h', Bool.false_eq_true, if_false, gatherFold]
      have : gatherStep d k = pure d := by simp [gatherStep, h']
      rw [this]; exact gatherFold_stripL ks d

@[simp] theorem gatherPr_strip (x : Xml) : gatherPr (stripX x) = gatherPr x := by
  unfold gatherPr
  simp only [stripX_tag, stripX_findChild]
  cases x.tag? with
  | none => rfl
  | some t =>
    simp only
    cases x.findChild ⟨t.ns, t.name ++ lit "Pr"⟩ with
    | none => rfl
    | some pr => simp [gatherFold_stripL]

@[simp] theorem getPStyle_strip (x : Xml) : getPStyle (stripX x) = getPStyle x := by simp [getPStyle]
@[simp] theorem parFormatting_strip (h : Bool) (x : Xml) : parFormatting h (stripX x) = parFormatting h x := by simp [parFormatting]
@[simp] theorem runFormatting_strip (h : Bool) (x : Xml) : runFormatting h (stripX x) = runFormatting h x := by simp [runFormatting]

@[simp] theorem bulletFmt_strip (p : Xml) : bulletFmt (stripX p) = bulletFmt p := by
  unfold bulletFmt
  simp only [stripX_wq, stripX_findChild]
  cases wq p "pPr" with
  | error e => rfl
  | ok qp =>
    simp only
    cases p.findChild qp with
    | none => rfl
    | some ppr =>
      simp only [Option.map_some, stripX_wq, stripX_findChild]
      cases wq ppr "numPr" with
      | error e => rfl
      | ok qn' =>
        simp only
        cases ppr.findChild qn' with
        | none => rfl
        | some npr =>
          simp only [Option.map_some, stripX_wq, stripX_findChild]
          congr 1
          · cases wq npr "numId" with
            | error e => rfl
            | ok q => simp only; cases npr.findChild q <;> simp
          · cases wq npr "ilvl" with
            | error e => rfl
            | ok q => simp only; cases npr.findChild q <;> simp

@[simp] theorem parNumber_strip (b : Bullets) (p : Xml) (pid : Nat) : parNumber b (stripX p) pid = parNumber b p pid := by
  simp [parNumber]
@[simp] theorem getBullet_strip (b : Bullets) (p : Xml) (pid : Nat) : getBullet b (stripX p) pid = getBullet b p pid := by
  simp [getBullet]
@[simp] theorem listPosition_strip (b : Bullets) (p : Xml) (pid : Nat) : listPosition b (stripX p) pid = listPosition b p pid := by
  simp [listPosition]

/-! ## depth, text below, forms -/

mutual
theorem nearestPar_strip : (x : Xml) → nearestPar (stripX x) = nearestPar x
  | .elem i p t m a tx tl ks => by
    have hp : (Xml.elem i p t m a tx tl (stripL ks)).ptag = (Xml.elem i p t m a tx tl ks).ptag := by
      have := stripX_ptag (.elem i p t m a tx tl ks); simpa [stripX] using this
    simp only [stripX, nearestPar, hp, nearestParL_strip ks]
  | .comment _ _ => rfl
  | .pi _ => rfl
theorem nearestParL_strip : (ks : List Xml) → nearestParL (stripL ks) = nearestParL ks
  | [] => rfl
  | k :: ks => by
    cases k with
    | elem i p t m a tx tl kk =>
      simp only [stripL, Xml.isElem, if_true, nearestParL]
      rw [nearestPar_strip (.elem i p t m a tx tl kk), nearestParL_strip ks]
    | comment c tl =>
      simp only [stripL, Xml.isElem, Bool.false_eq_true, if_false, nearestParL, nearestPar]
      rw [nearestParL_strip ks]; cases nearestParL ks <;> rfl
    | pi tl =>
      simp only [stripL, Xml.isElem, Bool.false_eq_true, if_false, nearestParL, nearestPar]
      rw [nearestParL_strip ks]; cases nearestParL ks <;> rfl
end

@[simp] theorem elemDepth_strip (x : Xml) : elemDepth (stripX x) = elemDepth x := by
  simp [elemDepth, nearestPar_strip]

mutual
theorem itertext_strip : (x : Xml) → noTails x = true → (stripX x).itertext = x.itertext
  | .elem i p t m a tx tl ks, h => by
    simp only [noTails] at h
    simp only [stripX, Xml.itertext, itertextL_strip ks h]
  | .comment _ _, _ => rfl
  | .pi _, _ => rfl
theorem itertextL_strip : (ks : List Xml) → noTailsL ks = true → Xml.itertextL (stripL ks) = Xml.itertextL ks
  | [], _ => rfl
  | k :: ks, h => by
    simp only [noTailsL, Bool.and_eq_true] at h
    cases k with
    | elem i p t m a tx tl kk =>
      simp only [stripL, Xml.isElem, if_true, Xml.itertextL]
      rw [itertext_strip _ h.1, itertextL_strip ks h.2, stripX_tail]
    | comment c tl =>
      have ht : tl = none := by simpa [noTails, Xml.tail?] using h.1
      subst ht
      simp only [stripL, Xml.isElem, Bool.false_eq_true, if_false, Xml.itertextL, Xml.itertext, Xml.tail?]
      rw [itertextL_strip ks h.2]; simp
    | pi tl =>
      have ht : tl = none := by simpa [noTails, Xml.tail?] using h.1
      subst ht
      simp only [stripL, Xml.isElem, Bool.false_eq_true, if_false, Xml.itertextL, Xml.itertext, Xml.tail?]
      rw [itertextL_strip ks h.2]; simp
end

theorem wChild_strip (x : Xml) (n : String) :
    wChild (stripX x) n = (match wChild x n with | .ok o => .ok (o.map stripX) | .error e => .error e) := by
  unfold wChild
  simp only [stripX_wq, stripX_findChild]
  cases wq x n <;> rfl

@[simp] theorem checkBoxVal_strip (cb : Xml) : checkBoxVal (stripX cb) = checkBoxVal cb := by
  unfold checkBoxVal
  simp only [wChild_strip]
  cases wChild cb "checked" with
  | error e => rfl
  | ok c =>
    cases c with
    | some c => simp only [Option.map_some, ok_bind, stripX_attrQ]
    | none =>
      simp only [Option.map_none, ok_bind]
      cases wChild cb "default" with
      | error e => rfl
      | ok d =>
        cases d with
        | some d => simp only [Option.map_some, ok_bind, stripX_attrReq]
        | none => rfl

@[simp] theorem checkBoxEntry_strip (cb : Xml) : checkBoxEntry (stripX cb) = checkBoxEntry cb := by simp [checkBoxEntry]

theorem reqVals_map_strip : ∀ es : List Xml, reqVals (es.map stripX) = reqVals es
  | [] => rfl
  | e :: es => by simp [reqVals, reqVals_map_strip es]

@[simp] theorem ddListEntry_strip (dd : Xml) : ddListEntry (stripX dd) = ddListEntry dd := by
  unfold ddListEntry
  simp only [stripX_wq, stripX_findChildren, reqVals_map_strip, wChild_strip]
  cases wq dd "listEntry" with
  | error e => rfl
  | ok ql =>
    simp only [ok_bind]
    cases reqVals (dd.findChildren ql) with
    | error e => rfl
    | ok entries =>
      simp only [ok_bind]
      cases wChild dd "result" with
      | error e => rfl
      | ok r =>
        cases r with
        | none => rfl
        | some r => simp only [Option.map_some, ok_bind, stripX_attrReq]

/-! ## the handlers -/

@[simp] theorem commencePar_strip (html : Bool) (s : DC) (x : Xml) (c : Bool) :
    s.commencePar html (some (stripX x)) c = s.commencePar html (some x) c := by
  simp [DC.commencePar]

@[simp] theorem commenceRun_strip (html : Bool) (s : DC) (x : Xml) :
    s.commenceRun html (some (stripX x)) = s.commenceRun html (some x) := by
  simp [DC.commenceRun]

@[simp] theorem openParagraph_strip (cfg : PartCfg) (s : DC) (x : Xml) (c : Bool) :
    openParagraph cfg s (stripX x) c = openParagraph cfg s x c := by
  simp [openParagraph]

@[simp] theorem noteLabel_strip (s : DC) (x : Xml) (k : String) : noteLabel s (stripX x) k = noteLabel s x k := by
  simp [noteLabel, isSeparatorNote]

@[simp] theorem symCode_strip (x : Xml) : symCode (stripX x) = symCode x := by simp [symCode, attrStrOrNone]
@[simp] theorem relTarget_strip (cfg : PartCfg) (x : Xml) (n : String) : relTarget cfg (stripX x) n = relTarget cfg x n := by
  simp [relTarget]
@[simp] theorem linkRun_strip (cfg : PartCfg) (x : Xml) (t : Str) : linkRun cfg (stripX x) t = linkRun cfg x t := by
  simp [linkRun, linkHref]
@[simp] theorem imageRun_strip (cfg : PartCfg) (x : Xml) (n : String) : imageRun cfg (stripX x) n = imageRun cfg x n := by
  simp [imageRun]

mutual
theorem descTagged_strip (q : QName) : (x : Xml) → x.isElem = true → descTagged q (stripX x) = (descTagged q x).map stripX
  | .elem i p t m a tx tl ks, _ => by
    simp only [stripX, descTagged, List.map_append, descTaggedL_strip q ks]
    split <;> simp [stripX]
  | .comment _ _, h => by simp [Xml.isElem] at h
  | .pi _, h => by simp [Xml.isElem] at h
theorem descTaggedL_strip (q : QName) : (ks : List Xml) → descTaggedL q (stripL ks) = (descTaggedL q ks).map stripX
  | [] => rfl
  | k :: ks => by
    cases k with
    | elem i p t m a tx tl kk =>
      simp only [stripL, Xml.isElem, if_true, descTaggedL, List.map_append,
        descTagged_strip q (.elem i p t m a tx tl kk) rfl, descTaggedL_strip q ks]
    | comment c tl =>
      simp only [stripL, Xml.isElem, Bool.false_eq_true, if_false, descTaggedL, descTagged, List.nil_append]
      exact descTaggedL_strip q ks
    | pi tl =>
      simp only [stripL, Xml.isElem, Bool.false_eq_true, if_false, descTaggedL, descTagged, List.nil_append]
      exact descTaggedL_strip q ks
end

theorem foldIds_strip (f : DC → Str → M DC) : ∀ (ms : List Xml) (s : DC), foldIds f s (ms.map stripX) = foldIds f s ms
  | [], s => rfl
  | m :: ms, s => by
    simp only [List.map_cons, foldIds, stripX_attrReq]
    cases m.attrReq (lit "w") (lit "id") with
    | error e => rfl
    | ok id =>
      simp only [ok_bind]
      cases f s id with
      | error e => rfl
      | ok s1 => simp only [ok_bind]; exact foldIds_strip f ms s1

theorem openHyperlink_strip (cfg : PartCfg) (s : DC) (x : Xml) (roots roots' : List (List Nest))
    (hr : rootsText roots' = rootsText roots) : openHyperlink cfg s (stripX x) roots' = openHyperlink cfg s x roots := by
  unfold openHyperlink
  simp only [hr, stripX_wq, stripX_kids, descTaggedL_strip, foldIds_strip, linkRun_strip]

theorem openStep_strip (cfg : PartCfg) (s : DC) (x : Xml) (c : Bool) (roots roots' : List (List Nest))
    (hr : rootsText roots' = rootsText roots) (hn : noTails x = true) :
    openStep cfg s (stripX x) c roots' = openStep cfg s x c roots := by
  unfold openStep
  simp only [stripX_ptag, openParagraph_strip, commenceRun_strip, stripX_attrReq, stripX_text, itertext_strip x hn,
    symCode_strip, noteLabel_strip, openHyperlink_strip cfg s x roots roots' hr, checkBoxEntry_strip, ddListEntry_strip, imageRun_strip, stripX_attrGet]

@[simp] theorem closeTableCell_strip (dup : Bool) (s : DC) (tc : Xml) : closeTableCell dup s (stripX tc) = closeTableCell dup s tc := by
  simp [closeTableCell]

@[simp] theorem closeStep_strip (cfg : PartCfg) (s : DC) (x : Xml) : closeStep cfg s (stripX x) = closeStep cfg s x := by
  unfold closeStep closeStepCore
  simp only [stripX_ptag, closeTableCell_strip, elemDepth_strip]

/-! ## the walk -/

/-- two results of `textBelowL` that `_get_text_below` cannot tell apart -/
def SameText : M (List (List Nest)) → M (List (List Nest)) → Prop
  | .ok r', .ok r => rootsText r' = rootsText r
  | .error e', .error e => e' = e
  | _, _ => False

theorem rootsText_nil_cons (rs : List (List Nest)) : rootsText ([] :: rs) = rootsText rs := by
  simp only [rootsText, leafParsL, rootsText.parsText]
  cases rootsText rs <;> simp [bind, Except.bind, pure, Except.pure]

theorem rootsText_cons_congr (r : List Nest) (a b : List (List Nest)) (h : rootsText a = rootsText b) :
    rootsText (r :: a) = rootsText (r :: b) := by
  simp only [rootsText, h]

theorem isCellTag_strip (x : Xml) : isCellTag (stripX x) = isCellTag x := by simp [isCellTag]

mutual
theorem walk_strip (cfg : PartCfg) (num : Dict Str (List NumAttr)) :
    (x : Xml) → noTails x = true → ∀ (c : Bool) (s : DC), walk cfg num c s (stripX x) = walk cfg num c s x
  | .elem i p t m a tx tl ks, hn, c, s => by
    have hk : noTailsL ks = true := by simpa only [noTails] using hn
    have hd := elemDepth_strip (.elem i p t m a tx tl ks)
    have hp := stripX_ptag (.elem i p t m a tx tl ks)
    have hc := isCellTag_strip (.elem i p t m a tx tl ks)
    simp only [stripX] at hd hp hc ⊢
    simp only [walk, hd, hp, hc]
    congr 1; funext s1
    by_cases hl : ((Xml.elem i p t m a tx tl ks).ptag == hyperlinkTag) = true
    · simp only [hl, if_true]
      have ht := textBelowL_strip cfg num ks hk (c || isCellTag (.elem i p t m a tx tl ks))
      cases h1 : textBelowL cfg num (c || isCellTag (.elem i p t m a tx tl ks)) (stripL ks) with
      | error e' =>
        cases h2 : textBelowL cfg num (c || isCellTag (.elem i p t m a tx tl ks)) ks with
        | error e => rw [h1, h2] at ht; simp only [SameText] at ht; subst ht; rfl
        | ok r => rw [h1, h2] at ht; simp only [SameText] at ht
      | ok r' =>
        cases h2 : textBelowL cfg num (c || isCellTag (.elem i p t m a tx tl ks)) ks with
        | error e => rw [h1, h2] at ht; simp only [SameText] at ht
        | ok r =>
          rw [h1, h2] at ht; simp only [SameText] at ht
          simp only [ok_bind]
          have ho := openStep_strip cfg s1 (.elem i p t m a tx tl ks) c r r' ht hn
          simp only [stripX] at ho
          rw [ho]
          congr 1; funext rr
          have e3 : (if rr.2 = true then walkL cfg num (c || isCellTag (.elem i p t m a tx tl ks)) rr.1 (stripL ks) else pure rr.1)
              = (if rr.2 = true then walkL cfg num (c || isCellTag (.elem i p t m a tx tl ks)) rr.1 ks else pure rr.1) := by
            split
            · exact walkL_strip cfg num ks hk _ _
            · rfl
          rw [e3]
          congr 1; funext s3
          have hcl := closeStep_strip cfg s3 (.elem i p t m a tx tl ks)
          simp only [stripX] at hcl
          rw [hcl]
    · have hl' : ((Xml.elem i p t m a tx tl ks).ptag == hyperlinkTag) = false := by simpa using hl
      simp only [hl', Bool.false_eq_true, if_false]
      simp only [pure, Except.pure, ok_bind]
      have ho := openStep_strip cfg s1 (.elem i p t m a tx tl ks) c [] [] rfl hn
      simp only [stripX] at ho
      rw [ho]
      congr 1; funext rr
      have e3 : (if rr.2 = true then walkL cfg num (c || isCellTag (.elem i p t m a tx tl ks)) rr.1 (stripL ks) else Except.ok rr.1)
          = (if rr.2 = true then walkL cfg num (c || isCellTag (.elem i p t m a tx tl ks)) rr.1 ks else Except.ok rr.1) := by
        split
        · exact walkL_strip cfg num ks hk _ _
        · rfl
      rw [e3]
      congr 1; funext s3
      have hcl := closeStep_strip cfg s3 (.elem i p t m a tx tl ks)
      simp only [stripX] at hcl
      rw [hcl]
  | .comment _ _, _, _, _ => rfl
  | .pi _, _, _, _ => rfl
theorem walkL_strip (cfg : PartCfg) (num : Dict Str (List NumAttr)) :
    (ks : List Xml) → noTailsL ks = true → ∀ (c : Bool) (s : DC), walkL cfg num c s (stripL ks) = walkL cfg num c s ks
  | [], _, _, _ => rfl
  | k :: ks, hn, c, s => by
    simp only [noTailsL, Bool.and_eq_true] at hn
    cases k with
    | elem i p t m a tx tl kk =>
      simp only [stripL, Xml.isElem, if_true, walkL]
      rw [walk_strip cfg num (.elem i p t m a tx tl kk) hn.1 c s]
      congr 1; funext s1
      exact walkL_strip cfg num ks hn.2 c s1
    | comment cc tl =>
      simp only [stripL, Xml.isElem, Bool.false_eq_true, if_false, walkL, walk]
      simp only [pure, Except.pure, ok_bind]
      exact walkL_strip cfg num ks hn.2 c s
    | pi tl =>
      simp only [stripL, Xml.isElem, Bool.false_eq_true, if_false, walkL, walk]
      simp only [pure, Except.pure, ok_bind]
      exact walkL_strip cfg num ks hn.2 c s
theorem textBelowL_strip (cfg : PartCfg) (num : Dict Str (List NumAttr)) :
    (ks : List Xml) → noTailsL ks = true → ∀ (c : Bool),
      SameText (textBelowL cfg num c (stripL ks)) (textBelowL cfg num c ks)
  | [], _, _ => by simp [stripL, textBelowL, SameText, pure, Except.pure]
  | k :: ks, hn, c => by
    simp only [noTailsL, Bool.and_eq_true] at hn
    have ih := textBelowL_strip cfg num ks hn.2 c
    cases k with
    | elem i p t m a tx tl kk =>
      simp only [stripL, Xml.isElem, if_true, textBelowL]
      rw [walk_strip cfg num (.elem i p t m a tx tl kk) hn.1 c _]
      cases walk cfg num c { bullets := { numAttrs := num } } (.elem i p t m a tx tl kk) with
      | error e => simp [SameText, bind, Except.bind]
      | ok dc =>
        simp only [ok_bind]
        cases finish cfg dc with
        | error e => simp [SameText, bind, Except.bind]
        | ok dc1 =>
          simp only [ok_bind]
          cases h1 : textBelowL cfg num c (stripL ks) with
          | error e' =>
            cases h2 : textBelowL cfg num c ks with
            | error e => rw [h1, h2] at ih; simpa [SameText, bind, Except.bind] using ih
            | ok r => rw [h1, h2] at ih; simp [SameText] at ih
          | ok r' =>
            cases h2 : textBelowL cfg num c ks with
            | error e => rw [h1, h2] at ih; simp [SameText] at ih
            | ok r =>
              rw [h1, h2] at ih
              simp only [SameText] at ih
              simp only [ok_bind, pure, Except.pure, SameText]
              exact rootsText_cons_congr dc1.root r' r ih
    | comment cc tl =>
      simp only [stripL, Xml.isElem, Bool.false_eq_true, if_false, textBelowL, walk]
      simp only [pure, Except.pure, ok_bind]
      have hf : finish cfg ({ bullets := { numAttrs := num } } : DC) = .ok { bullets := { numAttrs := num } } := by
        simp [finish, DC.concludePar, pure, Except.pure, bind, Except.bind]
      rw [hf]
      simp only [ok_bind]
      cases h1 : textBelowL cfg num c (stripL ks) with
      | error e' =>
        cases h2 : textBelowL cfg num c ks with
        | error e => rw [h1, h2] at ih; simpa [SameText, bind, Except.bind] using ih
        | ok r => rw [h1, h2] at ih; simp [SameText] at ih
      | ok r' =>
        cases h2 : textBelowL cfg num c ks with
        | error e => rw [h1, h2] at ih; simp [SameText] at ih
        | ok r =>
          rw [h1, h2] at ih
          simp only [SameText] at ih
          simp only [ok_bind, SameText]
          rw [rootsText_nil_cons]; exact ih
    | pi tl =>
      simp only [stripL, Xml.isElem, Bool.false_eq_true, if_false, textBelowL, walk]
      simp only [pure, Except.pure, ok_bind]
      have hf : finish cfg ({ bullets := { numAttrs := num } } : DC) = .ok { bullets := { numAttrs := num } } := by
        simp [finish, DC.concludePar, pure, Except.pure, bind, Except.bind]
      rw [hf]
      simp only [ok_bind]
      cases h1 : textBelowL cfg num c (stripL ks) with
      | error e' =>
        cases h2 : textBelowL cfg num c ks with
        | error e => rw [h1, h2] at ih; simpa [SameText, bind, Except.bind] using ih
        | ok r => rw [h1, h2] at ih; simp [SameText] at ih
      | ok r' =>
        cases h2 : textBelowL cfg num c ks with
        | error e => rw [h1, h2] at ih; simp [SameText] at ih
        | ok r =>
          rw [h1, h2] at ih
          simp only [SameText] at ih
          simp only [ok_bind, SameText]
          rw [rootsText_nil_cons]; exact ih
end

/-- **C18: XML comments and processing instructions are invisible.** The collector built from a
part with all its non-element nodes removed is the collector built from the part itself. -/
theorem C18_strip_walk (cfg : PartCfg) (num : Dict Str (List NumAttr)) (root : Xml) (c : Bool)
    (h : noTails root = true) :
    newDepthCollector cfg num (stripX root) c = newDepthCollector cfg num root c := by
  unfold newDepthCollector
  rw [walk_strip cfg num root h c _]

end D2P
