import D2P.Props.C12Ranges
import D2P.Proofs.Paragraph
import D2P.Proofs.ElemsSimple
/-!
# C12 — across paragraphs: the offsets add up

`walk_runs` works inside one paragraph, with `k` the number of run strings of the paragraphs
finished before.  Here `k` is accounted for: `par_runs` — a paragraph whose children are inline
content (`simpleL`), walked between paragraphs (`Out s k`: nothing open, nothing queued, `k` strings
so far), produces exactly the strings `runsOfL` prescribes, starting from the list marker, records
its markers with offset `k`, and leaves the collector between paragraphs with `k + count` strings;
`pars_runs` — any sequence of such paragraphs (ranges may start in one and end in a later one): the
ranges are those of the machines chained with the running offsets.
-/
namespace D2P

/-- between paragraphs: nothing open, nothing queued, `k` run strings so far -/
structure Out (s : DC) (k : Nat) : Prop where
  closed : s.openPars = []
  noq : s.queued = []
  leaf : countStrings (leafParsL s.root) = .ok k
  sty : Sty okStyles s

theorem countStrings_append : ∀ (a b : List Par) (ka kb : Nat), countStrings a = .ok ka → countStrings b = .ok kb →
    countStrings (a ++ b) = .ok (ka + kb)
  | [], b, ka, kb, ha, hb => by simp only [countStrings] at ha; have := pure_ok ha; subst this; simpa using hb
  | p :: a, b, ka, kb, ha, hb => by
    simp only [countStrings] at ha
    obtain ⟨rs, hr, ha⟩ := bind_ok ha
    obtain ⟨n, hn, ha⟩ := bind_ok ha
    have := pure_ok ha; subst this
    simp only [List.cons_append, countStrings, hr, ok_bind, countStrings_append a b n kb hn hb]
    show Except.ok _ = Except.ok _
    congr 1; omega

def isSimplePar (x : Xml) : Bool :=
  x.ptag == paragraphTag && simpleL x.kids

/-- the machine for one paragraph: the list marker is a run of its own, then the children -/
def parMachine (cfg : PartCfg) (num : Dict Str (List NumAttr)) (c : Bool) (k : Nat) (marker : Str) (x : Xml)
    (ranges : Dict Str (Nat × Nat)) : M RS :=
  runsOfL cfg k (linksOf cfg num c) x.kids ⟨RState.init.ins marker, ranges⟩

/-- **one paragraph, between paragraphs** (either html mode; `tag`: the paragraph has tags of its own,
which are two further strings of the finished paragraph, one of them before its runs) -/
theorem par_runs (cfg : PartCfg) (num : Dict Str (List NumAttr)) (c : Bool) (k : Nat)
    (x : Xml) (hx : isSimplePar x = true) (s s' : DC) (ho : Out s k) (h : walk cfg num c s x = .ok s') :
    ∃ tag bb st, getBullet s.bullets x ((x.id?).getD 0) = .ok bb ∧
      parMachine cfg num c (k + tagOff tag) bb.2 x s.ranges = .ok st ∧
      Out s' (k + 2 * tagOff tag + st.r.count) ∧ s'.ranges = st.ranges ∧
      ∃ p', leafParsL s'.root = leafParsL s.root ++ [p'] ∧ kept p'.runs = st.r.runs ∧ p'.htmlStyle.isEmpty = !tag ∧
        p'.elem = x.id? := by
  cases x with
  | comment _ _ =>
    simp only [isSimplePar, Bool.and_eq_true, beq_iff_eq] at hx
    exact absurd hx.1 (by show ¬ lit "None:FAILED-uuid" = paragraphTag; decide)
  | pi _ =>
    simp only [isSimplePar, Bool.and_eq_true, beq_iff_eq] at hx
    exact absurd hx.1 (by show ¬ lit "None:FAILED-uuid" = paragraphTag; decide)
  | elem i pf t m a tx tl ks =>
    simp only [isSimplePar, Bool.and_eq_true, beq_iff_eq, Xml.kids] at hx
    have hdep := elemDepth_par _ hx.1 rfl
    have hl : ((Xml.elem i pf t m a tx tl ks).ptag == hyperlinkTag) = false := by rw [hx.1]; exact paragraphTag_ne.2.2
    have hcell : isCellTag (Xml.elem i pf t m a tx tl ks) = false := by
      simp only [isCellTag, hx.1]; decide
    simp only [walk, hdep, hl, Bool.false_eq_true, if_false, hcell, Bool.or_false, setCaretOpen_noImpl s _ _ (noImpl_of_closed ho.closed)] at h
    obtain ⟨s1, h1, h⟩ := bind_ok h
    have f1 := setCaret_frame s s1 _ _ h1
    obtain ⟨roots, hr, h⟩ := bind_ok h
    have := pure_ok hr; subst this
    obtain ⟨⟨s2, rec⟩, h2, h⟩ := bind_ok h
    have hm : tagMember (Xml.elem i pf t m a tx tl ks).ptag = some "PARAGRAPH" := by rw [hx.1]; exact tagMember_paragraph
    unfold openStep at h2
    simp only [hm] at h2
    obtain ⟨hop, hrec⟩ := withTrue_ok h2
    subst hrec
    -- opening the paragraph
    unfold openParagraph at hop
    obtain ⟨sa, ha, hop⟩ := bind_ok hop
    obtain ⟨bb, hbb, hop⟩ := bind_ok hop
    obtain ⟨sb, hb, hop⟩ := bind_ok hop
    have := pure_ok hop; subst this
    generalize (listPosition bb.1 (Xml.elem i pf t m a tx tl ks) ((Xml.elem i pf t m a tx tl ks).id?.getD 0)).2 = LP at h
    have u1 : Sty okStyles s1 := sty_of_frame s s1 f1 ho.sty
    have ua := commencePar_sty (okSpec cfg.html) s1 sa _ c u1 ha
    obtain ⟨p0, a1, a2, _, a4, a5, a6, a7, _, _⟩ := commencePar_spec cfg.html s1 sa _ c ha
    have hp0 : sa.openPars = [p0] := by rw [a1, f1.openPars, ho.closed]; rfl
    have hruns0 : p0.runs = [] := by rw [a2, f1.queued, ho.noq]
    refine ⟨!p0.htmlStyle.isEmpty, ?_⟩
    have ina : In ({ sa with bullets := (listPosition bb.1 (Xml.elem i pf t m a tx tl ks) ((Xml.elem i pf t m a tx tl ks).id?.getD 0)).1 } : DC) k (!p0.htmlStyle.isEmpty) p0 :=
      ⟨hp0, by show countStrings (leafParsL sa.root) = _; rw [a4, f1.leaves]; exact ho.leaf, ⟨ua.tree, ua.open_, ua.queued⟩, a5, by simp⟩
    obtain ⟨pb, ib, rb, gb, ab⟩ := insertNewRun_runs cfg.html _ sb k _ p0 bb.2 ina hb
    have habs0 : absP p0 = RState.init := by simp [absP, hruns0, kept, lastRun, RState.init]
    -- the list position is recorded on the paragraph: the runs are untouched
    have um : Sty okStyles (sb.modTop fun p => { p with listPos := LP }) :=
      modTop_sty sb _ ib.sty (fun p hp => hp)
    have im := in_modTop ib (fun p => { p with listPos := LP }) um rfl
    obtain ⟨_, mr, mg⟩ := modTop_one sb pb (fun p => { p with listPos := LP }) ib.one
    -- the children
    obtain ⟨s3, h3, h⟩ := bind_ok h
    simp only [if_true] at h3
    obtain ⟨p3, i3, r3, o3⟩ := walkL_runs cfg num k _ c ks _ s3 _ hx.2 im h3
    -- closing the paragraph
    obtain ⟨s4, h4, h⟩ := bind_ok h
    rw [closeStep_par_one cfg s3 _ p3 hm i3.one] at h4
    have hlast : s3.openPars.getLast? = some p3 := by rw [i3.one]; rfl
    obtain ⟨c1, c2, c3, c4, _⟩ := concludePar_spec s3 s4 p3 hlast h4
    have u4 := concludePar_sty s3 s4 i3.sty h4
    have f5 := setCaret_frame s4 s' _ _ h
    have hp3 : p3.sty okStyles := i3.sty.open_ p3 (by rw [i3.one]; simp)
    have hstart : absS (sb.modTop fun p => { p with listPos := LP }) { pb with listPos := LP }
        = ⟨RState.init.ins bb.2, s.ranges⟩ := by
      simp only [absS, mg, gb]
      show (⟨absP pb, sa.ranges⟩ : RS) = _
      rw [ab, habs0, a6, f1.ranges]
    rw [hstart] at o3
    -- the record's element: the open paragraphs' elements are [x.id?] from the moment the paragraph opens until it closes
    have helem : p3.elem = (Xml.elem i pf t m a tx tl ks).id? := by
      have e0 : elems sa = [(Xml.elem i pf t m a tx tl ks).id?] := by
        have := commencePar_elems cfg.html s1 sa _ c ha
        rw [this]; simp [elems, f1.openPars, ho.closed]
      have eb : elems sb = elems sa :=
        (insertNewRun_soft cfg.html _ sb bb.2 hb).same_of_ne (by show elems sa ≠ []; rw [e0]; simp)
      have em : elems (sb.modTop fun p => { p with listPos := LP }) = elems sb := elems_modTop _ _ (fun _ => rfl)
      have e3 : elems s3 = elems (sb.modTop fun p => { p with listPos := LP }) :=
        (walkL_soft_simple cfg num ks hx.2 _ _ s3 h3).same_of_ne (by rw [em, eb, e0]; simp)
      have : elems s3 = [p3.elem] := by simp [elems, i3.one]
      rw [this, em, eb, e0] at e3
      simpa using e3
    refine ⟨bb, absS s3 p3, ?_, by simpa [parMachine, Xml.kids] using o3, ?_, ?_, p3, ?_, ?_, i3.tagged, helem⟩
    · have hbul : sa.bullets = s.bullets := a7.trans f1.bullets
      rw [← hbul]; exact hbb
    · refine ⟨by rw [f5.openPars, c2, i3.one]; rfl, by rw [f5.queued, c3]; exact i3.noq, ?_, sty_of_frame s4 s' f5 u4⟩
      rw [f5.leaves, c1]
      have hk3 : countStrings (leafParsL s3.root) = .ok k := i3.leaf
      obtain ⟨l, hl1, hl2⟩ := runStrings_len p3 hp3
      have h1p : countStrings [p3] = .ok (2 * tagOff (!p0.htmlStyle.isEmpty) + (absP p3).count) := by
        simp only [countStrings, hl1, ok_bind, absP_count]
        show Except.ok _ = Except.ok _
        congr 1
        rw [hl2, i3.tagged]
        cases hte : p0.htmlStyle.isEmpty <;> simp [tagOff]
      have := countStrings_append _ _ _ _ hk3 h1p
      rw [this]; congr 1; show _ = k + 2 * tagOff _ + (absP p3).count; omega
    · rw [f5.ranges, c4]; rfl
    · rw [f5.leaves, c1, r3, mr, rb]
      show leafParsL sa.root ++ [p3] = _
      rw [a4, f1.leaves]
    · exact (absP_runs p3).symm

/-- the machines of consecutive paragraphs, chained: each starts where the previous one stopped
(`k` strings so far, the ranges recorded so far); `marker` is the paragraph's list marker (C08) -/
inductive Chain (cfg : PartCfg) (num : Dict Str (List NumAttr)) (c : Bool) :
    Nat → Dict Str (Nat × Nat) → List Xml → Nat → Dict Str (Nat × Nat) → Prop
  | nil (k : Nat) (r : Dict Str (Nat × Nat)) : Chain cfg num c k r [] k r
  | cons {k : Nat} {r : Dict Str (Nat × Nat)} {x : Xml} {xs : List Xml} {k' : Nat} {r' : Dict Str (Nat × Nat)}
      (tag : Bool) (marker : Str) (st : RS) :
      parMachine cfg num c (k + tagOff tag) marker x r = .ok st →
      Chain cfg num c (k + 2 * tagOff tag + st.r.count) st.ranges xs k' r' →
      Chain cfg num c k r (x :: xs) k' r'

/-- **any number of paragraphs**: a range may start in one and end in a later one -/
theorem pars_runs (cfg : PartCfg) (num : Dict Str (List NumAttr)) (c : Bool) :
    ∀ (xs : List Xml), (∀ x ∈ xs, isSimplePar x = true) → ∀ (k : Nat) (s s' : DC), Out s k → walkL cfg num c s xs = .ok s' →
      ∃ k', Chain cfg num c k s.ranges xs k' s'.ranges ∧ Out s' k'
  | [], _, k, s, s', ho, h => by
    simp only [walkL] at h; have := pure_ok h; subst this
    exact ⟨k, Chain.nil k _, ho⟩
  | x :: xs, hx, k, s, s', ho, h => by
    simp only [walkL] at h
    obtain ⟨s1, h1, h⟩ := bind_ok h
    obtain ⟨tag, bb, st, _, hm, ho1, hr1, _⟩ := par_runs cfg num c k x (hx x (by simp)) s s1 ho h1
    obtain ⟨k', hch, ho'⟩ := pars_runs cfg num c xs (fun y hy => hx y (by simp [hy])) _ s1 s' ho1 h
    rw [hr1] at hch
    exact ⟨k', Chain.cons tag bb.2 st hm hch, ho'⟩

namespace Ex
/-- non-vacuity: a comment that starts in one paragraph and ends in the next -/
def twoPars : List Xml :=
  [p 1 [r 2 [t 3 "a"], el 4 "commentRangeStart" [wattr "id" "7"] none [], r 5 [t 6 "b"]],
   p 7 [r 8 [t 9 "c"], el 10 "commentRangeEnd" [wattr "id" "7"] none [], r 11 [t 12 "d"]]]

example : twoPars.all isSimplePar = true := by decide +kernel
example : (walkL cfg [] false { bullets := { numAttrs := [] } } twoPars).map (fun s => s.ranges) = .ok [(lit "7", (1, 3))] := by
  decide +kernel
end Ex

end D2P
