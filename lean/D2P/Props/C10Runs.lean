import D2P.Props.C12Ranges
/-!
# C10 / C06 at run granularity (corollaries of the run machine, both html modes)

* `C10_link_one_string`: a hyperlink contributes exactly ONE run string — `<a href="TARGET">TEXT</a>`
  (or the bare text when the target does not resolve) — whatever it contains, and the string in
  progress before it is completed, not continued: the link's text is "in one piece".
* `C06_texts_one_string`: the text nodes of one run — however many pieces the text was cut into —
  make ONE run string: a placeholder broken across `w:t` pieces comes out whole.
-/
namespace D2P

theorem C10_link_one_string (cfg : PartCfg) (k : Nat) (links : Xml → M Str) (x : Xml) (st st' : RS)
    (hm : tagMember x.ptag = some "HYPERLINK") (he : x.isElem = true) (h : runsOf cfg k links x st = .ok st') :
    ∃ text run, links x = .ok text ∧ linkRun cfg x text = .ok run ∧ st'.r = st.r.ins run := by
  cases x with
  | comment _ _ => simp [Xml.isElem] at he
  | pi _ => simp [Xml.isElem] at he
  | elem i p t m a tx tl ks =>
    simp only [runsOf, openRuns, hm] at h
    obtain ⟨⟨o, d⟩, ho, h⟩ := bind_ok h
    obtain ⟨text, ht, ho⟩ := bind_ok ho
    obtain ⟨qs, _, ho⟩ := bind_ok ho
    obtain ⟨st1, h1, ho⟩ := bind_ok ho
    obtain ⟨rn, hrn, ho⟩ := bind_ok ho
    obtain ⟨qe, _, ho⟩ := bind_ok ho
    obtain ⟨st2, h2, ho⟩ := bind_ok ho
    have := pure_ok ho; cases this
    simp only [Bool.false_eq_true, if_false] at h
    obtain ⟨st3, h3, h⟩ := bind_ok h
    have := pure_ok h3; subst this
    have := pure_ok h; subst this
    have hc : closeRuns (Xml.elem i p t m a tx tl ks) o = o := by
      unfold closeRuns; rw [hm]; rfl
    have e1 := foldMarkers_r (fun s id => s.start k id) (fun _ _ => rfl) _ st st1 h1
    have e2 := foldMarkers_r (fun s id => s.stop k id) (fun _ _ => rfl) _ _ _ h2
    exact ⟨text, rn, ht, hrn, by rw [hc, e2]; simp only [e1]⟩

/-- a text node: only text, no boundary -/
def isTextNode (x : Xml) : Prop := tagMember x.ptag = some "TEXT" ∧ x.kids = []

/-- the text a text node contributes: escaped when html is exported -/
def nodeText (cfg : PartCfg) (x : Xml) : Str := if cfg.html then escapeHtml (x.text?.getD []) else x.text?.getD []

theorem runsOf_text (cfg : PartCfg) (k : Nat) (links : Xml → M Str) (x : Xml) (hx : isTextNode x) (he : x.isElem = true) (st : RS) :
    runsOf cfg k links x st = .ok { st with r := st.r.txt (nodeText cfg x) } := by
  cases x with
  | comment _ _ => simp [Xml.isElem] at he
  | pi _ => simp [Xml.isElem] at he
  | elem i p t m a tx tl ks =>
    obtain ⟨hm, hk⟩ := hx
    simp only [Xml.kids] at hk; subst hk
    simp only [runsOf, openRuns, hm, pure, Except.pure, ok_bind, if_true, runsOfL, closeRuns, nodeText]
    rfl

theorem runsOfL_texts (cfg : PartCfg) (k : Nat) (links : Xml → M Str) : ∀ (ts : List Xml), (∀ x ∈ ts, isTextNode x ∧ x.isElem = true) →
    ∀ (st : RS), runsOfL cfg k links ts st =
      .ok { st with r := (st.r.1, { st.r.2 with text := st.r.2.text ++ sjoin (ts.map (nodeText cfg)) }) }
  | [], _, st => by simp [runsOfL, sjoin, pure, Except.pure]
  | x :: xs, h, st => by
    obtain ⟨hx, he⟩ := h x (by simp)
    simp only [runsOfL, runsOf_text cfg k links x hx he, ok_bind, runsOfL_texts cfg k links xs (fun y hy => h y (by simp [hy]))]
    simp [RState.txt, sjoin, List.append_assoc]

/-- **one run, any number of text pieces: one run string**, tagged with the run's recognised
formatting and nothing else -/
theorem C06_texts_one_string (cfg : PartCfg) (k : Nat) (links : Xml → M Str)
    (i : Nat) (p : Option Str) (t : QName) (m : NsMap) (a : List (QName × Str)) (tx tl : Option Str) (ts : List Xml)
    (hr : tagMember (Xml.elem i p t m a tx tl ts).ptag = some "RUN") (hts : ∀ x ∈ ts, isTextNode x ∧ x.isElem = true)
    (f : List Str) (hf : runFormatting cfg.html (.elem i p t m a tx tl ts) = .ok f)
    (st : RS) (hb : st.r.2.text = []) :
    ∃ st', runsOf cfg k links (.elem i p t m a tx tl ts) st = .ok st' ∧
      st'.r = (st.r.1 ++ keep { style := f, text := sjoin (ts.map (nodeText cfg)) }, { style := [], text := [] }) ∧
      st'.ranges = st.ranges := by
  have hcl : ∀ z : RS, closeRuns (Xml.elem i p t m a tx tl ts) z = { z with r := z.r.newRun [] } := by
    intro z; unfold closeRuns; rw [hr]; rfl
  refine ⟨{ r := (st.r.1 ++ keep { style := f, text := sjoin (ts.map (nodeText cfg)) }, { style := [], text := [] }), ranges := st.ranges }, ?_, rfl, rfl⟩
  simp only [runsOf, openRuns, hr, hf, pure, Except.pure, ok_bind, if_true, runsOfL_texts cfg k links ts hts, hcl]
  simp [RState.newRun, hb, keep]

end D2P
